(* ConcInvProofs.v — the safety invariant of the guarded discipline (C10):
   well-formed shared state, the builder's stack, the per-step lemma [lstep_ok] (a call
   returns the unfolding of its type, or fails because its type reaches a field of an
   unsupported type), the snapshot that a failed call rolls back to, and the global
   invariant [ginv] preserved by every step of every schedule. *)
From Coq Require Import List NArith Bool Arith Lia.
From J5V.model Require Import Conc.
Import ListNotations.

(* ---- lists ---------------------------------------------------------------- *)
Lemma set_nth_length {A} (l : list A) i x : length (set_nth l i x) = length l.
Proof. revert i; induction l as [|y r IH]; intros [|j]; cbn; auto. Qed.

Lemma nth_error_set_nth_eq {A} (l : list A) i x :
  i < length l -> nth_error (set_nth l i x) i = Some x.
Proof.
  revert i; induction l as [|y r IH]; intros [|j] H; cbn in *; try lia; auto.
  apply IH; lia.
Qed.

Lemma nth_error_set_nth_neq {A} (l : list A) i j x :
  i <> j -> nth_error (set_nth l i x) j = nth_error l j.
Proof.
  revert i j; induction l as [|y r IH]; intros [|i] [|j] H; cbn; auto; try congruence.
Qed.

Lemma nth_error_app_l {A} (l r : list A) i x :
  nth_error l i = Some x -> nth_error (l ++ r) i = Some x.
Proof.
  intros H. rewrite nth_error_app1; auto. apply nth_error_Some. congruence.
Qed.

Lemma nth_error_snoc {A} (l : list A) x : nth_error (l ++ [x]) (length l) = Some x.
Proof. rewrite nth_error_app2 by lia. rewrite Nat.sub_diag. reflexivity. Qed.

(* ---- the map ---------------------------------------------------------------- *)
Definition bound (sh : shared) (n : name) (c : cellid) : Prop := lookup (cmap sh) n = Some c.

Lemma lookup_In m n c : lookup m n = Some c -> In n (map fst m).
Proof.
  induction m as [|[k c'] r IH]; cbn; [discriminate|].
  destruct (N.eqb_spec k n); intros H; [left; auto | right; auto].
Qed.

Lemma lookup_None_notin m n : lookup m n = None -> ~ In n (map fst m).
Proof.
  induction m as [|[k c'] r IH]; cbn; [tauto|].
  destruct (N.eqb_spec k n); [discriminate|]. intros H [E|HI]; [congruence | exact (IH H HI)].
Qed.

Lemma notin_lookup_None m n : ~ In n (map fst m) -> lookup m n = None.
Proof.
  induction m as [|[k c'] r IH]; cbn; auto.
  intros H. destruct (N.eqb_spec k n); [tauto|]. apply IH; tauto.
Qed.

(* ---- well-formed shared state --------------------------------------------- *)
(* ip = the cells of the schemas being built by the thread inside the critical section *)
Definition linked_ok (g : graph) (sh : shared) (n : name) (cl : cell) : Prop :=
  exists fs, c_to cl = Some fs /\ Forall2 (bound sh) (refs g n) fs.

Record wf (g : graph) (sh : shared) (ip : list cellid) : Prop := mkWf {
  wf_nodup : NoDup (map fst (cmap sh));
  wf_nomark : lookup (cmap sh) unsupported = None;
  wf_cells : forall n c, bound sh n c ->
     exists cl, nth_error (heap sh) c = Some cl /\ c_name cl = n /\
       ((In c ip /\ c_to cl = None) \/ (~ In c ip /\ linked_ok g sh n cl))
}.

Lemma wf_empty g : wf g empty_shared [].
Proof. split; [constructor | reflexivity | intros n c H; discriminate H]. Qed.

Lemma bound_lt g sh ip n c : wf g sh ip -> bound sh n c -> c < length (heap sh).
Proof.
  intros W B. destruct (wf_cells _ _ _ W _ _ B) as (cl & Hn & _).
  apply nth_error_Some. congruence.
Qed.

Lemma bound_inj g sh ip n m c : wf g sh ip -> bound sh n c -> bound sh m c -> n = m.
Proof.
  intros W B1 B2.
  destruct (wf_cells _ _ _ W _ _ B1) as (cl1 & H1 & N1 & _).
  destruct (wf_cells _ _ _ W _ _ B2) as (cl2 & H2 & N2 & _).
  congruence.
Qed.

Lemma bound_not_mark g sh ip n c : wf g sh ip -> bound sh n c -> n <> unsupported.
Proof. intros W B ->. unfold bound in B. rewrite (wf_nomark _ _ _ W) in B. discriminate. Qed.

Lemma Forall2_impl {A B} (P Q : A -> B -> Prop) l1 l2 :
  (forall a b, P a b -> Q a b) -> Forall2 P l1 l2 -> Forall2 Q l1 l2.
Proof. intros H F; induction F; constructor; auto. Qed.

(* ---- alloc ------------------------------------------------------------------ *)
Lemma alloc_bound_new sh n : bound (fst (alloc sh n)) n (snd (alloc sh n)).
Proof. unfold bound, alloc; cbn. rewrite N.eqb_refl. reflexivity. Qed.

Lemma alloc_bound_mono sh n m c :
  lookup (cmap sh) n = None -> bound sh m c -> bound (fst (alloc sh n)) m c.
Proof.
  unfold bound, alloc; cbn. intros Hn B.
  destruct (N.eqb_spec n m); [subst; congruence | exact B].
Qed.

Lemma alloc_bound_inv sh n m c :
  bound (fst (alloc sh n)) m c -> (m = n /\ c = length (heap sh)) \/ (m <> n /\ bound sh m c).
Proof.
  unfold bound, alloc; cbn. destruct (N.eqb_spec n m); intros H.
  - left. split; congruence.
  - right. split; [congruence | exact H].
Qed.

Lemma alloc_wf g sh ip n :
  wf g sh ip -> lookup (cmap sh) n = None -> n <> unsupported ->
  wf g (fst (alloc sh n)) (snd (alloc sh n) :: ip).
Proof.
  intros W Hn Hnm. split.
  - cbn. constructor; [apply lookup_None_notin; exact Hn | exact (wf_nodup _ _ _ W)].
  - cbn. destruct (N.eqb_spec n unsupported); [contradiction | exact (wf_nomark _ _ _ W)].
  - intros m c B. destruct (alloc_bound_inv _ _ _ _ B) as [[-> ->] | [Hne B0]].
    + exists (mkCell n None). cbn. split; [apply nth_error_snoc|]. split; [reflexivity|].
      left. split; [left; reflexivity | reflexivity].
    + destruct (wf_cells _ _ _ W _ _ B0) as (cl & Hc & Hname & Hst).
      exists cl. cbn. split; [apply nth_error_app_l; exact Hc|]. split; [exact Hname|].
      assert (Hlt : c < length (heap sh)) by (apply nth_error_Some; congruence).
      destruct Hst as [[Hin Hto] | [Hnin (fs & Hto & F)]].
      * left. split; [right; exact Hin | exact Hto].
      * right. split.
        -- intros [E | Hin]; [lia | exact (Hnin Hin)].
        -- exists fs. split; [exact Hto|].
           eapply Forall2_impl; [|exact F]. intros a b. apply alloc_bound_mono. exact Hn.
Qed.

(* ---- set_to ----------------------------------------------------------------- *)
Lemma set_to_cmap sh c fs : cmap (set_to sh c fs) = cmap sh.
Proof. unfold set_to. destruct (nth_error (heap sh) c); reflexivity. Qed.

Lemma set_to_bound sh c fs n c' : bound (set_to sh c fs) n c' <-> bound sh n c'.
Proof. unfold bound. rewrite set_to_cmap. tauto. Qed.

Lemma set_to_wf g sh ip n c fs :
  wf g sh (c :: ip) -> ~ In c ip -> bound sh n c -> Forall2 (bound sh) (refs g n) fs ->
  wf g (set_to sh c fs) ip.
Proof.
  intros W Hnin B F. split.
  - rewrite set_to_cmap. exact (wf_nodup _ _ _ W).
  - rewrite set_to_cmap. exact (wf_nomark _ _ _ W).
  - intros m c' B'. apply set_to_bound in B'.
    destruct (wf_cells _ _ _ W _ _ B) as (cl0 & Hc0 & Hn0 & _).
    assert (Hlt : c < length (heap sh)) by (apply nth_error_Some; congruence).
    unfold set_to. rewrite Hc0. cbn [heap].
    destruct (Nat.eq_dec c' c) as [-> | Hne].
    + assert (m = n) by (eapply bound_inj; eauto). subst m.
      exists (mkCell (c_name cl0) (Some fs)). split; [apply nth_error_set_nth_eq; exact Hlt|].
      split; [exact Hn0|]. right. split; [exact Hnin|].
      exists fs. split; [reflexivity|].
      eapply Forall2_impl; [|exact F]. intros a b Hb. unfold bound. cbn. exact Hb.
    + destruct (wf_cells _ _ _ W _ _ B') as (cl & Hc & Hname & Hst).
      exists cl. split; [rewrite nth_error_set_nth_neq by congruence; exact Hc|].
      split; [exact Hname|].
      destruct Hst as [[Hin Hto] | [Hni (fs' & Hto & F')]].
      * left. split; [destruct Hin as [E|Hin]; [congruence | exact Hin] | exact Hto].
      * right. split; [intros Hin; apply Hni; right; exact Hin|].
        exists fs'. split; [exact Hto|].
        eapply Forall2_impl; [|exact F']. intros a b Hb. unfold bound. cbn. exact Hb.
Qed.

(* ---- sc.registered and the failed cells do not take part in the invariant ------ *)
Lemma wf_same g sh sh' ip :
  heap sh' = heap sh -> cmap sh' = cmap sh -> wf g sh ip -> wf g sh' ip.
Proof.
  intros Eh Ec [ND NM C]. split; [rewrite Ec; exact ND | rewrite Ec; exact NM|].
  intros n c B. unfold bound in B. rewrite Ec in B. destruct (C n c B) as (cl & H1 & H2 & H3).
  exists cl. rewrite Eh. split; [exact H1|]. split; [exact H2|].
  destruct H3 as [H3 | [H3 (fs & H4 & F)]]; [left; exact H3 | right].
  split; [exact H3|]. exists fs. split; [exact H4|].
  eapply Forall2_impl; [|exact F]. intros a b Hb. unfold bound. rewrite Ec. exact Hb.
Qed.

Lemma reset_reg_wf g sh ip : wf g sh ip -> wf g (reset_reg sh) ip.
Proof. apply wf_same; reflexivity. Qed.

Lemma fail_to_wf g sh ip c : wf g sh ip -> wf g (fail_to sh c) ip.
Proof. apply wf_same; reflexivity. Qed.

Lemma finish_ok_wf g sh t : wf g sh [] -> wf g (finish_shared (ROk t) sh) [].
Proof. apply reset_reg_wf. Qed.

(* ---- a fully linked cache denotes the type universe --------------------------- *)
Lemma unfold_wf g sh : wf g sh [] ->
  forall k n c, bound sh n c -> unfold k (heap sh) c = gunfold k g n.
Proof.
  intros W. induction k as [|k IH]; intros n c B;
    destruct (wf_cells _ _ _ W _ _ B) as (cl & Hc & Hn & [[[] _] | [_ (fs & Hto & F)]]).
  - cbn. rewrite Hc, Hto. congruence.
  - cbn [unfold gunfold]. rewrite Hc, Hto, Hn. f_equal.
    clear Hto. induction F as [|a b la lb Hab F IHF]; cbn; [reflexivity|].
    f_equal; [apply IH; exact Hab | exact IHF].
Qed.

Lemma wf_linked g sh n c : wf g sh [] -> bound sh n c -> exists fs, cell_to sh c = Some fs.
Proof.
  intros W B. destruct (wf_cells _ _ _ W _ _ B) as (cl & Hc & Hn & [[[] _] | [_ (fs & Hto & F)]]).
  exists fs. unfold cell_to. rewrite Hc. exact Hto.
Qed.

Lemma Forall2_in_l {A B} (P : A -> B -> Prop) l1 l2 x :
  Forall2 P l1 l2 -> In x l1 -> exists y, In y l2 /\ P x y.
Proof.
  intros F; induction F as [|a b la lb Hab F IH]; intros Hin; [destruct Hin|].
  destruct Hin as [<-|Hin]; [exists b; split; [left; reflexivity | exact Hab]|].
  destruct (IH Hin) as (y & Hy & Hp). exists y. split; [right; exact Hy | exact Hp].
Qed.

(* every type reachable from a type held by a fully linked cache is held by it: none of
   them has a field of an unsupported type *)
Lemma wf_closed g sh n c : wf g sh [] -> bound sh n c -> forall m, reach g n m -> exists cm, bound sh m cm.
Proof.
  intros W B m R. induction R as [|m m' R IH Hin]; [exists c; exact B|].
  destruct IH as (cm & Bm).
  destruct (wf_cells _ _ _ W _ _ Bm) as (cl & _ & _ & [[[] _] | [_ (fs & _ & F)]]).
  destruct (Forall2_in_l _ _ _ _ F Hin) as (y & _ & By). exists y. exact By.
Qed.

Lemma wf_good g sh n c : wf g sh [] -> bound sh n c -> good g n.
Proof.
  intros W B R. destruct (wf_closed g sh n c W B _ R) as (cm & Bm).
  exact (bound_not_mark _ _ _ _ _ W Bm eq_refl).
Qed.

(* ---- the builder's stack ------------------------------------------------------ *)
(* root = the type the current call asked for *)
Definition frame_ok (g : graph) (sh : shared) (root : name) (f : frame) : Prop :=
  exists n dn, bound sh n (f_cell f) /\ refs g n = dn ++ f_todo f /\
               Forall2 (bound sh) dn (rev (f_done f)) /\ reach g root n.

Definition cells (stk : list frame) : list cellid := map f_cell stk.

Definition stack_ok (g : graph) (sh : shared) (root : name) (stk : list frame) : Prop :=
  Forall (frame_ok g sh root) stk /\ NoDup (cells stk).

Fixpoint lastf (stk : list frame) : option frame :=
  match stk with
  | [] => None
  | [f] => Some f
  | _ :: r => lastf r
  end.

(* the bottom frame builds the placeholder of the current call *)
Definition root_ok (sh : shared) (n : name) (stk : list frame) : Prop :=
  exists fb, lastf stk = Some fb /\ bound sh n (f_cell fb).

Definition top_todo (stk : list frame) : Prop :=
  exists f rest m todo', stk = f :: rest /\ f_todo f = m :: todo' /\ m <> unsupported.

(* what holds of the shared state when the thread inside Schema(n) is at p *)
Definition tinv (g : graph) (sh : shared) (n : name) (p : pc) : Prop :=
  match p with
  | PEnter | PWait => False
  | PLookup => wf g sh []
  | PInsert => wf g sh [] /\ lookup (cmap sh) n = None
  | PRefLookup stk => wf g sh (cells stk) /\ stack_ok g sh n stk /\ root_ok sh n stk /\ top_todo stk
  | PRefInsert stk =>
      wf g sh (cells stk) /\ stack_ok g sh n stk /\ root_ok sh n stk /\
      exists f rest m todo', stk = f :: rest /\ f_todo f = m :: todo' /\ m <> unsupported /\
                             lookup (cmap sh) m = None
  | PLinked stk => wf g sh (cells stk) /\ stack_ok g sh n stk /\ root_ok sh n stk
  | PReturn c => wf g sh [] /\ bound sh n c
  | PFail stk => reach g n unsupported /\ NoDup (map fst (cmap sh)) /\ stk <> []
  | PFailRoot => reach g n unsupported /\ NoDup (map fst (cmap sh))
  end.

Lemma frame_ok_mono g sh sh' root f :
  (forall n c, bound sh n c -> bound sh' n c) -> frame_ok g sh root f -> frame_ok g sh' root f.
Proof.
  intros M (n & dn & B & E & F & R). exists n, dn. split; [auto|]. split; [exact E|]. split; [|exact R].
  eapply Forall2_impl; [|exact F]. auto.
Qed.

Lemma Forall2_snoc {A B} (P : A -> B -> Prop) l1 l2 a b :
  Forall2 P l1 l2 -> P a b -> Forall2 P (l1 ++ [a]) (l2 ++ [b]).
Proof. intros F H. apply Forall2_app; [exact F | constructor; [exact H | constructor]]. Qed.

Lemma advance_ok g sh n stk :
  wf g sh (cells stk) -> stack_ok g sh n stk -> root_ok sh n stk ->
  tinv g (fst (advance sh stk)) n (snd (advance sh stk)).
Proof.
  intros W [FA ND] (fb & Hl & Bn).
  destruct stk as [|f rest]; [discriminate Hl|].
  unfold advance. destruct (f_todo f) as [|m todo'] eqn:Et.
  - (* the top frame is complete: link its cell, pop *)
    inversion FA as [|? ? Hf FArest]; subst.
    destruct Hf as (n' & dn & Bc & Er & F2 & _). rewrite Et, app_nil_r in Er. subst dn.
    cbn [cells map] in W, ND. inversion ND as [|? ? Hnin NDrest]; subst.
    assert (W' : wf g (set_to sh (f_cell f) (rev (f_done f))) (cells rest)).
    { eapply set_to_wf; eauto. }
    assert (M : forall a b, bound sh a b -> bound (set_to sh (f_cell f) (rev (f_done f))) a b).
    { intros a b. apply set_to_bound. }
    destruct rest as [|f2 r2]; cbn [fst snd tinv].
    + cbn in Hl. inversion Hl; subst fb. split; [exact W' | apply M; exact Bn].
    + split; [exact W'|]. split.
      * split; [|exact NDrest]. eapply Forall_impl; [|exact FArest].
        intros a. apply frame_ok_mono. exact M.
      * exists fb. split; [exact Hl | apply M; exact Bn].
  - destruct (N.eqb_spec m unsupported) as [->|Hm].
    + (* the next field is of an unsupported type: the build fails *)
      assert (R : reach g n unsupported).
      { inversion FA as [|? ? Hf _]; subst. destruct Hf as (n' & dn & _ & Er & _ & Rn).
        eapply reach_step; [exact Rn|]. rewrite Er, Et. apply in_or_app. right. left. reflexivity. }
      pose proof (wf_nodup _ _ _ W) as NDk.
      destruct rest as [|f2 r2]; cbn [fst snd tinv]; [split; [exact R | exact NDk] | split; [exact R | split; [exact NDk | discriminate]]].
    + cbn [fst snd tinv]. split; [exact W|]. split; [split; assumption|]. split.
      * exists fb. split; assumption.
      * exists f, rest, m, todo'. repeat split; assumption.
Qed.

Lemma frame_cells_lt g sh ip root stk :
  wf g sh ip -> Forall (frame_ok g sh root) stk -> forall c, In c (cells stk) -> c < length (heap sh).
Proof.
  intros W FA c Hin. unfold cells in Hin. apply in_map_iff in Hin. destruct Hin as (f & <- & Hf).
  rewrite Forall_forall in FA. destruct (FA _ Hf) as (n & dn & B & _). eapply bound_lt; eauto.
Qed.

(* one step of the thread inside Schema(n) preserves the invariant; a returning call
   either hands out the unfolding of its type from a fully linked cache, or fails
   because its type reaches a field of an unsupported type *)
Lemma lstep_ok k g n sh p :
  tinv g sh n p -> n <> unsupported ->
  match lstep k g n sh p with
  | (sh', inl p') => tinv g sh' n p'
  | (sh', inr res) =>
      (res = ROk (gunfold k g n) /\ wf g sh' [] /\ good g n) \/
      (res = RErr /\ p = PFailRoot /\ sh' = sh /\ ~ good g n)
  end.
Proof.
  destruct p as [| | | |stk|stk|stk|c|stk|]; cbn [tinv]; intros H Hnm; try contradiction.
  - (* PLookup *)
    cbn [lstep]. destruct (lookup (cmap sh) n) as [c|] eqn:El.
    + destruct (wf_linked g sh n c H El) as (fs & Hto). rewrite Hto. left.
      split; [f_equal; eapply unfold_wf; eauto|]. split; [exact H | eapply wf_good; eauto].
    + cbn. split; [exact H | exact El].
  - (* PInsert *)
    destruct H as [W Hn]. cbn [lstep].
    pose proof (alloc_wf g sh [] n W Hn Hnm) as W1.
    pose proof (alloc_bound_new sh n) as B1.
    destruct (alloc sh n) as [sh1 c] eqn:Ea. cbn [fst snd] in W1, B1.
    pose proof (advance_ok g sh1 n [mkFrame c (refs g n) []]) as A.
    destruct (advance sh1 [mkFrame c (refs g n) []]) as [sh2 p'] eqn:Eadv. cbn [fst snd] in A.
    apply A.
    + exact W1.
    + split; [|cbn; constructor; [intros []|constructor]].
      constructor; [|constructor]. exists n, []. cbn. split; [exact B1|]. split; [reflexivity|].
      split; [constructor | apply reach_refl].
    + exists (mkFrame c (refs g n) []). split; [reflexivity | exact B1].
  - (* PRefLookup *)
    destruct H as (W & [FA ND] & (fb & Hl & Bn) & (f & rest & m & todo' & -> & Et & Hm)).
    cbn [lstep]. rewrite Et. destruct (lookup (cmap sh) m) as [c|] eqn:El.
    + set (f' := mkFrame (f_cell f) todo' (c :: f_done f)).
      pose proof (advance_ok g sh n (f' :: rest)) as A.
      destruct (advance sh (f' :: rest)) as [sh2 p'] eqn:Eadv. cbn [fst snd] in A.
      apply A.
      * exact W.
      * split; [|exact ND]. inversion FA as [|? ? Hf FArest]; subst. constructor; [|exact FArest].
        destruct Hf as (n' & dn & Bc & Er & F2 & Rn). exists n', (dn ++ [m]). cbn.
        split; [exact Bc|]. split; [rewrite Er, Et, <- app_assoc; reflexivity|].
        split; [apply Forall2_snoc; [exact F2 | exact El] | exact Rn].
      * destruct rest as [|f2 r2].
        -- cbn in Hl. inversion Hl; subst fb. exists f'. split; [reflexivity | exact Bn].
        -- exists fb. split; [exact Hl | exact Bn].
    + cbn [tinv]. split; [exact W|]. split; [split; assumption|]. split; [exists fb; split; assumption|].
      exists f, rest, m, todo'. repeat split; assumption.
  - (* PRefInsert *)
    destruct H as (W & [FA ND] & (fb & Hl & Bn) & (f & rest & m & todo' & -> & Et & Hm & Hlm)).
    cbn [lstep]. rewrite Et.
    pose proof (alloc_wf g sh _ m W Hlm Hm) as W1.
    pose proof (alloc_bound_new sh m) as B1.
    assert (M : forall a b, bound sh a b -> bound (fst (alloc sh m)) a b).
    { intros a b. apply alloc_bound_mono. exact Hlm. }
    assert (Hfresh : ~ In (snd (alloc sh m)) (cells (f :: rest))).
    { intros Hin. pose proof (frame_cells_lt g sh _ _ _ W FA _ Hin) as Hlt. cbn in Hlt. lia. }
    destruct (alloc sh m) as [sh1 c] eqn:Ea. cbn [fst snd] in W1, B1, M, Hfresh.
    set (f' := mkFrame (f_cell f) todo' (c :: f_done f)).
    set (fnew := mkFrame c (refs g m) []).
    pose proof (advance_ok g sh1 n (fnew :: f' :: rest)) as A.
    destruct (advance sh1 (fnew :: f' :: rest)) as [sh2 p'] eqn:Eadv. cbn [fst snd] in A.
    apply A.
    + exact W1.
    + split.
      * inversion FA as [|? ? Hf FArest]; subst.
        destruct Hf as (n' & dn & Bc & Er & F2 & Rn).
        constructor.
        { exists m, []. cbn. split; [exact B1|]. split; [reflexivity|]. split; [constructor|].
          eapply reach_step; [exact Rn|]. rewrite Er, Et. apply in_or_app. right. left. reflexivity. }
        constructor.
        { exists n', (dn ++ [m]). cbn.
          split; [apply M; exact Bc|]. split; [rewrite Er, Et, <- app_assoc; reflexivity|].
          split; [|exact Rn]. apply Forall2_snoc; [|exact B1]. eapply Forall2_impl; [|exact F2]. exact M. }
        eapply Forall_impl; [|exact FArest]. intros a. apply frame_ok_mono. exact M.
      * cbn. constructor; [exact Hfresh | exact ND].
    + destruct rest as [|f2 r2].
      * cbn in Hl. inversion Hl; subst fb. exists f'. split; [reflexivity | apply M; exact Bn].
      * exists fb. split; [exact Hl | apply M; exact Bn].
  - (* PLinked *)
    destruct H as (W & SO & RO). cbn [lstep].
    pose proof (advance_ok g sh n stk W SO RO) as A.
    destruct (advance sh stk) as [sh2 p'] eqn:Eadv. exact A.
  - (* PReturn *)
    destruct H as [W B]. cbn [lstep]. left.
    split; [f_equal; eapply unfold_wf; eauto|]. split; [exact W | eapply wf_good; eauto].
  - (* PFail *)
    destruct H as (R & NDk & Hne). destruct stk as [|f rest]; [congruence|]. cbn [lstep].
    destruct rest as [|f2 r2]; cbn [tinv]; [split; [exact R | exact NDk] | split; [exact R | split; [exact NDk | discriminate]]].
  - (* PFailRoot *)
    destruct H as [R NDk]. cbn [lstep]. right. split; [reflexivity|]. split; [reflexivity|]. split; [reflexivity|].
    intros G. exact (G R).
Qed.

(* ---- a failed call leaves the cache as it found it ------------------------------- *)
(* sh0 = the cache when the call in progress took the lock; stk = the builder's stack *)
Record snap (sh0 sh : shared) (stk : list frame) : Prop := mkSnap {
  sn_cmap : exists nb, cmap sh = nb ++ cmap sh0 /\ map fst nb = rev (reg sh);
  sn_len : length (heap sh0) <= length (heap sh);
  sn_heap : forall c, c < length (heap sh0) -> nth_error (heap sh) c = nth_error (heap sh0) c;
  sn_cells : forall c, In c (cells stk) -> length (heap sh0) <= c
}.

Definition pc_stack (p : pc) : list frame :=
  match p with
  | PRefLookup s | PRefInsert s | PLinked s => s
  | _ => []
  end.

Lemma snap_start sh : snap (reset_reg sh) (reset_reg sh) [].
Proof.
  split; cbn.
  - exists []. split; reflexivity.
  - lia.
  - reflexivity.
  - intros c [].
Qed.

Lemma snap_alloc sh0 sh stk stk' n :
  snap sh0 sh stk ->
  (forall c, In c (cells stk') -> In c (cells stk) \/ c = length (heap sh)) ->
  snap sh0 (fst (alloc sh n)) stk'.
Proof.
  intros [(nb & E1 & E2) L H C] Hs. split; cbn.
  - exists ((n, length (heap sh)) :: nb). split; [rewrite E1; reflexivity|].
    cbn. rewrite rev_app_distr. cbn. rewrite E2. reflexivity.
  - rewrite app_length. cbn. lia.
  - intros c Hc. rewrite nth_error_app1 by lia. apply H. exact Hc.
  - intros c Hc. destruct (Hs c Hc) as [Hin | ->]; [apply C; exact Hin | exact L].
Qed.

Lemma snap_set_to sh0 sh stk stk' c fs :
  snap sh0 sh stk -> In c (cells stk) -> (forall x, In x (cells stk') -> In x (cells stk)) ->
  snap sh0 (set_to sh c fs) stk'.
Proof.
  intros [(nb & E1 & E2) L H C] Hc Hs. pose proof (C c Hc) as Hge.
  unfold set_to. destruct (nth_error (heap sh) c) as [cl|] eqn:Ec.
  - split; cbn.
    + exists nb. split; assumption.
    + rewrite set_nth_length. exact L.
    + intros x Hx. rewrite nth_error_set_nth_neq by lia. apply H. exact Hx.
    + intros x Hx. apply C. apply Hs. exact Hx.
  - split; [exists nb; split; assumption | exact L | exact H | intros x Hx; apply C; apply Hs; exact Hx].
Qed.

Lemma snap_same sh0 sh sh' stk stk' :
  snap sh0 sh stk -> heap sh' = heap sh -> cmap sh' = cmap sh -> reg sh' = reg sh ->
  (forall x, In x (cells stk') -> In x (cells stk)) -> snap sh0 sh' stk'.
Proof.
  intros [(nb & E1 & E2) L H C] Eh Ec Er Hs. split.
  - exists nb. rewrite Ec, Er. split; assumption.
  - rewrite Eh. exact L.
  - rewrite Eh. exact H.
  - intros x Hx. apply C. apply Hs. exact Hx.
Qed.

Lemma snap_advance sh0 sh stk :
  snap sh0 sh stk -> snap sh0 (fst (advance sh stk)) (pc_stack (snd (advance sh stk))).
Proof.
  intros S. destruct stk as [|f rest]; [cbn; eapply snap_same; eauto|].
  unfold advance. destruct (f_todo f) as [|m todo'].
  - assert (Hin : In (f_cell f) (cells (f :: rest))) by (left; reflexivity).
    destruct rest as [|f2 r2]; cbn [fst snd pc_stack].
    + apply (snap_set_to sh0 sh _ _ _ _ S Hin). intros x [].
    + apply (snap_set_to sh0 sh _ _ _ _ S Hin). intros x Hx. right. exact Hx.
  - destruct (N.eqb m unsupported).
    + destruct rest as [|f2 r2]; cbn [fst snd pc_stack];
        (eapply snap_same; [exact S | reflexivity | reflexivity | reflexivity | intros x []]).
    + cbn [fst snd pc_stack]. exact S.
Qed.

(* every step of a call that goes on keeps the snapshot *)
Lemma lstep_snap k g n sh0 sh p :
  snap sh0 sh (pc_stack p) ->
  match lstep k g n sh p with
  | (sh', inl p') => snap sh0 sh' (pc_stack p')
  | (sh', inr _) => snap sh0 sh' []
  end.
Proof.
  intros S. destruct p as [| | | |stk|stk|stk|c|stk|]; cbn [lstep pc_stack] in *; try exact S.
  - destruct (lookup (cmap sh) n) as [c|]; [destruct (cell_to sh c)|]; exact S.
  - pose proof (snap_alloc sh0 sh [] [mkFrame (length (heap sh)) (refs g n) []] n S) as S1.
    unfold alloc in *. cbn [fst snd] in *.
    match goal with |- context [advance ?a ?b] => pose proof (snap_advance sh0 a b) as A; destruct (advance a b) as [sh2 p'] end.
    apply A. apply S1. intros c [<-|[]]. right. reflexivity.
  - destruct stk as [|f rest]; [exact S|]. destruct (f_todo f) as [|m todo']; [exact S|].
    destruct (lookup (cmap sh) m) as [c|]; [|exact S].
    match goal with |- context [advance ?a ?b] => pose proof (snap_advance sh0 a b) as A; destruct (advance a b) as [sh2 p'] end.
    apply A. eapply snap_same; [exact S | reflexivity | reflexivity | reflexivity|].
    intros x Hx. exact Hx.
  - destruct stk as [|f rest]; [exact S|]. destruct (f_todo f) as [|m todo']; [exact S|].
    unfold alloc. cbn [fst snd].
    match goal with |- context [advance ?a ?b] => pose proof (snap_advance sh0 a b) as A; destruct (advance a b) as [sh2 p'] end.
    apply A. apply (snap_alloc sh0 sh (f :: rest) _ m S).
    intros x [<-|Hx]; [right; reflexivity | left; exact Hx].
  - pose proof (snap_advance sh0 sh stk S) as A. destruct (advance sh stk) as [sh2 p']. exact A.
  - destruct stk as [|f rest]; [exact S|].
    destruct rest; cbn [pc_stack]; (eapply snap_same; [exact S | reflexivity | reflexivity | reflexivity | intros x Hx; exact Hx]).
Qed.

(* ---- rollback ------------------------------------------------------------------------ *)
Definition memn (n : name) (l : list name) : bool := existsb (N.eqb n) l.

Lemma memn_cons x k ks : memn x (k :: ks) = (N.eqb x k || memn x ks)%bool.
Proof. reflexivity. Qed.

Lemma fold_remove_filter ks : forall m,
  fold_left remove_key ks m = filter (fun e => negb (memn (fst e) ks)) m.
Proof.
  induction ks as [|k ks IH]; intros m; cbn [fold_left].
  - symmetry. induction m as [|e m IHm]; [reflexivity|]. cbn [filter memn existsb negb]. f_equal. exact IHm.
  - rewrite IH. unfold remove_key. induction m as [|e m IHm]; [reflexivity|].
    cbn [filter]. rewrite memn_cons. unfold name in *.
    destruct (N.eqb (fst e) k); cbn [negb orb filter].
    + exact IHm.
    + destruct (negb (memn (fst e) ks)); [f_equal|]; exact IHm.
Qed.

Lemma memn_In n l : memn n l = true <-> In n l.
Proof.
  unfold memn. rewrite existsb_exists. split.
  - intros (x & Hin & E). apply N.eqb_eq in E. subst. exact Hin.
  - intros H. exists n. split; [exact H | apply N.eqb_refl].
Qed.

Lemma NoDup_app_disj {A} (l1 l2 : list A) x : NoDup (l1 ++ l2) -> In x l1 -> In x l2 -> False.
Proof.
  induction l1 as [|a l1 IH]; intros ND H1 H2; [destruct H1|].
  cbn in ND. inversion ND as [|? ? Hn ND']; subst.
  destruct H1 as [->|H1]; [apply Hn; apply in_or_app; right; exact H2 | exact (IH ND' H1 H2)].
Qed.

Lemma rollback_cmap sh0 sh stk :
  snap sh0 sh stk -> NoDup (map fst (cmap sh)) -> cmap (rollback sh) = cmap sh0.
Proof.
  intros [(nb & E1 & E2) _ _ _] ND. unfold rollback. cbn [cmap].
  rewrite fold_remove_filter, E1, filter_app.
  rewrite E1, map_app in ND.
  assert (Hnb : forall e, In e nb -> memn (fst e) (reg sh) = true).
  { intros e He. apply memn_In. apply in_rev. rewrite <- E2. apply in_map. exact He. }
  assert (H0 : forall e, In e (cmap sh0) -> memn (fst e) (reg sh) = false).
  { intros e He. destruct (memn (fst e) (reg sh)) eqn:Em; [|reflexivity]. exfalso.
    apply memn_In in Em. apply in_rev in Em. rewrite <- E2 in Em.
    apply (NoDup_app_disj _ _ (fst e) ND); [exact Em | apply in_map; exact He]. }
  replace (filter (fun e => negb (memn (fst e) (reg sh))) nb) with (@nil (name * cellid)).
  2: { symmetry. clear -Hnb. induction nb as [|e nb IH]; cbn; [reflexivity|].
       rewrite (Hnb e (or_introl eq_refl)). cbn. apply IH. intros x Hx. apply Hnb. right. exact Hx. }
  cbn. clear -H0. induction (cmap sh0) as [|e m IH]; cbn; [reflexivity|].
  rewrite (H0 e (or_introl eq_refl)). cbn. f_equal. apply IH. intros x Hx. apply H0. right. exact Hx.
Qed.

Lemma rollback_wf g sh0 sh stk :
  snap sh0 sh stk -> wf g sh0 [] -> NoDup (map fst (cmap sh)) -> wf g (rollback sh) [].
Proof.
  intros S W0 ND. pose proof (rollback_cmap sh0 sh stk S ND) as Ec.
  split.
  - rewrite Ec. exact (wf_nodup _ _ _ W0).
  - rewrite Ec. exact (wf_nomark _ _ _ W0).
  - intros n c B. unfold bound in B. rewrite Ec in B.
    destruct (wf_cells _ _ _ W0 _ _ B) as (cl & Hc & Hn & [[[] _] | [_ (fs & Hto & F)]]).
    exists cl. split.
    + cbn [rollback heap]. rewrite (sn_heap _ _ _ S) by (apply nth_error_Some; congruence). exact Hc.
    + split; [exact Hn|]. right. split; [intros []|]. exists fs. split; [exact Hto|].
      eapply Forall2_impl; [|exact F]. intros a b Hb. unfold bound. rewrite Ec. exact Hb.
Qed.

Record ginv (k : nat) (g : graph) (calls : list (list name)) (st : state) : Prop := mkGinv {
  gi_len : length (s_thr st) = length calls;
  (* the lock is free: the cache is fully linked and every thread is at the entry of
     Schema or blocked in Lock() *)
  gi_free : s_lock st = None ->
      wf g (s_sh st) [] /\
      (forall t th, nth_error (s_thr st) t = Some th -> outside (t_pc th));
  gi_held : forall h, s_lock st = Some h ->
      exists th n rest, nth_error (s_thr st) h = Some th /\ t_calls th = n :: rest /\
        tinv g (s_sh st) n (t_pc th) /\
        (exists sh0, wf g sh0 [] /\ snap sh0 (s_sh st) (pc_stack (t_pc th))) /\
        (forall t th', t <> h -> nth_error (s_thr st) t = Some th' -> outside (t_pc th'));
  gi_calls_ok : forall t th n, nth_error (s_thr st) t = Some th -> In n (t_calls th) -> n <> unsupported;
  gi_results : forall t th, nth_error (s_thr st) t = Some th ->
      exists j, Forall2 (char k g) (firstn j (nth t calls [])) (rev (t_results th)) /\
                t_calls th = skipn j (nth t calls [])
}.

Lemma ginv_init k g calls : calls_ok calls -> ginv k g calls (init calls).
Proof.
  intros Hok.
  assert (Hth : forall t th, nth_error (map init_thread calls) t = Some th -> th = init_thread (nth t calls [])).
  { intros t th H. rewrite nth_error_map in H. destruct (nth_error calls t) as [c|] eqn:E; [|discriminate].
    cbn in H. inversion H; subst. f_equal. symmetry. apply nth_error_nth. exact E. }
  split; cbn.
  - apply map_length.
  - intros _. split; [apply wf_empty|].
    intros t th H. rewrite (Hth _ _ H). left. reflexivity.
  - intros h H. discriminate.
  - intros t th n H Hin. rewrite (Hth _ _ H) in Hin. cbn in Hin. eapply Hok; eauto.
  - intros t th H. exists 0. rewrite (Hth _ _ H). cbn. split; [constructor | reflexivity].
Qed.

(* a thread that is neither at the entry nor blocked holds the lock *)
Lemma inside_is_holder k g calls st t th :
  ginv k g calls st -> nth_error (s_thr st) t = Some th -> ~ outside (t_pc th) -> s_lock st = Some t.
Proof.
  intros I Ht Hin. destruct (s_lock st) as [h|] eqn:El.
  - destruct (Nat.eq_dec t h) as [->|Hne]; [reflexivity|].
    destruct (gi_held _ _ _ _ I h El) as (thh & n & rest & _ & _ & _ & _ & Hout).
    exfalso. apply Hin. eapply Hout; eauto.
  - destruct (gi_free _ _ _ _ I El) as (_ & Hall). exfalso. apply Hin. eapply Hall; eauto.
Qed.

Lemma tinv_inside g sh n p : tinv g sh n p -> ~ outside p.
Proof. intros H [-> | ->]; exact H. Qed.

Lemma nth_error_lt {A} (l : list A) i x : nth_error l i = Some x -> i < length l.
Proof. intros H. apply nth_error_Some. congruence. Qed.

Lemma nth_set_eq {A} (l : list A) t x y : nth_error l t = Some y -> nth_error (set_nth l t x) t = Some x.
Proof. intros H. apply nth_error_set_nth_eq. eapply nth_error_lt; eauto. Qed.

Lemma firstn_skipn_snoc {A} (l : list A) j x rest :
  skipn j l = x :: rest -> firstn (S j) l = firstn j l ++ [x] /\ skipn (S j) l = rest.
Proof.
  revert l; induction j as [|j IH]; intros l H.
  - cbn in H. subst l. cbn. split; reflexivity.
  - destruct l as [|y l]; [discriminate H|]. cbn [skipn] in H. destruct (IH _ H) as [E1 E2].
    split; [|exact E2]. change (firstn (S (S j)) (y :: l)) with (y :: firstn (S j) l). rewrite E1. reflexivity.
Qed.

(* the characterisation of gstep for a thread inside its call *)
Lemma gstep_inside k g t st th n rest :
  nth_error (s_thr st) t = Some th -> t_calls th = n :: rest -> ~ outside (t_pc th) ->
  gstep Guarded k g t st =
    let (sh', o) := lstep k g n (s_sh st) (t_pc th) in
    match o with
    | inl p' => mkState sh' (s_lock st) (s_waitq st) (set_nth (s_thr st) t (with_pc th p'))
    | inr res => release (mkState (finish_shared res sh') (s_lock st) (s_waitq st) (set_nth (s_thr st) t (finish_thread th res)))
    end.
Proof.
  intros Ht Hc Hin. unfold gstep. rewrite Ht, Hc.
  destruct (t_pc th); try reflexivity; exfalso; apply Hin; [left | right]; reflexivity.
Qed.

Section Step.
Variables (k : nat) (g : graph) (calls : list (list name)).

(* updating thread t to a thread with the same calls and results keeps the per-thread facts *)
Lemma upd_calls_ok st t th th' :
  ginv k g calls st -> nth_error (s_thr st) t = Some th ->
  (forall n, In n (t_calls th') -> In n (t_calls th)) ->
  forall t' th'' n, nth_error (set_nth (s_thr st) t th') t' = Some th'' -> In n (t_calls th'') -> n <> unsupported.
Proof.
  intros I Ht Hsub t' th'' n Ht' Hin. destruct (Nat.eq_dec t' t) as [->|Hne].
  - rewrite (nth_set_eq _ _ _ _ Ht) in Ht'. inversion Ht'; subst th''. eapply gi_calls_ok; eauto.
  - rewrite nth_error_set_nth_neq in Ht' by congruence. eapply gi_calls_ok; eauto.
Qed.

(* a thread at the entry of Schema, or blocked in Lock(), finds the lock free and takes it
   (q' = whatever the book-keeping of the blocked goroutines becomes) *)
Lemma ginv_acquire st t th n rest q' :
  ginv k g calls st -> nth_error (s_thr st) t = Some th -> t_calls th = n :: rest ->
  s_lock st = None ->
  ginv k g calls (mkState (reset_reg (s_sh st)) (Some t) q' (set_nth (s_thr st) t (with_pc th PLookup))).
Proof.
  intros I Ht Hc El. destruct (gi_free _ _ _ _ I El) as (W & Hall).
  split; cbn [s_sh s_lock s_waitq s_thr].
  - rewrite set_nth_length. exact (gi_len _ _ _ _ I).
  - discriminate.
  - intros h Hh. inversion Hh; subst h. exists (with_pc th PLookup), n, rest.
    split; [eapply nth_set_eq; eauto|]. split; [exact Hc|]. split; [apply reset_reg_wf; exact W|].
    split; [exists (reset_reg (s_sh st)); split; [apply reset_reg_wf; exact W | apply snap_start]|].
    intros t' th' Hne Ht'. rewrite nth_error_set_nth_neq in Ht' by congruence. eapply Hall; eauto.
  - eapply upd_calls_ok; eauto.
  - intros t' th' Ht'. destruct (Nat.eq_dec t' t) as [->|Hne].
    + rewrite (nth_set_eq _ _ _ _ Ht) in Ht'. inversion Ht'; subst th'. cbn. eapply gi_results; eauto.
    + rewrite nth_error_set_nth_neq in Ht' by congruence. eapply gi_results; eauto.
Qed.

(* a thread at the entry finds the lock held: it blocks *)
Lemma ginv_enter_held st t th n rest h :
  ginv k g calls st -> nth_error (s_thr st) t = Some th -> t_calls th = n :: rest ->
  t_pc th = PEnter -> s_lock st = Some h ->
  ginv k g calls (mkState (s_sh st) (Some h) (s_waitq st ++ [t]) (set_nth (s_thr st) t (with_pc th PWait))).
Proof.
  intros I Ht Hc Hp El.
  destruct (gi_held _ _ _ _ I h El) as (thh & nh & resth & Hh & Hch & Tinv & Snap & Hout).
  assert (Hth : t <> h).
  { intros ->. rewrite Ht in Hh. inversion Hh; subst thh. rewrite Hp in Tinv. exact Tinv. }
  split; cbn [s_sh s_lock s_waitq s_thr].
  - rewrite set_nth_length. exact (gi_len _ _ _ _ I).
  - discriminate.
  - intros h' Hh'. inversion Hh'; subst h'. exists thh, nh, resth.
    split; [rewrite nth_error_set_nth_neq by congruence; exact Hh|]. split; [exact Hch|]. split; [exact Tinv|].
    split; [exact Snap|].
    intros t' th' Hne Ht'. destruct (Nat.eq_dec t' t) as [->|Hne2].
    + rewrite (nth_set_eq _ _ _ _ Ht) in Ht'. inversion Ht'; subst th'. right. reflexivity.
    + rewrite nth_error_set_nth_neq in Ht' by congruence. eapply Hout; eauto.
  - eapply upd_calls_ok; eauto.
  - intros t' th' Ht'. destruct (Nat.eq_dec t' t) as [->|Hne].
    + rewrite (nth_set_eq _ _ _ _ Ht) in Ht'. inversion Ht'; subst th'. cbn. eapply gi_results; eauto.
    + rewrite nth_error_set_nth_neq in Ht' by congruence. eapply gi_results; eauto.
Qed.

(* the holder takes a step inside its call *)
Lemma ginv_cont st t th n rest sh' p' :
  ginv k g calls st -> s_lock st = Some t -> nth_error (s_thr st) t = Some th -> t_calls th = n :: rest ->
  tinv g (s_sh st) n (t_pc th) -> tinv g sh' n p' ->
  (exists sh0, wf g sh0 [] /\ snap sh0 sh' (pc_stack p')) ->
  ginv k g calls (mkState sh' (s_lock st) (s_waitq st) (set_nth (s_thr st) t (with_pc th p'))).
Proof.
  intros I El Ht Hc Told Tnew Snew.
  destruct (gi_held _ _ _ _ I t El) as (thh & nh & resth & Hh & Hch & _ & _ & Hout).
  rewrite Ht in Hh. inversion Hh; subst thh. clear Hh.
  split; cbn [s_sh s_lock s_waitq s_thr].
  - rewrite set_nth_length. exact (gi_len _ _ _ _ I).
  - rewrite El. discriminate.
  - intros h Hh. rewrite El in Hh. inversion Hh; subst h. exists (with_pc th p'), n, rest.
    split; [eapply nth_set_eq; eauto|]. split; [exact Hc|]. split; [exact Tnew|]. split; [exact Snew|].
    intros t' th' Hne Ht'. rewrite nth_error_set_nth_neq in Ht' by congruence. eapply Hout; eauto.
  - eapply upd_calls_ok; eauto.
  - intros t' th' Ht'. destruct (Nat.eq_dec t' t) as [->|Hne].
    + rewrite (nth_set_eq _ _ _ _ Ht) in Ht'. inversion Ht'; subst th'. cbn. eapply gi_results; eauto.
    + rewrite nth_error_set_nth_neq in Ht' by congruence. eapply gi_results; eauto.
Qed.

(* the holder's call returns res, leaving the well-formed cache sh'': the result is
   recorded and the lock becomes free — whoever is scheduled next may take it *)
Lemma ginv_finish st t th n rest sh'' res :
  ginv k g calls st -> s_lock st = Some t -> nth_error (s_thr st) t = Some th -> t_calls th = n :: rest ->
  tinv g (s_sh st) n (t_pc th) -> wf g sh'' [] -> char k g n res ->
  ginv k g calls (release (mkState sh'' (s_lock st) (s_waitq st)
                             (set_nth (s_thr st) t (finish_thread th res)))).
Proof.
  intros I El Ht Hc Told W' Hchar.
  destruct (gi_held _ _ _ _ I t El) as (thh & nh & resth & Hh & Hch & _ & _ & Hout).
  rewrite Ht in Hh. inversion Hh; subst thh. clear Hh.
  (* the results of thread t after the call *)
  assert (Hres : exists j, Forall2 (char k g) (firstn j (nth t calls [])) (rev (t_results (finish_thread th res))) /\
                           t_calls (finish_thread th res) = skipn j (nth t calls [])).
  { destruct (gi_results _ _ _ _ I _ _ Ht) as (j & Hr & Hs). rewrite Hc in Hs. symmetry in Hs.
    destruct (firstn_skipn_snoc _ _ _ _ Hs) as [E1 E2]. exists (S j). cbn [finish_thread t_results t_calls].
    rewrite Hc. cbn [tl rev]. rewrite E1. split; [|symmetry; exact E2].
    apply Forall2_app; [exact Hr | constructor; [exact Hchar | constructor]]. }
  assert (Hcok : forall t' th'' m, nth_error (set_nth (s_thr st) t (finish_thread th res)) t' = Some th'' ->
                   In m (t_calls th'') -> m <> unsupported).
  { eapply upd_calls_ok; eauto. intros m Hm. cbn in Hm. rewrite Hc in *. right. exact Hm. }
  unfold release. split; cbn [s_sh s_lock s_waitq s_thr].
  - rewrite set_nth_length. exact (gi_len _ _ _ _ I).
  - intros _. split; [exact W'|].
    intros t' th' Ht'. destruct (Nat.eq_dec t' t) as [->|Hne].
    + rewrite (nth_set_eq _ _ _ _ Ht) in Ht'. inversion Ht'; subst th'. left. reflexivity.
    + rewrite nth_error_set_nth_neq in Ht' by congruence. eapply Hout; eauto.
  - discriminate.
  - exact Hcok.
  - intros t' th' Ht'. destruct (Nat.eq_dec t' t) as [->|Hne].
    + rewrite (nth_set_eq _ _ _ _ Ht) in Ht'. inversion Ht'; subst th'. exact Hres.
    + rewrite nth_error_set_nth_neq in Ht' by congruence. eapply gi_results; eauto.
Qed.

Lemma ginv_inside st t th n rest :
  ginv k g calls st -> nth_error (s_thr st) t = Some th -> t_calls th = n :: rest ->
  ~ outside (t_pc th) -> ginv k g calls (gstep Guarded k g t st).
Proof.
  intros I Ht Hc Hin.
  pose proof (inside_is_holder _ _ _ _ _ _ I Ht Hin) as El.
  destruct (gi_held _ _ _ _ I t El) as (thh & nh & resth & Hh & Hch & Ti & (sh0 & W0 & S0) & _).
  rewrite Ht in Hh. inversion Hh; subst thh. clear Hh.
  rewrite Hc in Hch. inversion Hch; subst nh resth. clear Hch.
  assert (Hnm : n <> unsupported).
  { eapply (gi_calls_ok _ _ _ _ I); eauto. rewrite Hc. left. reflexivity. }
  rewrite (gstep_inside k g t st th n rest Ht Hc Hin).
  pose proof (lstep_ok k g n (s_sh st) (t_pc th) Ti Hnm) as L.
  pose proof (lstep_snap k g n sh0 (s_sh st) (t_pc th) S0) as LS.
  destruct (lstep k g n (s_sh st) (t_pc th)) as [sh' [p'|res]].
  - eapply ginv_cont; eauto.
  - destruct L as [(-> & W' & G) | (-> & Ep & -> & NG)].
    + eapply ginv_finish; eauto; [apply finish_ok_wf; exact W' | left; split; [reflexivity | exact G]].
    + eapply ginv_finish; eauto; [|right; split; [reflexivity | exact NG]].
      cbn [finish_shared]. rewrite Ep in Ti. destruct Ti as [_ NDk].
      eapply rollback_wf; eauto.
Qed.

(* every step of the guarded machine preserves the invariant *)
Theorem ginv_step st t : ginv k g calls st -> ginv k g calls (gstep Guarded k g t st).
Proof.
  intros I. destruct (nth_error (s_thr st) t) as [th|] eqn:Ht; [|unfold gstep; rewrite Ht; exact I].
  destruct (t_calls th) as [|n rest] eqn:Hc; [unfold gstep; rewrite Ht, Hc; exact I|].
  destruct (t_pc th) eqn:Hp.
  - (* PEnter *)
    unfold gstep. rewrite Ht, Hc, Hp. destruct (s_lock st) as [h|] eqn:El.
    + eapply ginv_enter_held; eauto.
    + eapply ginv_acquire; eauto.
  - (* PWait *)
    unfold gstep. rewrite Ht, Hc, Hp. destruct (s_lock st) as [h|] eqn:El; [exact I|].
    eapply ginv_acquire; eauto.
  - eapply ginv_inside; eauto. rewrite Hp. intros [E|E]; discriminate E.
  - eapply ginv_inside; eauto. rewrite Hp. intros [E|E]; discriminate E.
  - eapply ginv_inside; eauto. rewrite Hp. intros [E|E]; discriminate E.
  - eapply ginv_inside; eauto. rewrite Hp. intros [E|E]; discriminate E.
  - eapply ginv_inside; eauto. rewrite Hp. intros [E|E]; discriminate E.
  - eapply ginv_inside; eauto. rewrite Hp. intros [E|E]; discriminate E.
  - eapply ginv_inside; eauto. rewrite Hp. intros [E|E]; discriminate E.
  - eapply ginv_inside; eauto. rewrite Hp. intros [E|E]; discriminate E.
Qed.

Theorem ginv_run sched : forall st, ginv k g calls st -> ginv k g calls (run_from Guarded k g sched st).
Proof.
  induction sched as [|t r IH]; intros st I; [exact I|]. cbn. apply IH. apply ginv_step. exact I.
Qed.

End Step.

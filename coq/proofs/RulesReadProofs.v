(* RulesReadProofs.v — C04: reading back what the writer emitted yields the
   declared schema (in normal form), per field type over all admissible rule
   values, lifted to properties (required / optional / array / map) and objects
   (order, proto field paths). *)
From Coq Require Import String List NArith ZArith Bool Lia ZifyN ZifyNat ZifyBool.
From J5V.lib Require Import Outcome.
From J5V.model Require Import RulesDecl RulesWrite RulesRead Validate.
From J5V.gen Require Id62Gen.
From J5V.proofs Require Import RulesProofs.
Import ListNotations.
Local Open Scope Z_scope.

(* ---------------------------------------------------------------- the fragment *)
Definition pat_plain (p : option str) : bool :=
  match p with
  | Some p => negb (str_eqb p date_pattern) && negb (str_eqb p number_pattern)
              && negb (str_eqb p Id62Gen.pattern_string)
  | None => true
  end.

Inductive mode := MSingle | MArray | MMap.

(* the declarations whose every component is carried by the annotations *)
Definition no_list (t : fty) : bool :=
  match t with
  | TInt _ _ None | TStr _ _ None | TBytes _ | TBool _ None | TEnum _ None | TKey _ _ None
  | TFloat _ None | TDate _ None | TDecimal _ None | TTimestamp None | TAny _ _ None
  | TObject _ | TOneof None => true
  | _ => false
  end.

Definition rt_fty (m : mode) (t : fty) : bool :=
  (* list rules of map values are not read back *)
  (match m with MMap => no_list t | _ => true end) &&
  match m, t with
  | _, TStr (Some _) _ _ => false            (* StringField.format is not written *)
  | _, TStr None (Some r) _ => pat_plain (sr_pat r)
  | _, TKey None e l =>
      (* without a format the key is recognised by its annotations only *)
      match l with Some _ => false | None => match m with MSingle => true | _ => is_some e end end
  | _, TKey (Some KUuid) _ _ | _, TKey (Some KId62) _ _ => true
  | _, TKey (Some _) _ _ => false          (* custom pattern / informal are not read back *)
  | MSingle, _ => true
  (* inside an array or a map there is no (j5.ext.v1.field) of the item *)
  | _, TDate (Some _) _ | _, TDecimal (Some _) _ => false
  | _, TObject true => false
  | _, TAny od ts _ => negb od && match ts with [] => true | _ => false end
  | _, _ => true
  end.

Definition rt_ok (d : prop) : bool :=
  match p_ty d with
  | PSingle t => rt_fty MSingle t
  | PArray _ _ t => rt_fty MArray t && negb (p_opt d)
  | PMap _ t => rt_fty MMap t && negb (p_opt d)
  end.

(* ---------------------------------------------------------------- helpers *)
Definition vt_of (v : option constraint) : option tyc :=
  match v with Some c => c_ty c | None => None end.

(* a bound the compiler accepts survives int64 -> format -> int64 *)
Lemma to_i64_id k z : bound_ok k z = true -> to_i64 k (cast k z) = z.
Proof.
  intro H. rewrite (cast_id k z H). destruct k; try reflexivity.
  cbn [bound_ok] in H. apply andb_true_iff in H as [H1 H2]. apply Z.leb_le in H1. apply Z.ltb_lt in H2.
  cbn [to_i64]. unfold wrap_signed.
  change (2 ^ 64) with 18446744073709551616. change (2 ^ (64 - 1)) with 9223372036854775808.
  change (2 ^ 63) with 9223372036854775808 in H2.
  rewrite Z.mod_small by lia. destruct (Z.ltb_spec z 9223372036854775808); lia.
Qed.

Lemma ikind_eqb_refl k : ikind_eqb k k = true.
Proof. destruct k; reflexivity. Qed.

Lemma read_write_int k r c :
  write_int_rules k r = Ok c ->
  read_int_rules k (Some c) = Some (norm_int r).
Proof.
  intro Hw. apply write_int_ok in Hw as [Hadm Hc]. subst c.
  destruct r as [mn mx xmn xmx]. cbn [ir_min ir_max ir_xmin ir_xmax] in *.
  unfold int_adm in Hadm. cbn [ir_min ir_max] in Hadm.
  apply andb_true_iff in Hadm as [Hadm _]. apply andb_true_iff in Hadm as [Hmn Hmx].
  cbn [read_int_rules]. rewrite ikind_eqb_refl.
  unfold norm_int. cbn [ir_min ir_max ir_xmin ir_xmax].
  destruct mn as [a|], mx as [b|]; cbn [opt_bound_ok is_some andb] in *;
    try (pose proof (to_i64_id k a Hmn) as Ha1); try (pose proof (to_i64_id k b Hmx) as Hb1);
    destruct (is_true xmn), (is_true xmx); cbn [andb]; rewrite ?Ha1, ?Hb1; reflexivity.
Qed.

(* enum: numbers back to the (short) names *)
Lemma short_of_mapped env name z :
  map_value env name = Some z -> short_name env z = Some (short env name).
Proof.
  intro H. unfold map_value in H. apply lookup_from_some in H as [k [o [Hk [Hz Hp]]]].
  unfold short_name, short.
  assert (Hlen : (k < length (ee_options env))%nat) by (apply nth_error_Some; congruence).
  destruct (Z.eqb_spec z 0); [lia|].
  destruct (Z.leb_spec 1 z); [|lia].
  destruct (Z.leb_spec z (Z.of_nat (length (ee_options env)))); [|lia].
  cbn [andb]. replace (Z.to_nat (z - 1)) with k by lia. rewrite Hk. rewrite Hp. reflexivity.
Qed.

Lemma names_in_mapped env names : forall zs,
  map_values env names = Ok zs -> names_in env zs = Ok (map (short env) names).
Proof.
  induction names as [|n r IH]; intros zs H; cbn in H.
  - inversion H. reflexivity.
  - destruct (map_value env n) as [z|] eqn:E; [|discriminate].
    destruct (map_values env r) as [zr| | |] eqn:Er; cbn in H; try discriminate.
    inversion H; subst. cbn [names_in map]. rewrite (short_of_mapped env n z E).
    rewrite (IH zr eq_refl). reflexivity.
Qed.
Lemma names_notin_mapped env names : forall zs,
  map_values env names = Ok zs -> names_notin env zs = Ok (map (short env) names).
Proof.
  induction names as [|n r IH]; intros zs H; cbn in H.
  - inversion H. reflexivity.
  - destruct (map_value env n) as [z|] eqn:E; [|discriminate].
    destruct (map_values env r) as [zr| | |] eqn:Er; cbn in H; try discriminate.
    inversion H; subst. cbn [names_notin map]. rewrite (short_of_mapped env n z E).
    rewrite (IH zr eq_refl). reflexivity.
Qed.

Lemma id62_not_wellknown :
  str_eqb Id62Gen.pattern_string date_pattern = false /\ str_eqb Id62Gen.pattern_string number_pattern = false.
Proof. split; vm_compute; reflexivity. Qed.

Lemma get_list_with_arm a l : get_list a (with_arm a l) = l.
Proof. destruct l; cbn; [|reflexivity]. destruct a; reflexivity. Qed.

Lemma get_list_other a b l : larm_eqb a b = false -> get_list a (with_arm b l) = None.
Proof. intro H. destruct l; cbn; [rewrite H|]; reflexivity. Qed.

(* ---------------------------------------------------------------- one field type *)
(* [j5]: the (j5.ext.v1.field) the reader is given: the field's own for a
   singular property, none for array items and map values *)
Definition j5_seen (m : mode) (w : fieldw) : option j5ext :=
  match m with MSingle => fw_ext w | _ => None end.
Definition list_seen (m : mode) (w : fieldw) : option (larm * lpay) :=
  match m with MMap => None | _ => fw_list w end.
Definition vt_seen (m : mode) (w : fieldw) : option tyc := vt_of (fw_val w).

Lemma no_list_arm t env w :
  no_list t = true -> write_field env t = Ok w -> fw_list w = None.
Proof.
  intros Hn Hw.
  destruct t as [k r l0|sf r l0|r|r l0|r l0|f e l0|f64 l0|r l0|r l0|l0|od ts l0|fl|l0]; cbn [no_list] in Hn;
    try (destruct l0; [discriminate|]); cbn [write_field] in Hw;
    try (apply obind_ok in Hw as [x [Hx Hw]]); inversion Hw; subst w; cbn [fw_list with_arm]; try reflexivity.
  inversion Hx. reflexivity.
Qed.

Lemma field_rt env m t w :
  rt_fty m t = true -> write_field env t = Ok w ->
  read_field env (fw_kind w) (vt_seen m w) (list_seen m w) (j5_seen m w) (fw_key w) = Ok (norm_fty env t).
Proof.
  intros Hrt Hw. unfold rt_fty in Hrt. apply andb_true_iff in Hrt as [Hnl Hrt].
  assert (Hls : list_seen m w = fw_list w).
  { destruct m; try reflexivity. cbn [list_seen]. symmetry. eapply no_list_arm; eauto. }
  rewrite Hls. clear Hls Hnl. unfold vt_seen.
  destruct t as [k r l|sf r l|r|r l|r l|f e l|f64 l|r l|r l|l|od ts l|fl|l]; cbn [write_field] in Hw.
  - (* integer *)
    apply obind_ok in Hw as [vo [Hv Hw]]. inversion Hw; subst w; clear Hw.
    cbn [fw_kind fw_val fw_list fw_ext fw_key].
    assert (Hr : read_int_rules k (vt_of vo) = match r with Some r => Some (norm_int r) | None => None end).
    { destruct r as [r|].
      - apply obind_ok in Hv as [c [Hc Hv]]. inversion Hv; subst vo.
        cbn [vt_of only_ty c_ty]. apply read_write_int; assumption.
      - inversion Hv; subst. reflexivity. }
    destruct k; cbn [int_pkind read_field norm_fty int_larm] in *; rewrite Hr, get_list_with_arm; reflexivity.
  - (* string *)
    destruct sf as [sf|]; [destruct m, r; discriminate|].
    inversion Hw; subst w; clear Hw. cbn [fw_kind fw_val fw_list fw_ext fw_key read_field].
    assert (Hp : match r with Some r => pat_plain (sr_pat r) = true | None => True end)
      by (destruct r; [destruct m; exact Hrt|exact I]).
    destruct m; cbn [j5_seen fw_ext]; unfold read_string;
      (destruct r as [r|]; cbn [only_ty c_ty vt_of];
       [ unfold pat_plain in Hp; destruct (sr_pat r) as [p|] eqn:Ep;
         [ apply andb_true_iff in Hp as [Hp H3]; apply andb_true_iff in Hp as [H1 H2];
           apply negb_true_iff in H1, H2, H3; rewrite H1, H2, H3; cbn [orb obind];
           destruct l as [p0|]; cbn; destruct r; cbn in *; subst; reflexivity
         | cbn [obind]; destruct l as [p0|]; cbn; destruct r; cbn in *; subst; reflexivity ]
       | cbn [obind]; destruct l; reflexivity ]).
  - (* bytes *)
    inversion Hw; subst w; clear Hw. cbn [fw_kind read_field norm_fty fw_val vt_of].
    destruct r as [[mn mx]|]; reflexivity.
  - (* bool *)
    inversion Hw; subst w; clear Hw. cbn [fw_kind read_field norm_fty fw_list fw_val vt_of].
    rewrite get_list_with_arm. destruct r as [[c|]|]; reflexivity.
  - (* enum *)
    apply obind_ok in Hw as [io [Hio Hw]]. inversion Hw; subst w; clear Hw.
    cbn [fw_kind read_field norm_fty fw_val fw_list vt_of only_ty c_ty].
    rewrite get_list_with_arm.
    destruct r as [r|].
    + apply obind_ok in Hio as [zi [Hzi Hio]]. apply obind_ok in Hio as [zn [Hzn Hio]].
      inversion Hio; subst io. cbn [fst snd].
      rewrite (names_in_mapped env _ _ Hzi), (names_notin_mapped env _ _ Hzn). reflexivity.
    + inversion Hio; subst io. reflexivity.
  - (* key *)
    apply obind_ok in Hw as [lst [Hl Hw]]. inversion Hw; subst w; clear Hw.
    destruct id62_not_wellknown as [Hd Hn].
    cbn [fw_kind read_field fw_val fw_list fw_ext fw_key norm_fty].
    destruct f as [[|p| |]|]; try (destruct m; discriminate).
    + (* uuid *)
      destruct l as [p0|]; inversion Hl; subst lst; unfold read_string; cbn;
        destruct e as [[[[[|]|pp ee]|] tn]|]; destruct m; reflexivity.
    + (* id62 *)
      destruct l as [p0|]; inversion Hl; subst lst; unfold read_string;
        cbn [only_ty c_ty vt_of]; rewrite Hd, Hn, str_eqb_refl; cbn;
        destruct e as [[[[[|]|pp ee]|] tn]|]; destruct m; reflexivity.
    + (* no format *)
      destruct l as [p0|]; [destruct m; discriminate|]. inversion Hl; subst lst. unfold read_string. cbn.
      destruct e as [[[[[|]|pp ee]|] tn]|]; destruct m; try discriminate; reflexivity.
  - (* float *)
    inversion Hw; subst w; clear Hw. cbn [fw_kind fw_list].
    destruct f64; cbn [read_field norm_fty]; rewrite get_list_with_arm; reflexivity.
  - (* date *)
    inversion Hw; subst w; clear Hw. cbn [fw_kind fw_list fw_ext read_field norm_fty].
    rewrite get_list_with_arm. destruct m, r; try discriminate; reflexivity.
  - (* decimal *)
    inversion Hw; subst w; clear Hw. cbn [fw_kind fw_list fw_ext read_field norm_fty].
    rewrite get_list_with_arm. destruct m, r; try discriminate; reflexivity.
  - (* timestamp *)
    inversion Hw; subst w; clear Hw. cbn [fw_kind fw_list fw_val read_field norm_fty vt_of].
    rewrite get_list_with_arm. reflexivity.
  - (* any *)
    inversion Hw; subst w; clear Hw. cbn [fw_kind fw_list fw_ext read_field norm_fty].
    rewrite get_list_with_arm.
    destruct m; cbn [j5_seen fw_ext]; try reflexivity;
      apply andb_true_iff in Hrt as [H1 H2]; destruct od; try discriminate;
      destruct ts; try discriminate; reflexivity.
  - (* object *)
    inversion Hw; subst w; clear Hw. cbn [fw_kind fw_ext read_field norm_fty].
    destruct m, fl; try discriminate; reflexivity.
  - (* oneof *)
    inversion Hw; subst w; clear Hw. cbn [fw_kind fw_list read_field norm_fty].
    rewrite get_list_with_arm. reflexivity.
Qed.

(* ---------------------------------------------------------------- one property *)
Lemma kind_not_map env t w : write_field env t = Ok w -> forall v, fw_kind w <> KdMapEntry v.
Proof.
  intros Hw v.
  destruct t as [k r l|sf r l|r|r l|r l|f e l|f64 l|r l|r l|l|od ts l|fl|l]; cbn [write_field] in Hw;
    try (apply obind_ok in Hw as [x [Hx Hw]]); inversion Hw; subst w; cbn [fw_kind];
    try discriminate.
  - destruct k; discriminate.
  - destruct f64; discriminate.
Qed.

Lemma write_field_primary_ty env t w :
  write_field env t = Ok w ->
  match fw_key w with Some k => kx_primary k | None => false end = is_primary_ty t.
Proof.
  intro Hw.
  destruct t as [k r l|sf r l|r|r l|r l|f e l|f64 l|r l|r l|l|od ts l|fl|l]; cbn [write_field] in Hw;
    try (apply obind_ok in Hw as [x [Hx Hw]]);
    inversion Hw; subst w; cbn [fw_key is_primary_ty]; try reflexivity.
  destruct e as [[ty tn]|]; [|reflexivity]. cbn. destruct ty as [[[|]|]|]; reflexivity.
Qed.

Lemma vt_set_required v : vt_of (set_required v) = vt_of v.
Proof. destruct v; reflexivity. Qed.

Lemma req_of_val env t w (required : bool) :
  write_field env t = Ok w ->
  match (if required then set_required (fw_val w) else fw_val w) with
  | Some c => c_req c
  | None => false
  end = required.
Proof.
  intro Hw. destruct required.
  - destruct (fw_val w); reflexivity.
  - destruct (fw_val w) as [c|] eqn:E; [|reflexivity]. eapply write_field_noreq; eauto.
Qed.

Theorem c04_prop env idx d o :
  rt_ok d = true -> write_prop env idx d = Ok o ->
  read_prop env o = Ok (norm_prop env idx d).
Proof.
  intros Hrt Hw.
  destruct d as [name req opt ty desc]. unfold rt_ok in Hrt. cbn [p_ty p_opt] in Hrt.
  unfold write_prop in Hw. cbn [p_name p_req p_opt p_ty p_desc] in Hw.
  apply obind_ok in Hw as [w [Hwf Hw]].
  destruct ty as [t|r sf t|r t].
  - (* singular *)
    pose proof (write_field_primary_ty env t w Hwf) as Hprim.
    assert (Hw' : (if opt && (req || is_primary_ty t) then Err "cannot be both required and optional"
                   else Ok (FO name (idx + 1)%N (fw_kind w) false opt (opt || is_msg_kind (fw_kind w))
                              (if req || is_primary_ty t then set_required (fw_val w) else fw_val w)
                              (fw_ext w) (fw_list w) (fw_key w) desc)) = Ok o).
    { rewrite <- Hprim. destruct (fw_key w); exact Hw. }
    clear Hw. set (required := req || is_primary_ty t) in *.
    destruct (opt && required) eqn:Eor; [discriminate|]. inversion Hw'; subst o; clear Hw'.
    unfold read_prop.
    cbn [fo_kind fo_rep fo_val fo_list fo_ext fo_key fo_json fo_number fo_desc fo_opt].
    pose proof (kind_not_map env t w Hwf) as Hk.
    destruct (fw_kind w) eqn:Ek; try (exfalso; eapply Hk; reflexivity);
      rewrite <- Ek;
      pose proof (field_rt env MSingle t w Hrt Hwf) as Hf;
      unfold vt_seen in Hf; cbn [list_seen j5_seen] in Hf;
      replace (match (if required then set_required (fw_val w) else fw_val w) with
               | Some c => c_ty c | None => None end) with (vt_of (fw_val w))
        by (destruct required; [rewrite <- vt_set_required|]; reflexivity);
      rewrite Hf; cbn [obind];
      rewrite (req_of_val env t w required Hwf);
      unfold norm_prop; cbn [p_name p_req p_opt p_ty p_desc]; fold required;
      replace (negb required && opt) with opt by (destruct required, opt; try reflexivity; discriminate);
      reflexivity.
  - (* array *)
    apply andb_true_iff in Hrt as [Hrt Hopt]. apply negb_true_iff in Hopt. subst opt.
    apply obind_ok in Hwf as [wi [Hwt Hwa]]. inversion Hwa; subst w; clear Hwa.
    pose proof (write_field_primary_ty env t wi Hwt) as Hprim.
    cbn [wrap_array fw_key fw_kind fw_val fw_ext fw_list andb] in Hw.
    assert (Hw' : Ok (FO name (idx + 1)%N (fw_kind wi) true false false
                         (if req || is_primary_ty t then set_required (fw_val (wrap_array r sf wi)) else fw_val (wrap_array r sf wi))
                         (Some (XArray sf)) (fw_list wi) (fw_key wi) desc) = Ok o).
    { rewrite <- Hprim. destruct (fw_key wi); exact Hw. }
    clear Hw. set (required := req || is_primary_ty t) in *.
    inversion Hw'; subst o; clear Hw'.
    unfold read_prop.
    cbn [fo_kind fo_rep fo_val fo_list fo_ext fo_key fo_json fo_number fo_desc fo_opt].
    pose proof (kind_not_map env t wi Hwt) as Hk.
    pose proof (field_rt env MArray t wi Hrt Hwt) as Hf.
    unfold vt_seen in Hf; cbn [list_seen j5_seen] in Hf.
    destruct (fw_kind wi) eqn:Ek; try (exfalso; eapply Hk; reflexivity);
      lazy iota beta;
      unfold norm_prop; cbn [p_name p_req p_opt p_ty p_desc]; fold required; rewrite Hwt;
      destruct required; destruct r as [[mn mx uq]|]; destruct (fw_val wi) as [c|] eqn:Ev;
      cbn [set_required is_some orb only_ty c_ty c_req ar_min ar_max ar_uniq vt_of] in *;
      rewrite Hf; reflexivity.
  - (* map *)
    apply andb_true_iff in Hrt as [Hrt Hopt]. apply negb_true_iff in Hopt. subst opt.
    apply obind_ok in Hwf as [wi [Hwt Hwa]]. inversion Hwa; subst w; clear Hwa.
    cbn [wrap_map fw_key fw_kind fw_val fw_ext fw_list andb orb] in Hw.
    rewrite orb_false_r in Hw. inversion Hw; subst o; clear Hw.
    unfold read_prop.
    cbn [fo_kind fo_rep fo_val fo_list fo_ext fo_key fo_json fo_number fo_desc fo_opt].
    pose proof (field_rt env MMap t wi Hrt Hwt) as Hf.
    unfold vt_seen in Hf; cbn [list_seen j5_seen] in Hf.
    unfold norm_prop. cbn [p_name p_req p_opt p_ty p_desc]. rewrite orb_false_r. rewrite Hwt.
    destruct req; destruct r as [[mn mx]|]; destruct (fw_val wi) as [c|] eqn:Ev;
      cbn [set_required is_some orb only_ty c_ty c_req mr_min mr_max vt_of] in *;
      rewrite Hf; reflexivity.
Qed.

(* ---------------------------------------------------------------- objects *)
Fixpoint norm_props_from (env : enum_env) (idx : N) (ds : list prop) : list rprop :=
  match ds with
  | [] => []
  | d :: r => norm_prop env idx d :: norm_props_from env (idx + 1)%N r
  end.
Definition norm_object (env : enum_env) (ds : list prop) : list rprop := norm_props_from env 0%N ds.

Lemma c04_props_from env ds : forall idx os,
  forallb rt_ok ds = true -> write_props_from env idx ds = Ok os ->
  read_object env os = Ok (norm_props_from env idx ds).
Proof.
  induction ds as [|d r IH]; intros idx os Hrt Hw; cbn in Hw.
  - inversion Hw. reflexivity.
  - cbn [forallb] in Hrt. apply andb_true_iff in Hrt as [Hd Hr].
    apply obind_ok in Hw as [o [Ho Hw]]. apply obind_ok in Hw as [os' [Hos Hw]].
    inversion Hw; subst os. cbn [read_object norm_props_from].
    rewrite (c04_prop env idx d o Hd Ho). cbn [obind].
    rewrite (IH (idx + 1)%N os' Hr Hos). reflexivity.
Qed.

Theorem c04_object env ds os :
  forallb rt_ok ds = true -> write_object env ds = Ok os ->
  read_object env os = Ok (norm_object env ds).
Proof. apply c04_props_from. Qed.

(* the normal form keeps names, order and positions *)
Lemma norm_object_names env ds :
  map (fun r => p_name (rp_prop r)) (norm_object env ds) = map p_name ds.
Proof.
  unfold norm_object. generalize 0%N. induction ds as [|d r IH]; intro i; cbn; [reflexivity|].
  rewrite IH. reflexivity.
Qed.

Lemma norm_object_paths env ds :
  map rp_path (norm_object env ds) = map (fun i => [N.of_nat i]) (seq 1 (length ds)).
Proof.
  unfold norm_object.
  assert (H : forall i, map rp_path (norm_props_from env (N.of_nat i) ds)
                        = map (fun i => [N.of_nat i]) (seq (S i) (length ds))).
  { induction ds as [|d r IH]; intro i; cbn [norm_props_from map length seq]; [reflexivity|].
    f_equal.
    - unfold norm_prop. cbn. f_equal. lia.
    - replace (N.of_nat i + 1)%N with (N.of_nat (S i)) by lia. apply IH. }
  exact (H O).
Qed.

(* the normal form changes no meaning: the declared rules of the normal form
   accept exactly the values the declaration accepts (ties C04's notion of
   "the same schema" to C12's semantics) *)
Lemma norm_int_sem r z : int_rule_ok (norm_int r) z = int_rule_ok r z.
Proof.
  unfold int_rule_ok, norm_int. destruct r as [mn mx xmn xmx]. cbn [ir_min ir_max ir_xmin ir_xmax].
  destruct mn, mx, xmn as [[|]|], xmx as [[|]|]; reflexivity.
Qed.

(* ---------------------------------------------------------------- enums as roots *)
From J5V.model Require Import RulesEnum.

Lemma strip_prefix_app p x : strip_prefix p (p ++ x) = x.
Proof. induction p as [|c r IH]; cbn; [destruct x; reflexivity|]. rewrite N.eqb_refl. exact IH. Qed.

Lemma has_suffix_app p suf : has_suffix suf (p ++ suf) = true.
Proof. unfold has_suffix. rewrite rev_app_distr. apply has_prefix_app. Qed.

Lemma trim_suffix_app p suf : trim_suffix suf (p ++ suf) = p.
Proof.
  unfold trim_suffix. rewrite has_suffix_app. rewrite rev_app_distr, strip_prefix_app. apply rev_involutive.
Qed.

(* an explicit first option that stands for value 0 is spelled UNSPECIFIED or
   <prefix>UNSPECIFIED (and the prefix is not itself a prefix of "UNSPECIFIED") *)
Definition unspec_ok (e : enum_decl) : bool :=
  match ed_options e with
  | (n, _) :: _ =>
      if has_suffix unspecified n
      then str_eqb n (ed_prefix e ++ unspecified)
           || (str_eqb n unspecified && negb (has_prefix (ed_prefix e) unspecified))
      else true
  | [] => true
  end.

Lemma write_enum_first e :
  unspec_ok e = true ->
  exists d rest, eo_values (write_enum e) = ((ed_prefix e ++ unspecified)%list, 0%Z, d) :: rest.
Proof.
  intro H. unfold write_enum, unspec_ok in *. cbn [eo_values].
  destruct (ed_options e) as [|[n d] r]; [eauto|].
  destruct (has_suffix unspecified n) eqn:Es; [|eauto].
  apply orb_true_iff in H as [H|H].
  - apply str_eqb_eq in H. subst n. unfold pfx. rewrite has_prefix_app. eauto.
  - apply andb_true_iff in H as [H1 H2]. apply str_eqb_eq in H1. subst n.
    apply negb_true_iff in H2. unfold pfx. rewrite H2. eauto.
Qed.

Theorem c04_enum e : unspec_ok e = true -> read_enum (write_enum e) = Ok (norm_enum e).
Proof.
  intro H. destruct (write_enum_first e H) as [d [rest Hv]].
  unfold read_enum, norm_enum. rewrite Hv.
  rewrite has_suffix_app. cbn [negb]. rewrite trim_suffix_app.
  rewrite <- Hv. reflexivity.
Qed.

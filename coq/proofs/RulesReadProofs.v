(* RulesReadProofs.v — C04: reading back what the writer emitted yields the
   declared schema (in normal form), per field type over all admissible rule
   values, lifted to properties (required / optional / array / map) and objects
   (order, proto field paths). *)
From Coq Require Import String List NArith ZArith Bool Lia ZifyN ZifyNat ZifyBool.
From J5V.lib Require Import Outcome.
From J5V.model Require Import RulesDecl RulesWrite RulesRead RulesSpec Validate RulesSpecDec.
From J5V.gen Require Id62Gen.
From J5V.proofs Require Import RulesProofs.
Import ListNotations.
Local Open Scope Z_scope.

(* ---------------------------------------------------------------- the fragment *)
(* ---------------------------------------------------------------- helpers *)
Definition vt_of (v : option constraint) : option tyc :=
  match v with Some c => c_ty c | None => None end.

(* a bound the compiler accepts survives int64 -> format -> int64 *)
Lemma to_i64_id k z : bound_ok k z = true -> to_i64 k (cast k z) = z.
Proof.
  intro H. rewrite (cast_id k z H). destruct k; try reflexivity.
  cbn [bound_ok] in H. apply andb_true_iff in H as [H1 H2]. apply Z.leb_le in H1. apply Z.ltb_lt in H2.
  cbn [to_i64]. unfold wrap_signed.
  change (2 ^ 64) with 18446744073709551616. change (2 ^ (64 - 1)) with 9223372036854775808.
  change (2 ^ 63) with 9223372036854775808 in H2.
  rewrite Z.mod_small by lia. destruct (Z.ltb_spec z 9223372036854775808); lia.
Qed.

Lemma ikind_eqb_refl k : ikind_eqb k k = true.
Proof. destruct k; reflexivity. Qed.

Lemma read_write_int k r c :
  write_int_rules k r = Ok c ->
  read_int_rules k (Some c) = Some (norm_int r).
Proof.
  intro Hw. apply write_int_ok in Hw as [Hadm Hc]. subst c.
  destruct r as [mn mx xmn xmx]. cbn [ir_min ir_max ir_xmin ir_xmax] in *.
  unfold int_adm in Hadm. cbn [ir_min ir_max] in Hadm.
  apply andb_true_iff in Hadm as [Hadm _]. apply andb_true_iff in Hadm as [Hmn Hmx].
  cbn [read_int_rules]. rewrite ikind_eqb_refl.
  unfold norm_int. cbn [ir_min ir_max ir_xmin ir_xmax].
  destruct mn as [a|], mx as [b|]; cbn [opt_bound_ok is_some andb] in *;
    try (pose proof (to_i64_id k a Hmn) as Ha1); try (pose proof (to_i64_id k b Hmx) as Hb1);
    destruct (is_true xmn), (is_true xmx); cbn [andb]; rewrite ?Ha1, ?Hb1; reflexivity.
Qed.

Lemma strip_prefix_app p x : strip_prefix p (p ++ x) = x.
Proof. induction p as [|c r IH]; cbn; [destruct x; reflexivity|]. rewrite N.eqb_refl. exact IH. Qed.

(* enum: numbers back to the (short) names *)
Lemma short_of_mapped env name z :
  zero_std env = true ->
  map_value env name = Some z -> short_name env z = Some (short env name).
Proof.
  intros Hstd H. apply map_value_name in H. unfold short.
  apply option_name_spec in H as [[o [H1 [Hn Hp]]]|[H0 [zn [Hz Hp]]]].
  - unfold short_name.
    assert (Hlen : (Z.to_nat (z - 1) < length (ee_options env))%nat) by (apply nth_error_Some; congruence).
    destruct (Z.eqb_spec z 0); [lia|].
    destruct (Z.leb_spec 1 z); [|lia].
    destruct (Z.leb_spec z (Z.of_nat (length (ee_options env)))); [|lia].
    cbn [andb]. rewrite Hn, Hp. reflexivity.
  - subst z. unfold short_name. cbn. rewrite Hp.
    unfold zero_std in Hstd. rewrite Hz in Hstd. apply str_eqb_eq in Hstd. rewrite Hstd.
    unfold trim_prefix. rewrite has_prefix_app, strip_prefix_app. reflexivity.
Qed.

Lemma names_in_mapped env names : forall zs,
  zero_std env = true ->
  map_values env names = Ok zs -> names_in env zs = Ok (map (short env) names).
Proof.
  induction names as [|n r IH]; intros zs Hstd H; cbn in H.
  - inversion H. reflexivity.
  - destruct (map_value env n) as [z|] eqn:E; [|discriminate].
    destruct (map_values env r) as [zr| | |] eqn:Er; cbn in H; try discriminate.
    inversion H; subst. cbn [names_in map]. rewrite (short_of_mapped env n z Hstd E).
    rewrite (IH zr Hstd eq_refl). reflexivity.
Qed.
Lemma names_notin_mapped env names : forall zs,
  zero_std env = true ->
  map_values env names = Ok zs -> names_notin env zs = Ok (map (short env) names).
Proof.
  induction names as [|n r IH]; intros zs Hstd H; cbn in H.
  - inversion H. reflexivity.
  - destruct (map_value env n) as [z|] eqn:E; [|discriminate].
    destruct (map_values env r) as [zr| | |] eqn:Er; cbn in H; try discriminate.
    inversion H; subst. cbn [names_notin map]. rewrite (short_of_mapped env n z Hstd E).
    rewrite (IH zr Hstd eq_refl). reflexivity.
Qed.

Lemma id62_not_wellknown :
  str_eqb Id62Gen.pattern_string date_pattern = false /\ str_eqb Id62Gen.pattern_string number_pattern = false.
Proof. split; vm_compute; reflexivity. Qed.

Lemma get_list_with_arm a l : get_list a (with_arm a l) = l.
Proof. destruct l; cbn; [|reflexivity]. destruct a; reflexivity. Qed.

Lemma get_list_other a b l : larm_eqb a b = false -> get_list a (with_arm b l) = None.
Proof. intro H. destruct l; cbn; [rewrite H|]; reflexivity. Qed.

(* ---------------------------------------------------------------- one field type *)
(* [j5]: the (j5.ext.v1.field) the reader is given: the field's own for a
   singular property, none for array items and map values *)
Definition j5_seen (m : mode) (w : fieldw) : option j5ext :=
  match m with MSingle => fw_ext w | _ => None end.
Definition list_seen (m : mode) (w : fieldw) : option (larm * lpay) :=
  match m with MMap => None | _ => fw_list w end.
Definition vt_seen (m : mode) (w : fieldw) : option tyc := vt_of (fw_val w).

Lemma no_list_arm t env w :
  no_list t = true -> write_field env t = Ok w -> fw_list w = None.
Proof.
  intros Hn Hw.
  destruct t as [k r l0|sf r l0|r|r l0|r l0|f e l0|f64 fr l0|r l0|r l0|tr l0|od ts l0|rn fl orl|rn orr l0]; cbn [no_list] in Hn;
    try (destruct l0; [discriminate|]); cbn [write_field] in Hw; try (destruct fr; [discriminate Hw|]);
    try (apply obind_ok in Hw as [x [Hx Hw]]); inversion Hw; subst w; cbn [fw_list with_arm]; try reflexivity.
  inversion Hx. reflexivity.
Qed.

Lemma field_rt env m t w :
  zero_std env = true ->
  rt_fty m t = true -> write_field env t = Ok w ->
  read_field env (fw_kind w) (vt_seen m w) (list_seen m w) (j5_seen m w) (fw_key w) = Ok (norm_fty env t).
Proof.
  intros Hstd Hrt Hw. unfold rt_fty in Hrt. apply andb_true_iff in Hrt as [Hnl Hrt].
  assert (Hls : list_seen m w = fw_list w).
  { destruct m; try reflexivity. cbn [list_seen]. symmetry. eapply no_list_arm; eauto. }
  rewrite Hls. clear Hls Hnl. unfold vt_seen.
  destruct t as [k r l|sf r l|r|r l|r l|f e l|f64 fr l|r l|r l|tr l|od ts l|rn fl orl|rn orr l]; cbn [write_field] in Hw.
  - (* integer *)
    apply obind_ok in Hw as [vo [Hv Hw]]. inversion Hw; subst w; clear Hw.
    cbn [fw_kind fw_val fw_list fw_ext fw_key].
    assert (Hr : read_int_rules k (vt_of vo) = match r with Some r => Some (norm_int r) | None => None end).
    { destruct r as [r|].
      - apply obind_ok in Hv as [c [Hc Hv]]. inversion Hv; subst vo.
        cbn [vt_of only_ty c_ty]. apply read_write_int; assumption.
      - inversion Hv; subst. reflexivity. }
    destruct k; cbn [int_pkind read_field norm_fty int_larm] in *; rewrite Hr, get_list_with_arm; reflexivity.
  - (* string *)
    destruct sf as [sf|]; [destruct m, r; discriminate|].
    inversion Hw; subst w; clear Hw. cbn [fw_kind fw_val fw_list fw_ext fw_key read_field].
    assert (Hp : match r with Some r => pat_plain (sr_pat r) = true | None => True end)
      by (destruct r; [destruct m; exact Hrt|exact I]).
    destruct m; cbn [j5_seen fw_ext]; unfold read_string;
      (destruct r as [r|]; cbn [only_ty c_ty vt_of];
       [ unfold pat_plain in Hp; destruct (sr_pat r) as [p|] eqn:Ep;
         [ apply andb_true_iff in Hp as [Hp H3]; apply andb_true_iff in Hp as [H1 H2];
           apply negb_true_iff in H1, H2, H3; rewrite H1, H2, H3; cbn [is_some obind];
           destruct l as [p0|]; cbn; destruct r; cbn in *; subst; reflexivity
         | cbn [obind]; destruct l as [p0|]; cbn; destruct r; cbn in *; subst; reflexivity ]
       | cbn [obind]; destruct l; reflexivity ]).
  - (* bytes *)
    inversion Hw; subst w; clear Hw. cbn [fw_kind read_field norm_fty fw_val vt_of].
    destruct r as [[mn mx]|]; reflexivity.
  - (* bool *)
    inversion Hw; subst w; clear Hw. cbn [fw_kind read_field norm_fty fw_list fw_val vt_of].
    rewrite get_list_with_arm. destruct r as [[c|]|]; reflexivity.
  - (* enum *)
    apply obind_ok in Hw as [io [Hio Hw]]. inversion Hw; subst w; clear Hw.
    cbn [fw_kind read_field norm_fty fw_val fw_list vt_of only_ty c_ty].
    rewrite get_list_with_arm.
    destruct r as [r|].
    + apply obind_ok in Hio as [zi [Hzi Hio]]. apply obind_ok in Hio as [zn [Hzn Hio]].
      inversion Hio; subst io. cbn [fst snd].
      rewrite (names_in_mapped env _ _ Hstd Hzi), (names_notin_mapped env _ _ Hstd Hzn). reflexivity.
    + inversion Hio; subst io. reflexivity.
  - (* key *)
    apply obind_ok in Hw as [lst [Hl Hw]]. inversion Hw; subst w; clear Hw.
    destruct id62_not_wellknown as [Hd Hn].
    cbn [fw_kind read_field fw_val fw_list fw_ext fw_key norm_fty].
    destruct f as [[|p| |]|].
    + (* informal: only as a singular property *)
      destruct m; try discriminate.
      * destruct l as [p0|]; inversion Hl; subst lst; unfold read_string; cbn;
          destruct e as [[[[[|]|pp ee]|] tn]|]; reflexivity.
      * (* an array item: recognised through its unique_string foreign key *)
        destruct l as [p0|]; [|discriminate]. inversion Hl; subst lst. unfold read_string. cbn.
        destruct e as [[[[[|]|pp ee]|] tn]|]; reflexivity.
    + (* custom *)
      destruct m; try discriminate.
      apply andb_true_iff in Hrt as [H3 Hwk]. apply negb_true_iff in H3. destruct l as [p0|].
      * (* with list rules: a unique_string foreign key; the key annotation keeps the format *)
        cbn [is_some negb orb] in Hwk. apply andb_true_iff in Hwk as [H1 H2]. apply negb_true_iff in H1, H2.
        inversion Hl; subst lst. unfold read_string. cbn [only_ty c_ty vt_of]. rewrite H1, H2, H3. cbn.
        destruct e as [[[[[|]|pp ee]|] tn]|]; reflexivity.
      * inversion Hl; subst lst.
        unfold read_string. cbn [only_ty c_ty vt_of]. rewrite H3.
        destruct (str_eqb p date_pattern), (str_eqb p number_pattern); cbn;
          destruct e as [[[[[|]|pp ee]|] tn]|]; reflexivity.
    + (* uuid *)
      destruct l as [p0|]; inversion Hl; subst lst; unfold read_string; cbn;
        destruct e as [[[[[|]|pp ee]|] tn]|]; destruct m; reflexivity.
    + (* id62 *)
      destruct l as [p0|]; inversion Hl; subst lst; unfold read_string;
        cbn [only_ty c_ty vt_of]; rewrite Hd, Hn, str_eqb_refl; cbn;
        destruct e as [[[[[|]|pp ee]|] tn]|]; destruct m; reflexivity.
    + (* no format *)
      destruct l as [p0|]; [destruct m; discriminate|]. inversion Hl; subst lst. unfold read_string. cbn.
      destruct e as [[[[[|]|pp ee]|] tn]|]; destruct m; try discriminate; reflexivity.
  - (* float *)
    destruct fr; [discriminate|].
    inversion Hw; subst w; clear Hw. cbn [fw_kind fw_list].
    destruct f64; cbn [read_field norm_fty]; rewrite get_list_with_arm; reflexivity.
  - (* date *)
    inversion Hw; subst w; clear Hw. cbn [fw_kind fw_list fw_ext read_field norm_fty].
    rewrite get_list_with_arm. destruct m, r; try discriminate; reflexivity.
  - (* decimal *)
    inversion Hw; subst w; clear Hw. cbn [fw_kind fw_list fw_ext read_field norm_fty].
    rewrite get_list_with_arm. destruct m, r; try discriminate; reflexivity.
  - (* timestamp: rules without bounds (the writer emits an empty TimestampRules) *)
    inversion Hw; subst w; clear Hw. cbn [fw_kind fw_list fw_val read_field norm_fty vt_of].
    rewrite get_list_with_arm.
    destruct tr as [[[mn|] [mx|] xmn xmx]|]; destruct m; try discriminate; reflexivity.
  - (* any *)
    inversion Hw; subst w; clear Hw. cbn [fw_kind fw_list fw_ext read_field norm_fty].
    rewrite get_list_with_arm.
    destruct m; cbn [j5_seen fw_ext]; try reflexivity;
      apply andb_true_iff in Hrt as [H1 H2]; destruct od; try discriminate;
      destruct ts; try discriminate; reflexivity.
  - (* object: rules without content *)
    inversion Hw; subst w; clear Hw. cbn [fw_kind fw_ext read_field norm_fty].
    destruct orl as [[[mn|] [mx|]]|]; destruct m, fl; try discriminate; reflexivity.
  - (* oneof *)
    inversion Hw; subst w; clear Hw. cbn [fw_kind fw_list read_field norm_fty].
    rewrite get_list_with_arm. reflexivity.
Qed.


(* ---------------------------------------------------------------- the fragment is exact *)
(* Outside [rt_ok] the round trip fails: the fragment is not merely what could be
   proved, it is exactly the set of declarations that read back as declared. *)
Definition list_of (t : fty) : option lpay :=
  match t with
  | TInt _ _ l | TStr _ _ l | TBool _ l | TEnum _ l | TKey _ _ l | TFloat _ _ l | TDate _ l
  | TDecimal _ l | TTimestamp _ l | TAny _ _ l | TOneof _ _ l => l
  | TBytes _ | TObject _ _ _ => None
  end.

Lemma norm_fty_list env t : list_of (norm_fty env t) = list_of t.
Proof. destruct t as [| | | | | | | | | | |rn fl [[[mn|] [mx|]]|]|]; reflexivity. Qed.

Ltac break_in H :=
  repeat (cbn [obind] in H;
          match type of H with
          | context [match ?x with _ => _ end] => destruct x; try discriminate
          | context [if ?x then _ else _] => destruct x; try discriminate
          end).

Lemma read_string_list_none vt j5 key t' :
  read_string vt None j5 key = Ok t' -> list_of t' = None.
Proof.
  unfold read_string. intro H. cbn [get_list] in H.
  break_in H; inversion H; reflexivity.
Qed.

Lemma read_field_list_none env k vt j5 key t' :
  read_field env k vt None j5 key = Ok t' -> list_of t' = None.
Proof.
  destruct k; cbn [read_field get_list]; intro H;
    try (inversion H; reflexivity);
    try (eapply read_string_list_none; eassumption).
  - apply obind_ok in H as [r [_ H]]. inversion H. reflexivity.
  - break_in H; inversion H; reflexivity.
Qed.

Lemma pat_plain_false p :
  pat_plain (Some p) = false ->
  str_eqb p date_pattern = true \/ str_eqb p number_pattern = true \/ str_eqb p Id62Gen.pattern_string = true.
Proof.
  unfold pat_plain. destruct (str_eqb p date_pattern), (str_eqb p number_pattern), (str_eqb p Id62Gen.pattern_string);
    cbn; intro H; try discriminate; auto.
Qed.

Lemma field_rt_conv env m t w :
  rt_fty m t = false -> write_field env t = Ok w ->
  read_field env (fw_kind w) (vt_seen m w) (list_seen m w) (j5_seen m w) (fw_key w) <> Ok (norm_fty env t).
Proof.
  intros Hrt Hw. unfold rt_fty in Hrt. apply andb_false_iff in Hrt as [Hnl|Hb].
  - (* list rules on a map value *)
    destruct m; try discriminate. cbn [list_seen]. intro H.
    apply read_field_list_none in H. rewrite norm_fty_list in H.
    destruct t; cbn [no_list list_of] in *; try discriminate; destruct l; discriminate.
  - destruct t as [k r l|sf r l|r|r l|r l|f e l|f64 fr l|r l|r l|tr l|od ts l|rn fl orl|rn orr l];
      try (destruct m; discriminate).
    + (* string *)
      inversion Hw; subst w; clear Hw. cbn [fw_kind read_field norm_fty].
      destruct sf as [sf|].
      { (* a declared format is not written; the reader derives "date" / "number" from a
           well-known pattern, and then drops the pattern *)
        unfold vt_seen. cbn [fw_val vt_of].
        destruct r as [[[p|] mn mx]|]; cbn [only_ty c_ty vt_of sr_pat sr_min sr_max];
          unfold read_string; intro H; break_in H; inversion H. }
      destruct r as [[pat mn mx]|]; [|destruct m; discriminate].
      assert (Hp : pat_plain pat = false) by (destruct m; exact Hb).
      destruct pat as [p|]; [|discriminate].
      unfold vt_seen. cbn [fw_val vt_of only_ty c_ty sr_pat sr_min sr_max]. unfold read_string.
      unfold pat_plain in Hp.
      destruct (str_eqb p date_pattern), (str_eqb p number_pattern), (str_eqb p Id62Gen.pattern_string);
        try discriminate Hp; cbn [is_some]; intro H; break_in H; inversion H.
    + (* key *)
      apply obind_ok in Hw as [lst [Hl Hw]]. inversion Hw; subst w; clear Hw.
      destruct id62_not_wellknown as [Hd Hn].
      cbn [fw_kind read_field norm_fty]. unfold vt_seen. cbn [fw_val fw_list fw_ext fw_key].
      destruct f as [[|p| |]|].
      * (* informal, not singular *)
        destruct m; try discriminate; cbn [j5_seen list_seen];
          destruct l as [p0|]; try discriminate; inversion Hl; subst lst;
          unfold read_string; cbn; destruct e; cbn; discriminate.
      * (* custom *)
        destruct m.
        -- (* singular: the id62 pattern, or a well-known pattern under list rules *)
           cbn [j5_seen list_seen fw_ext fw_list]. apply andb_false_iff in Hb as [Hp|Hls].
           ++ apply negb_false_iff in Hp. apply str_eqb_eq in Hp. subst p.
              unfold read_string. cbn [vt_of only_ty c_ty]. rewrite Hd, Hn, str_eqb_refl.
              intro H. break_in H; inversion H.
           ++ destruct l as [p0|]; [|discriminate]. inversion Hl; subst lst.
              cbn [is_some negb orb] in Hls.
              unfold read_string. cbn [vt_of only_ty c_ty].
              destruct (str_eqb p date_pattern); [cbn; discriminate|].
              destruct (str_eqb p number_pattern); [cbn; discriminate|]. discriminate Hls.
        -- cbn [j5_seen list_seen]. unfold read_string. intro H. break_in H; inversion H.
        -- cbn [j5_seen list_seen]. unfold read_string. intro H. break_in H; inversion H.
      * destruct m; discriminate.
      * destruct m; discriminate.
      * (* no format *)
        destruct l as [p0|].
        -- inversion Hl; subst lst.
           destruct m; cbn [j5_seen list_seen fw_ext fw_list]; unfold read_string; cbn;
             intro H; break_in H; inversion H.
        -- inversion Hl; subst lst. destruct m; try discriminate;
             destruct e; try discriminate; cbn [j5_seen list_seen]; unfold read_string; cbn; discriminate.
    + (* date *)
      inversion Hw; subst w; clear Hw. destruct m, r; try discriminate;
        cbn [fw_kind read_field norm_fty j5_seen]; discriminate.
    + (* decimal *)
      inversion Hw; subst w; clear Hw. destruct m, r; try discriminate;
        cbn [fw_kind read_field norm_fty j5_seen]; discriminate.
    + (* timestamp: bounds are not written *)
      inversion Hw; subst w; clear Hw.
      destruct tr as [[[mn|] [mx|] xmn xmx]|]; destruct m; try discriminate;
        unfold vt_seen; cbn [fw_kind fw_val read_field norm_fty vt_of only_ty c_ty];
        intro H; inversion H.
    + (* any *)
      inversion Hw; subst w; clear Hw. destruct m; try discriminate;
        cbn [fw_kind read_field norm_fty j5_seen]; intro H; inversion H; subst; discriminate.
    + (* object: property counts are not written; flatten not inside arrays / maps *)
      inversion Hw; subst w; clear Hw.
      destruct orl as [[[mn|] [mx|]]|]; destruct m, fl; try discriminate;
        cbn [fw_kind read_field norm_fty j5_seen fw_ext]; intro H; inversion H.
Qed.

(* ---------------------------------------------------------------- one property *)
Lemma kind_not_map env t w : write_field env t = Ok w -> forall v, fw_kind w <> KdMapEntry v.
Proof.
  intros Hw v.
  destruct t as [k r l|sf r l|r|r l|r l|f e l|f64 fr l|r l|r l|tr l|od ts l|rn fl orl|rn orr l]; cbn [write_field] in Hw; try (destruct fr; [discriminate Hw|]);
    try (apply obind_ok in Hw as [x [Hx Hw]]); inversion Hw; subst w; cbn [fw_kind];
    try discriminate.
  - destruct k; discriminate.
  - destruct f64; discriminate.
Qed.

Lemma write_field_primary_ty env t w :
  write_field env t = Ok w ->
  match fw_key w with Some k => kx_primary k | None => false end = is_primary_ty t.
Proof.
  intro Hw.
  destruct t as [k r l|sf r l|r|r l|r l|f e l|f64 fr l|r l|r l|tr l|od ts l|rn fl orl|rn orr l]; cbn [write_field] in Hw; try (destruct fr; [discriminate Hw|]);
    try (apply obind_ok in Hw as [x [Hx Hw]]);
    inversion Hw; subst w; cbn [fw_key is_primary_ty]; try reflexivity.
  destruct e as [[ty tn]|]; [|reflexivity]. cbn. destruct ty as [[[|]|]|]; reflexivity.
Qed.

Lemma vt_set_required v : vt_of (set_required v) = vt_of v.
Proof. destruct v; reflexivity. Qed.

Lemma req_of_val env t w (required : bool) :
  write_field env t = Ok w ->
  match (if required then set_required (fw_val w) else fw_val w) with
  | Some c => c_req c
  | None => false
  end = required.
Proof.
  intro Hw. destruct required.
  - destruct (fw_val w); reflexivity.
  - destruct (fw_val w) as [c|] eqn:E; [|reflexivity]. eapply write_field_noreq; eauto.
Qed.

Lemma desc_plain_eq d : desc_plain d = true -> clean_desc d = d.
Proof. unfold desc_plain. apply str_eqb_eq. Qed.

(* whether the declared item type carries a constraint, and whether the writer emits one *)
Lemma write_field_constrained env t w :
  write_field env t = Ok w -> is_some (fw_val w) = items_constrained t.
Proof.
  intro Hw.
  destruct t as [k r l|sf r l|r|r l|r l|f e l|f64 fr l|r l|r l|tr l|od ts l|rn fl orl|rn orr l]; cbn [write_field] in Hw; try (destruct fr; [discriminate Hw|]);
    try (apply obind_ok in Hw as [x [Hx Hw]]);
    inversion Hw; subst w; cbn [fw_val items_constrained]; try reflexivity.
  - destruct r as [r|].
    + apply obind_ok in Hx as [c [_ Hx]]. inversion Hx. reflexivity.
    + inversion Hx. reflexivity.
  - destruct r; reflexivity.
  - destruct r; reflexivity.
  - destruct r; reflexivity.
  - destruct f as [[| | |]|]; reflexivity.
  - destruct tr; reflexivity.
  - destruct orl; reflexivity.
  - destruct orr; reflexivity.
Qed.

(* the writer never emits the typeless marker as a type; what the reader sees of an item constraint *)
Lemma write_field_not_empty env t w c :
  write_field env t = Ok w -> fw_val w = Some c -> c_ty c <> Some CEmpty.
Proof.
  intros Hw Hc.
  destruct t as [k r l|sf r l|r|r l|r l|f e l|f64 fr l|r l|r l|tr l|od ts l|rn fl orl|rn orr l]; cbn [write_field] in Hw; try (destruct fr; [discriminate Hw|]);
    try (apply obind_ok in Hw as [x [Hx Hw]]);
    inversion Hw as [Hweq]; rewrite <- Hweq in Hc; cbn [fw_val] in Hc; try discriminate.
  - destruct r as [r|].
    + apply obind_ok in Hx as [c0 [Hc0 Hx]]. inversion Hx as [Hxeq]. rewrite <- Hxeq in Hc.
      inversion Hc as [Hceq]. cbn.
      apply write_int_ok in Hc0 as [_ Hc0]. rewrite Hc0. discriminate.
    + inversion Hx as [Hxeq]. rewrite <- Hxeq in Hc. discriminate.
  - destruct r; inversion Hc; subst; discriminate.
  - destruct r; inversion Hc; subst; discriminate.
  - destruct r; inversion Hc; subst; discriminate.
  - inversion Hc; subst; discriminate.
  - destruct f as [[| | |]|]; inversion Hc; subst; discriminate.
  - destruct tr; inversion Hc; subst; discriminate.
  - destruct orl; inversion Hc; subst; discriminate.
  - destruct orr; inversion Hc; subst; discriminate.
Qed.

Lemma strip_item env t w :
  write_field env t = Ok w -> strip_empty (item_tyc (fw_val w)) = vt_of (fw_val w).
Proof.
  intro Hw. destruct (fw_val w) as [c|] eqn:E; [|reflexivity]. cbn [item_tyc vt_of].
  pose proof (write_field_not_empty env t w c Hw E) as Hn.
  destruct (c_ty c) as [tc|]; [|reflexivity]. destruct tc; try reflexivity. congruence.
Qed.

(* the description: written as declared, read through commentDescription *)
Lemma write_prop_desc env idx d o : write_prop env idx d = Ok o -> fo_desc o = p_desc d.
Proof.
  unfold write_prop. intro H. apply obind_ok in H as [w [_ H]].
  match type of H with (if ?c then _ else _) = _ => destruct c; [discriminate|] end.
  inversion H. reflexivity.
Qed.

Lemma read_prop_desc env o r : read_prop env o = Ok r -> p_desc (rp_prop r) = clean_desc (fo_desc o).
Proof.
  unfold read_prop. intro H.
  destruct (fo_kind o); try (destruct (fo_rep o));
    repeat match type of H with
           | (let '(_, _) := ?x in _) = _ => destruct x
           end;
    apply obind_ok in H as [t [_ H]]; inversion H; reflexivity.
Qed.

Theorem c04_prop env idx d o :
  zero_std env = true ->
  rt_ok d = true -> write_prop env idx d = Ok o ->
  read_prop env o = Ok (norm_prop env idx d).
Proof.
  intros Hstd Hrt Hw.
  destruct d as [name req opt ty desc]. unfold rt_ok in Hrt. cbn [p_ty p_opt p_desc] in Hrt.
  apply andb_true_iff in Hrt as [Hdesc Hrt]. apply desc_plain_eq in Hdesc.
  unfold write_prop in Hw. cbn [p_name p_req p_opt p_ty p_desc] in Hw.
  apply obind_ok in Hw as [w [Hwf Hw]].
  destruct ty as [t|r sf t|r t].
  - (* singular *)
    pose proof (write_field_primary_ty env t w Hwf) as Hprim.
    assert (Hw' : (if opt && (req || is_primary_ty t) then Err "cannot be both required and optional"
                   else Ok (FO name (Strcase.to_snake name) (idx + 1)%N (fw_kind w) false opt (opt || is_msg_kind (fw_kind w))
                              (if req || is_primary_ty t then set_required (fw_val w) else fw_val w)
                              (fw_ext w) (fw_list w) (fw_key w) desc)) = Ok o).
    { rewrite <- Hprim. destruct (fw_key w); exact Hw. }
    clear Hw. set (required := req || is_primary_ty t) in *.
    destruct (opt && required) eqn:Eor; [discriminate|]. inversion Hw'; subst o; clear Hw'.
    unfold read_prop.
    cbn [fo_kind fo_rep fo_val fo_list fo_ext fo_key fo_json fo_number fo_desc fo_opt].
    pose proof (kind_not_map env t w Hwf) as Hk.
    destruct (fw_kind w) eqn:Ek; try (exfalso; eapply Hk; reflexivity);
      rewrite <- Ek;
      pose proof (field_rt env MSingle t w Hstd Hrt Hwf) as Hf;
      unfold vt_seen in Hf; cbn [list_seen j5_seen] in Hf;
      replace (match (if required then set_required (fw_val w) else fw_val w) with
               | Some c => c_ty c | None => None end) with (vt_of (fw_val w))
        by (destruct required; [rewrite <- vt_set_required|]; reflexivity);
      rewrite Hf; cbn [obind];
      rewrite (req_of_val env t w required Hwf);
      unfold norm_prop; cbn [p_name p_req p_opt p_ty p_desc]; fold required;
      replace (negb required && opt) with opt by (destruct required, opt; try reflexivity; discriminate);
      rewrite Hdesc; reflexivity.
  - (* array *)
    apply andb_true_iff in Hrt as [Hrt Hopt]. apply negb_true_iff in Hopt. subst opt.
    apply obind_ok in Hwf as [wi [Hwt Hwa]]. inversion Hwa; subst w; clear Hwa.
    pose proof (write_field_primary_ty env t wi Hwt) as Hprim.
    cbn [wrap_array fw_key fw_kind fw_val fw_ext fw_list andb] in Hw.
    assert (Hw' : Ok (FO name (Strcase.to_snake name) (idx + 1)%N (fw_kind wi) true false false
                         (if req || is_primary_ty t then set_required (fw_val (wrap_array r sf wi)) else fw_val (wrap_array r sf wi))
                         (Some (XArray sf)) (fw_list wi) (fw_key wi) desc) = Ok o).
    { rewrite <- Hprim. destruct (fw_key wi); exact Hw. }
    clear Hw. set (required := req || is_primary_ty t) in *.
    inversion Hw'; subst o; clear Hw'.
    unfold read_prop.
    cbn [fo_kind fo_rep fo_val fo_list fo_ext fo_key fo_json fo_number fo_desc fo_opt].
    pose proof (kind_not_map env t wi Hwt) as Hk.
    pose proof (field_rt env MArray t wi Hstd Hrt Hwt) as Hf.
    unfold vt_seen in Hf; cbn [list_seen j5_seen] in Hf.
    destruct (fw_kind wi) eqn:Ek; try (exfalso; eapply Hk; reflexivity);
      lazy iota beta;
      unfold norm_prop; cbn [p_name p_req p_opt p_ty p_desc]; fold required;
      rewrite <- (write_field_constrained env t wi Hwt);
      pose proof (strip_item env t wi Hwt) as Hsi;
      destruct required; destruct r as [[mn mx uq]|]; destruct (fw_val wi) as [c|] eqn:Ev;
      cbn [set_required is_some orb only_ty c_ty c_req ar_min ar_max ar_uniq vt_of] in *;
      try (rewrite Ev in Hsi); cbn [vt_of] in Hsi; rewrite ?Hsi; cbn [strip_empty item_tyc]; rewrite Hf, Hdesc; reflexivity.
  - (* map *)
    apply andb_true_iff in Hrt as [Hrt Hopt]. apply negb_true_iff in Hopt. subst opt.
    apply obind_ok in Hwf as [wi [Hwt Hwa]]. inversion Hwa; subst w; clear Hwa.
    cbn [wrap_map fw_key fw_kind fw_val fw_ext fw_list andb orb] in Hw.
    rewrite orb_false_r in Hw. inversion Hw; subst o; clear Hw.
    unfold read_prop.
    cbn [fo_kind fo_rep fo_val fo_list fo_ext fo_key fo_json fo_number fo_desc fo_opt].
    pose proof (field_rt env MMap t wi Hstd Hrt Hwt) as Hf.
    unfold vt_seen in Hf; cbn [list_seen j5_seen] in Hf.
    unfold norm_prop. cbn [p_name p_req p_opt p_ty p_desc]. rewrite orb_false_r.
    rewrite <- (write_field_constrained env t wi Hwt).
    pose proof (strip_item env t wi Hwt) as Hsi.
    destruct req; destruct r as [[mn mx]|]; destruct (fw_val wi) as [c|] eqn:Ev;
      cbn [set_required is_some orb only_ty c_ty c_req mr_min mr_max vt_of] in *;
      try (rewrite Ev in Hsi); cbn [vt_of] in Hsi; rewrite ?Hsi; cbn [strip_empty item_tyc]; rewrite Hf, Hdesc; reflexivity.
Qed.


(* the converse, for properties *)
Lemma c04_prop_conv env idx d o :
  rt_ok d = false -> write_prop env idx d = Ok o ->
  read_prop env o <> Ok (norm_prop env idx d).
Proof.
  intros Hrt Hw.
  unfold rt_ok in Hrt. apply andb_false_iff in Hrt as [Hdesc|Hrt].
  { (* the description does not survive commentDescription *)
    intro H. apply read_prop_desc in H. rewrite (write_prop_desc env idx d o Hw) in H.
    unfold norm_prop in H. cbn [rp_prop p_desc] in H.
    unfold desc_plain in Hdesc. rewrite <- H, str_eqb_refl in Hdesc. discriminate. }
  destruct d as [name req opt ty desc]. cbn [p_ty p_opt] in Hrt.
  unfold write_prop in Hw. cbn [p_name p_req p_opt p_ty p_desc] in Hw.
  apply obind_ok in Hw as [w [Hwf Hw]].
  destruct ty as [t|r sf t|r t].
  - (* singular *)
    pose proof (write_field_primary_ty env t w Hwf) as Hprim.
    assert (Hw' : (if opt && (req || is_primary_ty t) then Err "cannot be both required and optional"
                   else Ok (FO name (Strcase.to_snake name) (idx + 1)%N (fw_kind w) false opt (opt || is_msg_kind (fw_kind w))
                              (if req || is_primary_ty t then set_required (fw_val w) else fw_val w)
                              (fw_ext w) (fw_list w) (fw_key w) desc)) = Ok o).
    { rewrite <- Hprim. destruct (fw_key w); exact Hw. }
    clear Hw. set (required := req || is_primary_ty t) in *.
    destruct (opt && required) eqn:Eor; [discriminate|]. inversion Hw'; subst o; clear Hw'.
    pose proof (field_rt_conv env MSingle t w Hrt Hwf) as Hc.
    unfold vt_seen in Hc; cbn [list_seen j5_seen] in Hc.
    unfold read_prop.
    cbn [fo_kind fo_rep fo_val fo_list fo_ext fo_key fo_json fo_number fo_desc fo_opt].
    pose proof (kind_not_map env t w Hwf) as Hk.
    replace (match (if required then set_required (fw_val w) else fw_val w) with
             | Some c => c_ty c | None => None end) with (vt_of (fw_val w))
      by (destruct required; [rewrite <- vt_set_required|]; reflexivity).
    destruct (fw_kind w) eqn:Ek; try (exfalso; eapply Hk; reflexivity);
      destruct (read_field env _ (vt_of (fw_val w)) (fw_list w) (fw_ext w) (fw_key w)) as [t'| | |];
      cbn [obind]; intro H; try discriminate;
      apply Hc; unfold norm_prop in H; cbn [p_ty] in H; inversion H; reflexivity.
  - (* array *)
    apply obind_ok in Hwf as [wi [Hwt Hwa]]. inversion Hwa; subst w; clear Hwa.
    pose proof (write_field_primary_ty env t wi Hwt) as Hprim.
    cbn [wrap_array fw_key fw_kind fw_val fw_ext fw_list] in Hw.
    assert (Hw' : (if opt && (req || is_primary_ty t) then Err "cannot be both required and optional"
                   else Ok (FO name (Strcase.to_snake name) (idx + 1)%N (fw_kind wi) true false false
                         (if req || is_primary_ty t then set_required (fw_val (wrap_array r sf wi)) else fw_val (wrap_array r sf wi))
                         (Some (XArray sf)) (fw_list wi) (fw_key wi) desc)) = Ok o).
    { rewrite <- Hprim. destruct (fw_key wi); exact Hw. }
    clear Hw. set (required := req || is_primary_ty t) in *.
    destruct (opt && required) eqn:Eor; [discriminate|]. inversion Hw'; subst o; clear Hw'.
    unfold read_prop.
    cbn [fo_kind fo_rep fo_val fo_list fo_ext fo_key fo_json fo_number fo_desc fo_opt].
    pose proof (kind_not_map env t wi Hwt) as Hk.
    apply andb_false_iff in Hrt as [Hrt|Hopt].
    + pose proof (field_rt_conv env MArray t wi Hrt Hwt) as Hc.
      unfold vt_seen in Hc; cbn [list_seen j5_seen] in Hc.
      destruct (fw_kind wi) eqn:Ek; try (exfalso; eapply Hk; reflexivity);
        lazy iota beta;
        unfold norm_prop; cbn [p_name p_req p_opt p_ty p_desc];
        pose proof (strip_item env t wi Hwt) as Hsi;
        destruct required; destruct r as [[mn mx uq]|]; destruct (fw_val wi) as [c|] eqn:Ev;
        cbn [wrap_array fw_val set_required is_some orb only_ty c_ty c_req ar_min ar_max ar_uniq vt_of] in *;
        try (rewrite Ev in Hsi); cbn [vt_of] in Hsi; rewrite ?Hsi; cbn [strip_empty item_tyc];
        match goal with
        | |- obind ?rf _ <> _ => destruct rf as [t'| | |]; cbn [obind]; intro H; try discriminate;
                                 apply Hc; inversion H; reflexivity
        end.
    + apply negb_false_iff in Hopt. subst opt.
      destruct (fw_kind wi) eqn:Ek; try (exfalso; eapply Hk; reflexivity);
        lazy iota beta;
        match goal with
        | |- (let '(_, _) := ?x in _) <> _ => destruct x as [rules items]
        end;
        match goal with
        | |- obind ?rf _ <> _ => destruct rf as [t'| | |]; cbn [obind]; intro H; try discriminate;
                                 unfold norm_prop in H; cbn [p_opt] in H; inversion H
        end.
  - (* map *)
    apply obind_ok in Hwf as [wi [Hwt Hwa]]. inversion Hwa; subst w; clear Hwa.
    cbn [wrap_map fw_key fw_kind fw_val fw_ext fw_list andb orb] in Hw.
    rewrite orb_false_r in Hw.
    destruct (opt && req) eqn:Eor; [discriminate|]. inversion Hw; subst o; clear Hw.
    unfold read_prop.
    cbn [fo_kind fo_rep fo_val fo_list fo_ext fo_key fo_json fo_number fo_desc fo_opt].
    apply andb_false_iff in Hrt as [Hrt|Hopt].
    + pose proof (field_rt_conv env MMap t wi Hrt Hwt) as Hc.
      unfold vt_seen in Hc; cbn [list_seen j5_seen] in Hc.
      unfold norm_prop; cbn [p_name p_req p_opt p_ty p_desc].
      pose proof (strip_item env t wi Hwt) as Hsi.
      destruct req; destruct r as [[mn mx]|]; destruct (fw_val wi) as [c|] eqn:Ev;
        cbn [set_required is_some orb only_ty c_ty c_req mr_min mr_max vt_of] in *;
        try (rewrite Ev in Hsi); cbn [vt_of] in Hsi; rewrite ?Hsi; cbn [strip_empty item_tyc];
        match goal with
        | |- obind ?rf _ <> _ => destruct rf as [t'| | |]; cbn [obind]; intro H; try discriminate;
                                 apply Hc; inversion H; reflexivity
        end.
    + apply negb_false_iff in Hopt. subst opt.
      match goal with
      | |- (let '(_, _) := ?x in _) <> _ => destruct x as [rules values]
      end;
      match goal with
      | |- obind ?rf _ <> _ => destruct rf as [t'| | |]; cbn [obind]; intro H; try discriminate;
                               unfold norm_prop in H; cbn [p_opt] in H; inversion H
      end.
Qed.

(* a property reads back as declared exactly when it lies in the fragment *)
Theorem c04_prop_exact env idx d o :
  zero_std env = true ->
  write_prop env idx d = Ok o ->
  (read_prop env o = Ok (norm_prop env idx d) <-> rt_ok d = true).
Proof.
  intros Hstd Hw. split.
  - intro H. destruct (rt_ok d) eqn:E; [reflexivity|]. exfalso. exact (c04_prop_conv env idx d o E Hw H).
  - intro H. exact (c04_prop env idx d o Hstd H Hw).
Qed.

(* ---------------------------------------------------------------- objects *)
(* norm_props_from / norm_object / norm_root: model/RulesRead.v *)

Lemma c04_props_from env ds : forall idx os,
  zero_std env = true ->
  forallb rt_ok ds = true -> write_props_from env idx ds = Ok os ->
  read_object env os = Ok (norm_props_from env idx ds).
Proof.
  induction ds as [|d r IH]; intros idx os Hstd Hrt Hw; cbn in Hw.
  - inversion Hw. reflexivity.
  - cbn [forallb] in Hrt. apply andb_true_iff in Hrt as [Hd Hr].
    apply obind_ok in Hw as [o [Ho Hw]]. apply obind_ok in Hw as [os' [Hos Hw]].
    inversion Hw; subst os. cbn [read_object norm_props_from].
    rewrite (c04_prop env idx d o Hstd Hd Ho). cbn [obind].
    rewrite (IH (idx + 1)%N os' Hstd Hr Hos). reflexivity.
Qed.

Theorem c04_object env ds os :
  zero_std env = true ->
  forallb rt_ok ds = true -> write_object env ds = Ok os ->
  read_object env os = Ok (norm_object env ds).
Proof. apply c04_props_from. Qed.

Lemma c04_props_from_exact env ds : forall idx os,
  zero_std env = true ->
  write_props_from env idx ds = Ok os ->
  (read_object env os = Ok (norm_props_from env idx ds) <-> forallb rt_ok ds = true).
Proof.
  induction ds as [|d r IH]; intros idx os Hstd Hw; cbn in Hw.
  - inversion Hw. split; reflexivity.
  - apply obind_ok in Hw as [o [Ho Hw]]. apply obind_ok in Hw as [os' [Hos Hw]].
    inversion Hw; subst os. cbn [read_object norm_props_from forallb].
    split.
    + intro H. destruct (read_prop env o) as [p| | |] eqn:Ep; cbn [obind] in H; try discriminate.
      destruct (read_object env os') as [ps| | |] eqn:Eps; cbn [obind] in H; try discriminate.
      inversion H; subst.
      apply andb_true_iff. split.
      * apply (c04_prop_exact env idx d o Hstd Ho). exact Ep.
      * apply (IH (idx + 1)%N os' Hstd Hos). exact Eps.
    + intro H. apply andb_true_iff in H as [Hd Hr].
      rewrite (c04_prop env idx d o Hstd Hd Ho). cbn [obind].
      rewrite (proj2 (IH (idx + 1)%N os' Hstd Hos) Hr). reflexivity.
Qed.

(* an object reads back as declared exactly when all its properties lie in the fragment *)
Theorem c04_object_exact env ds os :
  zero_std env = true ->
  write_object env ds = Ok os ->
  (read_object env os = Ok (norm_object env ds) <-> forallb rt_ok ds = true).
Proof. apply c04_props_from_exact. Qed.

(* ---------------------------------------------------------------- root schemas *)
(* the root schema a declaration denotes: kind, name and description as declared, the properties in normal form *)

Theorem c04_root env d o :
  zero_std env = true -> rt_root d = true ->
  write_root env d = Ok o -> read_root env o = Ok (norm_root env d).
Proof.
  intros Hstd Hrt Hw. unfold rt_root in Hrt. apply andb_true_iff in Hrt as [Hd Hps].
  unfold write_root in Hw. apply obind_ok in Hw as [os [Hos Hw]]. inversion Hw; subst o; clear Hw.
  unfold read_root. cbn [ro_msgopt ro_fields ro_name ro_comment].
  rewrite (c04_object env (rd_props d) os Hstd Hps Hos). cbn [obind].
  rewrite (desc_plain_eq _ Hd). reflexivity.
Qed.

Theorem c04_root_exact env d o :
  zero_std env = true -> write_root env d = Ok o ->
  (read_root env o = Ok (norm_root env d) <-> rt_root d = true).
Proof.
  intros Hstd Hw. split; [|intro H; exact (c04_root env d o Hstd H Hw)].
  unfold write_root in Hw. apply obind_ok in Hw as [os [Hos Hw]]. inversion Hw; subst o; clear Hw.
  unfold read_root, norm_root, rt_root. cbn [ro_msgopt ro_fields ro_name ro_comment].
  destruct (read_object env os) as [ps| | |] eqn:Er; cbn [obind]; intro H; try discriminate.
  injection H as Hdesc Hps. apply andb_true_iff. split.
  - unfold desc_plain. apply str_eqb_eq. exact Hdesc.
  - apply (c04_object_exact env (rd_props d) os Hstd Hos). rewrite Er, Hps. reflexivity.
Qed.

(* ---------------------------------------------------------------- names, order, paths: for EVERY compiled object *)
(* whatever else is lost, a reflected object has the declared property names in
   the declared order and the proto field paths [1], [2], ... — also outside the
   fragment (no rt_ok hypothesis) *)
Lemma read_prop_name_path env o r :
  read_prop env o = Ok r -> p_name (rp_prop r) = fo_json o /\ rp_path r = [fo_number o].
Proof.
  unfold read_prop. intro H.
  destruct (fo_kind o); try (destruct (fo_rep o));
    repeat match type of H with
           | (let '(_, _) := ?x in _) = _ => destruct x
           end;
    apply obind_ok in H as [t [_ H]]; inversion H; split; reflexivity.
Qed.

Lemma write_prop_name_number env idx d o :
  write_prop env idx d = Ok o -> fo_json o = p_name d /\ fo_number o = (idx + 1)%N.
Proof.
  unfold write_prop. intro H. apply obind_ok in H as [w [_ H]].
  match type of H with (if ?c then _ else _) = _ => destruct c; [discriminate|] end.
  inversion H. split; reflexivity.
Qed.

Theorem read_names_paths env ds : forall idx os rs,
  write_props_from env idx ds = Ok os -> read_object env os = Ok rs ->
  map (fun r => p_name (rp_prop r)) rs = map p_name ds /\
  map rp_path rs = map (fun i => [(idx + N.of_nat i)%N]) (seq 1 (length ds)).
Proof.
  induction ds as [|d r IH]; intros idx os rs Hw Hr; cbn in Hw.
  - inversion Hw; subst. cbn in Hr. inversion Hr. split; reflexivity.
  - apply obind_ok in Hw as [o [Ho Hw]]. apply obind_ok in Hw as [os' [Hos Hw]].
    inversion Hw; subst os. cbn [read_object] in Hr.
    apply obind_ok in Hr as [p [Hp Hr]]. apply obind_ok in Hr as [ps [Hps Hr]]. inversion Hr; subst rs.
    destruct (read_prop_name_path env o p Hp) as [Hn Hpath].
    destruct (write_prop_name_number env idx d o Ho) as [Hj Hnum].
    destruct (IH (idx + 1)%N os' ps Hos Hps) as [IHn IHp].
    cbn [map length seq]. split.
    + rewrite Hn, Hj, IHn. reflexivity.
    + rewrite Hpath, Hnum, IHp.
      assert (Ht : map (fun i : nat => [(idx + 1 + N.of_nat i)%N]) (seq 1 (length r))
                   = map (fun i : nat => [(idx + N.of_nat i)%N]) (seq 2 (length r))).
      { rewrite <- (seq_shift (length r) 1), map_map. apply map_ext. intro i. f_equal.
        rewrite Nat2N.inj_succ. lia. }
      rewrite Ht. reflexivity.
Qed.

Theorem c04_names_order_paths env ds os rs :
  write_object env ds = Ok os -> read_object env os = Ok rs ->
  map (fun r => p_name (rp_prop r)) rs = map p_name ds /\
  map rp_path rs = map (fun i => [N.of_nat i]) (seq 1 (length ds)).
Proof.
  intros Hw Hr. destruct (read_names_paths env ds 0%N os rs Hw Hr) as [H1 H2]. split; [exact H1|].
  rewrite H2. apply map_ext. intro i. reflexivity.
Qed.

(* the normal form changes no meaning: the declared rules of the normal form
   accept exactly the values the declaration accepts (ties C04's notion of
   "the same schema" to C12's semantics) *)
Lemma norm_int_ok r z : int_rule_ok (norm_int r) z = int_rule_ok r z.
Proof.
  unfold int_rule_ok, norm_int. destruct r as [mn mx xmn xmx]. cbn [ir_min ir_max ir_xmin ir_xmax].
  destruct mn, mx, xmn as [[|]|], xmx as [[|]|]; reflexivity.
Qed.
(* ... stated on the declarative specification (model/RulesSpec.v) *)
Lemma norm_int_sem r z : int_sem (norm_int r) z <-> int_sem r z.
Proof. rewrite <- !int_rule_ok_spec, norm_int_ok. reflexivity. Qed.

(* ---------------------------------------------------------------- enums as roots *)
From J5V.model Require Import RulesEnum.

Lemma has_suffix_app p suf : has_suffix suf (p ++ suf) = true.
Proof. unfold has_suffix. rewrite rev_app_distr. apply has_prefix_app. Qed.

Lemma trim_suffix_app p suf : trim_suffix suf (p ++ suf) = p.
Proof.
  unfold trim_suffix. rewrite has_suffix_app. rewrite rev_app_distr, strip_prefix_app. apply rev_involutive.
Qed.

Lemma write_enum_first e :
  unspec_ok e = true ->
  exists d inf rest, eo_values (write_enum e) = ((ed_prefix e ++ unspecified)%list, 0%Z, d, inf) :: rest.
Proof.
  intros _. unfold write_enum. cbn [eo_values].
  destruct (ed_options e) as [|[[n d] inf] r]; [eauto|].
  destruct (is_zero_opt (ed_prefix e) n) eqn:Ez; [|eauto].
  apply str_eqb_eq in Ez. rewrite Ez. eauto.
Qed.

Lemma trim_pfx p n : trim_prefix p (pfx p n) = trim_prefix p n.
Proof.
  unfold pfx. destruct (has_prefix p n) eqn:E; [reflexivity|].
  unfold trim_prefix. rewrite has_prefix_app, strip_prefix_app, E. reflexivity.
Qed.

Lemma read_numbered p os : forall i,
  forallb (fun o => desc_plain (snd (fst o))) os = true ->
  map (fun v => match v with (n, k, d, inf) => (trim_prefix p n, k, clean_desc d, inf) end) (number_from p i os)
  = number_options p i os.
Proof.
  induction os as [|[[n d] inf] r IH]; intros i H; [reflexivity|].
  cbn [forallb snd fst] in H. apply andb_true_iff in H as [Hd Hr].
  cbn [number_from number_options map]. rewrite trim_pfx, (desc_plain_eq d Hd), (IH (i + 1)%Z Hr). reflexivity.
Qed.

Lemma has_suffix_refl s : has_suffix s s = true.
Proof. unfold has_suffix. rewrite <- (app_nil_r (rev s)) at 2. apply has_prefix_app. Qed.

Theorem c04_enum e : enum_rt e = true -> read_enum (write_enum e) = Ok (norm_enum e).
Proof.
  intro H. unfold enum_rt in H. apply andb_true_iff in H as [H Hos]. apply andb_true_iff in H as [Hu Hd].
  destruct (write_enum_first e Hu) as [d0 [inf0 [rest Hv]]].
  unfold read_enum. rewrite Hv. rewrite has_suffix_app. cbn [negb]. rewrite trim_suffix_app.
  rewrite <- Hv. clear Hv d0 inf0 rest.
  unfold norm_enum, write_enum. cbn [eo_desc eo_values eo_info]. rewrite (desc_plain_eq _ Hd). f_equal. f_equal.
  unfold unspec_ok in Hu.
  destruct (ed_options e) as [|[[n d] inf] r] eqn:Eo.
  - cbn [map]. unfold trim_prefix. rewrite has_prefix_app, strip_prefix_app. reflexivity.
  - cbn [forallb snd fst] in Hos. apply andb_true_iff in Hos as [Hd0 Hr].
    destruct (is_zero_opt (ed_prefix e) n) eqn:Ez.
    + apply eqb_prop in Hu. rewrite Hu. cbn [map]. apply str_eqb_eq in Ez. rewrite Ez.
      unfold trim_prefix at 1. rewrite has_prefix_app, strip_prefix_app, (desc_plain_eq d Hd0).
      rewrite (read_numbered (ed_prefix e) r 1%Z Hr). reflexivity.
    + apply eqb_prop in Hu. rewrite Hu. cbn [map]. unfold trim_prefix at 1. rewrite has_prefix_app, strip_prefix_app. cbn [clean_desc].
      assert (Hall : forallb (fun o => desc_plain (snd (fst o))) ((n, d, inf) :: r) = true)
        by (cbn [forallb snd fst]; rewrite Hd0, Hr; reflexivity).
      rewrite (read_numbered (ed_prefix e) ((n, d, inf) :: r) 1%Z Hall). reflexivity.
Qed.

(* ---------------------------------------------------------------- the printed text *)
(* Reflection depends on a field only through [c04_proj]. Hence: if printing and
   re-parsing a file preserves that view of every field (C05's subject; checked
   on every generated object by the correspondence stream C04Text), the schema
   reflected from the text is the schema reflected from memory. *)
Lemma read_prop_view env o o' : c04_proj o = c04_proj o' -> read_prop env o = read_prop env o'.
Proof.
  intro H. unfold c04_proj in H. inversion H as [[Hj Hn Hk Hr Ho Hv He Hl Hky Hd]].
  unfold read_prop. rewrite Hj, Hn, Hk, Hr, Ho, Hv, He, Hl, Hky, Hd. reflexivity.
Qed.

Theorem c04_text_clause env : forall os os',
  Forall2 (fun o o' => c04_proj o = c04_proj o') os os' ->
  read_object env os' = read_object env os.
Proof.
  intros os os' H. induction H as [|o o' r r' Ho Hr IH]; [reflexivity|].
  cbn [read_object]. rewrite (read_prop_view env o o' Ho). rewrite IH. reflexivity.
Qed.

(* CodecEncRepTie.v — the C01 statement over the decoder family's byte-level, Go-tied model
   (CodecDec.decode_bytes on the encoder's text) with DECIDED preconditions: the two booleans
   env_static_b (schema) and rep_root_b (message) that the correspondence evaluates on every
   round-trip case of every run. *)
From Coq Require Import String List NArith ZArith Bool Lia.
From J5V.lib Require Import Outcome Json JsonPrint.
From J5V.model Require Import CodecTypes CodecEnc CodecEncSpec CodecEncDec.
From J5V.model Require CodecDecScalar CodecDec CodecDecTree.
From J5V.proofs Require Import CodecEncProofs CodecEncDecProofs CodecEncTotal CodecEncDecTie CodecEncRep.
Import ListNotations.
Local Open Scope N_scope.

Module DS := J5V.model.CodecDecScalar.
Module DD := J5V.model.CodecDec.
Module DT := J5V.model.CodecDecTree.

(* with the default codec (no WithProtoToAny) the decider does not look at the payload spelling *)
(* (back_ok_b raw None _ _ computes to true, so the two fixpoints are convertible) *)
Lemma rep_root_b_raw any_inner raw1 raw2 env fuel root m :
  rep_root_b any_inner raw1 None env fuel root m = rep_root_b any_inner raw2 None env fuel root m.
Proof. reflexivity. Qed.

Section DecidedBytes.
  Variable fmt_float : bool -> N -> bytes.
  Variable any_inner : bytes -> bytes -> outcome bytes.
  Variable orc : DS.oracles.
  Variable env : env.
  Hypothesis Hfloat_ok : float_text_ok fmt_float.
  Hypothesis Hfloat : orc_float_ok fmt_float orc.
  Hypothesis Htime : orc_time_ok orc.
  Hypothesis Hdecimal : orc_decimal_ok orc.
  Hypothesis Hinner : inner_ok any_inner.
  Hypothesis Hstatic : env_static_b env = true.

  Theorem codec_full_bytes_decided fuel root m :
    rep_root_b any_inner print None env fuel root m = true ->
    exists txt J, encode fmt_float any_inner env root m = Ok txt /\ txt = print J /\ wfb J = true /\
      (DT.jdepth J <= DD.max_scan_depth ->
       exists m', DD.decode_bytes orc env root txt = Ok m' /\ equiv_root any_inner raw_dec None env root m m').
  Proof.
    intros Hb. destruct (env_static_b_sound _ Hstatic) as (Hflat & Hnames & Hitems & Henums & Hprops).
    apply (codec_full_bytes fmt_float any_inner orc env Hflat Hnames Hitems Hfloat_ok Hfloat Htime Hdecimal Hinner).
    apply (rep_root_b_sound any_inner raw_dec None env Henums Hprops fuel).
    rewrite (rep_root_b_raw any_inner raw_dec print). exact Hb.
  Qed.
End DecidedBytes.

(* RegexProofs.v — the derivative matcher decides the declarative semantics:
   searchb r s = true <-> search r s, for every regular expression of the fragment
   and every text; plus the shapes the C12 proofs need (anchored counted classes). *)
From Coq Require Import List NArith Bool Lia.
From J5V.model Require Import Regex.
Import ListNotations.
Local Open Scope N_scope.

(* ---------------------------------------------------------------- inversion *)
Lemma mt_none b e s : ~ mt RNone b e s.
Proof. intro H. inversion H. Qed.
Lemma mt_eps b e s : mt REps b e s <-> s = [].
Proof. split; intro H; [inversion H; reflexivity|subst; constructor]. Qed.
Lemma mt_set cs b e s : mt (RSet cs) b e s <-> exists c, s = [c] /\ cs_mem cs c = true.
Proof.
  split.
  - intro H. inversion H; subst. eauto.
  - intros [c [Hs Hc]]. subst. constructor. exact Hc.
Qed.
Lemma mt_bol b e s : mt RBol b e s <-> s = [] /\ b = true.
Proof. split; intro H; [inversion H; auto|destruct H; subst; constructor]. Qed.
Lemma mt_eol b e s : mt REol b e s <-> s = [] /\ e = true.
Proof. split; intro H; [inversion H; auto|destruct H; subst; constructor]. Qed.
Lemma mt_cat a r b e s :
  mt (RCat a r) b e s <->
  exists s1 s2, s = s1 ++ s2 /\ mt a b (e && isnil s2) s1 /\ mt r (b && isnil s1) e s2.
Proof.
  split.
  - intro H. inversion H; subst. eauto.
  - intros [s1 [s2 [Hs [H1 H2]]]]. subst. constructor; assumption.
Qed.
Lemma mt_alt a r b e s : mt (RAlt a r) b e s <-> mt a b e s \/ mt r b e s.
Proof.
  split.
  - intro H. inversion H; subst; auto.
  - intros [H|H]; [apply MAltL|apply MAltR]; exact H.
Qed.
Lemma mt_star a b e s :
  mt (RStar a) b e s <->
  s = [] \/ exists s1 s2, s = s1 ++ s2 /\ s1 <> [] /\ mt a b (e && isnil s2) s1 /\ mt (RStar a) false e s2.
Proof.
  split.
  - intro H. inversion H; subst; [left; reflexivity|right; eauto 8].
  - intros [H|[s1 [s2 [Hs [Hn [H1 H2]]]]]]; subst; [constructor|apply MStarS; assumption].
Qed.

Lemma isnil_app {A} (x y : list A) : isnil (x ++ y) = isnil x && isnil y.
Proof. destruct x; reflexivity. Qed.
Lemma isnil_true {A} (x : list A) : isnil x = true <-> x = [].
Proof. destruct x; split; intro H; try reflexivity; discriminate. Qed.

(* ---------------------------------------------------------------- smart constructors *)
Lemma mk_cat_spec a r b e s : mt (mk_cat a r) b e s <-> mt (RCat a r) b e s.
Proof.
  unfold mk_cat.
  destruct a; try (destruct r; try reflexivity;
    (split; intro H; [exfalso; exact (mt_none _ _ _ H)|
      apply mt_cat in H as [s1 [s2 [_ [_ H2]]]]; exfalso; exact (mt_none _ _ _ H2)])).
  split; intro H; [exfalso; exact (mt_none _ _ _ H)|].
  apply mt_cat in H as [s1 [s2 [_ [H1 _]]]]. exfalso. exact (mt_none _ _ _ H1).
Qed.
Lemma mk_alt_spec a r b e s : mt (mk_alt a r) b e s <-> mt (RAlt a r) b e s.
Proof.
  unfold mk_alt. rewrite mt_alt.
  destruct a; try (destruct r; try (rewrite mt_alt; reflexivity);
    (split; [intro H; left; exact H|intros [H|H]; [exact H|exfalso; exact (mt_none _ _ _ H)]])).
  split; [intro H; right; exact H|intros [H|H]; [exfalso; exact (mt_none _ _ _ H)|exact H]].
Qed.

(* ---------------------------------------------------------------- nullable *)
Lemma nullable_spec r : forall b e, nullable b e r = true <-> mt r b e [].
Proof.
  induction r as [| |cs| | |a IHa r2 IHr|a IHa r2 IHr|a IHa]; intros b e; cbn [nullable].
  - split; [discriminate|intro H; exfalso; exact (mt_none _ _ _ H)].
  - split; [intros _; constructor|reflexivity].
  - split; [discriminate|]. intro H. apply mt_set in H as [c [Hs _]]. discriminate.
  - rewrite mt_bol. split; [auto|intros [_ H]; exact H].
  - rewrite mt_eol. split; [auto|intros [_ H]; exact H].
  - rewrite andb_true_iff, IHa, IHr, mt_cat. split.
    + intros [H1 H2]. exists [], []. cbn. rewrite !andb_true_r. auto.
    + intros [s1 [s2 [Hs [H1 H2]]]]. symmetry in Hs. apply app_eq_nil in Hs as [E1 E2]. subst.
      cbn in H1, H2. rewrite !andb_true_r in *. auto.
  - rewrite orb_true_iff, IHa, IHr, mt_alt. reflexivity.
  - split; [intros _; constructor|reflexivity].
Qed.

(* ---------------------------------------------------------------- derivatives *)
Lemma deriv_spec r : forall b e c s, mt (deriv b r c) false e s <-> mt r b e (c :: s).
Proof.
  induction r as [| |cs| | |a IHa r2 IHr|a IHa r2 IHr|a IHa]; intros b e c s; cbn [deriv].
  - split; intro H; exfalso; exact (mt_none _ _ _ H).
  - split; intro H; [exfalso; exact (mt_none _ _ _ H)|apply mt_eps in H; discriminate].
  - destruct (cs_mem cs c) eqn:E.
    + rewrite mt_eps, mt_set. split.
      * intro H. subst. exists c. auto.
      * intros [c' [Hs _]]. inversion Hs. reflexivity.
    + split; intro H; [exfalso; exact (mt_none _ _ _ H)|].
      apply mt_set in H as [c' [Hs Hc]]. inversion Hs; subst. congruence.
  - split; intro H; [exfalso; exact (mt_none _ _ _ H)|apply mt_bol in H as [H _]; discriminate].
  - split; intro H; [exfalso; exact (mt_none _ _ _ H)|apply mt_eol in H as [H _]; discriminate].
  - (* cat *)
    rewrite mk_alt_spec, mt_alt, mk_cat_spec, !mt_cat. split.
    + intros [[s1 [s2 [Hs [H1 H2]]]]|H].
      * exists (c :: s1), s2. subst. split; [reflexivity|]. split.
        -- apply IHa. exact H1.
        -- cbn [isnil]. rewrite andb_false_r. cbn [isnil andb] in H2. exact H2.
      * destruct (nullable b false a) eqn:En; [|exfalso; exact (mt_none _ _ _ H)].
        apply nullable_spec in En. apply IHr in H.
        exists [], (c :: s). split; [reflexivity|]. split.
        -- cbn [isnil]. rewrite andb_false_r. exact En.
        -- cbn [isnil]. rewrite andb_true_r. exact H.
    + intros [s1 [s2 [Hs [H1 H2]]]]. destruct s1 as [|c1 s1'].
      * cbn in Hs. subst s2. right. cbn [isnil] in H1, H2. rewrite andb_false_r in H1. rewrite andb_true_r in H2.
        apply nullable_spec in H1. rewrite H1. apply IHr. exact H2.
      * cbn in Hs. inversion Hs; subst. left. exists s1', s2. split; [reflexivity|]. split.
        -- apply IHa. exact H1.
        -- cbn [isnil] in H2. rewrite andb_false_r in H2. cbn [andb]. exact H2.
  - rewrite mk_alt_spec, !mt_alt, IHa, IHr. reflexivity.
  - (* star *)
    rewrite mk_cat_spec, mt_cat, mt_star. split.
    + intros [s1 [s2 [Hs [H1 H2]]]]. right. exists (c :: s1), s2. subst. split; [reflexivity|].
      split; [discriminate|]. split; [apply IHa; exact H1|]. cbn [andb] in H2. exact H2.
    + intros [H|[s1 [s2 [Hs [Hn [H1 H2]]]]]]; [discriminate|].
      destruct s1 as [|c1 s1']; [congruence|]. cbn in Hs. inversion Hs; subst.
      exists s1', s2. split; [reflexivity|]. split; [apply IHa; exact H1|exact H2].
Qed.

Lemma matchb_spec s : forall b r, matchb b r s = true <-> mt r b true s.
Proof.
  induction s as [|c s IH]; intros b r; cbn [matchb].
  - apply nullable_spec.
  - rewrite IH. apply deriv_spec.
Qed.

(* ---------------------------------------------------------------- search *)
Lemma cs_any_mem c : cs_mem cs_any c = true.
Proof. reflexivity. Qed.

Lemma star_any s : forall b e, mt (RStar (RSet cs_any)) b e s.
Proof.
  induction s as [|c s IH]; intros b e; [constructor|].
  change (c :: s) with ([c] ++ s). apply MStarS; [discriminate| |apply IH].
  constructor. apply cs_any_mem.
Qed.

Theorem searchb_spec r text : searchb r text = true <-> search r text.
Proof.
  unfold searchb, search. rewrite matchb_spec, mt_cat. split.
  - intros [pre [rest [Ht [_ H]]]]. apply mt_cat in H as [s [post [Hr [Hs _]]]].
    exists pre, s, post. subst. split; [reflexivity|]. cbn [andb] in Hs. exact Hs.
  - intros [pre [s [post [Ht Hs]]]]. exists pre, (s ++ post). split; [exact Ht|].
    split; [apply star_any|]. apply mt_cat. exists s, post. split; [reflexivity|].
    split; [cbn [andb]; exact Hs|apply star_any].
Qed.

(* ---------------------------------------------------------------- shapes *)
(* r{n} of a character set: exactly n characters of the set *)
Lemma rep_n_set n cs : forall b e s,
  mt (rep_n n (RSet cs)) b e s <-> length s = n /\ Forall (fun c => cs_mem cs c = true) s.
Proof.
  induction n as [|n IH]; intros b e s; cbn [rep_n].
  - rewrite mt_eps. split.
    + intro H. subst. split; [reflexivity|constructor].
    + intros [H _]. destruct s; [reflexivity|discriminate].
  - rewrite mt_cat. split.
    + intros [s1 [s2 [Hs [H1 H2]]]]. apply mt_set in H1 as [c [Hc Hm]]. apply IH in H2 as [Hl Hf].
      subst. cbn. split; [congruence|constructor; assumption].
    + intros [Hl Hf]. destruct s as [|c s]; [discriminate|]. inversion Hf; subst.
      exists [c], s. split; [reflexivity|]. split; [apply mt_set; eauto|].
      apply IH. cbn in Hl. split; [congruence|assumption].
Qed.

(* ^ X $ as the parser builds it: ((eps ^) X) $ *)
Lemma anchored_search x text :
  search (RCat (RCat (RCat REps RBol) x) REol) text <-> mt x true true text.
Proof.
  unfold search. split.
  - intros [pre [s [post [Ht H]]]].
    apply mt_cat in H as [s1 [s2 [Hs [H1 H2]]]]. apply mt_eol in H2 as [E2 Hpost]. subst s2.
    apply mt_cat in H1 as [s3 [s4 [Hs1 [H3 H4]]]].
    apply mt_cat in H3 as [s5 [s6 [Hs3 [H5 H6]]]]. apply mt_eps in H5. apply mt_bol in H6 as [E6 Hpre]. subst.
    cbn [app isnil andb] in *. rewrite ?andb_true_r in *.
    apply isnil_true in Hpre, Hpost. subst. cbn [app isnil andb] in *. rewrite ?app_nil_r in *. exact H4.
  - intro H. exists [], text, []. split; [rewrite app_nil_r; reflexivity|]. cbn [isnil].
    apply mt_cat. exists text, []. split; [rewrite app_nil_r; reflexivity|]. split; [|constructor].
    cbn [isnil andb]. apply mt_cat. exists [], text. split; [reflexivity|]. split.
    + apply mt_cat. exists [], []. split; [reflexivity|]. split; constructor.
    + cbn [isnil andb]. exact H.
Qed.

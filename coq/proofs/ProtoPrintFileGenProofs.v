(* ProtoPrintFileGenProofs.v — agreement of the file-layer model of C05 with the tables and the source
   text of the decision functions re-read from /repo on every run (coq/gen/PrintFileGen.v). An edit of
   sourceElements.add / Less, optionsByLocation.Less, optionsFor, parseOption or Simplify breaks one of
   these obligations at make time. *)
From Coq Require Import String Ascii List NArith Bool.
From J5V.model Require Import ProtoPrintLit ProtoPrint ProtoPrintFile.
From J5V.gen Require PrintFileGen.
Import ListNotations.
Local Open Scope string_scope.

Definition bytes_of (s : string) : list N := map (fun a => N_of_ascii a) (list_ascii_of_string s).

(* typeOrder of a descriptor type as elements.go assigns it *)
Definition order_of (ty : string) : N :=
  match find (fun r => String.eqb (fst r) ty) PrintFileGen.type_orders with
  | Some r => snd r
  | None => PrintFileGen.type_order_default
  end.

Definition type_order (k : key3) : N := snd (fst k).

(* the typeOrder the model attaches to each kind of element is the one the Go switch assigns *)
Lemma type_orders_agree :
  (forall f, type_order (ekey (DField f)) = order_of "FieldDescriptor")
  /\ (forall k c n o fs, type_order (ekey (DOneof k c n o fs)) = order_of "OneofDescriptor")
  /\ (forall k c n o b, type_order (ekey (DMsg k c n o b)) = order_of "MessageDescriptor")
  /\ (forall k c n o vs, type_order (ekey (DEnum k c n o vs)) = order_of "EnumDescriptor")
  /\ (forall k c n o ms, type_order (ekey (DService k c n o ms)) = order_of "ServiceDescriptor")
  /\ (forall k, type_order (key0 k) = order_of "EnumValueDescriptor")
  /\ (forall k, type_order (key0 k) = order_of "MethodDescriptor").
Proof. repeat split; intros; vm_compute; reflexivity. Qed.

Lemma simplify_constants_agree :
  N.of_nat max_depth = PrintFileGen.simplify_default_depth
  /\ map bytes_of PrintFileGen.never_simplified = [join_dot http_name].
Proof. split; vm_compute; reflexivity. Qed.

Lemma printer_words_agree :
  map bytes_of PrintFileGen.label_words = [(kw_repeated ++ [32%N])%list; (kw_optional ++ [32%N])%list]
  /\ PrintFileGen.file_option_kinds = ["BoolKind"; "StringKind"]
  /\ PrintFileGen.message_add_order = ["field"; "oneof"; "nested"; "enums"]
  /\ PrintFileGen.file_add_order = ["messages"; "services"; "enums"].
Proof. repeat split; vm_compute; reflexivity. Qed.

(* the decision functions the model transcribes (key_less, opt_less, lay_fopts, simplify): the Go text the
   transcription was made from *)
Definition transcribed_less : string := "{ if se[i].sourceLocation.StartLine == 0 || se[j].sourceLocation.StartLine == 0 { if se[i].typeOrder != se[j].typeOrder { return se[i].typeOrder < se[j].typeOrder } return se[i].descriptor.Index() < se[j].descriptor.Index() } return se[i].sourceLocation.StartLine < se[j].sourceLocation.StartLine }".
Definition transcribed_option_less : string := "{ iLine, jLine := o[i].startLine(), o[j].startLine() if (iLine != 0) != (jLine != 0) { return iLine != 0 } if iLine != jLine { return iLine < jLine } if iLine == 0 && o[i].Desc.Index() != o[j].Desc.Index() { return o[i].Desc.Index() < o[j].Desc.Index() } return o[i].Desc.FullName() < o[j].Desc.FullName() }".
Definition transcribed_options_for : string := "{ options, err := fb.out.extensions.OptionsFor(thing) if err != nil { return nil, err } parsed := make([]parsedOption, 0, len(options)) for _, opt := range options { parsed = append(parsed, parseOption(opt)) } slices.SortFunc(parsed, func(i, j parsedOption) int { if i.qualifiedName < j.qualifiedName { return -1 } if i.qualifiedName > j.qualifiedName { return 1 } return 0 }) return parsed, nil }".
Definition transcribed_simplify : string := "{ encoderDesc := opt.Desc encoderVal := opt.Value if len(opt.SubPath) > maxDepth { return } if encoderDesc.Kind() != protoreflect.MessageKind { return } if encoderDesc.IsList() || encoderDesc.IsMap() { return } encoderMessageDesc := encoderDesc.Message() encoderMessageVal := encoderVal.Message() descFields := encoderMessageDesc.Fields() definedFields := make([]protoreflect.FieldDescriptor, 0, descFields.Len()) for i := 0; i < descFields.Len(); i++ { field := descFields.Get(i) if encoderMessageVal.Has(field) { definedFields = append(definedFields, field) } } if len(definedFields) != 1 { return } field := definedFields[0] if field.IsMap() || field.IsList() { return } opt.SubPath = append(opt.SubPath, string(field.Name())) opt.Desc = field opt.Value = encoderMessageVal.Get(field) opt.Simplify(maxDepth) }".

Lemma decision_sources_agree :
  PrintFileGen.less_source = transcribed_less
  /\ PrintFileGen.option_less_source = transcribed_option_less
  /\ PrintFileGen.options_for_source = transcribed_options_for
  /\ PrintFileGen.simplify_source = transcribed_simplify.
Proof. repeat split; reflexivity. Qed.

(* CodecDecCostUnfold.v — GENERATED (tools/gen_cost_model.py): one-level unfolding equations of the
   recursive functions of model/CodecDec.v and of their instrumented copies (model/CodecDecCost.v), each
   proved by reflexivity, so that proofs rewrite one level without exposing the mutual fixpoint. *)
From Coq Require Import String List NArith ZArith Bool.
From J5V.lib Require Import Outcome Json.
From J5V.model Require Import CodecTypes CodecDecScalar CodecDec CodecDecCost.
Import ListNotations.
Local Open Scope N_scope.
Local Open Scope bool_scope.

Section Unfold.
  Variable orc : oracles.
  Variable e : env.
  Variable more_at_end : bool.
  Notation has_more := (has_more more_at_end).
  Notation any_body_c := (CodecDecCost.any_body_c more_at_end).
  Notation member_with_c := (CodecDecCost.member_with_c).
  Notation decode_present_c := (CodecDecCost.decode_present_c orc e more_at_end).
  Notation object_body_c := (CodecDecCost.object_body_c orc e more_at_end).
  Notation oneof_body_c := (CodecDecCost.oneof_body_c orc e more_at_end).
  Notation array_items_c := (CodecDecCost.array_items_c orc e more_at_end).
  Notation map_items_c := (CodecDecCost.map_items_c orc e more_at_end).
  Notation any_body := (CodecDec.any_body more_at_end).
  Notation decode_present := (CodecDec.decode_present orc e more_at_end).
  Notation object_body := (CodecDec.object_body orc e more_at_end).
  Notation oneof_body := (CodecDec.oneof_body orc e more_at_end).
  Notation array_items := (CodecDec.array_items orc e more_at_end).
  Notation map_items := (CodecDec.map_items orc e more_at_end).

  Lemma decode_present_c_S (f : nat) (d : N) (p : property) (ts : list token) (m : msg) :
    decode_present_c (S f) d p ts m = tick (
      match p_ty p with
      | FScalar k =>
        pbind (next_token ts) (fun tr =>
          if is_delim (fst tr) then Err' "unexpected token, expected scalar"
          else
            pbind (scalar_from_go orc k (goval_of_token (fst tr))) (fun v =>
              pbind (with_holder (p_path p) m (fun n h =>
                       match v with
                       | None => Ok (msg_del n h, tt)                      (* protoPair.setValue: Clear *)
                       | Some x => Ok (msg_set (p_explicit p) (p_siblings p) n x h, tt)
                       end))
                    (fun r => Ok' (fst r, snd tr))))
      | FEnum ref =>
        pbind (next_token ts) (fun tr =>
          match fst tr with
          | TStr s =>
            match lookup e ref with
            | Some (SEnum prefix opts) =>
              match option_by_name prefix opts s with
              | Some z =>
                pbind (with_holder (p_path p) m (fun n h =>
                         Ok (msg_set (p_explicit p) (p_siblings p) n (VEnum z) h, tt)))
                      (fun r => Ok' (fst r, snd tr))
              | None => Err' "enum value not found"
              end
            | _ => Err' "schema"
            end
          | _ => Err' "unexpected token, expected string"
          end)
      | FObject ref =>
        pbind (expect TOpenObj ts) (fun r =>
          match lookup e ref with
          | Some (SObject props) =>
            with_holder_c (p_path p) m (fun n h =>
              let '(sub, h1) := msg_mutable (p_siblings p) n h in
              cbind (object_body_c f d props r sub []) (fun sr =>
                pbind (expect TCloseObj (snd sr)) (fun r2 =>
                  Ok' (msg_put n (VMsg (fst sr)) h1, r2))))
          | _ => Err' "schema"
          end)
      | FOneof ref =>
        pbind (expect TOpenObj ts) (fun r =>
          match lookup e ref with
          | Some (SOneof props) =>
            match p_path p with
            | [] =>
              (* exposed oneof: the inner properties live in the same message *)
              cbind (oneof_body_c f d props r m [] [] None) (fun sr =>
                pbind (expect TCloseObj (snd sr)) (fun r2 => Ok' (fst sr, r2)))
            | path =>
              with_holder_c path m (fun n h =>
                let '(sub, h1) := msg_mutable (p_siblings p) n h in
                cbind (oneof_body_c f d props r sub [] [] None) (fun sr =>
                  pbind (expect TCloseObj (snd sr)) (fun r2 =>
                    Ok' (msg_put n (VMsg (fst sr)) h1, r2))))
            end
          | _ => Err' "schema"
          end)
      | FArray item =>
        pbind (expect TOpenArr ts) (fun r =>
          match item with
          | FScalar _ | FEnum _ | FObject _ | FOneof _ =>
            with_holder_c (p_path p) m (fun n h =>
              let existing := match msg_get n h with Some (VList l) => l | _ => [] end in
              cbind (array_items_c f d item r existing) (fun lr =>
                pbind (expect TCloseArr (snd lr)) (fun r2 =>
                  Ok' (msg_set true (p_siblings p) n (VList (fst lr)) h, r2))))
          | _ => Err' "unsupported array item schema"
          end)
      | FMap item =>
        pbind (expect TOpenObj ts) (fun r =>
          match item with
          | FScalar _ | FEnum _ | FObject _ | FOneof _ =>
            with_holder_c (p_path p) m (fun n h =>
              let existing := match msg_get n h with Some (VMap l) => l | _ => [] end in
              cbind (map_items_c f d item r existing) (fun lr =>
                pbind (expect TCloseObj (snd lr)) (fun r2 =>
                  Ok' (msg_set true (p_siblings p) n (VMap (fst lr)) h, r2))))
          | _ => Err' "unsupported map item schema"
          end)
      | FAny pb =>
        pbind (expect TOpenObj ts) (fun r =>
          with_holder_c (p_path p) m (fun n h =>
            let '(sub, h1) := msg_mutable (p_siblings p) n h in
            cbind (any_body_c f r None None) (fun vr =>
              let '(value, ty, rest) := vr in
              match ty, value with
              | None, _ => Err' "no type found in Any"
              | _, None => Err' "no value found in Any"
              | Some tn, Some v =>
                if pb then Err' "proto is required for PB Any"
                else
                  let sub1 := msg_set false [] 1 (VStr tn) sub in
                  let sub2 := msg_set false [] 3 (VBytes (canon_json v)) sub1 in
                  pbind (expect TCloseObj rest) (fun r2 => Ok' (msg_put n (VMsg sub2) h1, r2))
              end)))
      end).
  Proof. reflexivity. Qed.

  Lemma object_body_c_S (f : nat) (d : N) (props : list property) (ts : list token) (m : msg) (seen : list bytes) :
    object_body_c (S f) d props ts m seen = tick (
      if has_more ts then
        pbind (next_token ts) (fun kt =>
          match fst kt with
          | TStr key =>
            match find_prop props key with
            | None => Err' "no such field"
            | Some p =>
              cbind (member_with_c d (decode_present_c f (d + 1) p) p (snd kt) m seen) (fun r =>
                let '(m', rest, seen') := r in object_body_c f d props rest m' seen')
            end
          | _ => Err' "unexpected token, expected object key"
          end)
      else Ok' (m, ts)).
  Proof. reflexivity. Qed.

  Lemma oneof_body_c_S (f : nat) (d : N) (props : list property) (ts : list token) (m : msg) (seen : list bytes) (found : list bytes) (constrain : option bytes) :
    oneof_body_c (S f) d props ts m seen found constrain = tick (
      if has_more ts then
        pbind (next_token ts) (fun kt =>
          match fst kt with
          | TStr key =>
            if bytes_eqb key type_key then
              pbind (next_token (snd kt)) (fun vt =>
                match fst vt with
                | TStr s => oneof_body_c f d props (snd vt) m seen found (Some s)
                | _ => Err' "unexpected token, expected string"
                end)
            else
              match find_prop props key with
              | None => Err' "no such key"
              | Some p =>
                cbind (member_with_c d (decode_present_c f (d + 1) p) p (snd kt) m seen) (fun r =>
                  let '(m', rest, seen') := r in
                  oneof_body_c f d props rest m' seen' (found ++ [key]) constrain)
              end
          | _ => Err' "unexpected token, expected object key"
          end)
      else pbind (oneof_post props m found constrain) (fun m' => Ok' (m', ts))).
  Proof. reflexivity. Qed.

  Lemma array_items_c_S (f : nat) (d : N) (item : field_ty) (ts : list token) (acc : list pval) :
    array_items_c (S f) d item ts acc = tick (
      if has_more ts then
        match item with
        | FScalar k =>
          pbind (next_token ts) (fun tr =>
            if is_delim (fst tr) then Err' "unexpected token, expected scalar"
            else pbind (append_go_value orc k (fst tr) acc) (fun acc' => array_items_c f d item (snd tr) acc'))
        | FEnum ref =>
          pbind (next_token ts) (fun tr =>
            if is_delim (fst tr) then Err' "unexpected token, expected scalar"
            else
              match fst tr with
              | TStr s =>
                match lookup e ref with
                | Some (SEnum prefix opts) =>
                  match option_by_name prefix opts s with
                  | Some z => pbind (list_append (Some (VEnum z)) acc) (fun acc' => array_items_c f d item (snd tr) acc')
                  | None => Err' "enum value not found"
                  end
                | _ => Err' "schema"
                end
              | _ => Err' "cannot set enum value"
              end)
        | FObject ref =>
          match lookup e ref with
          | Some (SObject props) =>
            pbind (expect TOpenObj ts) (fun r =>
              cbind (object_body_c f d props r [] []) (fun sr =>
                pbind (expect TCloseObj (snd sr)) (fun r2 =>
                  array_items_c f d item r2 (acc ++ [VMsg (fst sr)]))))
          | _ => Err' "schema"
          end
        | FOneof ref =>
          match lookup e ref with
          | Some (SOneof props) =>
            pbind (expect TOpenObj ts) (fun r =>
              cbind (oneof_body_c f d props r [] [] [] None) (fun sr =>
                pbind (expect TCloseObj (snd sr)) (fun r2 =>
                  array_items_c f d item r2 (acc ++ [VMsg (fst sr)]))))
          | _ => Err' "schema"
          end
        | _ => Err' "unknown array schema type"
        end
      else Ok' (acc, ts)).
  Proof. reflexivity. Qed.

  Lemma map_items_c_S (f : nat) (d : N) (item : field_ty) (ts : list token) (acc : list (bytes * pval)) :
    map_items_c (S f) d item ts acc = tick (
      if has_more ts then
        pbind (next_token ts) (fun kt =>
          match fst kt with
          | TStr key =>
            match item with
            | FScalar k =>
              match map_get key acc with
              | Some _ => Err' "key already exists in map"
              | None =>
              pbind (next_token (snd kt)) (fun tr =>
                if is_delim (fst tr) then Err' "unexpected token, expected scalar"
                else pbind (map_set_go_value orc k key (fst tr) acc) (fun acc' => map_items_c f d item (snd tr) acc'))
              end
            | FEnum ref =>
              match map_get key acc with
              | Some _ => Err' "key already exists in map"
              | None =>
              pbind (next_token (snd kt)) (fun tr =>
                match fst tr with
                | TStr s =>
                  match lookup e ref with
                  | Some (SEnum prefix opts) =>
                    match option_by_name prefix opts s with
                    | Some z => pbind (map_set_value key (Some (VEnum z)) acc) (fun acc' => map_items_c f d item (snd tr) acc')
                    | None => Err' "enum value not found"
                    end
                  | _ => Err' "schema"
                  end
                | _ => Err' "unexpected token, expected string"
                end)
              end
            | FObject ref =>
              match map_get key acc with
              | Some _ => Err' "key already exists in map"
              | None =>
                match lookup e ref with
                | Some (SObject props) =>
                  pbind (expect TOpenObj (snd kt)) (fun r =>
                    cbind (object_body_c f d props r [] []) (fun sr =>
                      pbind (expect TCloseObj (snd sr)) (fun r2 =>
                        map_items_c f d item r2 (map_set key (VMsg (fst sr)) acc))))
                | _ => Err' "schema"
                end
              end
            | FOneof ref =>
              match map_get key acc with
              | Some _ => Err' "key already exists in map"
              | None =>
                match lookup e ref with
                | Some (SOneof props) =>
                  pbind (expect TOpenObj (snd kt)) (fun r =>
                    cbind (oneof_body_c f d props r [] [] [] None) (fun sr =>
                      pbind (expect TCloseObj (snd sr)) (fun r2 =>
                        map_items_c f d item r2 (map_set key (VMsg (fst sr)) acc))))
                | _ => Err' "schema"
                end
              end
            | _ => Err' "unknown map schema type"
            end
          | _ => Err' "unexpected token, expected object key"
          end)
      else Ok' (acc, ts)).
  Proof. reflexivity. Qed.

  Lemma decode_present_S (f : nat) (d : N) (p : property) (ts : list token) (m : msg) :
    decode_present (S f) d p ts m = (
      match p_ty p with
      | FScalar k =>
        obind (next_token ts) (fun tr =>
          if is_delim (fst tr) then Err "unexpected token, expected scalar"
          else
            obind (scalar_from_go orc k (goval_of_token (fst tr))) (fun v =>
              obind (with_holder (p_path p) m (fun n h =>
                       match v with
                       | None => Ok (msg_del n h, tt)                      (* protoPair.setValue: Clear *)
                       | Some x => Ok (msg_set (p_explicit p) (p_siblings p) n x h, tt)
                       end))
                    (fun r => Ok (fst r, snd tr))))
      | FEnum ref =>
        obind (next_token ts) (fun tr =>
          match fst tr with
          | TStr s =>
            match lookup e ref with
            | Some (SEnum prefix opts) =>
              match option_by_name prefix opts s with
              | Some z =>
                obind (with_holder (p_path p) m (fun n h =>
                         Ok (msg_set (p_explicit p) (p_siblings p) n (VEnum z) h, tt)))
                      (fun r => Ok (fst r, snd tr))
              | None => Err "enum value not found"
              end
            | _ => Err "schema"
            end
          | _ => Err "unexpected token, expected string"
          end)
      | FObject ref =>
        obind (expect TOpenObj ts) (fun r =>
          match lookup e ref with
          | Some (SObject props) =>
            with_holder (p_path p) m (fun n h =>
              let '(sub, h1) := msg_mutable (p_siblings p) n h in
              obind (object_body f d props r sub []) (fun sr =>
                obind (expect TCloseObj (snd sr)) (fun r2 =>
                  Ok (msg_put n (VMsg (fst sr)) h1, r2))))
          | _ => Err "schema"
          end)
      | FOneof ref =>
        obind (expect TOpenObj ts) (fun r =>
          match lookup e ref with
          | Some (SOneof props) =>
            match p_path p with
            | [] =>
              (* exposed oneof: the inner properties live in the same message *)
              obind (oneof_body f d props r m [] [] None) (fun sr =>
                obind (expect TCloseObj (snd sr)) (fun r2 => Ok (fst sr, r2)))
            | path =>
              with_holder path m (fun n h =>
                let '(sub, h1) := msg_mutable (p_siblings p) n h in
                obind (oneof_body f d props r sub [] [] None) (fun sr =>
                  obind (expect TCloseObj (snd sr)) (fun r2 =>
                    Ok (msg_put n (VMsg (fst sr)) h1, r2))))
            end
          | _ => Err "schema"
          end)
      | FArray item =>
        obind (expect TOpenArr ts) (fun r =>
          match item with
          | FScalar _ | FEnum _ | FObject _ | FOneof _ =>
            with_holder (p_path p) m (fun n h =>
              let existing := match msg_get n h with Some (VList l) => l | _ => [] end in
              obind (array_items f d item r existing) (fun lr =>
                obind (expect TCloseArr (snd lr)) (fun r2 =>
                  Ok (msg_set true (p_siblings p) n (VList (fst lr)) h, r2))))
          | _ => Err "unsupported array item schema"
          end)
      | FMap item =>
        obind (expect TOpenObj ts) (fun r =>
          match item with
          | FScalar _ | FEnum _ | FObject _ | FOneof _ =>
            with_holder (p_path p) m (fun n h =>
              let existing := match msg_get n h with Some (VMap l) => l | _ => [] end in
              obind (map_items f d item r existing) (fun lr =>
                obind (expect TCloseObj (snd lr)) (fun r2 =>
                  Ok (msg_set true (p_siblings p) n (VMap (fst lr)) h, r2))))
          | _ => Err "unsupported map item schema"
          end)
      | FAny pb =>
        obind (expect TOpenObj ts) (fun r =>
          with_holder (p_path p) m (fun n h =>
            let '(sub, h1) := msg_mutable (p_siblings p) n h in
            obind (any_body f r None None) (fun vr =>
              let '(value, ty, rest) := vr in
              match ty, value with
              | None, _ => Err "no type found in Any"
              | _, None => Err "no value found in Any"
              | Some tn, Some v =>
                if pb then Err "proto is required for PB Any"
                else
                  let sub1 := msg_set false [] 1 (VStr tn) sub in
                  let sub2 := msg_set false [] 3 (VBytes (canon_json v)) sub1 in
                  obind (expect TCloseObj rest) (fun r2 => Ok (msg_put n (VMsg sub2) h1, r2))
              end)))
      end).
  Proof. reflexivity. Qed.

  Lemma object_body_S (f : nat) (d : N) (props : list property) (ts : list token) (m : msg) (seen : list bytes) :
    object_body (S f) d props ts m seen = (
      if has_more ts then
        obind (next_token ts) (fun kt =>
          match fst kt with
          | TStr key =>
            match find_prop props key with
            | None => Err "no such field"
            | Some p =>
              obind (member_with d (decode_present f (d + 1) p) p (snd kt) m seen) (fun r =>
                let '(m', rest, seen') := r in object_body f d props rest m' seen')
            end
          | _ => Err "unexpected token, expected object key"
          end)
      else Ok (m, ts)).
  Proof. reflexivity. Qed.

  Lemma oneof_body_S (f : nat) (d : N) (props : list property) (ts : list token) (m : msg) (seen : list bytes) (found : list bytes) (constrain : option bytes) :
    oneof_body (S f) d props ts m seen found constrain = (
      if has_more ts then
        obind (next_token ts) (fun kt =>
          match fst kt with
          | TStr key =>
            if bytes_eqb key type_key then
              obind (next_token (snd kt)) (fun vt =>
                match fst vt with
                | TStr s => oneof_body f d props (snd vt) m seen found (Some s)
                | _ => Err "unexpected token, expected string"
                end)
            else
              match find_prop props key with
              | None => Err "no such key"
              | Some p =>
                obind (member_with d (decode_present f (d + 1) p) p (snd kt) m seen) (fun r =>
                  let '(m', rest, seen') := r in
                  oneof_body f d props rest m' seen' (found ++ [key]) constrain)
              end
          | _ => Err "unexpected token, expected object key"
          end)
      else obind (oneof_post props m found constrain) (fun m' => Ok (m', ts))).
  Proof. reflexivity. Qed.

  Lemma array_items_S (f : nat) (d : N) (item : field_ty) (ts : list token) (acc : list pval) :
    array_items (S f) d item ts acc = (
      if has_more ts then
        match item with
        | FScalar k =>
          obind (next_token ts) (fun tr =>
            if is_delim (fst tr) then Err "unexpected token, expected scalar"
            else obind (append_go_value orc k (fst tr) acc) (fun acc' => array_items f d item (snd tr) acc'))
        | FEnum ref =>
          obind (next_token ts) (fun tr =>
            if is_delim (fst tr) then Err "unexpected token, expected scalar"
            else
              match fst tr with
              | TStr s =>
                match lookup e ref with
                | Some (SEnum prefix opts) =>
                  match option_by_name prefix opts s with
                  | Some z => obind (list_append (Some (VEnum z)) acc) (fun acc' => array_items f d item (snd tr) acc')
                  | None => Err "enum value not found"
                  end
                | _ => Err "schema"
                end
              | _ => Err "cannot set enum value"
              end)
        | FObject ref =>
          match lookup e ref with
          | Some (SObject props) =>
            obind (expect TOpenObj ts) (fun r =>
              obind (object_body f d props r [] []) (fun sr =>
                obind (expect TCloseObj (snd sr)) (fun r2 =>
                  array_items f d item r2 (acc ++ [VMsg (fst sr)]))))
          | _ => Err "schema"
          end
        | FOneof ref =>
          match lookup e ref with
          | Some (SOneof props) =>
            obind (expect TOpenObj ts) (fun r =>
              obind (oneof_body f d props r [] [] [] None) (fun sr =>
                obind (expect TCloseObj (snd sr)) (fun r2 =>
                  array_items f d item r2 (acc ++ [VMsg (fst sr)]))))
          | _ => Err "schema"
          end
        | _ => Err "unknown array schema type"
        end
      else Ok (acc, ts)).
  Proof. reflexivity. Qed.

  Lemma map_items_S (f : nat) (d : N) (item : field_ty) (ts : list token) (acc : list (bytes * pval)) :
    map_items (S f) d item ts acc = (
      if has_more ts then
        obind (next_token ts) (fun kt =>
          match fst kt with
          | TStr key =>
            match item with
            | FScalar k =>
              match map_get key acc with
              | Some _ => Err "key already exists in map"
              | None =>
              obind (next_token (snd kt)) (fun tr =>
                if is_delim (fst tr) then Err "unexpected token, expected scalar"
                else obind (map_set_go_value orc k key (fst tr) acc) (fun acc' => map_items f d item (snd tr) acc'))
              end
            | FEnum ref =>
              match map_get key acc with
              | Some _ => Err "key already exists in map"
              | None =>
              obind (next_token (snd kt)) (fun tr =>
                match fst tr with
                | TStr s =>
                  match lookup e ref with
                  | Some (SEnum prefix opts) =>
                    match option_by_name prefix opts s with
                    | Some z => obind (map_set_value key (Some (VEnum z)) acc) (fun acc' => map_items f d item (snd tr) acc')
                    | None => Err "enum value not found"
                    end
                  | _ => Err "schema"
                  end
                | _ => Err "unexpected token, expected string"
                end)
              end
            | FObject ref =>
              match map_get key acc with
              | Some _ => Err "key already exists in map"
              | None =>
                match lookup e ref with
                | Some (SObject props) =>
                  obind (expect TOpenObj (snd kt)) (fun r =>
                    obind (object_body f d props r [] []) (fun sr =>
                      obind (expect TCloseObj (snd sr)) (fun r2 =>
                        map_items f d item r2 (map_set key (VMsg (fst sr)) acc))))
                | _ => Err "schema"
                end
              end
            | FOneof ref =>
              match map_get key acc with
              | Some _ => Err "key already exists in map"
              | None =>
                match lookup e ref with
                | Some (SOneof props) =>
                  obind (expect TOpenObj (snd kt)) (fun r =>
                    obind (oneof_body f d props r [] [] [] None) (fun sr =>
                      obind (expect TCloseObj (snd sr)) (fun r2 =>
                        map_items f d item r2 (map_set key (VMsg (fst sr)) acc))))
                | _ => Err "schema"
                end
              end
            | _ => Err "unknown map schema type"
            end
          | _ => Err "unexpected token, expected object key"
          end)
      else Ok (acc, ts)).
  Proof. reflexivity. Qed.

End Unfold.

(* CodecDecSpace.v — insignificant white space.
   Decoder.Token() skips white space before the token it reads, in every tokenizer state, and again
   after a ':' or ',' it consumes on the way; so white space in front of any token or separator, and
   directly behind a separator, never reaches the decoder.  Document level: white space in front of
   the document changes neither the token list, nor what More() answers, nor the end-of-input
   observation, hence not the result of JSONToProto.  (White space between two tokens further inside
   is covered per Token() call by [token_call_ws] / [token_call_ws_after_sep]; the statement for a whole
   text with white space inserted at every boundary at once is tied by the tokenizer correspondence
   (CLex cases: the Spaces printer) and the variant stream, not proved here.) *)
From Coq Require Import String List NArith Arith Bool Lia ZifyN ZifyNat ZifyBool.
From J5V.lib Require Import Outcome Json.
From J5V.model Require Import CodecTypes CodecDecScalar CodecDec.
From J5V.proofs Require Import JsonLexProofs.
Import ListNotations.

Definition all_space (ws : bytes) : Prop := Forall (fun c => is_space c = true) ws.

Lemma skip_ws_app ws s : all_space ws -> skip_ws (ws ++ s) = skip_ws s.
Proof. induction 1 as [|c r Hc _ IH]; [reflexivity|]. cbn [app skip_ws]. rewrite Hc. exact IH. Qed.

(* before a token or a separator, any state *)
Theorem token_call_ws ws st stack s : all_space ws -> token_call st stack (ws ++ s) = token_call st stack s.
Proof. intros H. unfold token_call. rewrite (skip_ws_app ws s H). reflexivity. Qed.

(* directly behind a ':' or ',' *)
Theorem token_call_ws_after_sep ws st stack c s : all_space ws -> (c = 58 \/ c = 44)%N ->
  token_call st stack (c :: ws ++ s) = token_call st stack (c :: s).
Proof.
  intros H Hc. unfold token_call. destruct Hc; subst c; cbn [skip_ws].
  - change (is_space 58) with false. cbv iota. change (58 =? 58)%N with true. cbv iota.
    rewrite (skip_ws_app ws s H). reflexivity.
  - change (is_space 44) with false. cbv iota. change (44 =? 58)%N with false. change (44 =? 44)%N with true. cbv iota.
    rewrite (skip_ws_app ws s H). reflexivity.
Qed.

Lemma lex_go_fuel_any f1 : forall f2 st stack s, (length s < f1)%nat -> (length s < f2)%nat ->
  lex_go f1 st stack s = lex_go f2 st stack s.
Proof.
  induction f1 as [|f1 IH]; intros f2 st stack s H1 H2; [lia|]. destruct f2 as [|f2]; [lia|].
  rewrite !lex_go_S. destruct (token_call st stack s) as [mr|t st' stack' rest] eqn:E; [reflexivity|].
  apply token_call_lt in E. rewrite (IH f2 st' stack' rest) by lia. reflexivity.
Qed.

Lemma lex_tail_go_fuel_any f1 : forall f2 st stack s, (length s < f1)%nat -> (length s < f2)%nat ->
  lex_tail_go f1 st stack s = lex_tail_go f2 st stack s.
Proof.
  induction f1 as [|f1 IH]; intros f2 st stack s H1 H2; [lia|]. destruct f2 as [|f2]; [lia|].
  cbn [lex_tail_go]. destruct (token_call st stack s) as [mr|t st' stack' rest] eqn:E; [reflexivity|].
  apply token_call_lt in E. apply IH; lia.
Qed.

Theorem lex_leading_ws ws bs : all_space ws -> lex (ws ++ bs) = lex bs.
Proof.
  intros H. unfold lex. rewrite !lex_go_S. rewrite (token_call_ws ws StTop [] bs H).
  destruct (token_call StTop [] bs) as [mr|t st' stack' rest] eqn:E; [reflexivity|].
  apply token_call_lt in E.
  rewrite (lex_go_fuel_any (length (ws ++ bs)) (length bs) st' stack' rest); [reflexivity| |lia].
  rewrite app_length. lia.
Qed.

Theorem lex_at_eof_leading_ws ws bs : all_space ws -> lex_at_eof (ws ++ bs) = lex_at_eof bs.
Proof.
  intros H. unfold lex_at_eof, lex_tail. cbn [lex_tail_go]. rewrite (token_call_ws ws StTop [] bs H).
  destruct (token_call StTop [] bs) as [mr|t st' stack' rest] eqn:E.
  - rewrite (skip_ws_app ws bs H). reflexivity.
  - apply token_call_lt in E.
    rewrite (lex_tail_go_fuel_any (length (ws ++ bs)) (length bs) st' stack' rest); [reflexivity| |lia].
    rewrite app_length. lia.
Qed.

(* JSONToProto does not see white space in front of the document *)
Theorem decode_document_leading_ws orc e root ws bs : all_space ws ->
  decode_document orc e root (ws ++ bs) = decode_document orc e root bs.
Proof.
  intros H. unfold decode_document. rewrite (lex_leading_ws ws bs H), (lex_at_eof_leading_ws ws bs H). reflexivity.
Qed.

(* white space after the document: the end-of-input check skips it (Token() answers io.EOF) *)
Theorem only_space_is_eof s ws : all_space ws -> skip_ws (ws ++ s) = skip_ws s.
Proof. apply skip_ws_app. Qed.

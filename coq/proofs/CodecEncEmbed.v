(* CodecEncEmbed.v — C08 at full strength: the stored j5_json of a j5 Any (and the inner encoding of
   a protobuf Any payload) is embedded verbatim, and may be ANY well-formed JSON text (white space,
   non-canonical escapes).  The strict reader reads a standalone JSON text the same way inside a longer
   text (strict_parse_embedded: prefix- and fuel-stability of parse_str / sp_value / sp_members /
   sp_elems), texts that "read" compose through the array / object framing (reads_arr, reads_obj,
   reads_any), and the induction over the encoder is redone with "reads" in place of "is the compact
   print" (e_structure, encode_wellformed_full). *)
From Coq Require Import String List Arith NArith ZArith Bool Lia ZifyN ZifyNat ZifyBool.
From J5V.lib Require Import Outcome Json JsonPrint.
Import ListNotations.
Local Open Scope N_scope.
Local Open Scope bool_scope.

(* the literal pattern of parse_str's surrogate look-ahead, as boolean tests *)
Lemma pair_pattern {A} (r1 : list N) (F : N -> N -> N -> N -> list N -> A) (G : A) :
  match r1 with
  | 92 :: 117 :: a2 :: b2 :: c2 :: d2 :: r2 => F a2 b2 c2 d2 r2
  | _ => G
  end =
  match r1 with
  | e1 :: e2 :: a2 :: b2 :: c2 :: d2 :: r2 => if (e1 =? 92) && (e2 =? 117) then F a2 b2 c2 d2 r2 else G
  | _ => G
  end.
Proof.
  destruct r1 as [|e1 [|e2 [|a2 [|b2 [|c2 [|d2 r2]]]]]].
  7:{ destruct (N.eq_dec e1 92) as [->|H1].
      - destruct (N.eq_dec e2 117) as [->|H2]; [reflexivity|].
        replace (92 =? 92) with true by reflexivity. replace (e2 =? 117) with false by lia. cbn [andb].
        destruct e2 as [|p]; [reflexivity|].
        do 7 (destruct p as [p|p|]; try reflexivity; try lia).
      - replace (e1 =? 92) with false by lia. cbn [andb].
        destruct e1 as [|p]; [reflexivity|].
        do 7 (destruct p as [p|p|]; try reflexivity; try lia). }
  all: try reflexivity.
  all: destruct e1 as [|p]; try reflexivity; do 7 (destruct p as [p|p|]; try reflexivity).
  all: try (destruct e2 as [|q]; try reflexivity; do 7 (destruct q as [q|q|]; try reflexivity)).
Qed.

Arguments Nat.sub : simpl never.

Lemma parse_str_S f s :
  parse_str (S f) s =
    match s with
    | [] => None
    | b :: r =>
      if b =? 34 then Some ([], r)
      else if b =? 92 then
        match r with
        | [] => None
        | e :: r0 =>
          if e =? 34 then cons_fst [34] (parse_str f r0)
          else if e =? 92 then cons_fst [92] (parse_str f r0)
          else if e =? 47 then cons_fst [47] (parse_str f r0)
          else if e =? 98 then cons_fst [8] (parse_str f r0)
          else if e =? 102 then cons_fst [12] (parse_str f r0)
          else if e =? 110 then cons_fst [10] (parse_str f r0)
          else if e =? 114 then cons_fst [13] (parse_str f r0)
          else if e =? 116 then cons_fst [9] (parse_str f r0)
          else if e =? 117 then
            match r0 with
            | a :: b1 :: c :: d :: r1 =>
              match hex4 a b1 c d with
              | None => None
              | Some u =>
                if (55296 <=? u) && (u <? 56320) then
                  match r1 with
                  | e1 :: e2 :: a2 :: b2 :: c2 :: d2 :: r2 =>
                    if (e1 =? 92) && (e2 =? 117) then
                      match hex4 a2 b2 c2 d2 with
                      | Some v =>
                          if (56320 <=? v) && (v <? 57344)
                          then cons_fst (encode_rune (65536 + (u - 55296) * 1024 + (v - 56320))) (parse_str f r2)
                          else cons_fst [239; 191; 189] (parse_str f r1)
                      | None => cons_fst [239; 191; 189] (parse_str f r1)
                      end
                    else cons_fst [239; 191; 189] (parse_str f r1)
                  | _ => cons_fst [239; 191; 189] (parse_str f r1)
                  end
                else if (56320 <=? u) && (u <? 57344) then cons_fst [239; 191; 189] (parse_str f r1)
                else cons_fst (encode_rune u) (parse_str f r1)
              end
            | _ => None
            end
          else None
        end
      else if b <? 32 then None
      else if b <? 128 then cons_fst [b] (parse_str f r)
      else match utf8_len s with
           | Some n => cons_fst (firstn n s) (parse_str f (skipn n s))
           | None => None
           end
    end.
Proof.
  destruct s as [|b r]; [reflexivity|]. cbn [parse_str].
  destruct (b =? 34); [reflexivity|]. destruct (b =? 92); [|reflexivity].
  destruct r as [|e r0]; [reflexivity|].
  repeat match goal with |- context [if ?c then _ else _] =>
    lazymatch c with (e =? 117) => fail | (e =? _) => destruct c; [reflexivity|] end end.
  destruct (e =? 117); [|reflexivity].
  destruct r0 as [|a [|b1 [|c [|d r1]]]]; try reflexivity.
  destruct (hex4 a b1 c d) as [u|]; [|reflexivity].
  destruct ((55296 <=? u) && (u <? 56320)); [|reflexivity].
  apply pair_pattern.
Qed.

Lemma cons_fst_ok {A} xs (o : option (list N * A)) s r :
  cons_fst xs o = Some (s, r) -> exists s', o = Some (s', r) /\ s = xs ++ s'.
Proof. destruct o as [[s' r']|]; cbn [cons_fst]; [|discriminate]. intros [= <- <-]. eauto. Qed.

Lemma utf8_len_app s rest n : utf8_len s = Some n -> utf8_len (s ++ rest) = Some n.
Proof.
  intros H. pose proof (utf8_len_prefix s n (skipn n s ++ rest) H) as Hp.
  rewrite app_assoc, firstn_skipn in Hp. exact Hp.
Qed.

(* a text that parse_str reads cannot begin with an incomplete \u escape *)
Lemma lookahead_short {A} r2 rest f s' r (X : N -> N -> N -> N -> list N -> A) (Y : A) :
  (length r2 < 6)%nat -> parse_str f r2 = Some (s', r) ->
  match r2 ++ rest with
  | e1 :: e2 :: a2 :: b2 :: c2 :: d2 :: r3 => if (e1 =? 92) && (e2 =? 117) then X a2 b2 c2 d2 r3 else Y
  | _ => Y
  end = Y.
Proof.
  intros Hl H. destruct f as [|f]; [discriminate|]. rewrite parse_str_S in H.
  destruct r2 as [|x [|y t]]; [discriminate| |].
  - (* one byte *)
    cbn [app]. destruct rest as [|e2 [|a2 [|b2 [|c2 [|d2 r3]]]]]; try reflexivity.
    destruct (x =? 92) eqn:E; [|reflexivity].
    replace (x =? 34) with false in H by lia. discriminate.
  - cbn [app].
    destruct (t ++ rest) as [|a2 [|b2 [|c2 [|d2 r3]]]] eqn:Et; try reflexivity.
    destruct ((x =? 92) && (y =? 117)) eqn:E; [|reflexivity]. exfalso.
    apply andb_true_iff in E as [Ex Ey]. replace (x =? 34) with false in H by lia. rewrite Ex in H.
    replace (y =? 34) with false in H by lia. replace (y =? 92) with false in H by lia.
    replace (y =? 47) with false in H by lia. replace (y =? 98) with false in H by lia.
    replace (y =? 102) with false in H by lia. replace (y =? 110) with false in H by lia.
    replace (y =? 114) with false in H by lia. replace (y =? 116) with false in H by lia.
    rewrite Ey in H. cbn [length] in Hl.
    destruct t as [|t1 [|t2 [|t3 [|t4 t5]]]]; try discriminate. cbn [length] in Hl. lia.
Qed.

Lemma parse_str_ext f : forall s o r, parse_str f s = Some (o, r) ->
  forall f' rest, (f <= f')%nat -> parse_str f' (s ++ rest) = Some (o, r ++ rest).
Proof.
  induction f as [|f IH]; intros s o r H f' rest Hf; [discriminate|].
  destruct f' as [|f']; [lia|]. rewrite parse_str_S in H |- *.
  destruct s as [|b r0]; [discriminate|]. cbn [app].
  assert (Hstep : forall xs t, cons_fst xs (parse_str f t) = Some (o, r) ->
            cons_fst xs (parse_str f' (t ++ rest)) = Some (o, r ++ rest)).
  { intros xs t Hc. apply cons_fst_ok in Hc as (s' & Hs & ->). rewrite (IH _ _ _ Hs f' rest) by lia. reflexivity. }
  destruct (b =? 34). { injection H as <- <-. reflexivity. }
  destruct (b =? 92).
  { destruct r0 as [|e r1]; [discriminate|]. cbn [app].
    destruct (e =? 34); [apply Hstep; exact H|]. destruct (e =? 92); [apply Hstep; exact H|].
    destruct (e =? 47); [apply Hstep; exact H|]. destruct (e =? 98); [apply Hstep; exact H|].
    destruct (e =? 102); [apply Hstep; exact H|]. destruct (e =? 110); [apply Hstep; exact H|].
    destruct (e =? 114); [apply Hstep; exact H|]. destruct (e =? 116); [apply Hstep; exact H|].
    destruct (e =? 117); [|discriminate].
    destruct r1 as [|a [|b1 [|c [|d r2]]]]; try discriminate. cbn [app].
    destruct (hex4 a b1 c d) as [u|]; [|discriminate].
    destruct ((55296 <=? u) && (u <? 56320)) eqn:Ehigh.
    2:{ destruct ((56320 <=? u) && (u <? 57344)); apply Hstep; exact H. }
    destruct (Nat.lt_ge_cases (length r2) 6) as [Hshort|Hlong].
    - assert (HG : cons_fst [239; 191; 189] (parse_str f r2) = Some (o, r)).
      { destruct r2 as [|e1 [|e2 [|a2 [|b2 [|c2 [|d2 r3]]]]]]; try exact H. cbn [length] in Hshort. lia. }
      pose proof HG as HG'. apply cons_fst_ok in HG' as (s' & Hs & _).
      rewrite (lookahead_short r2 rest f s' r _ _ Hshort Hs). apply Hstep. exact HG.
    - destruct r2 as [|e1 [|e2 [|a2 [|b2 [|c2 [|d2 r3]]]]]]; cbn [length] in Hlong; try lia. cbn [app].
      destruct ((e1 =? 92) && (e2 =? 117)).
      + destruct (hex4 a2 b2 c2 d2) as [v|].
        * destruct ((56320 <=? v) && (v <? 57344)); [apply Hstep; exact H|].
          apply (Hstep _ (e1 :: e2 :: a2 :: b2 :: c2 :: d2 :: r3)). exact H.
        * apply (Hstep _ (e1 :: e2 :: a2 :: b2 :: c2 :: d2 :: r3)). exact H.
      + apply (Hstep _ (e1 :: e2 :: a2 :: b2 :: c2 :: d2 :: r3)). exact H. }
  destruct (b <? 32); [discriminate|].
  destruct (b <? 128); [apply Hstep; exact H|].
  destruct (utf8_len (b :: r0)) as [n|] eqn:En; [|discriminate].
  change (b :: r0 ++ rest) with ((b :: r0) ++ rest). rewrite (utf8_len_app _ rest _ En).
  pose proof (utf8_len_range _ _ En) as [_ Hn].
  rewrite firstn_app, skipn_app. replace (n - length (b :: r0))%nat with 0%nat by lia.
  cbn [firstn skipn]. rewrite app_nil_r. apply Hstep. exact H.
Qed.

Lemma sp_value_S f s : sp_value (S f) s =

    match skip_ws s with
    | [] => None
    | c :: r =>
      if c =? 123 then
        match skip_ws r with
        | [] => None
        | c1 :: r' =>
          if c1 =? 125 then Some (JObj [], r')
          else match sp_members f (c1 :: r') with
               | Some (l, r2) => Some (JObj l, r2)
               | None => None
               end
        end
      else if c =? 91 then
        match skip_ws r with
        | [] => None
        | c1 :: r' =>
          if c1 =? 93 then Some (JArr [], r')
          else match sp_elems f (c1 :: r') with
               | Some (l, r2) => Some (JArr l, r2)
               | None => None
               end
        end
      else if c =? 34 then
        match parse_str (S (length r)) r with
        | Some (str, r') => Some (JStr str, r')
        | None => None
        end
      else if c =? 116 then
        match strip_prefix [114; 117; 101] r with Some r' => Some (JBool true, r') | None => None end
      else if c =? 102 then
        match strip_prefix [97; 108; 115; 101] r with Some r' => Some (JBool false, r') | None => None end
      else if c =? 110 then
        match strip_prefix [117; 108; 108] r with Some r' => Some (JNull, r') | None => None end
      else
        let (lit, r') := span_num (c :: r) in
        if valid_number lit then Some (JNum lit, r') else None
    end.
Proof. reflexivity. Qed.

Lemma sp_members_S f s : sp_members (S f) s =

    match s with
    | [] => None
    | q :: r =>
      if q =? 34 then
        match parse_str (S (length r)) r with
        | Some (k, r1) =>
          match skip_ws r1 with
          | [] => None
          | c2 :: r2 =>
            if c2 =? 58 then
              match sp_value f r2 with
              | Some (v, r3) =>
                match skip_ws r3 with
                | [] => None
                | c4 :: r4 =>
                  if c4 =? 125 then Some ([(k, v)], r4)
                  else if c4 =? 44 then
                    match sp_members f (skip_ws r4) with
                    | Some (l, r5) => Some ((k, v) :: l, r5)
                    | None => None
                    end
                  else None
                end
              | None => None
              end
            else None
          end
        | None => None
        end
      else None
    end.
Proof. reflexivity. Qed.

Lemma sp_elems_S f s : sp_elems (S f) s =

    match sp_value f s with
    | Some (v, r1) =>
      match skip_ws r1 with
      | [] => None
      | c2 :: r2 =>
        if c2 =? 93 then Some ([v], r2)
        else if c2 =? 44 then
          match sp_elems f r2 with
          | Some (l, r3) => Some (v :: l, r3)
          | None => None
          end
        else None
      end
    | None => None
    end.
Proof. reflexivity. Qed.

(* ---------------------------------------------------------------- the reader in a longer text *)
Lemma skip_ws_ext s c r rest : skip_ws s = c :: r -> skip_ws (s ++ rest) = c :: r ++ rest.
Proof.
  induction s as [|x t IH]; cbn [skip_ws app]; [discriminate|].
  destruct (is_space x); [exact IH|]. intros [= <- <-]. reflexivity.
Qed.

Lemma strip_prefix_ext p : forall s r rest, strip_prefix p s = Some r -> strip_prefix p (s ++ rest) = Some (r ++ rest).
Proof.
  induction p as [|x p IH]; intros s r rest H; cbn [strip_prefix] in *.
  - injection H as <-. reflexivity.
  - destruct s as [|y s']; [discriminate|]. cbn [app]. destruct (x =? y); [apply IH; exact H|discriminate].
Qed.

Lemma span_num_ext s : forall lit r rest, span_num s = (lit, r) -> (r = [] -> rest_ok rest) ->
  span_num (s ++ rest) = (lit, r ++ rest).
Proof.
  induction s as [|c t IH]; intros lit r rest H Hr; cbn [span_num] in H.
  - injection H as <- <-. cbn [app]. specialize (Hr eq_refl). destruct rest as [|c r]; [reflexivity|].
    cbn [span_num]. cbn in Hr. replace (is_num_char c) with false by (unfold is_num_char, is_digit; lia). reflexivity.
  - cbn [app span_num]. destruct (is_num_char c).
    + destruct (span_num t) as [d t'] eqn:E. injection H as <- <-. rewrite (IH d t' rest eq_refl Hr). reflexivity.
    + injection H as <- <-. reflexivity.
Qed.

Definition EV (f : nat) : Prop := forall s j r, sp_value f s = Some (j, r) ->
  forall f' rest, (f <= f')%nat -> (r = [] -> rest_ok rest) -> sp_value f' (s ++ rest) = Some (j, r ++ rest).
Definition EM (f : nat) : Prop := forall s l r, sp_members f s = Some (l, r) ->
  forall f' rest, (f <= f')%nat -> sp_members f' (s ++ rest) = Some (l, r ++ rest).
Definition EE (f : nat) : Prop := forall s l r, sp_elems f s = Some (l, r) ->
  forall f' rest, (f <= f')%nat -> sp_elems f' (s ++ rest) = Some (l, r ++ rest).

Lemma skip_ws_nonempty s c r : skip_ws s = c :: r -> s <> [].
Proof. destruct s; [discriminate|discriminate]. Qed.

Lemma sp_ext_all : forall f, EV f /\ EM f /\ EE f.
Proof.
  induction f as [|f (IHV & IHM & IHE)]; [repeat split; intros until r; discriminate|].
  assert (Hstr : forall t k r1 rest, parse_str (S (length t)) t = Some (k, r1) ->
            parse_str (S (length (t ++ rest))) (t ++ rest) = Some (k, r1 ++ rest)).
  { intros t k r1 rest H. apply (parse_str_ext _ _ _ _ H). rewrite app_length. lia. }
  assert (HV : EV (S f)).
  { intros s j r H f' rest Hf Hr. destruct f' as [|f']; [lia|]. rewrite sp_value_S in H |- *.
    destruct (skip_ws s) as [|c t] eqn:Es; [discriminate|]. rewrite (skip_ws_ext _ _ _ rest Es).
    destruct (c =? 123).
    { destruct (skip_ws t) as [|c1 t1] eqn:Et; [discriminate|]. rewrite (skip_ws_ext _ _ _ rest Et).
      destruct (c1 =? 125); [injection H as <- <-; reflexivity|].
      destruct (sp_members f (c1 :: t1)) as [[l r2]|] eqn:Em; [|discriminate]. injection H as <- <-.
      change (c1 :: t1 ++ rest) with ((c1 :: t1) ++ rest). rewrite (IHM _ _ _ Em f' rest) by lia. reflexivity. }
    destruct (c =? 91).
    { destruct (skip_ws t) as [|c1 t1] eqn:Et; [discriminate|]. rewrite (skip_ws_ext _ _ _ rest Et).
      destruct (c1 =? 93); [injection H as <- <-; reflexivity|].
      destruct (sp_elems f (c1 :: t1)) as [[l r2]|] eqn:Em; [|discriminate]. injection H as <- <-.
      change (c1 :: t1 ++ rest) with ((c1 :: t1) ++ rest). rewrite (IHE _ _ _ Em f' rest) by lia. reflexivity. }
    destruct (c =? 34).
    { destruct (parse_str (S (length t)) t) as [[str r']|] eqn:Ep; [|discriminate]. injection H as <- <-.
      rewrite (Hstr _ _ _ rest Ep). reflexivity. }
    destruct (c =? 116).
    { destruct (strip_prefix [114; 117; 101] t) as [r'|] eqn:Ep; [|discriminate]. injection H as <- <-.
      rewrite (strip_prefix_ext _ _ _ rest Ep). reflexivity. }
    destruct (c =? 102).
    { destruct (strip_prefix [97; 108; 115; 101] t) as [r'|] eqn:Ep; [|discriminate]. injection H as <- <-.
      rewrite (strip_prefix_ext _ _ _ rest Ep). reflexivity. }
    destruct (c =? 110).
    { destruct (strip_prefix [117; 108; 108] t) as [r'|] eqn:Ep; [|discriminate]. injection H as <- <-.
      rewrite (strip_prefix_ext _ _ _ rest Ep). reflexivity. }
    destruct (span_num (c :: t)) as [lit r'] eqn:En. destruct (valid_number lit) eqn:Ev; [|discriminate].
    injection H as <- <-. change (c :: t ++ rest) with ((c :: t) ++ rest).
    rewrite (span_num_ext _ _ _ rest En Hr). rewrite Ev. reflexivity. }
  assert (HM : EM (S f)).
  { intros s l r H f' rest Hf. destruct f' as [|f']; [lia|]. rewrite sp_members_S in H |- *.
    destruct s as [|q t]; [discriminate|]. cbn [app]. destruct (q =? 34); [|discriminate].
    destruct (parse_str (S (length t)) t) as [[k r1]|] eqn:Ep; [|discriminate]. rewrite (Hstr _ _ _ rest Ep).
    destruct (skip_ws r1) as [|c2 r2] eqn:E1; [discriminate|]. rewrite (skip_ws_ext _ _ _ rest E1).
    destruct (c2 =? 58); [|discriminate].
    destruct (sp_value f r2) as [[v r3]|] eqn:Ev; [|discriminate].
    destruct (skip_ws r3) as [|c4 r4] eqn:E3; [discriminate|].
    rewrite (IHV _ _ _ Ev f' rest) by (lia || (intros ->; discriminate)).
    rewrite (skip_ws_ext _ _ _ rest E3).
    destruct (c4 =? 125); [injection H as <- <-; reflexivity|].
    destruct (c4 =? 44); [|discriminate].
    destruct (sp_members f (skip_ws r4)) as [[l' r5]|] eqn:Em; [|discriminate]. injection H as <- <-.
    assert (Hne : exists c5 t5, skip_ws r4 = c5 :: t5).
    { destruct (skip_ws r4) as [|c5 t5]; [|eauto]. destruct f; discriminate. }
    destruct Hne as (c5 & t5 & E5). rewrite (skip_ws_ext _ _ _ rest E5). rewrite E5 in Em.
    change (c5 :: t5 ++ rest) with ((c5 :: t5) ++ rest). rewrite (IHM _ _ _ Em f' rest) by lia. reflexivity. }
  assert (HE : EE (S f)).
  { intros s l r H f' rest Hf. destruct f' as [|f']; [lia|]. rewrite sp_elems_S in H |- *.
    destruct (sp_value f s) as [[v r1]|] eqn:Ev; [|discriminate].
    destruct (skip_ws r1) as [|c2 r2] eqn:E1; [discriminate|].
    rewrite (IHV _ _ _ Ev f' rest) by (lia || (intros ->; discriminate)).
    rewrite (skip_ws_ext _ _ _ rest E1).
    destruct (c2 =? 93); [injection H as <- <-; reflexivity|].
    destruct (c2 =? 44); [|discriminate].
    destruct (sp_elems f r2) as [[l' r3]|] eqn:Em; [|discriminate]. injection H as <- <-.
    rewrite (IHE _ _ _ Em f' rest) by lia. reflexivity. }
  repeat split; assumption.
Qed.

(* a standalone JSON text, embedded: the reader reads the same value and stops in front of [rest] *)
Theorem strict_parse_embedded t j rest f : strict_parse t = Some j -> rest_ok rest -> (length t < f)%nat ->
  exists r, sp_value f (t ++ rest) = Some (j, r ++ rest) /\ skip_ws (r ++ rest) = rest.
Proof.
  unfold strict_parse. intros H Hr Hf.
  destruct (sp_value (S (length t)) t) as [[j' r]|] eqn:E; [|discriminate].
  destruct (skip_ws r) eqn:Ew; [|discriminate]. injection H as ->.
  destruct (sp_ext_all (S (length t))) as (HV & _ & _).
  exists r. split; [apply (HV _ _ _ E); [lia|intros _; exact Hr]|].
  clear -Ew Hr. induction r as [|c r IH]; cbn [app skip_ws] in *.
  - destruct rest as [|c r]; [reflexivity|]. cbn in Hr. cbn [skip_ws].
    replace (is_space c) with false by (unfold is_space; lia). reflexivity.
  - destruct (is_space c); [apply IH; exact Ew|discriminate].
Qed.

(* ================================================================ texts the strict reader reads *)
Definition reads (txt : (list N)) (j : jvalue) : Prop :=
  (exists c t, txt = c :: t /\ head_class j c) /\
  forall f rest, rest_ok rest -> (length txt <= f)%nat -> sp_value f (txt ++ rest) = Some (j, rest).

Lemma reads_print j : wfb j = true -> reads (print j) j.
Proof. intros H. split; [apply print_head; exact H|]. intros f rest Hr Hf. apply sp_value_print; assumption. Qed.

Lemma reads_len txt j : reads txt j -> (1 <= length txt)%nat.
Proof. intros [(c & t & -> & _) _]. cbn [length]. lia. Qed.

Lemma head_class_not_close j c : head_class j c -> c <> 93 /\ c <> 125 /\ is_space c = false.
Proof. destruct j as [|[]|lit|s|l|l]; cbn [head_class]; unfold is_space, is_digit; lia. Qed.

Lemma sp_elems_reads (tjs : list ((list N) * jvalue)) : tjs <> [] ->
  Forall (fun tj => reads (fst tj) (snd tj)) tjs ->
  forall f rest, (length (join 44 (map fst tjs)) + 1 <= f)%nat ->
  sp_elems f (join 44 (map fst tjs) ++ 93 :: rest) = Some (map snd tjs, rest).
Proof.
  induction tjs as [|x r IH]; [congruence|]. intros _ HP f rest Hf.
  inversion HP as [|? ? Hx Hr]; subst. destruct Hx as [_ Hx].
  destruct f as [|f]; [lia|]. rewrite sp_elems_S.
  destruct r as [|y r'].
  - cbn [map join] in *. rewrite (Hx f (93 :: rest)); [|cbn; auto|lia].
    cbn [skip_ws]. change (is_space 93) with false. cbv iota. change (93 =? 93) with true. reflexivity.
  - cbn [map] in *. rewrite join_cons in *. rewrite <- app_assoc. cbn [app].
    rewrite app_length in Hf. cbn [length] in Hf.
    rewrite Hx; [|cbn; auto|lia].
    cbn [skip_ws]. change (is_space 44) with false. cbv iota. change (44 =? 93) with false. change (44 =? 44) with true.
    cbv iota. rewrite IH; [reflexivity|congruence|exact Hr|lia].
Qed.

Definition mtext (ktj : (list N) * ((list N) * jvalue)) : (list N) := print_str (fst ktj) ++ 58 :: fst (snd ktj).
Definition mtree (ktj : (list N) * ((list N) * jvalue)) : (list N) * jvalue := (fst ktj, snd (snd ktj)).

Lemma sp_members_reads (l : list ((list N) * ((list N) * jvalue))) : l <> [] ->
  Forall (fun ktj => valid_utf8 (fst ktj) = true /\ reads (fst (snd ktj)) (snd (snd ktj))) l ->
  forall f rest, (length (join 44 (map mtext l)) + 1 <= f)%nat ->
  sp_members f (join 44 (map mtext l) ++ 125 :: rest) = Some (map mtree l, rest).
Proof.
  induction l as [|x r IH]; [congruence|]. intros _ HP f rest Hf.
  inversion HP as [|? ? Hx Hr]; subst. destruct Hx as [Hk [_ Hx]].
  apply valid_utf8_iff in Hk.
  destruct f as [|f]; [lia|]. rewrite sp_members_S.
  assert (Hmem : forall tail, mtext x ++ tail = 34 :: esc_bytes (fst x) ++ 34 :: 58 :: fst (snd x) ++ tail).
  { intros tail. unfold mtext, print_str. cbn [app]. rewrite <- !app_assoc. reflexivity. }
  assert (Hlen : (length (mtext x) = 3 + length (esc_bytes (fst x)) + length (fst (snd x)))%nat).
  { unfold mtext, print_str. cbn [length]. rewrite !app_length. cbn [length]. rewrite app_length. cbn [length]. lia. }
  destruct r as [|y r'].
  - cbn [map join] in *. rewrite Hmem. change (34 =? 34) with true. cbv iota.
    rewrite parse_str_print; [|exact Hk|].
    2:{ rewrite app_length. pose proof (esc_bytes_len (fst x)). cbn [length]. lia. }
    cbn [skip_ws]. change (is_space 58) with false. cbv iota. change (58 =? 58) with true. cbv iota.
    rewrite (Hx f (125 :: rest)); [|cbn; auto|lia].
    cbn [skip_ws]. change (is_space 125) with false. cbv iota. change (125 =? 125) with true. reflexivity.
  - cbn [map] in *. rewrite join_cons in *. rewrite <- app_assoc. cbn [app]. rewrite Hmem.
    change (34 =? 34) with true. cbv iota.
    rewrite parse_str_print; [|exact Hk|].
    2:{ rewrite app_length. pose proof (esc_bytes_len (fst x)). cbn [length]. lia. }
    cbn [skip_ws]. change (is_space 58) with false. cbv iota. change (58 =? 58) with true. cbv iota.
    rewrite app_length in Hf. cbn [length] in Hf.
    rewrite Hx; [|cbn; auto|lia].
    cbn [skip_ws]. change (is_space 44) with false. cbv iota. change (44 =? 125) with false. change (44 =? 44) with true.
    cbv iota.
    assert (Hsk : skip_ws (join 44 (mtext y :: map mtext r') ++ 125 :: rest) =
                  join 44 (mtext y :: map mtext r') ++ 125 :: rest).
    { destruct r' as [|z r'']; cbn [map join]; unfold mtext at 1, print_str; cbn [app skip_ws];
        change (is_space 34) with false; reflexivity. }
    rewrite Hsk. rewrite (IH ltac:(congruence) Hr f rest) by lia. reflexivity.
Qed.

Lemma reads_arr (tjs : list ((list N) * jvalue)) : Forall (fun tj => reads (fst tj) (snd tj)) tjs ->
  reads (91 :: join 44 (map fst tjs) ++ [93]) (JArr (map snd tjs)).
Proof.
  intros HP. split; [eexists _, _; split; reflexivity|]. intros f rest Hr Hf.
  destruct f; [cbn in Hf; lia|]. rewrite sp_value_S. cbn [app skip_ws]. change (is_space 91) with false. cbv iota.
  change (91 =? 123) with false. change (91 =? 91) with true. cbv iota.
  destruct tjs as [|[tx x] r].
  - cbn [map join app skip_ws]. change (is_space 93) with false. cbv iota. change (93 =? 93) with true. reflexivity.
  - rewrite <- app_assoc. cbn [app].
    inversion HP as [|? ? Hx _]; subst. cbn [fst snd] in Hx. destruct Hx as [(c & t & -> & Hc) _].
    destruct (head_class_not_close _ _ Hc) as (H93 & _ & Hs).
    assert (Hj : exists t', join 44 (map fst ((c :: t, x) :: r)) = c :: t').
    { cbn [map fst]. destruct r as [|y r']; cbn [map join app]; eexists; reflexivity. }
    destruct Hj as [t' Hj].
    pose proof (sp_elems_reads ((c :: t, x) :: r) ltac:(congruence) HP f rest) as Hpe.
    rewrite Hj in *. cbn [app]. rewrite skip_ws_head by exact Hs.
    replace (c =? 93) with false by lia. cbn [app] in Hpe. rewrite Hpe; [reflexivity|].
    cbn [length] in Hf. rewrite app_length in Hf. cbn [length] in Hf. cbn [length]. lia.
Qed.

Lemma reads_obj (l : list ((list N) * ((list N) * jvalue))) :
  Forall (fun ktj => valid_utf8 (fst ktj) = true /\ reads (fst (snd ktj)) (snd (snd ktj))) l ->
  reads (123 :: join 44 (map mtext l) ++ [125]) (JObj (map mtree l)).
Proof.
  intros HP. split; [eexists _, _; split; reflexivity|]. intros f rest Hr Hf.
  destruct f; [cbn in Hf; lia|]. rewrite sp_value_S. cbn [app skip_ws]. change (is_space 123) with false. cbv iota.
  change (123 =? 123) with true. cbv iota.
  destruct l as [|x r].
  - cbn [map join app skip_ws]. change (is_space 125) with false. cbv iota. change (125 =? 125) with true. reflexivity.
  - rewrite <- app_assoc. cbn [app].
    assert (Hj : exists t', join 44 (map mtext (x :: r)) = 34 :: t').
    { cbn [map]. destruct r as [|y r']; cbn [map join]; unfold mtext at 1, print_str; cbn [app]; eexists; reflexivity. }
    destruct Hj as [t' Hj].
    pose proof (sp_members_reads (x :: r) ltac:(congruence) HP f rest) as Hpe.
    rewrite Hj in *. cbn [app]. cbn [skip_ws]. change (is_space 34) with false. cbv iota.
    change (34 =? 125) with false. cbv iota. cbn [app] in Hpe. rewrite Hpe; [reflexivity|].
    cbn [length] in Hf. rewrite app_length in Hf. cbn [length] in Hf. cbn [length]. lia.
Qed.

(* ================================================================ the encoder with arbitrary embedded JSON *)
From J5V.lib Require Import Base64 Civil.
From J5V.model Require Import CodecTypes CodecEnc CodecEncSpec.
From J5V.proofs Require Import CodecEncProofs.

(* the object encodeAny writes: the value member is a standalone JSON text, copied verbatim *)
Lemma reads_any tn data Jd : valid_utf8 tn = true -> strict_parse data = Some Jd ->
  reads (123 :: member (print (JStr txt_type)) (print (JStr tn)) ++ 44 :: member (print (JStr txt_value)) data ++ [125])
        (JObj [(txt_type, JStr tn); (txt_value, Jd)]).
Proof.
  intros Htn Hd. split; [eexists _, _; split; reflexivity|]. intros f rest Hr Hf.
  unfold member in *. cbn [print] in *. unfold print_str in *.
  change (esc_bytes txt_type) with txt_type in *. change (esc_bytes txt_value) with txt_value in *.
  unfold txt_type, txt_value in *. cbn [app] in *. repeat (rewrite <- app_assoc; cbn [app]).
  repeat (progress cbn [length] in Hf || rewrite app_length in Hf).
  destruct f as [|f]; [lia|]. rewrite sp_value_S. cbn [skip_ws]. change (is_space 123) with false. cbv iota.
  change (123 =? 123) with true. cbv iota. cbn [skip_ws]. change (is_space 34) with false. cbv iota.
  change (34 =? 125) with false. cbv iota.
  destruct f as [|f]; [lia|]. rewrite sp_members_S. change (34 =? 34) with true. cbv iota.
  (* key "!type" *)
  match goal with |- context [parse_str ?F (33 :: 116 :: 121 :: 112 :: 101 :: 34 :: ?R)] =>
    let H := fresh "Hkey" in
    assert (H : parse_str F (33 :: 116 :: 121 :: 112 :: 101 :: 34 :: R) = Some ([33; 116; 121; 112; 101], R))
      by (apply (parse_str_print [33; 116; 121; 112; 101] (proj1 (valid_utf8_iff [33; 116; 121; 112; 101]) eq_refl) F R); cbn [length]; lia);
    rewrite H end.
  cbn [skip_ws]. change (is_space 58) with false. cbv iota. change (58 =? 58) with true. cbv iota.
  (* the type name *)
  match goal with |- context [sp_value ?F (34 :: esc_bytes tn ++ 34 :: ?R)] =>
    let H := fresh "Hval" in
    assert (H : sp_value F (34 :: esc_bytes tn ++ 34 :: R) = Some (JStr tn, R));
    [ pose proof (sp_value_print (JStr tn) Htn F R) as Hv; cbn [print] in Hv; unfold print_str in Hv;
      cbn [app] in Hv; rewrite <- app_assoc in Hv; cbn [app] in Hv;
      apply Hv; [cbn; auto|cbn [length]; rewrite app_length; cbn [length]; lia]
    | rewrite H ] end.
  cbn [skip_ws]. change (is_space 44) with false. cbv iota. change (44 =? 125) with false. change (44 =? 44) with true. cbv iota.
  cbn [skip_ws]. change (is_space 34) with false. cbv iota.
  destruct f as [|f]; [lia|]. rewrite sp_members_S. change (34 =? 34) with true. cbv iota.
  match goal with |- context [parse_str ?F (118 :: 97 :: 108 :: 117 :: 101 :: 34 :: ?R)] =>
    let H := fresh "Hkey" in
    assert (H : parse_str F (118 :: 97 :: 108 :: 117 :: 101 :: 34 :: R) = Some ([118; 97; 108; 117; 101], R))
      by (apply (parse_str_print [118; 97; 108; 117; 101] (proj1 (valid_utf8_iff [118; 97; 108; 117; 101]) eq_refl) F R); cbn [length]; lia);
    rewrite H end.
  cbn [skip_ws]. change (is_space 58) with false. cbv iota. change (58 =? 58) with true. cbv iota.
  assert (Hlen : (length data < f)%nat) by (clear -Hf; lia).
  destruct (strict_parse_embedded data Jd (125 :: rest) f Hd) as (r & Hp & Hs); [cbn; auto|exact Hlen|].
  rewrite Hp, Hs. change (125 =? 125) with true. cbv iota. reflexivity.
Qed.

Section Embedded.
  Variable fmt_float : bool -> N -> list N.
  Variable any_inner : list N -> list N -> outcome (list N).
  Variable env : env.
  Hypothesis Hfloat : float_text_ok fmt_float.
  Definition json_text (t : list N) : Prop := exists j, strict_parse t = Some j.
  Hypothesis Hinner : forall tn pb t, any_inner tn pb = Ok t -> json_text t.
  Hypothesis Hflat : oneofs_flat env.

  Notation enc_value := (enc_value fmt_float any_inner env).
  Notation enc_object := (enc_object fmt_float any_inner env).
  Notation enc_oneof := (enc_oneof fmt_float any_inner env).
  Notation wire_value := (wire_value fmt_float env).
  Notation wire_members := (wire_members fmt_float env).
  Notation wire_oneof := (wire_oneof fmt_float env).
  Notation raw_ok := (raw_ok_gen env json_text).
  Notation raw_props := (raw_props_gen env json_text).

  Definition E_value (f : nat) : Prop := forall t v txt,
    enc_value f t v = Ok txt -> exists J, reads txt J /\ wire_value t v J.
  Definition E_object (f : nat) : Prop := forall ps m txt,
    enc_object f ps m = Ok txt ->
    exists ms, reads txt (JObj ms) /\ wire_members ps m ms.
  Definition E_oneof (f : nat) : Prop := forall ps m txt,
    Forall (fun p => p_path p <> []) ps ->
    enc_oneof f ps m = Ok txt ->
    exists J, reads txt J /\ wire_oneof ps m J.

  Lemma e_array_step f it : E_value f -> forall l xs,
    sequence (map (enc_value f it) l) = Ok xs ->
    exists tjs : list (list N * jvalue), xs = map fst tjs /\ Forall2 (wire_value it) l (map snd tjs) /\
                Forall (fun tj => reads (fst tj) (snd tj)) tjs.
  Proof.
    intros IH l. induction l as [|v r IHl]; intros xs H; cbn [map sequence] in H.
    - injection H as <-. exists []. repeat split; constructor.
    - apply obind_ok in H as (x & Hx & H). apply omap_ok in H as (ys & Hys & ->).
      destruct (IH _ _ _ Hx) as (J & Hrd & Hwire).
      destruct (IHl _ Hys) as (tjs & -> & Hf & Hall).
      exists ((x, J) :: tjs). split; [reflexivity|]. split; [constructor; assumption|constructor; assumption].
  Qed.

  Lemma e_map_step f it : E_value f -> forall es xs,
    sequence (map (fun kv => obind (escape (fst kv)) (fun l => omap (member l) (enc_value f it (snd kv)))) es) = Ok xs ->
    exists l : list (list N * (list N * jvalue)), xs = map mtext l /\
      Forall2 (fun kv km => fst kv = fst km /\ wire_value it (snd kv) (snd km)) es (map mtree l) /\
      Forall (fun ktj => valid_utf8 (fst ktj) = true /\ reads (fst (snd ktj)) (snd (snd ktj))) l.
  Proof.
    intros IH es. induction es as [|[k v] r IHl]; intros xs H; cbn [map sequence] in H.
    - injection H as <-. exists []. repeat split; constructor.
    - apply obind_ok in H as (x & Hx & H). apply omap_ok in H as (ys & Hys & ->).
      cbn [fst snd] in *.
      apply obind_ok in Hx as (l & Hl & Hx). apply omap_ok in Hx as (b & Hb & ->).
      apply escape_ok in Hl as [Hk ->].
      destruct (IH _ _ _ Hb) as (J & Hrd & Hwire).
      destruct (IHl _ Hys) as (ms & -> & Hf & Hall).
      exists ((k, (b, J)) :: ms). split; [reflexivity|].
      split; [constructor; [split; [reflexivity|exact Hwire]|exact Hf]|].
      constructor; [split; assumption|exact Hall].
  Qed.

  Lemma e_object_step f m : E_value f -> forall ps xs,
    sequence (map (fun p => obind (prop_lookup env lookup_fuel p m) (fun ov =>
              match ov with
              | None => Ok []
              | Some v => obind (escape (p_json p)) (fun l => omap (fun b => [member l b]) (enc_value f (p_ty p) v))
              end)) ps) = Ok xs ->
    exists l : list (list N * (list N * jvalue)), concat xs = map mtext l /\ wire_members ps m (map mtree l) /\
      Forall (fun ktj => valid_utf8 (fst ktj) = true /\ reads (fst (snd ktj)) (snd (snd ktj))) l.
  Proof.
    intros IH ps. induction ps as [|p r IHl]; intros xs H; cbn [map sequence] in H.
    - injection H as <-. exists []. repeat split; constructor.
    - apply obind_ok in H as (x & Hx & H). apply omap_ok in H as (ys & Hys & ->).
      apply obind_ok in Hx as (ov & Hov & Hx).
      apply (prop_lookup_present env Hflat) in Hov.
      destruct (IHl _ Hys) as (ms & Hc & Hm & Hall).
      destruct ov as [v|].
      + apply obind_ok in Hx as (l & Hl & Hx). apply omap_ok in Hx as (b & Hb & ->).
        apply escape_ok in Hl as [Hk ->].
        destruct (IH _ _ _ Hb) as (J & Hrd & Hwire).
        exists ((p_json p, (b, J)) :: ms). split; [cbn [concat map app]; rewrite Hc; reflexivity|].
        split; [cbn [map]; eapply WM_set; eassumption|]. constructor; [split; assumption|exact Hall].
      + injection Hx as <-.
        exists ms. split; [cbn [concat app]; exact Hc|]. split; [apply WM_unset; assumption|exact Hall].
  Qed.

  Lemma member_mtext k t j : member (print (JStr k)) t = mtext (k, (t, j)).
  Proof. reflexivity. Qed.

  Lemma e_any pb m txt :
    enc_any any_inner pb m = Ok txt ->
    exists J, reads txt J /\ wire_value (FAny pb) (VMsg m) J.
  Proof.
    intros H. unfold enc_any in H.
    apply obind_ok in H as (tn0 & Htn & H). apply obind_ok in H as (data & Hdata & H).
    apply obind_ok in H as (l1 & Hl1 & H). apply obind_ok in H as (t & Ht & H).
    apply obind_ok in H as (l2 & Hl2 & H). injection H as <-.
    apply escape_ok in Hl1 as [_ ->]. apply escape_ok in Hl2 as [_ ->]. apply escape_ok in Ht as [Hvt ->].
    assert (Hc : json_text data).
    { destruct pb.
      - apply obind_ok in Hdata as (pbytes & _ & Hd). eapply Hinner; exact Hd.
      - destruct (msg_get 3 m) as [[]|] eqn:E3;
          try (apply obind_ok in Hdata as (pbytes & _ & Hd); eapply Hinner; exact Hd).
        apply stored_json_ok in Hdata as [-> Hj]. exact Hj. }
    destruct Hc as (Jd & Hd).
    set (tn := if pb then trim_prefix any_prefix tn0 else tn0) in *.
    exists (JObj [(txt_type, JStr tn); (txt_value, Jd)]). split.
    - apply reads_any; assumption.
    - assert (tn = any_type_name pb m) as ->.
      { unfold any_type_name, tn. rewrite (field_bytes_s _ _ _ Htn). reflexivity. }
      constructor. intros s -> E3. rewrite E3 in Hdata. apply stored_json_ok in Hdata as [E _]. subst. exact Hd.
  Qed.

  Lemma e_structure : forall f, E_value f /\ E_object f /\ E_oneof f.
  Proof.
    induction f as [|f (IHv & IHo & IHn)].
    - repeat split; intros *; cbn; discriminate || (intros; discriminate).
    - assert (Hobj : E_object (S f)).
      { intros ps m txt H. rewrite enc_object_S in H.
        apply omap_ok in H as (xs & Hxs & ->).
        destruct (e_object_step f m IHv ps xs Hxs) as (l & Hc & Hm & Hall).
        exists (map mtree l). split; [|exact Hm]. unfold join_b. rewrite Hc. apply reads_obj. exact Hall. }
      assert (Hone : E_oneof (S f)).
      { intros ps m txt HF H. rewrite enc_oneof_S in H.
        apply obind_ok in H as (o & Ho & H). apply (get_one_spec env ps m o HF) in Ho.
        destruct o as [[p v]|].
        - destruct Ho as (Hin & Hp & Hoth).
          apply obind_ok in H as (l1 & Hl1 & H). apply obind_ok in H as (nm & Hnm & H).
          apply obind_ok in H as (b & Hb & H). injection H as <-.
          apply escape_ok in Hl1 as [_ ->]. apply escape_ok in Hnm as [Hk ->].
          destruct (IHv _ _ _ Hb) as (J & Hrd & Hwire).
          exists (JObj [(txt_type, JStr (p_json p)); (p_json p, J)]). split.
          + rewrite (member_mtext txt_type _ (JStr (p_json p))), (member_mtext (p_json p) b J).
            match goal with |- reads ?T _ =>
              replace T with (123 :: join 44 (map mtext [(txt_type, (print (JStr (p_json p)), JStr (p_json p))); (p_json p, (b, J))]) ++ [125])
                by (cbn [map join]; rewrite <- app_assoc; reflexivity) end.
            change (JObj [(txt_type, JStr (p_json p)); (p_json p, J)])
              with (JObj (map mtree [(txt_type, (print (JStr (p_json p)), JStr (p_json p))); (p_json p, (b, J))])).
            apply reads_obj. constructor; [split; [reflexivity|apply reads_print; exact Hk]|].
            constructor; [split; assumption|constructor].
          + eapply WO_one; eassumption.
        - injection H as <-. exists (JObj []). split; [apply (reads_print (JObj [])); reflexivity|]. apply WO_empty. exact Ho. }
      split; [|split; assumption].
      intros t v txt H. rewrite enc_value_S in H. destruct t as [k|r|r|r|it|it|pb].
      + destruct (enc_scalar_tree fmt_float Hfloat k v txt H) as (J & Hw & -> & Hs).
        exists J. split; [apply reads_print; exact Hw|]. constructor. exact Hs.
      + destruct (lookup env r) as [[ps|ps|pre opts]|] eqn:El; try discriminate.
        destruct v; try discriminate. destruct (option_by_number opts n) as [name|] eqn:En; [|discriminate].
        apply escape_ok in H as [Hv ->]. exists (JStr name). split; [apply reads_print; exact Hv|].
        econstructor; eassumption.
      + destruct (lookup env r) as [[ps|ps|pre opts]|] eqn:El; try discriminate.
        destruct v; try discriminate.
        destruct (IHo _ _ _ H) as (ms & Ht & Hm).
        exists (JObj ms). split; [exact Ht|]. econstructor; eassumption.
      + destruct (lookup env r) as [[ps|ps|pre opts]|] eqn:El; try discriminate.
        destruct v; try discriminate.
        destruct (IHn _ _ _ (Hflat _ _ El) H) as (J & Ht & Hm).
        exists J. split; [exact Ht|]. econstructor; eassumption.
      + destruct v; try discriminate. apply omap_ok in H as (xs & Hxs & ->).
        destruct (e_array_step f it IHv _ _ Hxs) as (tjs & -> & Hf & Hall).
        exists (JArr (map snd tjs)). split; [unfold join_b; apply reads_arr; exact Hall|]. constructor. exact Hf.
      + destruct v; try discriminate. apply omap_ok in H as (xs & Hxs & ->).
        destruct (e_map_step f it IHv _ _ Hxs) as (l & -> & Hf & Hall).
        exists (JObj (map mtree l)). split; [unfold join_b; apply reads_obj; exact Hall|]. constructor. exact Hf.
      + destruct v; try discriminate. apply e_any; assumption.
  Qed.

  Lemma reads_strict txt J : reads txt J -> strict_parse txt = Some J.
  Proof.
    intros [_ H]. unfold strict_parse. specialize (H (S (length txt)) [] I ltac:(lia)).
    rewrite app_nil_r in H. rewrite H. reflexivity.
  Qed.

  (* C08 at full strength: no condition on the message — the encoder itself refuses a stored j5_json
     text that is not a JSON document (stored_json), every other embedded text is an inner encoding *)
  Theorem encode_wellformed_full root m txt :
    encode fmt_float any_inner env root m = Ok txt ->
    exists J, strict_parse txt = Some J /\ wire_format fmt_float env root m J.
  Proof.
    unfold encode, encode_fuel, wire_format. intros H.
    set (f := (4 * pval_depth (VMsg m) + 4)%nat) in *.
    destruct (e_structure f) as (_ & Ho & Hn).
    destruct (lookup env root) as [[ps|ps|pre opts]|] eqn:El; try discriminate.
    - destruct (Ho _ _ _ H) as (ms & Hrd & Hm). exists (JObj ms). split; [apply reads_strict; exact Hrd|].
      exists ms. split; [reflexivity|exact Hm].
    - destruct (Hn _ _ _ (Hflat _ _ El) H) as (J & Hrd & Hm). exists J. split; [apply reads_strict; exact Hrd|exact Hm].
  Qed.
End Embedded.

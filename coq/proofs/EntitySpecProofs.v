(* EntitySpecProofs.v — the model's compile output satisfies the declarative specification
   proofs/EntitySpec.v (property C17), and the witnesses that refute the clauses it violates. *)
From Coq Require Import String Ascii List NArith Bool Lia ZifyN ZifyNat ZifyBool.
From J5V.lib Require Import Outcome Strcase.
From J5V.model Require Import Entity.
From J5V.proofs Require Import StrcaseProofs EntityProofs EntitySpec.
Import ListNotations.
Local Open Scope bool_scope.
Local Open Scope N_scope.

(* ---- what an accepted declaration went through ---------------------------------------------- *)
Lemma convert_all_single : forall e, convert_all [e] = match convert e with Ok a => Ok (a ++ []) | o => o end.
Proof. intros e. cbn [convert_all]. destruct (convert e); reflexivity. Qed.

Theorem compile_inv : forall e cs, compile e = Ok cs ->
  e_status e <> [] /\ convert e = Ok cs /\ link_ok cs = true
  /\ exists fl, default_filters e (requested_filters e) = Some fl /\ cs = expand_with e fl /\ closed cs = true.
Proof.
  intros e cs H. unfold compile, compile_file in H. cbn [existsb] in H.
  destruct (e_status e) as [|s0 sr] eqn:Es; [discriminate|]. cbn [is_nil orb] in H.
  rewrite convert_all_single in H. destruct (convert e) as [a| | |] eqn:Ec; try discriminate.
  rewrite app_nil_r in H. destruct (link_ok a) eqn:El; [|discriminate]. inversion H; subst a.
  destruct (compile_ok_inv e cs Ec) as [Hx Hcl].
  destruct (expand_ok_inv e cs Hx) as [fl [Hf [_ Hcs]]].
  repeat split; try assumption; try discriminate. exists fl. auto.
Qed.

(* ---- names -------------------------------------------------------------------------------------- *)
Lemma cn_sp : forall e (s : string), to_camel (bs s) = bs s -> component_name e (bs s) = sp_name e s.
Proof. intros e s H. unfold component_name, sp_name, sp_camel. now rewrite H. Qed.
Lemma cn_keys : forall e, component_name e (bs "Keys") = sp_name e "Keys". Proof. intros; now apply cn_sp. Qed.
Lemma cn_data : forall e, component_name e (bs "Data") = sp_name e "Data". Proof. intros; now apply cn_sp. Qed.
Lemma cn_status : forall e, component_name e (bs "Status") = sp_name e "Status". Proof. intros; now apply cn_sp. Qed.
Lemma cn_state : forall e, component_name e (bs "State") = sp_name e "State". Proof. intros; now apply cn_sp. Qed.
Lemma cn_event_type : forall e, component_name e (bs "EventType") = sp_name e "EventType". Proof. intros; now apply cn_sp. Qed.
Lemma cn_event : forall e, component_name e (bs "Event") = sp_name e "Event". Proof. intros; now apply cn_sp. Qed.

Lemma Forall2_map_r : forall {A B} (P : A -> B -> Prop) (f : A -> B) l,
  (forall a, In a l -> P a (f a)) -> Forall2 P l (map f l).
Proof.
  induction l as [|a l IH]; intros H; cbn; constructor.
  - apply H. now left.
  - apply IH. intros b Hb. apply H. now right.
Qed.

Lemma in_expand_head : forall e fl c,
  In c [CMsg 0 (keys_msg e); CMsg 0 (data_msg e); status_enum e;
        CMsg 0 (state_msg e fl); CMsg 0 (event_type_msg e); CMsg 0 (event_msg e)] ->
  In c (expand_with e fl).
Proof. intros e fl c H. unfold expand_with. apply in_or_app. now left. Qed.

(* ---- clause 1: schemas ----------------------------------------------------------------------------- *)
Theorem spec_keys_holds : forall e fl, spec_keys e (expand_with e fl).
Proof.
  intros e fl. exists (keys_msg e). unfold has_msg. split; [apply in_expand_head; cbn; auto|].
  cbn [keys_msg m_name m_psm m_oneof m_fields]. rewrite cn_keys. repeat split.
  apply (Forall2_map_r _ (fun k => of_ufield (k_def k))). intros k _.
  unfold key_name, key_primary, of_ufield. destruct (uf_kind (k_def k)) as [pt j|n|n|n|p fo te];
    cbn [f_json f_primary f_required]; repeat split; try discriminate; auto.
  - intros ->. reflexivity.
  - intros ->. apply orb_true_r.
Qed.

Theorem spec_data_holds : forall e fl, spec_data e (expand_with e fl).
Proof.
  intros e fl. exists (data_msg e). unfold has_msg. split; [apply in_expand_head; cbn; auto|].
  cbn [data_msg m_name m_psm m_oneof m_fields]. rewrite cn_data. repeat split.
  apply Forall2_map_r. intros u _. unfold of_ufield.
  destruct (uf_kind u) as [pt j|n|n|n|p fo te]; cbn [f_json f_required]; split; try reflexivity; auto.
  intros ->. reflexivity.
Qed.

(* ---- Status ------------------------------------------------------------------------------------------ *)
Lemma has_prefix_app : forall p s, has_prefix p (p ++ s) = true.
Proof. induction p as [|c p IH]; intros s; [reflexivity|]. cbn. now rewrite N.eqb_refl, IH. Qed.

Lemma has_suffix_rev_app : forall r a b, has_suffix_rev r a = true -> has_suffix_rev r (a ++ b) = true.
Proof.
  induction r as [|x r IH]; intros a b H; [reflexivity|].
  destruct a as [|y a]; [discriminate|]. cbn in *. apply andb_true_iff in H. destruct H as [H1 H2].
  now rewrite H1, (IH a b H2).
Qed.
Lemma has_suffix_rev_refl : forall r b, has_suffix_rev r (r ++ b) = true.
Proof. induction r as [|x r IH]; intros b; [reflexivity|]. cbn. now rewrite N.eqb_refl, IH. Qed.

Lemma has_suffix_app : forall suf p s, has_suffix suf s = true -> has_suffix suf (p ++ s) = true.
Proof. intros suf p s H. unfold has_suffix in *. rewrite rev_app_distr. now apply has_suffix_rev_app. Qed.
Lemma has_suffix_self : forall p s, has_suffix s (p ++ s) = true.
Proof. intros p s. unfold has_suffix. rewrite rev_app_distr. apply has_suffix_rev_refl. Qed.
Lemma has_suffix_refl : forall s, has_suffix s s = true.
Proof. intros s. apply (has_suffix_self [] s). Qed.

Lemma svn_prefix : forall p s, has_prefix p (status_value_name p s) = true.
Proof. intros p s. unfold status_value_name. destruct (has_prefix p s) eqn:E; [exact E|apply has_prefix_app]. Qed.
Lemma svn_suffix : forall p s, has_suffix s (status_value_name p s) = true.
Proof. intros p s. unfold status_value_name. destruct (has_prefix p s); [apply has_suffix_refl|apply has_suffix_self]. Qed.

Lemma number_from_nth_error : forall l i p k s, nth_error l k = Some s ->
  nth_error (number_from i p l) k = Some (status_value_name p s, i + N.of_nat k).
Proof.
  induction l as [|a l IH]; intros i p k s H; destruct k as [|k]; cbn in H; try discriminate.
  - inversion H; subst. cbn. f_equal. f_equal. lia.
  - cbn [number_from nth_error]. rewrite (IH (N.succ i) p k s H). f_equal. f_equal. lia.
Qed.

Lemma status_values_shape : forall p l,
  exists z, status_values p l = (z, 0) :: number_from 1 p (declared_after_zero l)
            /\ has_suffix (bs "UNSPECIFIED") z = true /\ has_prefix p z = true.
Proof.
  intros p [|s r]; cbn [status_values declared_after_zero].
  - eexists. split; [reflexivity|]. split; [apply has_suffix_self|apply has_prefix_app].
  - destruct (has_suffix (bs "UNSPECIFIED") s) eqn:E.
    + eexists. split; [reflexivity|]. split; [|apply svn_prefix].
      unfold status_value_name. destruct (has_prefix p s); [exact E|now apply has_suffix_app].
    + eexists. split; [reflexivity|]. split; [apply has_suffix_self|apply has_prefix_app].
Qed.

Theorem spec_status_holds : forall e fl, spec_status e (expand_with e fl).
Proof.
  intros e fl. exists (status_values (status_prefix e) (e_status e)). split.
  - unfold has_enum. apply in_expand_head. unfold status_enum. rewrite cn_status. cbn. auto.
  - destruct (status_values_shape (status_prefix e) (e_status e)) as [z [-> [Hs Hp]]].
    split; [exists z; auto|]. split.
    + cbn [length]. now rewrite number_from_length.
    + intros k s Hk. exists (status_value_name (status_prefix e) s). cbn [nth_error].
      rewrite (number_from_nth_error _ 1 _ k s Hk). split; [f_equal; f_equal; lia|].
      split; [apply svn_prefix|apply svn_suffix].
Qed.

(* ---- State, Event, EventType ---------------------------------------------------------------------- *)
Theorem spec_state_holds : forall e fl, spec_state e (expand_with e fl).
Proof.
  intros e fl. exists (state_msg e fl). do 4 eexists. unfold has_msg.
  split; [apply in_expand_head; cbn; auto|].
  cbn [state_msg m_name m_psm m_oneof m_fields]. unfold local_obj. rewrite cn_keys, cn_data, cn_status, cn_state.
  repeat split.
Qed.

Theorem spec_event_holds : forall e fl, spec_event e (expand_with e fl).
Proof.
  intros e fl. exists (event_msg e). do 3 eexists. unfold has_msg.
  split; [apply in_expand_head; cbn; auto 10|].
  cbn [event_msg m_name m_psm m_oneof m_fields]. unfold local_obj. rewrite cn_keys, cn_event_type, cn_event.
  repeat split.
Qed.

Theorem spec_event_type_holds : forall e fl, spec_event_type e (expand_with e fl).
Proof.
  intros e fl. exists (event_type_msg e). unfold has_msg.
  split; [apply in_expand_head; cbn; auto 10|].
  cbn [event_type_msg m_name m_oneof m_fields m_nested]. unfold event_type_name. rewrite cn_event_type.
  repeat split.
  - apply (Forall2_map_r _ (fun ev => mkF (to_lower_camel (ev_name ev)) _ false false false false None None)).
    intros ev _. repeat split.
  - apply (Forall2_map_r _ (fun ev => (ev_name ev, map of_ufield (ev_fields ev)))).
    intros ev _. cbn [fst snd]. split; [reflexivity|]. rewrite map_map. apply map_ext.
    intros u. unfold of_ufield. destruct (uf_kind u); reflexivity.
Qed.

(* ---- the services of the expansion -------------------------------------------------------------- *)
Lemma svcs_in_app : forall a b f, svcs_in (a ++ b) f = svcs_in a f ++ svcs_in b f.
Proof. intros. unfold svcs_in. apply flat_map_app. Qed.

Lemma svcs_in_flat_map : forall {A} (g : A -> list component) l f,
  svcs_in (flat_map g l) f = flat_map (fun x => svcs_in (g x) f) l.
Proof.
  induction l as [|x l IH]; intros f; [reflexivity|]. cbn [flat_map]. now rewrite svcs_in_app, IH.
Qed.

Lemma svcs_in_method_msgs : forall base name verb rel req resp sq f,
  svcs_in (fst (method_components base name verb rel req resp sq)) f = [].
Proof. intros. destruct resp; cbn; destruct (1 =? f); reflexivity. Qed.

Lemma svcs_in_service_components : forall name ann ms f,
  (forall m, In m ms -> svcs_in (fst m) f = []) ->
  svcs_in (service_components name ann ms) f =
    if 1 =? f then [mkSvc (name ++ bs "Service") ann (map snd ms)] else [].
Proof.
  intros name ann ms f H. unfold service_components. rewrite svcs_in_app, svcs_in_flat_map.
  assert (E : flat_map (fun x => svcs_in (fst x) f) ms = []).
  { induction ms as [|m ms IH]; [reflexivity|]. cbn [flat_map]. rewrite (H m (or_introl eq_refl)).
    apply IH. intros m' Hm. apply H. now right. }
  rewrite E. cbn [app svcs_in flat_map]. rewrite app_nil_r. destruct (1 =? f); reflexivity.
Qed.

Definition query_svc (e : entity) : osvc :=
  match svcs_in (query_components e) 1 with s :: _ => s | [] => mkSvc [] (SQuery []) [] end.

Lemma svcs_in_query : forall e f,
  svcs_in (query_components e) f = if 1 =? f then [query_svc e] else [].
Proof.
  intros e f. unfold query_svc. unfold query_components at 1 2.
  rewrite !svcs_in_service_components.
  - rewrite N.eqb_refl. destruct (1 =? f); reflexivity.
  - intros m [<-|[<-|[<-|[]]]]; apply svcs_in_method_msgs.
  - intros m [<-|[<-|[<-|[]]]]; apply svcs_in_method_msgs.
Qed.

Definition command_svc (e : entity) (c : command) : osvc :=
  mkSvc (command_service_name e c ++ bs "Service") (SCommand (snake_name e))
        (map (fun m => snd (method_components (command_base e c) (md_name m) (md_verb m) (md_path m)
                              (map of_ufield (md_request m)) (option_map (map of_ufield) (md_response m)) 0))
             (c_methods c)).

Lemma svcs_in_command : forall e c f,
  svcs_in (command_components e c) f = if 1 =? f then [command_svc e c] else [].
Proof.
  intros e c f. unfold command_components. rewrite svcs_in_service_components.
  - unfold command_svc, command_base. now rewrite map_map.
  - intros m Hm. apply in_map_iff in Hm. destruct Hm as [x [<- _]]. apply svcs_in_method_msgs.
Qed.

Definition topic_svc (topic_name method_name : bytes) (role : N) (entity_name : bytes) : osvc :=
  mkSvc (to_camel topic_name ++ bs "Topic") (STopic (to_snake topic_name) role entity_name)
        [mkMt method_name (method_name ++ bs "Message") (bs ".google.protobuf.Empty") 0 [] 0].

Lemma svcs_in_topic : forall tn mn role en fields f,
  svcs_in (topic_components tn mn role en fields) f = if 2 =? f then [topic_svc tn mn role en] else [].
Proof. intros. unfold topic_components, svcs_in. cbn [flat_map]. rewrite app_nil_r. destruct (2 =? f); reflexivity. Qed.

Lemma svcs_in_schemas : forall l f, svcs_in (map schema_component l) f = [].
Proof. induction l as [|s l IH]; intros f; [reflexivity|]. cbn [map]. destruct s; cbn; apply IH. Qed.

Definition publish_svc (e : entity) : osvc :=
  topic_svc (camel_name e ++ bs "Publish") (camel_name e ++ bs "Event") 4 (full_name e).
Definition summary_svc (e : entity) (s : summary) : osvc :=
  topic_svc (summary_topic_name e s) (summary_topic_name e s) 3 (full_name e).

Lemma flat_map_singleton : forall {A B} (g : A -> B) l, flat_map (fun x => [g x]) l = map g l.
Proof. induction l as [|x l IH]; [reflexivity|]. cbn. now rewrite IH. Qed.
Lemma flat_map_nil : forall {A B} (l : list A), flat_map (fun _ => @nil B) l = [].
Proof. induction l as [|x l IH]; [reflexivity|]. exact IH. Qed.

Theorem svcs_in_expand_1 : forall e fl,
  svcs_in (expand_with e fl) 1 = query_svc e :: map (command_svc e) (e_commands e).
Proof.
  intros e fl. unfold expand_with. rewrite !svcs_in_app, svcs_in_query, !svcs_in_flat_map, svcs_in_schemas.
  unfold publish_components. rewrite svcs_in_topic.
  rewrite (flat_map_ext _ (fun c => [command_svc e c])) by (intros c; apply svcs_in_command).
  rewrite (flat_map_ext (fun x => svcs_in (summary_components e x) 1) (fun _ => [])).
  2:{ intros s. unfold summary_components. now rewrite svcs_in_topic. }
  rewrite flat_map_singleton, flat_map_nil. cbn. now rewrite !app_nil_r.
Qed.

Theorem svcs_in_expand_2 : forall e fl,
  svcs_in (expand_with e fl) 2 = publish_svc e :: map (summary_svc e) (e_summaries e).
Proof.
  intros e fl. unfold expand_with. rewrite !svcs_in_app, svcs_in_query, !svcs_in_flat_map, svcs_in_schemas.
  unfold publish_components. rewrite svcs_in_topic.
  rewrite (flat_map_ext _ (fun _ => [])) by (intros c; apply svcs_in_command).
  rewrite (flat_map_ext (fun x => svcs_in (summary_components e x) 2) (fun s => [summary_svc e s])).
  2:{ intros s. unfold summary_components. now rewrite svcs_in_topic. }
  rewrite flat_map_singleton, flat_map_nil. cbn. now rewrite !app_nil_r.
Qed.

Lemma query_svc_shape : forall e,
  exists g l v,
    query_svc e = mkSvc (query_prefix e ++ bs "QueryService") (SQuery (snake_name e)) [g; l; v]
    /\ mt_name g = query_prefix e ++ bs "Get" /\ mt_name l = query_prefix e ++ bs "List"
    /\ mt_name v = query_prefix e ++ bs "Events"
    /\ map mt_sq [g; l; v] = [1; 2; 3] /\ map mt_verb [g; l; v] = [1; 1; 1]
    /\ map mt_path [g; l; v] = query_paths e
    /\ In (CMsg 1 (mkMsg (mt_in g) None false (map of_ufield (get_keys e)) [])) (query_components e)
    /\ In (CMsg 1 (mkMsg (mt_in v) None false (map of_ufield (get_keys e) ++ [page_request; query_request]) []))
          (query_components e).
Proof.
  intros e. unfold query_svc, query_components, service_components.
  rewrite svcs_in_app, svcs_in_flat_map. cbn [flat_map]. rewrite !svcs_in_method_msgs.
  cbn [app svcs_in flat_map N.eqb Pos.eqb map snd method_components]. do 3 eexists.
  split; [rewrite <- app_assoc; reflexivity|].
  cbn [mt_name mt_sq mt_verb mt_path mt_in map fst]. repeat split.
  - cbn [app In]. left. reflexivity.
  - cbn [app In]. do 4 right. left. reflexivity.
Qed.

(* ---- clause 2: the query service ---------------------------------------------------------------------- *)
Lemma in_expand_query : forall e fl c, In c (query_components e) -> In c (expand_with e fl).
Proof. intros e fl c H. unfold expand_with. apply in_or_app. right. apply in_or_app. now left. Qed.

Lemma filter_query_commands : forall e l, filter is_query_svc (map (command_svc e) l) = [].
Proof. induction l as [|c l IH]; [reflexivity|]. exact IH. Qed.

Lemma key_in_path_get : forall e k, In k (e_keys e) -> key_in_path k = true -> In (k_def k) (get_keys e).
Proof.
  intros e k Hin Hp. unfold get_keys. apply in_map. apply filter_In. split; [assumption|exact Hp].
Qed.

Lemma of_ufield_key : forall u, f_json (of_ufield u) = uf_name u
  /\ (is_primary u = true -> f_required (of_ufield u) = true).
Proof.
  intros u. unfold of_ufield, is_primary. destruct (uf_kind u); cbn [f_json f_required]; split; try reflexivity; try discriminate.
  intros ->. apply orb_true_r.
Qed.

Theorem spec_query_holds : forall e fl, spec_query e (expand_with e fl).
Proof.
  intros e fl. destruct (query_svc_shape e) as [g [l [v [Hs [Hg [Hl [Hv [Hsq [Hvb [_ [Mg Mv]]]]]]]]]]].
  exists (query_svc e), g, l, v. rewrite svcs_in_expand_1. cbn [filter].
  rewrite Hs at 1. cbn [is_query_svc sv_ann]. rewrite filter_query_commands.
  split; [reflexivity|]. rewrite Hs. cbn [sv_name sv_ann sv_methods].
  repeat split; try assumption.
  - eexists. split; [apply in_expand_query; exact Mg|]. cbn [m_name m_fields]. split; [reflexivity|].
    intros k Hin Hp. exists (of_ufield (k_def k)). split; [apply in_map; now apply key_in_path_get|].
    destruct (of_ufield_key (k_def k)) as [Hj Hr]. split; [exact Hj|exact Hr].
  - eexists. split; [apply in_expand_query; exact Mv|]. cbn [m_name m_fields]. split; [reflexivity|].
    intros k Hin Hp. exists (of_ufield (k_def k)).
    split; [apply in_or_app; left; apply in_map; now apply key_in_path_get|].
    destruct (of_ufield_key (k_def k)) as [Hj Hr]. split; [exact Hj|exact Hr].
Qed.

(* ---- clause 3: command services and topics --------------------------------------------------------------- *)
Lemma filter_command_commands : forall e l, filter is_command_svc (map (command_svc e) l) = map (command_svc e) l.
Proof. induction l as [|c l IH]; [reflexivity|]. cbn. now rewrite IH. Qed.

Theorem spec_commands_holds : forall e fl, spec_commands e (expand_with e fl).
Proof.
  intros e fl. unfold spec_commands. rewrite svcs_in_expand_1. cbn [filter].
  destruct (query_svc_shape e) as [g [l [v [Hs _]]]]. rewrite Hs at 1. cbn [is_command_svc sv_ann].
  rewrite filter_command_commands. apply Forall2_map_r. intros c _.
  unfold command_svc. cbn [sv_ann sv_methods sv_name]. rewrite !map_map.
  split; [reflexivity|]. split; [|split; [|split]].
  - apply map_ext. intros m. destruct (md_response m); reflexivity.
  - apply map_ext. intros m. destruct (md_response m); reflexivity.
  - intros n Hn. unfold command_service_name. rewrite Hn.
    destruct (has_suffix (bs "Command") n); rewrite <- ?app_assoc; apply has_prefix_app.
  - intros Hn. unfold command_service_name. rewrite Hn. unfold camel_name, sp_camel.
    now rewrite <- app_assoc.
Qed.

Lemma in_expand_publish : forall e fl c, In c (publish_components e) -> In c (expand_with e fl).
Proof. intros e fl c H. unfold expand_with. rewrite !app_assoc. apply in_or_app. left. apply in_or_app. left. apply in_or_app. now right. Qed.
Lemma in_expand_summary : forall e fl s c, In s (e_summaries e) -> In c (summary_components e s) -> In c (expand_with e fl).
Proof.
  intros e fl s c Hs H. unfold expand_with. rewrite !app_assoc. apply in_or_app. left. apply in_or_app. right.
  apply in_flat_map. exists s. auto.
Qed.

Lemma filter_role4_summaries : forall e l, filter (fun s => topic_role s =? 4) (map (summary_svc e) l) = [].
Proof. induction l as [|c l IH]; [reflexivity|]. exact IH. Qed.
Lemma filter_role3_summaries : forall e l,
  filter (fun s => topic_role s =? 3) (map (summary_svc e) l) = map (summary_svc e) l.
Proof. induction l as [|c l IH]; [reflexivity|]. cbn. now rewrite IH. Qed.

Theorem spec_topics_holds : forall e fl, spec_topics e (expand_with e fl).
Proof.
  intros e fl. unfold spec_topics. rewrite svcs_in_expand_2. cbn [filter publish_svc topic_svc topic_role sv_ann N.eqb Pos.eqb].
  rewrite filter_role4_summaries, filter_role3_summaries. split; [|split].
  - eexists. split; [reflexivity|]. split; reflexivity.
  - apply Forall2_map_r. intros sm Hsm. cbn [summary_svc topic_svc svc_entity sv_ann sv_methods length].
    repeat split. eexists. eexists. split; [reflexivity|]. cbn [mt_in].
    split; [eapply in_expand_summary; [exact Hsm|]; unfold summary_components, topic_components; left; reflexivity|].
    cbn [m_name m_fields]. split; [reflexivity|]. intros u Hu. cbn [map]. right.
    rewrite map_map. apply in_map_iff. exists u. split; [|exact Hu].
    destruct (of_ufield_key u) as [Hj _]. exact Hj.
  - constructor; [right; reflexivity|]. apply Forall_forall. intros s Hs. apply in_map_iff in Hs.
    destruct Hs as [sm [<- _]]. left. reflexivity.
Qed.

(* ---- clause 4: annotations ------------------------------------------------------------------------------ *)
Theorem spec_annotations_holds : forall e fl, spec_annotations e (expand_with e fl).
Proof.
  intros e fl. split; [|split].
  - intros f m en part Hin Hp. destruct (same_annotation e fl) as [A _].
    rewrite Forall_forall in A. symmetry. apply A. unfold psm_entities. apply in_flat_map.
    exists (CMsg f m). split; [exact Hin|]. rewrite Hp. now left.
  - intros s Hs. rewrite svcs_in_expand_1 in Hs. destruct Hs as [<-|Hs].
    + destruct (query_svc_shape e) as [g [l [v [-> _]]]]. reflexivity.
    + apply in_map_iff in Hs. destruct Hs as [c [<- _]]. reflexivity.
  - intros s Hs. rewrite svcs_in_expand_2 in Hs. destruct Hs as [<-|Hs]; [reflexivity|].
    apply in_map_iff in Hs. destruct Hs as [c [<- _]]. reflexivity.
Qed.

(* ---- the core specification holds for everything the model compiles --------------------------------------- *)
Theorem spec_core_holds : forall e cs, compile e = Ok cs -> C17_spec_core e cs.
Proof.
  intros e cs H. destruct (compile_inv e cs H) as [_ [_ [Hl [fl [_ [-> Hc]]]]]].
  unfold C17_spec_core.
  split; [apply spec_keys_holds|]. split; [apply spec_data_holds|]. split; [apply spec_status_holds|].
  split; [apply spec_state_holds|]. split; [apply spec_event_holds|]. split; [apply spec_event_type_holds|].
  split; [apply spec_query_holds|]. split; [apply spec_commands_holds|]. split; [apply spec_topics_holds|].
  split; [apply spec_annotations_holds|]. split; assumption.
Qed.

(* EntitySpecProofs.v — the model's compile output satisfies the declarative specification
   proofs/EntitySpec.v (property C17), and the witnesses that refute the clauses it violates. *)
From Coq Require Import String Ascii List NArith Bool Lia ZifyN ZifyNat ZifyBool.
From J5V.lib Require Import Outcome Strcase.
From J5V.model Require Import Entity.
From J5V.proofs Require Import StrcaseProofs EntityProofs EntitySpec.
Import ListNotations.
Local Open Scope bool_scope.
Local Open Scope N_scope.

(* ---- what an accepted declaration went through ---------------------------------------------- *)
Lemma convert_all_single : forall e, convert_all [e] = match convert e with Ok a => Ok (a ++ []) | o => o end.
Proof. intros e. cbn [convert_all]. destruct (convert e); reflexivity. Qed.

Lemma walk_all_single : forall e, walk_all [e] = match walk e with Ok a => Ok (a ++ []) | o => o end.
Proof. intros e. cbn [walk_all]. destruct (walk e); reflexivity. Qed.

(* an accepted declaration passed the reserved-name checks of the walker and of visitOneofNode *)
Theorem compile_inv_reserved : forall e cs, compile e = Ok cs ->
  walker_reserved_free e = true /\ oneof_type_free e = true.
Proof.
  intros e cs H. unfold compile, compile_file in H.
  destruct (existsb _ [e]); [discriminate|].
  rewrite walk_all_single in H. unfold walk in H.
  destruct (walker_reserved_free e); [|discriminate]. split; [reflexivity|].
  destruct (expand e); try discriminate. cbn [forallb] in H.
  destruct (oneof_type_free e); [reflexivity|discriminate].
Qed.

Theorem compile_inv_enums : forall e cs, compile e = Ok cs -> decl_enums_ok e = true.
Proof.
  intros e cs H. unfold compile, compile_file in H.
  destruct (existsb _ [e]); [discriminate|].
  destruct (walk_all [e]); try discriminate. cbn [forallb] in H.
  destruct (oneof_type_free e); [|discriminate]. cbn [andb] in H.
  destruct (decl_enums_ok e); [reflexivity|discriminate].
Qed.

Theorem compile_inv : forall e cs, compile e = Ok cs ->
  e_status e <> [] /\ convert e = Ok cs /\ link_ok cs = true
  /\ exists fl, default_filters e (requested_filters e) = Some fl /\ cs = expand_with e fl /\ closed cs = true.
Proof.
  intros e cs H. unfold compile, compile_file in H. cbn [existsb] in H.
  destruct (e_status e) as [|s0 sr] eqn:Es; [discriminate|]. cbn [is_nil orb] in H.
  destruct (walk_all [e]) as [w| | |]; try discriminate. clear w.
  destruct (forallb oneof_type_free [e]); [|discriminate].
  destruct (forallb decl_enums_ok [e]); [|discriminate].
  rewrite convert_all_single in H. destruct (convert e) as [a| | |] eqn:Ec; try discriminate.
  rewrite app_nil_r in H. destruct (link_ok a) eqn:El; [|discriminate]. inversion H; subst a.
  destruct (compile_ok_inv e cs Ec) as [Hx Hcl].
  destruct (expand_ok_inv e cs Hx) as [fl [Hf [_ Hcs]]].
  repeat split; try assumption; try discriminate. exists fl. auto.
Qed.

(* ---- names -------------------------------------------------------------------------------------- *)
Lemma cn_sp : forall e (s : string), to_camel (bs s) = bs s -> component_name e (bs s) = sp_name e s.
Proof. intros e s H. unfold component_name, sp_name, sp_camel. now rewrite H. Qed.
Lemma cn_keys : forall e, component_name e (bs "Keys") = sp_name e "Keys". Proof. intros; now apply cn_sp. Qed.
Lemma cn_data : forall e, component_name e (bs "Data") = sp_name e "Data". Proof. intros; now apply cn_sp. Qed.
Lemma cn_status : forall e, component_name e (bs "Status") = sp_name e "Status". Proof. intros; now apply cn_sp. Qed.
Lemma cn_state : forall e, component_name e (bs "State") = sp_name e "State". Proof. intros; now apply cn_sp. Qed.
Lemma cn_event_type : forall e, component_name e (bs "EventType") = sp_name e "EventType". Proof. intros; now apply cn_sp. Qed.
Lemma cn_event : forall e, component_name e (bs "Event") = sp_name e "Event". Proof. intros; now apply cn_sp. Qed.

Lemma Forall2_map_r : forall {A B} (P : A -> B -> Prop) (f : A -> B) l,
  (forall a, In a l -> P a (f a)) -> Forall2 P l (map f l).
Proof.
  induction l as [|a l IH]; intros H; cbn; constructor.
  - apply H. now left.
  - apply IH. intros b Hb. apply H. now right.
Qed.

Lemma in_expand_head : forall e fl c,
  In c [CMsg 0 (keys_msg e); CMsg 0 (data_msg e); status_enum e;
        CMsg 0 (state_msg e fl); CMsg 0 (event_type_msg e); CMsg 0 (event_msg e)] ->
  In c (expand_with e fl).
Proof. intros e fl c H. unfold expand_with. apply in_or_app. now left. Qed.

(* ---- clause 1: schemas ----------------------------------------------------------------------------- *)
Theorem spec_keys_holds : forall e fl, spec_keys e (expand_with e fl).
Proof.
  intros e fl. exists (keys_msg e). unfold has_msg. split; [apply in_expand_head; cbn; auto|].
  cbn [keys_msg m_name m_psm m_oneof m_fields]. rewrite cn_keys. repeat split.
  apply (Forall2_map_r _ (fun k => of_ufield (k_def k))). intros k _.
  unfold key_name, key_primary, of_ufield. destruct (uf_kind (k_def k)) as [pt j|n|n|n|p fo te|tn j|i|i|sfs|sfs|os|tk tfs];
    cbn [f_json f_primary f_required]; repeat split; try discriminate; auto.
  - intros ->. reflexivity.
  - intros ->. apply orb_true_r.
Qed.

Theorem spec_data_holds : forall e fl, spec_data e (expand_with e fl).
Proof.
  intros e fl. exists (data_msg e). unfold has_msg. split; [apply in_expand_head; cbn; auto|].
  cbn [data_msg m_name m_psm m_oneof m_fields]. rewrite cn_data. repeat split.
  apply Forall2_map_r. intros u _. unfold of_ufield.
  destruct (uf_kind u) as [pt j|n|n|n|p fo te|tn j|i|i|sfs|sfs|os|tk tfs]; cbn [f_json f_required]; split; try reflexivity; auto.
  intros ->. reflexivity.
Qed.

(* ---- Status ------------------------------------------------------------------------------------------ *)
Lemma has_prefix_app : forall p s, has_prefix p (p ++ s) = true.
Proof. induction p as [|c p IH]; intros s; [reflexivity|]. cbn. now rewrite N.eqb_refl, IH. Qed.

Lemma has_suffix_rev_app : forall r a b, has_suffix_rev r a = true -> has_suffix_rev r (a ++ b) = true.
Proof.
  induction r as [|x r IH]; intros a b H; [reflexivity|].
  destruct a as [|y a]; [discriminate|]. cbn in *. apply andb_true_iff in H. destruct H as [H1 H2].
  now rewrite H1, (IH a b H2).
Qed.
Lemma has_suffix_rev_refl : forall r b, has_suffix_rev r (r ++ b) = true.
Proof. induction r as [|x r IH]; intros b; [reflexivity|]. cbn. now rewrite N.eqb_refl, IH. Qed.

Lemma has_suffix_app : forall suf p s, has_suffix suf s = true -> has_suffix suf (p ++ s) = true.
Proof. intros suf p s H. unfold has_suffix in *. rewrite rev_app_distr. now apply has_suffix_rev_app. Qed.
Lemma has_suffix_self : forall p s, has_suffix s (p ++ s) = true.
Proof. intros p s. unfold has_suffix. rewrite rev_app_distr. apply has_suffix_rev_refl. Qed.
Lemma has_suffix_refl : forall s, has_suffix s s = true.
Proof. intros s. apply (has_suffix_self [] s). Qed.

Lemma svn_prefix : forall p s, has_prefix p (status_value_name p s) = true.
Proof. intros p s. unfold status_value_name. destruct (has_prefix p s) eqn:E; [exact E|apply has_prefix_app]. Qed.
Lemma svn_suffix : forall p s, has_suffix s (status_value_name p s) = true.
Proof. intros p s. unfold status_value_name. destruct (has_prefix p s); [apply has_suffix_refl|apply has_suffix_self]. Qed.

Lemma number_from_nth_error : forall l i p k s, nth_error l k = Some s ->
  nth_error (number_from i p l) k = Some (status_value_name p s, i + N.of_nat k).
Proof.
  induction l as [|a l IH]; intros i p k s H; destruct k as [|k]; cbn in H; try discriminate.
  - inversion H; subst. cbn. f_equal. f_equal. lia.
  - cbn [number_from nth_error]. rewrite (IH (N.succ i) p k s H). f_equal. f_equal. lia.
Qed.

Lemma explicit_zero_eq : forall p s, is_explicit_zero p s = sp_explicit_zero p s.
Proof. reflexivity. Qed.

Lemma status_values_shape : forall p l n0,
  exists z, status_values_n p l n0 = (z, 0) :: number_from 1 p (declared_after_zero_n p l n0)
            /\ has_suffix (bs "UNSPECIFIED") z = true /\ has_prefix p z = true.
Proof.
  intros p [|s r] n0; cbn [status_values_n declared_after_zero_n].
  - eexists. split; [reflexivity|]. split; [apply has_suffix_self|apply has_prefix_app].
  - change (sp_explicit_zero p s) with (is_explicit_zero p s). destruct (is_explicit_zero p s) eqn:E; cbn [andb].
    + destruct (n0 =? 0).
      * eexists. split; [reflexivity|]. split; [|apply svn_prefix].
        unfold is_explicit_zero in E. apply bytes_eqb_eq in E. rewrite E. apply has_suffix_self.
      * eexists. split; [reflexivity|]. split; [apply has_suffix_self|apply has_prefix_app].
    + eexists. split; [reflexivity|]. split; [apply has_suffix_self|apply has_prefix_app].
Qed.

Theorem spec_status_holds : forall e fl, spec_status e (expand_with e fl).
Proof.
  intros e fl. exists (entity_status_values e). split.
  - unfold has_enum. apply in_expand_head. unfold status_enum. rewrite cn_status. cbn. auto.
  - unfold entity_status_values.
    destruct (status_values_shape (status_prefix e) (e_status e) (first_status_number e)) as [z [-> [Hs Hp]]].
    change (sp_first_number e) with (first_status_number e).
    split; [exists z; auto|]. split.
    + cbn [length]. now rewrite number_from_length.
    + intros k s Hk. exists (status_value_name (status_prefix e) s). cbn [nth_error].
      rewrite (number_from_nth_error _ 1 _ k s Hk). split; [f_equal; f_equal; lia|].
      split; [apply svn_prefix|apply svn_suffix].
Qed.

(* ---- State, Event, EventType ---------------------------------------------------------------------- *)
Theorem spec_state_holds : forall e fl, spec_state e (expand_with e fl).
Proof.
  intros e fl. exists (state_msg e fl). do 4 eexists. unfold has_msg.
  split; [apply in_expand_head; cbn; auto|].
  cbn [state_msg m_name m_psm m_oneof m_fields]. unfold local_obj. rewrite cn_keys, cn_data, cn_status, cn_state.
  repeat split.
Qed.

Theorem spec_event_holds : forall e fl, spec_event e (expand_with e fl).
Proof.
  intros e fl. exists (event_msg e). do 3 eexists. unfold has_msg.
  split; [apply in_expand_head; cbn; auto 10|].
  cbn [event_msg m_name m_psm m_oneof m_fields]. unfold local_obj. rewrite cn_keys, cn_event_type, cn_event.
  repeat split.
Qed.

Theorem spec_event_type_holds : forall e fl, spec_event_type e (expand_with e fl).
Proof.
  intros e fl. exists (event_type_msg e). unfold has_msg.
  split; [apply in_expand_head; cbn; auto 10|].
  cbn [event_type_msg m_name m_oneof m_fields m_nested]. unfold event_type_name. rewrite cn_event_type.
  repeat split.
  - apply (Forall2_map_r _ (fun ev => mkF (to_lower_camel (ev_name ev)) _ false false false false None None)).
    intros ev _. repeat split.
  - apply (Forall2_map_r _ (fun ev => (ev_name ev, map of_ufield (ev_fields ev)))).
    intros ev _. cbn [fst snd]. split; [reflexivity|]. rewrite map_map. apply map_ext.
    intros u. unfold of_ufield. destruct (uf_kind u); reflexivity.
Qed.

(* ---- the services of the expansion -------------------------------------------------------------- *)
Lemma svcs_in_app : forall a b f, svcs_in (a ++ b) f = svcs_in a f ++ svcs_in b f.
Proof. intros. unfold svcs_in. apply flat_map_app. Qed.

Lemma svcs_in_flat_map : forall {A} (g : A -> list component) l f,
  svcs_in (flat_map g l) f = flat_map (fun x => svcs_in (g x) f) l.
Proof.
  induction l as [|x l IH]; intros f; [reflexivity|]. cbn [flat_map]. now rewrite svcs_in_app, IH.
Qed.

Lemma svcs_in_method_msgs : forall base name verb rel req resp sq f,
  svcs_in (fst (method_components base name verb rel req resp sq)) f = [].
Proof. intros. destruct resp; cbn; destruct (1 =? f); reflexivity. Qed.

Lemma svcs_in_service_components : forall name ann ms f,
  (forall m, In m ms -> svcs_in (fst m) f = []) ->
  svcs_in (service_components name ann ms) f =
    if 1 =? f then [mkSvc (name ++ bs "Service") ann (map snd ms)] else [].
Proof.
  intros name ann ms f H. unfold service_components. rewrite svcs_in_app, svcs_in_flat_map.
  assert (E : flat_map (fun x => svcs_in (fst x) f) ms = []).
  { induction ms as [|m ms IH]; [reflexivity|]. cbn [flat_map]. rewrite (H m (or_introl eq_refl)).
    apply IH. intros m' Hm. apply H. now right. }
  rewrite E. cbn [app svcs_in flat_map]. rewrite app_nil_r. destruct (1 =? f); reflexivity.
Qed.

Definition query_svc (e : entity) : osvc :=
  match svcs_in (query_components e) 1 with s :: _ => s | [] => mkSvc [] (SQuery []) [] end.

Lemma svcs_in_query : forall e f,
  svcs_in (query_components e) f = if 1 =? f then [query_svc e] else [].
Proof.
  intros e f. unfold query_svc. unfold query_components at 1 2.
  rewrite !svcs_in_service_components.
  - rewrite N.eqb_refl. destruct (1 =? f); reflexivity.
  - intros m [<-|[<-|[<-|[]]]]; apply svcs_in_method_msgs.
  - intros m [<-|[<-|[<-|[]]]]; apply svcs_in_method_msgs.
Qed.

Definition command_svc (e : entity) (c : command) : osvc :=
  mkSvc (command_service_name e c ++ bs "Service") (SCommand (snake_name e))
        (map (fun m => snd (method_components (command_base e c) (md_name m) (md_verb m) (md_path m)
                              (map of_ufield (md_request m)) (option_map (map of_ufield) (md_response m)) 0))
             (c_methods c)).

Lemma svcs_in_command : forall e c f,
  svcs_in (command_components e c) f = if 1 =? f then [command_svc e c] else [].
Proof.
  intros e c f. unfold command_components. rewrite svcs_in_service_components.
  - unfold command_svc, command_base. now rewrite map_map.
  - intros m Hm. apply in_map_iff in Hm. destruct Hm as [x [<- _]]. apply svcs_in_method_msgs.
Qed.

Definition topic_svc (topic_name method_name : bytes) (role : N) (entity_name : bytes) : osvc :=
  mkSvc (to_camel topic_name ++ bs "Topic") (STopic (to_snake topic_name) role entity_name)
        [mkMt method_name (method_name ++ bs "Message") (bs ".google.protobuf.Empty") 0 [] 0].

Lemma svcs_in_topic : forall tn mn role en fields f,
  svcs_in (topic_components tn mn role en fields) f = if 2 =? f then [topic_svc tn mn role en] else [].
Proof. intros. unfold topic_components, svcs_in. cbn [flat_map]. rewrite app_nil_r. destruct (2 =? f); reflexivity. Qed.

Lemma svcs_in_schemas : forall l f, svcs_in (map schema_component l) f = [].
Proof. induction l as [|s l IH]; intros f; [reflexivity|]. cbn [map]. destruct s; cbn; apply IH. Qed.

Definition publish_svc (e : entity) : osvc :=
  topic_svc (camel_name e ++ bs "Publish") (camel_name e ++ bs "Event") 4 (full_name e).
Definition summary_svc (e : entity) (s : summary) : osvc :=
  topic_svc (summary_topic_name e s) (summary_topic_name e s) 3 (full_name e).

Lemma flat_map_singleton : forall {A B} (g : A -> B) l, flat_map (fun x => [g x]) l = map g l.
Proof. induction l as [|x l IH]; [reflexivity|]. cbn. now rewrite IH. Qed.
Lemma flat_map_nil : forall {A B} (l : list A), flat_map (fun _ => @nil B) l = [].
Proof. induction l as [|x l IH]; [reflexivity|]. exact IH. Qed.

Theorem svcs_in_expand_1 : forall e fl,
  svcs_in (expand_with e fl) 1 = query_svc e :: map (command_svc e) (e_commands e).
Proof.
  intros e fl. unfold expand_with. rewrite !svcs_in_app, svcs_in_query, !svcs_in_flat_map, svcs_in_schemas.
  unfold publish_components. rewrite svcs_in_topic.
  rewrite (flat_map_ext _ (fun c => [command_svc e c])) by (intros c; apply svcs_in_command).
  rewrite (flat_map_ext (fun x => svcs_in (summary_components e x) 1) (fun _ => [])).
  2:{ intros s. unfold summary_components. now rewrite svcs_in_topic. }
  rewrite flat_map_singleton, flat_map_nil. cbn. now rewrite !app_nil_r.
Qed.

Theorem svcs_in_expand_2 : forall e fl,
  svcs_in (expand_with e fl) 2 = publish_svc e :: map (summary_svc e) (e_summaries e).
Proof.
  intros e fl. unfold expand_with. rewrite !svcs_in_app, svcs_in_query, !svcs_in_flat_map, svcs_in_schemas.
  unfold publish_components. rewrite svcs_in_topic.
  rewrite (flat_map_ext _ (fun _ => [])) by (intros c; apply svcs_in_command).
  rewrite (flat_map_ext (fun x => svcs_in (summary_components e x) 2) (fun s => [summary_svc e s])).
  2:{ intros s. unfold summary_components. now rewrite svcs_in_topic. }
  rewrite flat_map_singleton, flat_map_nil. cbn. now rewrite !app_nil_r.
Qed.

Lemma query_svc_shape : forall e,
  exists g l v,
    query_svc e = mkSvc (query_prefix e ++ bs "QueryService") (SQuery (snake_name e)) [g; l; v]
    /\ mt_name g = query_prefix e ++ bs "Get" /\ mt_name l = query_prefix e ++ bs "List"
    /\ mt_name v = query_prefix e ++ bs "Events"
    /\ map mt_sq [g; l; v] = [1; 2; 3] /\ map mt_verb [g; l; v] = [1; 1; 1]
    /\ map mt_path [g; l; v] = query_paths e
    /\ In (CMsg 1 (mkMsg (mt_in g) None false (map of_ufield (get_keys e)) [])) (query_components e)
    /\ In (CMsg 1 (mkMsg (mt_in v) None false (map of_ufield (get_keys e) ++ [page_request; query_request]) []))
          (query_components e).
Proof.
  intros e. unfold query_svc, query_components, service_components.
  rewrite svcs_in_app, svcs_in_flat_map. cbn [flat_map]. rewrite !svcs_in_method_msgs.
  cbn [app svcs_in flat_map N.eqb Pos.eqb map snd method_components]. do 3 eexists.
  split; [rewrite <- app_assoc; reflexivity|].
  cbn [mt_name mt_sq mt_verb mt_path mt_in map fst]. repeat split.
  - cbn [app In]. left. reflexivity.
  - cbn [app In]. do 4 right. left. reflexivity.
Qed.

(* ---- clause 2: the query service ---------------------------------------------------------------------- *)
Lemma in_expand_query : forall e fl c, In c (query_components e) -> In c (expand_with e fl).
Proof. intros e fl c H. unfold expand_with. apply in_or_app. right. apply in_or_app. now left. Qed.

Lemma filter_query_commands : forall e l, filter is_query_svc (map (command_svc e) l) = [].
Proof. induction l as [|c l IH]; [reflexivity|]. exact IH. Qed.

Lemma key_in_path_get : forall e k, In k (e_keys e) -> key_in_path k = true -> In (k_def k) (get_keys e).
Proof.
  intros e k Hin Hp. unfold get_keys. apply in_map. apply filter_In. split; [assumption|exact Hp].
Qed.

Lemma of_ufield_key : forall u, f_json (of_ufield u) = uf_name u
  /\ (is_primary u = true -> f_required (of_ufield u) = true).
Proof.
  intros u. unfold of_ufield, is_primary. destruct (uf_kind u); cbn [f_json f_required]; split; try reflexivity; try discriminate.
  intros ->. apply orb_true_r.
Qed.

Theorem spec_query_holds : forall e fl, spec_query e (expand_with e fl).
Proof.
  intros e fl. destruct (query_svc_shape e) as [g [l [v [Hs [Hg [Hl [Hv [Hsq [Hvb [_ [Mg Mv]]]]]]]]]]].
  exists (query_svc e), g, l, v. rewrite svcs_in_expand_1. cbn [filter].
  rewrite Hs at 1. cbn [is_query_svc sv_ann]. rewrite filter_query_commands.
  split; [reflexivity|]. rewrite Hs. cbn [sv_name sv_ann sv_methods].
  repeat split; try assumption.
  - eexists. split; [apply in_expand_query; exact Mg|]. cbn [m_name m_fields]. split; [reflexivity|].
    intros k Hin Hp. exists (of_ufield (k_def k)). split; [apply in_map; now apply key_in_path_get|].
    destruct (of_ufield_key (k_def k)) as [Hj Hr]. split; [exact Hj|exact Hr].
  - eexists. split; [apply in_expand_query; exact Mv|]. cbn [m_name m_fields]. split; [reflexivity|].
    intros k Hin Hp. exists (of_ufield (k_def k)).
    split; [apply in_or_app; left; apply in_map; now apply key_in_path_get|].
    destruct (of_ufield_key (k_def k)) as [Hj Hr]. split; [exact Hj|exact Hr].
Qed.

(* ---- clause 3: command services and topics --------------------------------------------------------------- *)
Lemma filter_command_commands : forall e l, filter is_command_svc (map (command_svc e) l) = map (command_svc e) l.
Proof. induction l as [|c l IH]; [reflexivity|]. cbn. now rewrite IH. Qed.

Theorem spec_commands_holds : forall e fl, spec_commands e (expand_with e fl).
Proof.
  intros e fl. unfold spec_commands. rewrite svcs_in_expand_1. cbn [filter].
  destruct (query_svc_shape e) as [g [l [v [Hs _]]]]. rewrite Hs at 1. cbn [is_command_svc sv_ann].
  rewrite filter_command_commands. apply Forall2_map_r. intros c _.
  unfold command_svc. cbn [sv_ann sv_methods sv_name]. rewrite !map_map.
  split; [reflexivity|]. split; [|split; [|split]].
  - apply map_ext. intros m. destruct (md_response m); reflexivity.
  - apply map_ext. intros m. destruct (md_response m); reflexivity.
  - intros n Hn. unfold command_service_name. rewrite Hn.
    destruct (has_suffix (bs "Command") n); rewrite <- ?app_assoc; apply has_prefix_app.
  - intros Hn. unfold command_service_name. rewrite Hn. unfold camel_name, sp_camel.
    now rewrite <- app_assoc.
Qed.

Lemma in_expand_publish : forall e fl c, In c (publish_components e) -> In c (expand_with e fl).
Proof. intros e fl c H. unfold expand_with. rewrite !app_assoc. apply in_or_app. left. apply in_or_app. left. apply in_or_app. now right. Qed.
Lemma in_expand_summary : forall e fl s c, In s (e_summaries e) -> In c (summary_components e s) -> In c (expand_with e fl).
Proof.
  intros e fl s c Hs H. unfold expand_with. rewrite !app_assoc. apply in_or_app. left. apply in_or_app. right.
  apply in_flat_map. exists s. auto.
Qed.

Lemma filter_role4_summaries : forall e l, filter (fun s => topic_role s =? 4) (map (summary_svc e) l) = [].
Proof. induction l as [|c l IH]; [reflexivity|]. exact IH. Qed.
Lemma filter_role3_summaries : forall e l,
  filter (fun s => topic_role s =? 3) (map (summary_svc e) l) = map (summary_svc e) l.
Proof. induction l as [|c l IH]; [reflexivity|]. cbn. now rewrite IH. Qed.

Theorem spec_topics_holds : forall e fl, spec_topics e (expand_with e fl).
Proof.
  intros e fl. unfold spec_topics. rewrite svcs_in_expand_2. cbn [filter publish_svc topic_svc topic_role sv_ann N.eqb Pos.eqb].
  rewrite filter_role4_summaries, filter_role3_summaries. split; [|split].
  - eexists. split; [reflexivity|]. split; reflexivity.
  - apply Forall2_map_r. intros sm Hsm. cbn [summary_svc topic_svc svc_entity sv_ann sv_methods length].
    repeat split. eexists. eexists. split; [reflexivity|]. cbn [mt_in].
    split; [eapply in_expand_summary; [exact Hsm|]; unfold summary_components, topic_components; left; reflexivity|].
    cbn [m_name m_fields]. split; [reflexivity|]. intros u Hu. cbn [map]. right.
    rewrite map_map. apply in_map_iff. exists u. split; [|exact Hu].
    destruct (of_ufield_key u) as [Hj _]. exact Hj.
  - constructor; [right; reflexivity|]. apply Forall_forall. intros s Hs. apply in_map_iff in Hs.
    destruct Hs as [sm [<- _]]. left. reflexivity.
Qed.

(* ---- clause 4: annotations ------------------------------------------------------------------------------ *)
Theorem spec_annotations_holds : forall e fl, spec_annotations e (expand_with e fl).
Proof.
  intros e fl. split; [|split].
  - intros f m en part Hin Hp. destruct (same_annotation e fl) as [A _].
    rewrite Forall_forall in A. symmetry. apply A. unfold psm_entities. apply in_flat_map.
    exists (CMsg f m). split; [exact Hin|]. rewrite Hp. now left.
  - intros s Hs. rewrite svcs_in_expand_1 in Hs. destruct Hs as [<-|Hs].
    + destruct (query_svc_shape e) as [g [l [v [-> _]]]]. reflexivity.
    + apply in_map_iff in Hs. destruct Hs as [c [<- _]]. reflexivity.
  - intros s Hs. rewrite svcs_in_expand_2 in Hs. destruct Hs as [<-|Hs]; [reflexivity|].
    apply in_map_iff in Hs. destruct Hs as [c [<- _]]. reflexivity.
Qed.

(* ---- the core specification holds for everything the model compiles --------------------------------------- *)
Theorem spec_core_holds : forall e cs, compile e = Ok cs -> C17_spec_core e cs.
Proof.
  intros e cs H. destruct (compile_inv e cs H) as [_ [_ [Hl [fl [_ [-> Hc]]]]]].
  unfold C17_spec_core.
  split; [apply spec_keys_holds|]. split; [apply spec_data_holds|]. split; [apply spec_status_holds|].
  split; [apply spec_state_holds|]. split; [apply spec_event_holds|]. split; [apply spec_event_type_holds|].
  split; [apply spec_query_holds|]. split; [apply spec_commands_holds|]. split; [apply spec_topics_holds|].
  split; [apply spec_annotations_holds|]. split; assumption.
Qed.

(* ---- the path clause, without assuming a clean base path ------------------------------------------------- *)
(* path.Join(base, rel) for rel = parts joined by "/" is "/" + the non-empty segments of base + parts *)
Lemma segments_nil : segments [] = [].
Proof. reflexivity. Qed.

Lemma path_join_segments : forall base parts, Forall (fun p => seg_ok p = true) parts ->
  path_join base (join [47] parts) = [47] ++ join [47] (segments base ++ parts).
Proof.
  intros base parts HF. unfold path_join. destruct parts as [|p l].
  - cbn [join]. now rewrite app_nil_r.
  - pose proof (join_nonempty (p :: l) ltac:(discriminate) HF) as Hne.
    destruct (join [47] (p :: l)) as [|c r] eqn:Ej; [congruence|]. rewrite <- Ej.
    unfold clean_path. now rewrite segments_app_slash, (segments_join (p :: l)) by (discriminate || assumption).
Qed.

Lemma split_slash_all : forall (P : N -> bool) s cur,
  forallb P s = true -> forallb P cur = true -> Forall (fun p => forallb P p = true) (split_slash cur s).
Proof.
  induction s as [|c s IH]; intros cur Hs Hc; cbn [split_slash].
  - constructor; [|constructor]. rewrite forallb_forall in *. intros x Hx. apply Hc. now apply in_rev.
  - cbn [forallb] in Hs. apply andb_true_iff in Hs. destruct Hs as [Hc0 Hs]. destruct (c =? 47).
    + constructor; [|now apply IH]. rewrite forallb_forall in *. intros x Hx. apply Hc. now apply in_rev.
    + apply IH; [assumption|]. cbn. now rewrite Hc0.
Qed.

Lemma split_slash_no_slash : forall s cur, no_slash cur = true ->
  Forall (fun p => no_slash p = true) (split_slash cur s).
Proof.
  induction s as [|c s IH]; intros cur Hc; cbn [split_slash].
  - constructor; [|constructor]. unfold no_slash in *. rewrite forallb_forall in *.
    intros x Hx. apply Hc. now apply in_rev.
  - destruct (c =? 47) eqn:E.
    + constructor; [|now apply IH]. unfold no_slash in *. rewrite forallb_forall in *.
      intros x Hx. apply Hc. now apply in_rev.
    + apply IH. cbn. now rewrite E.
Qed.

Lemma segments_seg_ok : forall s, Forall (fun p => seg_ok p = true) (segments s).
Proof.
  intros s. unfold segments. apply Forall_forall. intros p Hp. apply filter_In in Hp.
  destruct Hp as [Hin Hn]. unfold seg_ok. rewrite Hn. cbn.
  pose proof (split_slash_no_slash s [] eq_refl) as H. rewrite Forall_forall in H. now apply H.
Qed.

(* a segment that is neither ":name" nor "{...}" *)
Definition plain_seg (p : bytes) : bool :=
  match p with c :: _ => negb (c =? 58) && negb (c =? 123) | [] => true end.

Lemma brace_param_brace : forall x, brace_param (123 :: x ++ [125]) = [x].
Proof. intros x. cbn [brace_param]. rewrite rev_app_distr. cbn. now rewrite rev_involutive. Qed.

Lemma conv_plain : forall p, plain_seg p = true -> conv_part p = p /\ brace_param p = [].
Proof.
  intros [|c p] H; [split; reflexivity|]. cbn in H. apply andb_true_iff in H. destruct H as [H1 H2].
  apply negb_true_iff in H1, H2. cbn [conv_part]. rewrite H1. split; [reflexivity|].
  cbn [brace_param]. destruct c as [|q]; [reflexivity|].
  destruct (N.eq_dec (N.pos q) 123) as [E|E]; [rewrite E in H2; discriminate|].
  destruct q as [q|q|]; try reflexivity; repeat (destruct q as [q|q|]; try reflexivity); congruence.
Qed.

(* the rule path of "/" + segs: the plain segments stay, ":name" becomes "{snake name}" *)
Definition seg_param_ok (p : bytes) : bool :=
  match p with
  | 58 :: n => no_slash (to_snake n)
  | _ => plain_seg p
  end.

Lemma conv_part_no_slash : forall p, no_slash p = true -> seg_param_ok p = true -> no_slash (conv_part p) = true.
Proof.
  intros [|c p] Hn Hs; [reflexivity|]. cbn [conv_part]. destruct (c =? 58) eqn:E; [|exact Hn].
  apply N.eqb_eq in E. subst c. cbn [seg_param_ok] in Hs. unfold no_slash in *. cbn [app forallb].
  rewrite forallb_app, Hs. reflexivity.
Qed.

Lemma seg_params : forall p, seg_param_ok p = true ->
  brace_param (conv_part p) = match p with 58 :: n => [to_snake n] | _ => [] end.
Proof.
  intros p H. destruct p as [|c n]; [reflexivity|]. destruct (N.eq_dec c 58) as [->|Hc].
  - cbn [conv_part N.eqb Pos.eqb app]. apply (brace_param_brace (to_snake n)).
  - assert (Hp : plain_seg (c :: n) = true).
    { destruct c as [|q]; [exact H|]. destruct q as [q|q|]; try exact H;
        repeat (destruct q as [q|q|]; try exact H); congruence. }
    destruct (conv_plain _ Hp) as [-> ->].
    destruct c as [|q]; [reflexivity|]. destruct q as [q|q|]; try reflexivity;
      repeat (destruct q as [q|q|]; try reflexivity); congruence.
Qed.

Definition seg_params_of (p : bytes) : list bytes := match p with 58 :: n => [to_snake n] | _ => [] end.

Theorem rule_params_join : forall segs, segs <> [] ->
  Forall (fun p => seg_ok p = true) segs -> Forall (fun p => seg_param_ok p = true) segs ->
  http_rule_path ([47] ++ join [47] segs) = join [47] ([] :: map conv_part segs)
  /\ rule_params (http_rule_path ([47] ++ join [47] segs)) = flat_map seg_params_of segs.
Proof.
  intros segs Hne Hok Hp.
  assert (Hns : Forall (fun p => no_slash p = true) segs).
  { eapply Forall_impl; [|exact Hok]. intros p H. unfold seg_ok in H. apply andb_true_iff in H. tauto. }
  assert (E : http_rule_path ([47] ++ join [47] segs) = join [47] ([] :: map conv_part segs)).
  { unfold http_rule_path. change ([47] ++ join [47] segs) with ([] ++ 47 :: join [47] segs).
    rewrite split_slash_app_slash. cbn [split_slash rev app]. now rewrite (split_join segs Hne Hns). }
  split; [exact E|]. rewrite E. unfold rule_params. rewrite split_join.
  - cbn [flat_map brace_param app]. clear E Hne Hok Hns. induction Hp as [|p l H _ IH]; [reflexivity|].
    cbn [map flat_map]. rewrite (seg_params p H). fold (seg_params_of p). now rewrite IH.
  - discriminate.
  - constructor; [reflexivity|]. apply Forall_map. rewrite Forall_forall in *. intros p Hin.
    apply conv_part_no_slash; auto.
Qed.

Lemma key_path_params : forall ks, flat_map seg_params_of (key_path ks) = map (fun u => to_snake (uf_name u)) ks.
Proof. induction ks as [|u ks IH]; [reflexivity|]. cbn [key_path map flat_map seg_params_of app]. f_equal. exact IH. Qed.

Lemma plain_no_params : forall l, Forall (fun p => plain_seg p = true) l -> flat_map seg_params_of l = [].
Proof.
  induction 1 as [|p l H _ IH]; [reflexivity|]. cbn [flat_map]. rewrite IH, app_nil_r.
  destruct p as [|c n]; [reflexivity|]. cbn in H. apply andb_true_iff in H. destruct H as [H _].
  apply negb_true_iff in H. destruct c as [|q]; [reflexivity|]. destruct q as [q|q|]; try reflexivity;
    repeat (destruct q as [q|q|]; try reflexivity); discriminate.
Qed.

Lemma plain_seg_param_ok : forall p, plain_seg p = true -> seg_param_ok p = true.
Proof.
  intros [|c n] H; [reflexivity|]. pose proof H as H'. cbn in H. apply andb_true_iff in H. destruct H as [H _].
  apply negb_true_iff in H. destruct c as [|q]; [exact H'|]. destruct q as [q|q|]; try exact H';
    repeat (destruct q as [q|q|]; try exact H'); discriminate.
Qed.

(* the hypotheses: every non-empty segment of the base path is plain; key names and their
   snake forms contain no '/' *)
Definition key_seg_ok (u : ufield) : bool := no_slash (uf_name u) && no_slash (to_snake (uf_name u)).

Theorem query_paths_params : forall e,
  Forall (fun p => plain_seg p = true) (segments (query_base e)) ->
  Forall (fun u => key_seg_ok u = true) (get_keys e) ->
  rule_params (nth 0 (query_paths e) []) = map (fun u => to_snake (uf_name u)) (get_keys e)
  /\ rule_params (nth 2 (query_paths e) []) = map (fun u => to_snake (uf_name u)) (get_keys e)
  /\ nth 2 (query_paths e) [] = nth 0 (query_paths e) [] ++ bs "/events".
Proof.
  intros e Hb Hk. unfold query_paths. cbn [nth].
  assert (Hks : Forall (fun p => seg_ok p = true) (key_path (get_keys e))).
  { apply key_path_seg_ok. eapply Forall_impl; [|exact Hk]. intros u H. unfold key_seg_ok in H.
    apply andb_true_iff in H. tauto. }
  assert (Hkp : Forall (fun p => seg_param_ok p = true) (key_path (get_keys e))).
  { unfold key_path. apply Forall_map. eapply Forall_impl; [|exact Hk]. intros u H. unfold key_seg_ok in H.
    apply andb_true_iff in H. cbn [app seg_param_ok]. tauto. }
  assert (Hev : seg_ok (bs "events") = true /\ seg_param_ok (bs "events") = true) by (split; reflexivity).
  assert (Hsb : segments (query_base e) <> []).
  { unfold query_base. rewrite app_assoc. change (bs "/q") with ([47] ++ bs "q").
    rewrite segments_app_slash. intros H. apply app_eq_nil in H. destruct H as [_ H]. discriminate. }
  rewrite (path_join_segments _ _ Hks).
  rewrite (path_join_segments (query_base e) (key_path (get_keys e) ++ [bs "events"])).
  2:{ apply Forall_app. split; [assumption|]. constructor; [tauto|constructor]. }
  set (sb := segments (query_base e)) in *. set (kp := key_path (get_keys e)) in *.
  assert (Ok1 : Forall (fun p => seg_ok p = true) (sb ++ kp)).
  { apply Forall_app. split; [apply segments_seg_ok|assumption]. }
  assert (Pk1 : Forall (fun p => seg_param_ok p = true) (sb ++ kp)).
  { apply Forall_app. split; [|assumption]. eapply Forall_impl; [|exact Hb]. apply plain_seg_param_ok. }
  assert (Ne1 : sb ++ kp <> []) by (intros H; apply app_eq_nil in H; tauto).
  destruct (rule_params_join (sb ++ kp) Ne1 Ok1 Pk1) as [E1 P1].
  assert (Ok2 : Forall (fun p => seg_ok p = true) (sb ++ kp ++ [bs "events"])).
  { rewrite app_assoc. apply Forall_app. split; [assumption|]. constructor; [tauto|constructor]. }
  assert (Pk2 : Forall (fun p => seg_param_ok p = true) (sb ++ kp ++ [bs "events"])).
  { rewrite app_assoc. apply Forall_app. split; [assumption|]. constructor; [tauto|constructor]. }
  assert (Ne2 : sb ++ kp ++ [bs "events"] <> []) by (intros H; apply app_eq_nil in H; tauto).
  destruct (rule_params_join _ Ne2 Ok2 Pk2) as [E2 P2].
  split; [|split].
  - rewrite P1, flat_map_app, (plain_no_params sb Hb). cbn [app]. apply key_path_params.
  - rewrite P2, !flat_map_app, (plain_no_params sb Hb). unfold kp. rewrite key_path_params. cbn. now rewrite app_nil_r.
  - rewrite E1, E2. rewrite app_assoc, map_app.
    change ([] :: map conv_part (sb ++ kp) ++ map conv_part [bs "events"])
      with (([] :: map conv_part (sb ++ kp)) ++ [bs "events"]).
    rewrite join_app by discriminate. reflexivity.
Qed.

Lemma ufield_wf_parts : forall u, ufield_wf u = true ->
  name_ok (uf_name u) = true /\ inline_wf u = true
  /\ (uf_optional u && (uf_required u || match uf_kind u with KKey p _ _ => p | _ => false end)) = false.
Proof.
  intros u H. unfold ufield_wf in H. apply andb_true_iff in H. destruct H as [H H3].
  apply andb_true_iff in H. destruct H as [H1 H2]. apply negb_true_iff in H3. auto.
Qed.

(* ---- what [in_quantifier] gives ---------------------------------------------------------------------------- *)
Lemma in_quantifier_parts : forall e, in_quantifier e = true ->
  name_ok (e_name e) = true /\ pkg_ok (e_pkg e) = true
  /\ (is_nil (e_base_url e) || (rel_path_ok (e_base_url e) && is_nil (colon_params (e_base_url e)))) = true
  /\ e_keys e <> [] /\ fields_wf (map k_def (e_keys e)) = true
  /\ e_status e <> [].
Proof.
  intros e H. unfold in_quantifier in H.
  repeat match type of H with
         | (_ && _) = true => apply andb_true_iff in H; let H' := fresh "Q" in destruct H as [H H']
         end.
  split; [assumption|]. split; [assumption|]. split; [assumption|].
  split; [intros E; rewrite E in *; discriminate|]. split; [assumption|].
  intros E; rewrite E in *; discriminate.
Qed.

Lemma forallb_plain_seg : forall (R : N -> bool) p,
  (forall c, R c = true -> (c =? 58) = false /\ (c =? 123) = false) ->
  forallb R p = true -> plain_seg p = true.
Proof.
  intros R [|c p] HR H; [reflexivity|]. cbn in H. apply andb_true_iff in H. destruct H as [H _].
  destruct (HR c H) as [H1 H2]. cbn. now rewrite H1, H2.
Qed.

Lemma plain_char_safe : forall c, plain c = true -> (c =? 58) = false /\ (c =? 123) = false.
Proof.
  intros c H. unfold plain, is_cap, is_low, is_num in H.
  split; apply N.eqb_neq; intros ->; cbn in H; discriminate.
Qed.

Lemma Forall_filter : forall {A} (P : A -> Prop) (f : A -> bool) l, Forall P l -> Forall P (filter f l).
Proof.
  intros A P f l H. apply Forall_forall. intros x Hx. apply filter_In in Hx. rewrite Forall_forall in H. now apply H.
Qed.

Lemma flat_map_nil_inv : forall {A B} (f : A -> list B) l, flat_map f l = [] -> forall x, In x l -> f x = [].
Proof.
  induction l as [|a l IH]; intros H x Hx; [destruct Hx|]. cbn in H. apply app_eq_nil in H. destruct H as [H1 H2].
  destruct Hx as [<-|Hx]; [exact H1|now apply IH].
Qed.

Lemma default_base_segments : forall e, name_ok (e_name e) = true -> pkg_ok (e_pkg e) = true ->
  Forall (fun p => plain_seg p = true)
    (split_slash [] (map (fun c => if c =? 46 then 47 else c) (e_pkg e) ++ [47] ++ snake_name e)).
Proof.
  intros e Hn Hp. cbn [app]. rewrite split_slash_app_slash. apply Forall_app. split.
  - unfold pkg_ok in Hp. apply andb_true_iff in Hp. destruct Hp as [Hp _].
    set (R := fun c => is_low c || is_num c || (c =? 95) || (c =? 47)).
    assert (HR : forall c, R c = true -> (c =? 58) = false /\ (c =? 123) = false).
    { intros c H. unfold R, is_low, is_num in H. split; apply N.eqb_neq; intros ->; cbn in H; discriminate. }
    assert (Hall : forallb R (map (fun c => if c =? 46 then 47 else c) (e_pkg e)) = true).
    { rewrite forallb_forall in *. intros c Hc. apply in_map_iff in Hc. destruct Hc as [d [<- Hd]].
      specialize (Hp d Hd). unfold pkg_char in Hp. unfold R. destruct (d =? 46) eqn:E; [reflexivity|].
      apply orb_true_iff in Hp. destruct Hp as [Hp|Hp]; [rewrite Hp; reflexivity|congruence]. }
    pose proof (split_slash_all R _ [] Hall eq_refl) as H. eapply Forall_impl; [|exact H].
    intros p. now apply forallb_plain_seg.
  - unfold name_ok in Hn. apply andb_true_iff in Hn. destruct Hn as [Hi _].
    pose proof (to_snake_ident _ Hi) as Hs. unfold snake_name.
    pose proof (split_slash_all plain (to_snake (e_name e)) [] Hs eq_refl) as H.
    eapply Forall_impl; [|exact H]. intros p. apply forallb_plain_seg. apply plain_char_safe.
Qed.

Lemma override_base_segments : forall p, rel_path_ok p = true -> colon_params p = [] ->
  Forall (fun s => plain_seg s = true) (split_slash [] p).
Proof.
  intros p Hr Hc. unfold rel_path_ok in Hr. unfold colon_params in Hc.
  pose proof (split_slash_all _ p [] Hr eq_refl) as H. apply Forall_forall. intros s Hs.
  rewrite Forall_forall in H. specialize (H s Hs). pose proof (flat_map_nil_inv _ _ Hc s Hs) as Hn.
  destruct s as [|c n]; [reflexivity|]. cbn in H. apply andb_true_iff in H. destruct H as [H _].
  cbn. destruct (N.eq_dec c 58) as [->|Hne]; [discriminate|].
  assert (E1 : (c =? 58) = false) by now apply N.eqb_neq. rewrite E1. cbn.
  apply negb_true_iff. apply N.eqb_neq. intros ->. unfold alnum, is_cap, is_low, is_num in H. cbn in H. discriminate.
Qed.

Theorem in_quantifier_base_plain : forall e, in_quantifier e = true ->
  Forall (fun p => plain_seg p = true) (segments (query_base e)).
Proof.
  intros e H. destruct (in_quantifier_parts e H) as [Hn [Hp [Hb _]]].
  unfold segments. apply Forall_filter. unfold query_base. cbn [app].
  change (47 :: base_url e ++ bs "/q") with ([] ++ 47 :: (base_url e ++ 47 :: bs "q")).
  rewrite split_slash_app_slash, split_slash_app_slash. apply Forall_app. split; [repeat constructor|].
  apply Forall_app. split; [|repeat constructor].
  unfold base_url. destruct (e_base_url e) as [|c r] eqn:E.
  - now apply default_base_segments.
  - cbn [is_nil orb] in Hb. apply andb_true_iff in Hb. destruct Hb as [H1 H2].
    apply override_base_segments; [exact H1|]. destruct (colon_params (c :: r)); [reflexivity|discriminate].
Qed.

Theorem in_quantifier_key_segs : forall e, in_quantifier e = true ->
  Forall (fun u => key_seg_ok u = true) (get_keys e).
Proof.
  intros e H. destruct (in_quantifier_parts e H) as [_ [_ [_ [_ [Hk _]]]]].
  unfold fields_wf in Hk. apply andb_true_iff in Hk. destruct Hk as [Hk _].
  apply Forall_forall. intros u Hu. apply get_keys_incl in Hu. rewrite forallb_forall in Hk.
  specialize (Hk u Hu). destruct (ufield_wf_parts u Hk) as [Hk' _]. clear Hk. rename Hk' into Hk.
  unfold name_ok in Hk. apply andb_true_iff in Hk. destruct Hk as [Hi _].
  unfold key_seg_ok. destruct (ident_no_colon_slash _ Hi) as [_ ->].
  destruct (ident_no_colon_slash _ (to_snake_ident _ Hi)) as [_ ->]. reflexivity.
Qed.

Theorem spec_query_paths_holds : forall e fl, in_quantifier e = true -> spec_query_paths e (expand_with e fl).
Proof.
  intros e fl H s g l v Hs Hq Hm. rewrite svcs_in_expand_1 in Hs.
  destruct (query_svc_shape e) as [g' [l' [v' [Hshape [_ [_ [_ [_ [_ [Hpaths _]]]]]]]]]].
  destruct Hs as [<-|Hs].
  2:{ apply in_map_iff in Hs. destruct Hs as [c [<- _]]. discriminate. }
  rewrite Hshape in Hm. cbn [sv_methods] in Hm. inversion Hm; subst g' l' v'.
  destruct (query_paths_params e (in_quantifier_base_plain e H) (in_quantifier_key_segs e H)) as [P0 [P2 E]].
  unfold query_paths in *. cbn [map] in Hpaths. inversion Hpaths as [[Eg El Ev]].
  cbn [nth] in P0, P2, E. rewrite Eg, Ev.
  assert (Hn : map (fun u => to_snake (uf_name u)) (get_keys e) = path_key_names e).
  { unfold get_keys, path_key_names. rewrite map_map. reflexivity. }
  rewrite <- Hn. auto.
Qed.

(* ---- State and Event as objects ------------------------------------------------------------------------------ *)
Lemma existsb_bytes_In : forall x l, existsb (bytes_eqb x) l = true <-> In x l.
Proof.
  intros x l. rewrite existsb_exists. split.
  - intros [y [Hy He]]. apply bytes_eqb_eq in He. now subst.
  - intros H. exists x. split; [assumption|apply bytes_eqb_refl].
Qed.

Lemma nodup_bytes_NoDup : forall l, nodup_bytes l = true <-> NoDup l.
Proof.
  induction l as [|x l IH]; cbn [nodup_bytes]; split; intros H; try constructor; try reflexivity.
  - apply andb_true_iff in H. destruct H as [H1 H2]. apply negb_true_iff in H1.
    intros Hin. apply existsb_bytes_In in Hin. congruence.
  - apply andb_true_iff in H. destruct H as [_ H2]. now apply IH.
  - inversion H as [|? ? Hn Hd]; subst. apply andb_true_iff. split; [|now apply IH].
    apply negb_true_iff. destruct (existsb (bytes_eqb x) l) eqn:E; [|reflexivity].
    apply existsb_bytes_In in E. contradiction.
Qed.

Lemma link_ok_file0 : forall cs, link_ok cs = true -> NoDup (file_scope 0 cs).
Proof.
  intros cs H. unfold link_ok, scopes in H. cbn [app forallb] in H. apply andb_true_iff in H.
  destruct H as [H _]. now apply nodup_bytes_NoDup.
Qed.

Lemma NoDup_app_r : forall {A} (a b : list A), NoDup (a ++ b) -> NoDup b.
Proof. induction a as [|x a IH]; intros b H; [assumption|]. inversion H; subst. now apply IH. Qed.

Definition keys_sel (n : bytes) (c : component) : list bytes :=
  match c with
  | CMsg 0 k => if bytes_eqb (m_name k) n then map f_json (m_fields k) else []
  | _ => []
  end.

Lemma file_scope_cons : forall c r, file_scope 0 (c :: r) = file_scope 0 [c] ++ file_scope 0 r.
Proof. intros c r. unfold file_scope. cbn [flat_map]. now rewrite app_nil_r. Qed.

Lemma keys_sel_absent : forall n r, ~ In n (file_scope 0 r) -> flat_map (keys_sel n) r = [].
Proof.
  induction r as [|c r IH]; intros H; [reflexivity|]. rewrite file_scope_cons in H.
  cbn [flat_map]. rewrite IH by (intros Hin; apply H; apply in_or_app; now right).
  rewrite app_nil_r. destruct c as [f k|en vs|f s]; try reflexivity. destruct f as [|q]; [|reflexivity].
  cbn [keys_sel]. destruct (bytes_eqb (m_name k) n) eqn:E; [|reflexivity]. apply bytes_eqb_eq in E.
  exfalso. apply H. apply in_or_app. left. cbn. left. exact E.
Qed.

Lemma keys_sel_unique : forall cs k, NoDup (file_scope 0 cs) -> In (CMsg 0 k) cs ->
  flat_map (keys_sel (m_name k)) cs = map f_json (m_fields k).
Proof.
  induction cs as [|c r IH]; intros k Hnd Hin; [destruct Hin|]. rewrite file_scope_cons in Hnd.
  cbn [flat_map]. destruct Hin as [->|Hin].
  - cbn [keys_sel]. rewrite bytes_eqb_refl. rewrite keys_sel_absent; [apply app_nil_r|].
    cbn in Hnd. inversion Hnd; assumption.
  - rewrite (IH k); [|eapply NoDup_app_r; exact Hnd|assumption].
    assert (Hk : In (m_name k) (file_scope 0 r)).
    { unfold file_scope. apply in_flat_map. exists (CMsg 0 k). split; [assumption|]. cbn. now left. }
    destruct c as [f k'|en vs|f s]; try reflexivity. destruct f as [|q]; [|reflexivity].
    cbn [keys_sel]. destruct (bytes_eqb (m_name k') (m_name k)) eqn:E; [|reflexivity].
    apply bytes_eqb_eq in E. exfalso. cbn in Hnd. inversion Hnd as [|? ? Hn _]; subst. apply Hn. now rewrite E.
Qed.

Lemma msg_unique : forall cs a b, NoDup (file_scope 0 cs) -> In (CMsg 0 a) cs -> In (CMsg 0 b) cs ->
  m_name a = m_name b -> a = b.
Proof.
  induction cs as [|c r IH]; intros a b Hnd Ha Hb He; [destruct Ha|]. rewrite file_scope_cons in Hnd.
  assert (Hin : forall k, In (CMsg 0 k) r -> In (m_name k) (file_scope 0 r)).
  { intros k Hk. unfold file_scope. apply in_flat_map. exists (CMsg 0 k). split; [assumption|]. cbn. now left. }
  destruct Ha as [->|Ha], Hb as [Hb|Hb].
  - now inversion Hb.
  - exfalso. cbn in Hnd. inversion Hnd as [|? ? Hn _]; subst. apply Hn. rewrite He. now apply Hin.
  - subst c. exfalso. cbn in Hnd. inversion Hnd as [|? ? Hn _]; subst. apply Hn. rewrite <- He. now apply Hin.
  - apply (IH a b); try assumption. eapply NoDup_app_r; exact Hnd.
Qed.

Lemma json_props_sel : forall cs m,
  json_props cs m = flat_map (fun f =>
    if f_flatten f then match f_type f with TObject [] n => flat_map (keys_sel n) cs | _ => [f_json f] end
    else [f_json f]) (m_fields m).
Proof. reflexivity. Qed.

(* the keys' own names are distinct and none is a property name of State / Event *)
Definition keys_clear (e : entity) : Prop :=
  NoDup (map key_name (e_keys e))
  /\ forall k, In k (e_keys e) -> ~ In (key_name k) [bs "metadata"; bs "data"; bs "status"; bs "event"].

Lemma NoDup_app_intro : forall {A} (a b : list A), NoDup a -> NoDup b -> (forall x, In x a -> ~ In x b) -> NoDup (a ++ b).
Proof.
  induction a as [|x a IH]; intros b Ha Hb Hd; [assumption|]. inversion Ha; subst. cbn. constructor.
  - intros Hin. apply in_app_or in Hin. destruct Hin as [Hin|Hin]; [contradiction|]. apply (Hd x); [now left|assumption].
  - apply IH; try assumption. intros y Hy. apply Hd. now right.
Qed.

Theorem spec_objects_holds : forall e fl, link_ok (expand_with e fl) = true -> keys_clear e ->
  spec_objects e (expand_with e fl).
Proof.
  intros e fl Hl [Hnd Hres] m Hm Hname. pose proof (link_ok_file0 _ Hl) as Hf.
  assert (Hk : In (CMsg 0 (keys_msg e)) (expand_with e fl)) by (apply in_expand_head; cbn; auto).
  assert (Ekeys : flat_map (keys_sel (sp_name e "Keys")) (expand_with e fl) = map key_name (e_keys e)).
  { rewrite <- cn_keys. change (component_name e (bs "Keys")) with (m_name (keys_msg e)).
    rewrite (keys_sel_unique _ _ Hf Hk). cbn [keys_msg m_fields]. rewrite map_map. apply map_ext.
    intros k. apply of_ufield_key. }
  assert (Hnot : forall n, In n [bs "metadata"; bs "data"; bs "status"; bs "event"] -> ~ In n (map key_name (e_keys e))).
  { intros n Hn Hin. apply in_map_iff in Hin. destruct Hin as [k [<- Hin]]. exact (Hres k Hin Hn). }
  destruct Hname as [Hname|Hname].
  - assert (m = state_msg e fl).
    { apply (msg_unique _ _ _ Hf Hm); [apply in_expand_head; cbn; auto|]. cbn [state_msg m_name]. now rewrite cn_state. }
    subst m. rewrite json_props_sel. cbn [state_msg m_fields flat_map plain_field mkF f_flatten f_type f_json local_obj].
    rewrite cn_keys, Ekeys, app_nil_r. cbn [app]. constructor.
    + intros Hin. apply in_app_or in Hin. destruct Hin as [Hin|Hin].
      * apply (Hnot (bs "metadata")); cbn; auto.
      * cbn in Hin. destruct Hin as [Hin|[Hin|[]]]; discriminate.
    + apply NoDup_app_intro; [assumption|repeat constructor; cbn; intuition discriminate|].
      intros x Hx Hin. cbn in Hin. destruct Hin as [<-|[<-|[]]]; [apply (Hnot (bs "data"))|apply (Hnot (bs "status"))]; cbn; auto.
  - assert (m = event_msg e).
    { apply (msg_unique _ _ _ Hf Hm); [apply in_expand_head; cbn; auto 10|]. cbn [event_msg m_name]. now rewrite cn_event. }
    subst m. rewrite json_props_sel. cbn [event_msg m_fields flat_map plain_field mkF f_flatten f_type f_json local_obj].
    rewrite cn_keys, Ekeys, app_nil_r. cbn [app]. constructor.
    + intros Hin. apply in_app_or in Hin. destruct Hin as [Hin|Hin].
      * apply (Hnot (bs "metadata")); cbn; auto.
      * cbn in Hin. destruct Hin as [Hin|[]]; discriminate.
    + apply NoDup_app_intro; [assumption|repeat constructor; cbn; intuition discriminate|].
      intros x Hx Hin. cbn in Hin. destruct Hin as [<-|[]]. apply (Hnot (bs "event")); cbn; auto.
Qed.

Lemma NoDup_app_l : forall {A} (a b : list A), NoDup (a ++ b) -> NoDup a.
Proof.
  induction a as [|x a IH]; intros b H; [constructor|]. inversion H as [|? ? Hn Hd]; subst. constructor.
  - intros Hin. apply Hn. apply in_or_app. now left.
  - now apply (IH b).
Qed.

Lemma in_quantifier_keys_nodup : forall e, in_quantifier e = true -> NoDup (map key_name (e_keys e)).
Proof.
  intros e H. destruct (in_quantifier_parts e H) as [_ [_ [_ [_ [Hk _]]]]].
  unfold fields_wf in Hk. apply andb_true_iff in Hk. destruct Hk as [_ Hk].
  apply nodup_bytes_NoDup in Hk. apply NoDup_app_l in Hk. unfold sp_field_scope in Hk. apply NoDup_app_l in Hk.
  rewrite <- (map_map uf_name to_snake) in Hk. apply NoDup_map_inv in Hk.
  change (map key_name (e_keys e)) with (map (fun k => uf_name (k_def k)) (e_keys e)).
  rewrite <- (map_map k_def uf_name). exact Hk.
Qed.

Lemma reserved_free_parts : forall e, reserved_free e = true ->
  forallb (fun k => negb (key_in_path k && existsb (bytes_eqb (to_snake (key_name k))) [bs "page"; bs "query"]))
          (e_keys e) = true
  /\ forallb (fun s => forallb (fun u => negb (bytes_eqb (to_snake (uf_name u)) (bs "upsert"))) (s_fields s))
             (e_summaries e) = true
  /\ forallb (fun ev => negb (bytes_eqb (to_snake (to_lower_camel (ev_name ev))) (bs "type"))) (e_events e) = true
  /\ forallb (fun s => match s with
                       | SOneof _ opts => forallb (fun u => negb (bytes_eqb (to_snake (uf_name u)) (bs "type"))) opts
                       | _ => true end) (e_schemas e) = true
  /\ bytes_eqb (response_name e) (bs "page") = false
  /\ (match e_query e with Some q => q_events_in_get q | None => false end
       && bytes_eqb (response_name e) (bs "events")) = false
  /\ forallb (fun u => match uf_kind u with
                        | KInlineOneof opts => forallb (fun o => negb (bytes_eqb (to_snake (sf_name o)) (bs "type"))) opts
                        | KInlineTree k fs => tree_type_free k fs
                        | _ => true end) (all_ufields e) = true.
Proof.
  intros e H. unfold reserved_free in H.
  repeat match type of H with
         | (_ && _) = true => apply andb_true_iff in H; let H' := fresh "R" in destruct H as [H H']
         end.
  apply negb_true_iff in R0, R. repeat split; assumption.
Qed.

Theorem keys_clear_holds : forall e, in_quantifier e = true -> state_event_names_free e = true -> keys_clear e.
Proof.
  intros e Hq R1. split; [now apply in_quantifier_keys_nodup|]. intros k Hk Hin.
  unfold state_event_names_free in R1.
  rewrite forallb_forall in R1. specialize (R1 k Hk). apply negb_true_iff in R1.
  apply existsb_bytes_In in Hin. congruence.
Qed.

(* ---- the full statement, its refutation, and what holds -------------------------------------------------------- *)
(* the reading "ANY name": every declaration in the quantifier compiles.  False: the compiler reserves
   the names the expansion uses itself and rejects them by a positioned diagnostic (fix a5547b9) *)
Definition C17_strict_statement_def : Prop :=
  forall e, in_quantifier e = true -> exists cs, compile e = Ok cs /\ C17_spec e cs.

Definition mk_min (key : string) : entity :=
  mkE (bs "foo.v1") (bs "Foo") [] [mkK (mkU (bs key) (KKey true None None) false false) false]
      [] [bs "ACTIVE"] [] [] [] None [].

(* a primary key named page: inside the quantifier, rejected by name *)
Theorem reserved_key_rejected :
  in_quantifier (mk_min "page") = true /\ compile (mk_min "page") = Err "reserved name"
  /\ in_quantifier (mk_min "query") = true /\ compile (mk_min "query") = Err "reserved name".
Proof. repeat split; vm_compute; reflexivity. Qed.

Definition upsert_sample : entity :=
  mkE (bs "foo.v1") (bs "Foo") [] [mkK (mkU (bs "fooId") (KKey true None None) false false) false]
      [] [bs "ACTIVE"] [] [] [mkS [] [mkU (bs "upsert") (KScalar 9 (bs "string")) false false]] None [].
Theorem summary_upsert_rejected :
  in_quantifier upsert_sample = true /\ compile upsert_sample = Err "reserved name".
Proof. split; vm_compute; reflexivity. Qed.

Definition type_event_sample : entity :=
  mkE (bs "foo.v1") (bs "Foo") [] [mkK (mkU (bs "fooId") (KKey true None None) false false) false]
      [] [bs "ACTIVE"] [mkEv (bs "Type") []] [] [] None [].
Theorem event_type_rejected :
  in_quantifier type_event_sample = true /\ compile type_event_sample = Err "reserved name".
Proof. split; vm_compute; reflexivity. Qed.

(* ---- names that are NOT reserved: inside the quantifier, accepted, every clause holds ---------------------
   (known-findings audit 2.6 / 2.7 / 2.8).  What these declarations do to OTHER properties' clauses is
   stated as a plain fact about the model, not as a refutation of C17. *)
(* a key named status (metadata, data): State then has two JSON properties of that name - C18's
   "property names are unique within each object", not a clause of C17 *)
Lemma state_property_names_witness :
  exists cs m, compile (mk_min "status") = Ok cs
    /\ has_msg cs 0 m /\ m_name m = sp_name (mk_min "status") "State"
    /\ json_props cs m = [bs "metadata"; bs "status"; bs "data"; bs "status"].
Proof.
  eexists. eexists. split; [vm_compute; reflexivity|].
  split; [unfold has_msg; do 3 right; left; reflexivity|]. split; vm_compute; reflexivity.
Qed.

Lemma event_property_names_witness :
  exists cs m, compile (mk_min "event") = Ok cs
    /\ has_msg cs 0 m /\ m_name m = sp_name (mk_min "event") "Event"
    /\ json_props cs m = [bs "metadata"; bs "event"; bs "event"].
Proof.
  eexists. eexists. split; [vm_compute; reflexivity|].
  split; [unfold has_msg; do 5 right; left; reflexivity|]. split; vm_compute; reflexivity.
Qed.

Lemma property_named_keys_in_scope :
  forallb (fun n => in_quantifier (mk_min n) && reserved_free (mk_min n))
          ["status"; "metadata"; "data"; "event"; "keys"; "events"]%string = true.
Proof. vm_compute. reflexivity. Qed.

(* an optional array: a plain repeated field since fix d536c9b *)
Definition optional_array_sample : entity :=
  mkE (bs "foo.v1") (bs "Foo") [] [mkK (mkU (bs "fooId") (KKey true None None) false false) false]
      [mkU (bs "tags") (KArray (IScalar 9 (bs "string"))) false true] [bs "ACTIVE"] [] [] [] None [].
Lemma optional_array_in_scope :
  in_quantifier optional_array_sample = true /\ reserved_free optional_array_sample = true
  /\ exists cs, compile optional_array_sample = Ok cs /\ client_accepts cs = true.
Proof. split; [vm_compute; reflexivity|]. split; [vm_compute; reflexivity|]. eexists. split; vm_compute; reflexivity. Qed.

(* two statuses that differ only in case are ONE protobuf name twice: since fix 4fb405b the compiler reports
   the later one (a positioned conversion error); outside the quantifier like any repeated name *)
Definition status_case_sample : entity :=
  mkE (bs "foo.v1") (bs "Foo") [] [mkK (mkU (bs "fooId") (KKey true None None) false false) false]
      [] [bs "Active"; bs "ACTIVE"] [] [] [] None [].
Lemma status_case_out_of_scope :
  in_quantifier status_case_sample = false /\ compile status_case_sample = Err "enum option conflict".
Proof. split; vm_compute; reflexivity. Qed.

Theorem strict_reading_refuted : ~ C17_strict_statement_def.
Proof.
  intros H. destruct (H (mk_min "page")) as [cs [Hc _]]; [vm_compute; reflexivity|].
  destruct reserved_key_rejected as [_ [E _]]. rewrite E in Hc. discriminate.
Qed.

(* everything the statement promises about the OUTPUT holds whenever the compiler accepts; the
   path clause for declarations in the quantifier.  (Acceptance itself: EntityAcceptProofs.v.) *)
Theorem full_partial : forall e cs, compile e = Ok cs ->
  C17_spec_core e cs /\ (in_quantifier e = true -> spec_query_paths e cs).
Proof.
  intros e cs H. split; [now apply spec_core_holds|].
  destruct (compile_inv e cs H) as [_ [_ [Hl [fl [_ [-> _]]]]]].
  intros Hq. now apply spec_query_paths_holds.
Qed.

(* not a clause of C17 (see EntitySpec.spec_objects): State / Event have distinct JSON properties
   when no key is named like one of their own *)
Theorem objects_distinct_props : forall e cs, compile e = Ok cs ->
  in_quantifier e = true -> state_event_names_free e = true -> spec_objects e cs.
Proof.
  intros e cs H Hq Hr.
  destruct (compile_inv e cs H) as [_ [_ [Hl [fl [_ [-> _]]]]]].
  apply spec_objects_holds; [assumption|now apply keys_clear_holds].
Qed.

(* the sample of props/C17.v is in the quantifier, free of reserved names, and compiles *)

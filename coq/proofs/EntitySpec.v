(* EntitySpec.v — property C17 as a DECLARATIVE specification, written from the property text,
   its quantifier and the README ("Foo Example"), over a declaration [e] and an ARBITRARY list of
   emitted components [cs].  It does not mention [expand], [compile] or any of the builders of
   model/Entity.v (keys_msg, state_msg, query_components, ...): only the declaration record, the
   component types, the naming functions of lib/Strcase.v (the naming convention is part of the
   property: "CamelCase(entity)+suffix; status prefix SCREAMING_SNAKE(entity)_STATUS_") and
   generic string helpers.  Definitions only; the theorems are in proofs/EntitySpecProofs.v (this file sits in proofs/ only because it uses the character classes [ident], [alnum] of StrcaseProofs.v). *)
From Coq Require Import String Ascii List NArith Bool.
From J5V.lib Require Import Outcome Strcase.
From J5V.model Require Import Entity.
From J5V.proofs Require Import StrcaseProofs.
Import ListNotations.
Local Open Scope bool_scope.
Local Open Scope N_scope.

(* ---- names "from the entity name" ------------------------------------------------------------ *)
Definition sp_camel (e : entity) : bytes := to_camel (e_name e).               (* schemas, topics *)
Definition sp_query_prefix (e : entity) : bytes := to_camel (to_snake (e_name e)).  (* query service *)
Definition sp_annotation (e : entity) : bytes := to_snake (e_name e).          (* psm / service options *)
Definition sp_topic_entity (e : entity) : bytes := e_pkg e ++ [46] ++ to_camel (e_name e).
Definition sp_name (e : entity) (suffix : string) : bytes := sp_camel e ++ bs suffix.
Definition sp_status_prefix (e : entity) : bytes := to_screaming_snake (e_name e) ++ bs "_STATUS_".

(* ---- reading a component list ------------------------------------------------------------------ *)
Definition has_msg (cs : list component) (file : N) (m : omsg) : Prop := In (CMsg file m) cs.
Definition has_enum (cs : list component) (name : bytes) (vs : list (bytes * N)) : Prop := In (CEnum name vs) cs.
Definition has_svc (cs : list component) (file : N) (s : osvc) : Prop := In (CSvc file s) cs.

Definition svcs_in (cs : list component) (file : N) : list osvc :=
  flat_map (fun c => match c with CSvc f s => if f =? file then [s] else [] | _ => [] end) cs.
Definition msg_names_in (cs : list component) (file : N) : list bytes :=
  flat_map (fun c => match c with CMsg f m => if f =? file then [m_name m] else [] | _ => [] end) cs.

Definition is_query_svc (s : osvc) : bool := match sv_ann s with SQuery _ => true | _ => false end.
Definition is_command_svc (s : osvc) : bool := match sv_ann s with SCommand _ => true | _ => false end.
Definition topic_role (s : osvc) : N := match sv_ann s with STopic _ r _ => r | _ => 0 end.
Definition svc_entity (s : osvc) : bytes :=
  match sv_ann s with SQuery n => n | SCommand n => n | STopic _ _ n => n end.

(* a property of an object: json name, type, required, flattened; never repeated *)
Definition is_prop (name : string) (t : otype) (required flatten : bool) (f : ofield) : Prop :=
  f_json f = bs name /\ f_type f = t /\ f_required f = required /\ f_flatten f = flatten
  /\ f_repeated f = false.

(* the "{name}" parts of an http rule path, in order *)
Definition brace_param (seg : bytes) : list bytes :=
  match seg with
  | 123 :: r => match rev r with 125 :: n => [rev n] | _ => [] end
  | _ => []
  end.
Definition rule_params (path : bytes) : list bytes := flat_map brace_param (split_slash [] path).

(* the JSON view of an object: a flattened property is replaced by the properties of the
   (local) object it refers to *)
Definition json_props (cs : list component) (m : omsg) : list bytes :=
  flat_map (fun f =>
    if f_flatten f then
      match f_type f with
      | TObject [] n =>
          flat_map (fun c => match c with
            | CMsg 0 k => if bytes_eqb (m_name k) n then map f_json (m_fields k) else []
            | _ => [] end) cs
      | _ => [f_json f]
      end
    else [f_json f]) (m_fields m).

(* ---- what the declaration says about its keys ----------------------------------------------------- *)
Definition key_name (k : ekey) : bytes := uf_name (k_def k).
Definition key_typed (k : ekey) : bool := match uf_kind (k_def k) with KKey _ _ _ => true | _ => false end.
Definition key_primary (k : ekey) : bool := match uf_kind (k_def k) with KKey p _ _ => p | _ => false end.
(* the keys that address one entity: primary keys and shard keys (sourcedef EntityKey.shard_key:
   "If it is not a primary key, it is added to all endpoints") *)
Definition key_in_path (k : ekey) : bool := key_typed k && (key_primary k || k_shard k).

(* ---- clause 1: the schemas --------------------------------------------------------------------- *)
(* Keys: one property per declared key, in declaration order, primary flags as declared, and
   every primary key required *)
Definition spec_keys (e : entity) (cs : list component) : Prop :=
  exists m, has_msg cs 0 m /\ m_name m = sp_name e "Keys" /\ m_psm m = Some (sp_annotation e, 1)
    /\ m_oneof m = false
    /\ Forall2 (fun k f => f_json f = key_name k /\ f_primary f = key_primary k
                           /\ (uf_required (k_def k) = true -> f_required f = true)
                           /\ (f_primary f = true -> f_required f = true))
               (e_keys e) (m_fields m).

Definition spec_data (e : entity) (cs : list component) : Prop :=
  exists m, has_msg cs 0 m /\ m_name m = sp_name e "Data" /\ m_psm m = Some (sp_annotation e, 4)
    /\ m_oneof m = false
    /\ Forall2 (fun u f => f_json f = uf_name u /\ (uf_required u = true -> f_required f = true))
               (e_data e) (m_fields m).

(* Status: <PREFIX>UNSPECIFIED (or the declared first status when that already ends in
   UNSPECIFIED) = 0, then the declared statuses numbered 1..n in declaration order, every value
   carrying the prefix SCREAMING_SNAKE(entity)_STATUS_ *)
(* [n0]: the number the first status declares (0 = none): a first status ending in UNSPECIFIED that
   declares no number IS the zero value; declared numbers do not otherwise influence the numbering *)
(* a first option that spells the zero value itself: the name of its enum value - the option, with the
   prefix put in front unless it carries it already - is <PREFIX>UNSPECIFIED, i.e. the option is written
   UNSPECIFIED or <PREFIX>UNSPECIFIED (fix a65e1f2: before, any first option ENDING in UNSPECIFIED) *)
Definition sp_explicit_zero (prefix s : bytes) : bool :=
  bytes_eqb (if has_prefix prefix s then s else prefix ++ s) (prefix ++ bs "UNSPECIFIED").
Definition declared_after_zero_n (prefix : bytes) (l : list bytes) (n0 : N) : list bytes :=
  match l with
  | s :: r => if sp_explicit_zero prefix s && (n0 =? 0) then r else l
  | [] => []
  end.
Definition sp_first_number (e : entity) : N := match e_status_num e with n :: _ => n | [] => 0 end.
Definition spec_status (e : entity) (cs : list component) : Prop :=
  exists vs, has_enum cs (sp_name e "Status") vs
    /\ (exists z, nth_error vs 0 = Some (z, 0) /\ has_suffix (bs "UNSPECIFIED") z = true
                  /\ has_prefix (sp_status_prefix e) z = true)
    /\ length vs = S (length (declared_after_zero_n (sp_status_prefix e) (e_status e) (sp_first_number e)))
    /\ forall k s, nth_error (declared_after_zero_n (sp_status_prefix e) (e_status e) (sp_first_number e)) k = Some s ->
         exists v, nth_error vs (S k) = Some (v, N.of_nat (S k))
                   /\ has_prefix (sp_status_prefix e) v = true /\ has_suffix s v = true.

(* State = metadata + flattened keys + data + status, all required *)
Definition spec_state (e : entity) (cs : list component) : Prop :=
  exists m f1 f2 f3 f4, has_msg cs 0 m /\ m_name m = sp_name e "State"
    /\ m_psm m = Some (sp_annotation e, 2) /\ m_oneof m = false
    /\ m_fields m = [f1; f2; f3; f4]
    /\ is_prop "metadata" (TObject (bs "j5.state.v1") (bs "StateMetadata")) true false f1
    /\ is_prop "keys" (TObject [] (sp_name e "Keys")) true true f2
    /\ is_prop "data" (TObject [] (sp_name e "Data")) true false f3
    /\ is_prop "status" (TEnum [] (sp_name e "Status")) true false f4.

(* Event = metadata + flattened keys + the event oneof, all required *)
Definition spec_event (e : entity) (cs : list component) : Prop :=
  exists m f1 f2 f3, has_msg cs 0 m /\ m_name m = sp_name e "Event"
    /\ m_psm m = Some (sp_annotation e, 3) /\ m_oneof m = false
    /\ m_fields m = [f1; f2; f3]
    /\ is_prop "metadata" (TObject (bs "j5.state.v1") (bs "EventMetadata")) true false f1
    /\ is_prop "keys" (TObject [] (sp_name e "Keys")) true true f2
    /\ is_prop "event" (TOneof [] (sp_name e "EventType")) true false f3.

(* EventType: a oneof with exactly one option per declared event, in order, each pointing at
   the nested message of that event's name, which holds the event's declared fields *)
Definition spec_event_type (e : entity) (cs : list component) : Prop :=
  exists m, has_msg cs 0 m /\ m_name m = sp_name e "EventType" /\ m_oneof m = true
    /\ Forall2 (fun ev f => f_json f = to_lower_camel (ev_name ev)
                            /\ f_type f = TObject [] (sp_name e "EventType" ++ [46] ++ ev_name ev)
                            /\ f_repeated f = false)
               (e_events e) (m_fields m)
    /\ Forall2 (fun ev n => fst n = ev_name ev /\ map f_json (snd n) = map uf_name (ev_fields ev))
               (e_events e) (m_nested m).

(* ---- clause 2: the query service ------------------------------------------------------------------ *)
(* exactly one query service; Get / List / Events methods (state_query flags 1 2 3, GET); the
   path parameters of Get and of Events are the primary and shard keys in declaration order
   (so the primary keys appear in declaration order), Events = Get's path + "/events";
   every path key is a required-if-primary property of the Get and Events requests *)
Definition path_key_names (e : entity) : list bytes :=
  map (fun k => to_snake (key_name k)) (filter key_in_path (e_keys e)).
Definition primary_key_names (e : entity) : list bytes :=
  map (fun k => to_snake (key_name k)) (filter (fun k => key_typed k && key_primary k) (e_keys e)).

Definition request_holds_keys (e : entity) (cs : list component) (req : bytes) : Prop :=
  exists m, has_msg cs 1 m /\ m_name m = req
    /\ forall k, In k (e_keys e) -> key_in_path k = true ->
         exists f, In f (m_fields m) /\ f_json f = key_name k /\ (key_primary k = true -> f_required f = true).

Definition spec_query (e : entity) (cs : list component) : Prop :=
  exists s g l v,
    filter is_query_svc (svcs_in cs 1) = [s]
    /\ sv_name s = sp_query_prefix e ++ bs "QueryService" /\ sv_ann s = SQuery (sp_annotation e)
    /\ sv_methods s = [g; l; v]
    /\ mt_name g = sp_query_prefix e ++ bs "Get" /\ mt_name l = sp_query_prefix e ++ bs "List"
    /\ mt_name v = sp_query_prefix e ++ bs "Events"
    /\ map mt_sq [g; l; v] = [1; 2; 3] /\ map mt_verb [g; l; v] = [1; 1; 1]
    /\ request_holds_keys e cs (mt_in g) /\ request_holds_keys e cs (mt_in v).

(* the path clause needs the base path to be literal (see [in_quantifier]) *)
Definition spec_query_paths (e : entity) (cs : list component) : Prop :=
  forall s g l v, In s (svcs_in cs 1) -> is_query_svc s = true -> sv_methods s = [g; l; v] ->
    rule_params (mt_path g) = path_key_names e
    /\ rule_params (mt_path v) = path_key_names e
    /\ mt_path v = mt_path g ++ bs "/events".

(* ---- clause 3: command services, topics ------------------------------------------------------------ *)
Definition spec_commands (e : entity) (cs : list component) : Prop :=
  Forall2 (fun c s => sv_ann s = SCommand (sp_annotation e)
                      /\ map mt_name (sv_methods s) = map md_name (c_methods c)
                      /\ map mt_verb (sv_methods s) = map md_verb (c_methods c)
                      /\ (forall n, c_name c = Some n -> has_prefix n (sv_name s) = true)
                      /\ (c_name c = None -> sv_name s = sp_camel e ++ bs "CommandService"))
          (e_commands e) (filter is_command_svc (svcs_in cs 1)).

(* one publish (event) topic and one upsert topic per summary, all naming the entity
   <package>.<CamelName>; the upsert message holds the summary's declared fields *)
Definition spec_topics (e : entity) (cs : list component) : Prop :=
  (exists p, filter (fun s => topic_role s =? 4) (svcs_in cs 2) = [p]
             /\ svc_entity p = sp_topic_entity e /\ length (sv_methods p) = 1%nat)
  /\ Forall2 (fun sm s => svc_entity s = sp_topic_entity e /\ length (sv_methods s) = 1%nat
                /\ exists msg m, sv_methods s = [m] /\ has_msg cs 2 msg /\ m_name msg = mt_in m
                     /\ forall u, In u (s_fields sm) -> In (uf_name u) (map f_json (m_fields msg)))
             (e_summaries e) (filter (fun s => topic_role s =? 3) (svcs_in cs 2))
  /\ Forall (fun s => topic_role s = 3 \/ topic_role s = 4) (svcs_in cs 2).

(* ---- clause 4: the same entity annotation everywhere ------------------------------------------------- *)
Definition spec_annotations (e : entity) (cs : list component) : Prop :=
  (forall f m en part, In (CMsg f m) cs -> m_psm m = Some (en, part) -> en = sp_annotation e)
  /\ (forall s, In s (svcs_in cs 1) -> svc_entity s = sp_annotation e)
  /\ (forall s, In s (svcs_in cs 2) -> svc_entity s = sp_topic_entity e).

(* ---- clause 5: "yields": the output is a linkable set of files ------------------------------------------ *)
(* every reference resolves and every name is defined once per scope (what the compiler's own
   link step demands before it hands the descriptors out) *)
Definition spec_consistent (e : entity) (cs : list component) : Prop :=
  closed cs = true /\ link_ok cs = true.

(* NOT a clause of C17 (known-findings audit 2.6: the text says State and Event "hold metadata plus
   the flattened keys (and data/status, or the event oneof)", which holds literally also when a key
   is named like one of these properties; uniqueness of JSON property names is C18's clause, where
   the class is recorded).  Kept as a lemma about the model, outside [C17_spec]: the JSON
   properties of State / Event (after flattening the keys) are distinct *)
Definition spec_objects (e : entity) (cs : list component) : Prop :=
  forall m, has_msg cs 0 m -> (m_name m = sp_name e "State" \/ m_name m = sp_name e "Event") ->
    NoDup (json_props cs m).
(* no key named like a property of State / Event: the hypothesis of that lemma *)
Definition state_event_names_free (e : entity) : bool :=
  forallb (fun k => negb (existsb (bytes_eqb (key_name k)) [bs "metadata"; bs "data"; bs "status"; bs "event"]))
          (e_keys e).

(* everything but the clause that needs the literal base path *)
Definition C17_spec_core (e : entity) (cs : list component) : Prop :=
  spec_keys e cs /\ spec_data e cs /\ spec_status e cs /\ spec_state e cs /\ spec_event e cs
  /\ spec_event_type e cs /\ spec_query e cs /\ spec_commands e cs /\ spec_topics e cs
  /\ spec_annotations e cs /\ spec_consistent e cs.

Definition C17_spec (e : entity) (cs : list component) : Prop :=
  C17_spec_core e cs /\ spec_query_paths e cs.

(* ---- the quantifier ---------------------------------------------------------------------------------------
   "for all entity declarations: any entity name casing, 1..n keys of any type with any mix of
   primary/foreign/tenant/shard markers, 0..n data fields of any type, 1..n statuses, 0..n events
   with arbitrary fields, 0..n command services, 0..n summaries, optional query settings".
   A declaration: names are identifiers; the names the USER chooses are distinct within the scope
   they go into (as proto names: after ToSnake for fields); type names the user chooses do not
   repeat the entity's own component names; fields are not both optional and required; references
   name a schema of the block (or the entity's Keys / Data); ":name" parts of a method path are
   request fields; default status filters are statuses.  No condition mentions a field name the
   expansion itself adds (page, query, upsert, metadata, data, status, event, type): the names that
   make the compiler REJECT the declaration are collected in [reserved_free]; a key named
   metadata / data / status / event is inside the quantifier AND satisfies the property. *)
Definition starts_letter (s : bytes) : bool := match s with c :: _ => is_letter c | [] => false end.
Definition starts_cap (s : bytes) : bool := match s with c :: _ => is_cap c | [] => false end.
Definition name_ok (s : bytes) : bool := ident s && starts_letter s.
(* an event name: an identifier with an upper-case initial (`Create`, `Do_Thing`, `D2`; a lower-case initial
   makes the oneof option and the nested message one symbol) *)
Definition type_name_ok (s : bytes) : bool := ident s && starts_cap s.

(* inline anonymous schemas (field x object { ... } / oneof { ... } / enum { ... }): the type is nested in
   the message under the name ToCamel(field); its own fields / options form a scope of their own; the
   values of an inline enum live in the MESSAGE scope (enum values are siblings of their enum) *)
Definition sfield_wf (s : sfield) : bool :=
  name_ok (sf_name s) && negb (sf_optional s && sf_required s).
Definition sp_inline_scope (is_oneof : bool) (fs : list sfield) : list bytes :=
  map (fun s => to_snake (sf_name s)) fs
  ++ (if is_oneof then [] else map (fun s => 95 :: to_snake (sf_name s)) (filter sf_optional fs)).
Definition sp_enum_value_name (prefix s : bytes) : bytes := if has_prefix prefix s then s else prefix ++ s.
Definition sp_inline_enum_values (name : bytes) (opts : list bytes) : list bytes :=
  let prefix := to_screaming_snake name ++ [95] in
  match opts with
  | s :: _ => if sp_explicit_zero prefix s then map (sp_enum_value_name prefix) opts
              else (prefix ++ bs "UNSPECIFIED") :: map (sp_enum_value_name prefix) opts
  | [] => [prefix ++ bs "UNSPECIFIED"]
  end.
(* ---- inline schemas whose fields are again inline schemas / arrays / maps (the tree form) ----------------
   per nested message the same conditions as for a message of user fields: identifier names, no field both
   optional and required, the proto symbols of its fields distinct (ToSnake(name), the presence oneof of an
   optional singular field, the entry message of a map, the nested types its fields define and the values
   of nested enums); the members of a oneof are singular *)
Definition tf_kind (t : tfield) : tkind := match t with TF _ k _ _ _ => k end.
Definition tf_required (t : tfield) : bool := match t with TF _ _ r _ _ => r end.
Definition tf_optional (t : tfield) : bool := match t with TF _ _ _ o _ => o end.
Definition tk_repeated (k : tkind) : bool :=
  match k with TK _ => false | TKArray _ => true | TKMap _ => true | TKInline _ c _ _ => negb (c =? 0) end.
Definition tk_map (k : tkind) : bool :=
  match k with TKMap _ => true | TKInline _ c _ _ => c =? 2 | _ => false end.
Definition sp_tnames (fs : list tfield) : list bytes :=
  flat_map (fun t => match t with
    | TF n (TKInline k _ _ os) _ _ _ =>
        to_camel n :: (if k =? 2 then sp_inline_enum_values (to_camel n) os else [])
    | _ => [] end) fs.
(* without the member "type" of the proto oneof of a oneof wrapper: see [reserved_free] *)
Definition sp_tscope (k : N) (fs : list tfield) : list bytes :=
  map (fun t => to_snake (tf_name t)) fs
  ++ (if k =? 1 then []
      else map (fun t => 95 :: to_snake (tf_name t)) (filter (fun t => tf_optional t && negb (tk_repeated (tf_kind t))) fs))
  ++ map (fun t => map_name (to_snake (tf_name t))) (filter (fun t => tk_map (tf_kind t)) fs)
  ++ sp_tnames fs.
Definition tmembers_singular (k : N) (fs : list tfield) : bool :=
  if k =? 1 then forallb (fun t => negb (tk_repeated (tf_kind t))) fs else true.
Fixpoint tfield_wf (t : tfield) : bool :=
  match t with
  | TF n k r o _ =>
      name_ok n && negb (o && r)
      && match k with
         | TKInline k' _ fs os =>
             if k' =? 2 then is_nil fs && forallb name_ok os
             else (k' <? 2) && forallb tfield_wf fs && nodup_bytes (sp_tscope k' fs) && tmembers_singular k' fs
         | _ => true
         end
  end.
Definition tree_wf (k : N) (fs : list tfield) : bool :=
  (k <? 2) && forallb tfield_wf fs && nodup_bytes (sp_tscope k fs) && tmembers_singular k fs.

Definition inline_wf (u : ufield) : bool :=
  match uf_kind u with
  | KInlineObject fs => forallb sfield_wf fs && nodup_bytes (sp_inline_scope false fs)
  | KInlineOneof fs => forallb sfield_wf fs && nodup_bytes (sp_inline_scope true fs)
  | KInlineEnum os => forallb name_ok os
  | KInlineTree k fs => tree_wf k fs
  | _ => true
  end.
Definition ufield_wf (u : ufield) : bool :=
  name_ok (uf_name u) && inline_wf u
  && negb (uf_optional u && (uf_required u || match uf_kind u with KKey p _ _ => p | _ => false end)).
(* the proto symbols the user's fields of ONE message stand for: the field ToSnake(name), the
   presence oneof "_<field>" of an optional singular field, the entry message <Camel>Entry of a map field,
   the inline type <Camel> of an inline field and the values of an inline enum *)
(* `map:<type>`, or `map:object { .. }` / `map:oneof { .. }` / `map:enum { .. }` of an inline schema *)
Definition is_inline_kind (u : ufield) : bool :=
  match uf_kind u with
  | KInlineObject _ => true | KInlineOneof _ => true | KInlineEnum _ => true | KInlineTree _ _ => true
  | _ => false end.
Definition is_map_kind (u : ufield) : bool :=
  match uf_kind u with KMap _ => true | _ => is_inline_kind u && (uf_container u =? 2) end.
(* only a singular field has a presence oneof: an optional array / map is a plain repeated field (fix d536c9b) *)
Definition is_repeated_kind (u : ufield) : bool :=
  match uf_kind u with KArray _ => true | KMap _ => true | _ => is_inline_kind u && negb (uf_container u =? 0) end.
Definition sp_presence (u : ufield) : bool := uf_optional u && negb (is_repeated_kind u).
Definition sp_inline_names (fs : list ufield) : list bytes :=
  flat_map (fun u => match uf_kind u with
    | KInlineObject _ => [to_camel (uf_name u)]
    | KInlineOneof _ => [to_camel (uf_name u)]
    | KInlineEnum os => to_camel (uf_name u) :: sp_inline_enum_values (to_camel (uf_name u)) os
    | KInlineTree k _ => to_camel (uf_name u) :: (if k =? 2 then sp_inline_enum_values (to_camel (uf_name u)) [] else [])
    | _ => [] end) fs.
Definition sp_field_scope (fs : list ufield) : list bytes :=
  map (fun u => to_snake (uf_name u)) fs
  ++ map (fun u => 95 :: to_snake (uf_name u)) (filter sp_presence fs)
  ++ map (fun u => map_name (to_snake (uf_name u))) (filter is_map_kind fs).
Definition fields_wf (fs : list ufield) : bool :=
  forallb ufield_wf fs && nodup_bytes (sp_field_scope fs ++ sp_inline_names fs).

(* package: dot-separated lower-case identifiers *)
Definition pkg_char (c : N) : bool := is_low c || is_num c || (c =? 95) || (c =? 46).
Definition pkg_ok (p : bytes) : bool :=
  forallb pkg_char p && forallb (fun seg => starts_letter seg) (split_slash [] (map (fun c => if c =? 46 then 47 else c) p)).

(* what a reference may name *)
Definition names_object (e : entity) (n : bytes) : bool :=
  existsb (fun s => match s with SObject m _ => bytes_eqb m n | _ => false end) (e_schemas e)
  || bytes_eqb n (sp_name e "Keys") || bytes_eqb n (sp_name e "Data").
Definition names_oneof (e : entity) (n : bytes) : bool :=
  existsb (fun s => match s with SOneof m _ => bytes_eqb m n | _ => false end) (e_schemas e).
Definition names_enum (e : entity) (n : bytes) : bool :=
  existsb (fun s => match s with SEnum m _ => bytes_eqb m n | _ => false end) (e_schemas e).
Definition item_ref_ok (e : entity) (i : ikind) : bool :=
  match i with
  | IObject n => names_object e n
  | IOneof n => names_oneof e n
  | IEnum n => names_enum e n
  | _ => true
  end.
Fixpoint tfield_ref_ok (e : entity) (t : tfield) : bool :=
  match t with
  | TF _ k _ _ _ =>
      match k with
      | TK i => item_ref_ok e i
      | TKArray i => item_ref_ok e i
      | TKMap i => item_ref_ok e i
      | TKInline _ _ fs _ => forallb (tfield_ref_ok e) fs
      end
  end.
Definition ref_ok (e : entity) (u : ufield) : bool :=
  match uf_kind u with
  | KObject n => names_object e n
  | KOneof n => names_oneof e n
  | KEnum n => names_enum e n
  | KArray i => item_ref_ok e i
  | KMap i => item_ref_ok e i
  | KInlineObject fs => forallb (fun s => item_ref_ok e (sf_kind s)) fs
  | KInlineOneof fs => forallb (fun s => item_ref_ok e (sf_kind s)) fs
  | KInlineTree _ fs => forallb (tfield_ref_ok e) fs
  | _ => true
  end.

Definition schema_name (s : eschema) : bytes :=
  match s with SObject n _ => n | SOneof n _ => n | SEnum n _ => n end.
Definition generated_type_names (e : entity) : list bytes :=
  [sp_name e "Keys"; sp_name e "Data"; sp_name e "Status"; sp_name e "State"; sp_name e "EventType"; sp_name e "Event"].

(* ":name" parts of a relative method path *)
Definition colon_params (p : bytes) : list bytes :=
  flat_map (fun seg => match seg with 58 :: n => [n] | _ => [] end) (split_slash [] p).
Definition rel_path_ok (p : bytes) : bool :=
  forallb (fun c => alnum c || (c =? 95) || (c =? 47) || (c =? 58)) p.
Definition method_wf (e : entity) (m : method) : bool :=
  name_ok (md_name m) && rel_path_ok (md_path m)
  && fields_wf (md_request m) && forallb (ref_ok e) (md_request m)
  && match md_response m with Some r => fields_wf r && forallb (ref_ok e) r | None => true end
  && forallb (fun p => existsb (bytes_eqb p) (map uf_name (md_request m))) (colon_params (md_path m)).

Definition command_service (e : entity) (c : command) : bytes :=
  match c_name c with
  | Some n => (if has_suffix (bs "Command") n then n else n ++ bs "Command") ++ bs "Service"
  | None => sp_camel e ++ bs "CommandService"
  end.

(* the documented names of one package scope each (README "Foo Example"; enum values are named
   <PREFIX><option>, an option that already carries the prefix keeps its name, and the value 0 is
   <PREFIX>UNSPECIFIED unless the first option itself ends in UNSPECIFIED) *)
Definition sp_value_name (prefix s : bytes) : bytes := if has_prefix prefix s then s else prefix ++ s.
Definition sp_enum_values_n (prefix : bytes) (opts : list bytes) (n0 : N) : list bytes :=
  match opts with
  | s :: _ => if sp_explicit_zero prefix s && (n0 =? 0) then map (sp_value_name prefix) opts
              else (prefix ++ bs "UNSPECIFIED") :: map (sp_value_name prefix) opts
  | [] => [prefix ++ bs "UNSPECIFIED"]
  end.
Definition sp_enum_values (prefix : bytes) (opts : list bytes) : list bytes := sp_enum_values_n prefix opts 0.
Definition sp_schema_names (s : eschema) : list bytes :=
  match s with
  | SObject n _ => [n]
  | SOneof n _ => [n]
  | SEnum n opts => n :: sp_enum_values (to_screaming_snake n ++ [95]) opts
  end.
(* <pkg>: the six schemas, the status values, the schemas of the block with their enum values *)
Definition sp_main_scope (e : entity) : list bytes :=
  [sp_name e "Keys"; sp_name e "Data"; sp_name e "Status"]
  ++ sp_enum_values_n (sp_status_prefix e) (e_status e) (sp_first_number e)
  ++ [sp_name e "State"; sp_name e "EventType"; sp_name e "Event"]
  ++ flat_map sp_schema_names (e_schemas e).
(* <pkg>.service: request/response messages of the query and command methods, the services *)
Definition sp_service_scope (e : entity) : list bytes :=
  let q := sp_query_prefix e in
  [q ++ bs "GetRequest"; q ++ bs "GetResponse"; q ++ bs "ListRequest"; q ++ bs "ListResponse";
   q ++ bs "EventsRequest"; q ++ bs "EventsResponse"; q ++ bs "QueryService"]
  ++ flat_map (fun c =>
       flat_map (fun m => (md_name m ++ bs "Request")
                          :: match md_response m with Some _ => [md_name m ++ bs "Response"] | None => [] end)
                (c_methods c)
       ++ [command_service e c]) (e_commands e).
(* <pkg>.topic: the publish topic and one upsert topic per summary *)
Definition sp_summary_name (e : entity) (s : summary) : bytes :=
  sp_camel e ++ match s_name s with [] => bs "Summary" | n => to_camel n end.
Definition sp_topic_scope (e : entity) : list bytes :=
  [sp_camel e ++ bs "EventMessage"; to_camel (sp_camel e ++ bs "Publish") ++ bs "Topic"]
  ++ flat_map (fun s => [sp_summary_name e s ++ bs "Message"; to_camel (sp_summary_name e s) ++ bs "Topic"])
              (e_summaries e).

(* ---- enum options are distinct names for protobuf ---------------------------------------------------------
   protoc's rule (the converter applies it since fix 4fb405b): within one enum, the names of the values with the
   enum-name prefix removed (ignoring case and '_') and the rest put into PascalCase are pairwise distinct.
   Stated on the declaration: for the statuses (enum <Camel>Status), for every enum of the block and for every
   inline enum at any depth (enum ToCamel(field)); the value lists are the documented ones. *)
Definition sp_canonical_distinct (enum_name : bytes) (values : list bytes) : bool :=
  nodup_bytes (map (fun v => enum_value_name (trim_enum_prefix v (enum_prefix_of enum_name))) values).
Definition sp_inline_enum_ok (field : bytes) (k : N) (opts : list bytes) : bool :=
  if k =? 2 then sp_canonical_distinct (to_camel field) (sp_inline_enum_values (to_camel field) opts) else true.
Fixpoint sp_tfield_enums_ok (t : tfield) : bool :=
  match t with
  | TF n (TKInline k _ fs os) _ _ _ => sp_inline_enum_ok n k os && forallb sp_tfield_enums_ok fs
  | _ => true
  end.
Definition sp_ufield_enums_ok (u : ufield) : bool :=
  match uf_kind u with
  | KInlineEnum os => sp_inline_enum_ok (uf_name u) 2 os
  | KInlineTree k fs => sp_inline_enum_ok (uf_name u) k [] && forallb sp_tfield_enums_ok fs
  | _ => true
  end.
Definition sp_enums_ok (e : entity) : bool :=
  sp_canonical_distinct (sp_name e "Status") (sp_enum_values_n (sp_status_prefix e) (e_status e) (sp_first_number e))
  && forallb (fun s => match s with
                       | SEnum n opts => sp_canonical_distinct n (sp_enum_values (to_screaming_snake n ++ [95]) opts)
                       | _ => true end) (e_schemas e)
  && forallb sp_ufield_enums_ok (all_ufields e).

(* ---- "all named from the entity name": the exact names ---------------------------------------------------
   the Status enum holds exactly the documented values, numbered 0, 1, .. in that order; the query service's
   six messages, each command service and the messages of its methods, the publish topic with its method and
   message, and one upsert topic per summary carry the names derived from the entity name (and, for commands /
   summaries, from the name the declaration gives them) *)
Definition spec_names (e : entity) (cs : list component) : Prop :=
  (exists vs, has_enum cs (sp_name e "Status") vs
      /\ map fst vs = sp_enum_values_n (sp_status_prefix e) (e_status e) (sp_first_number e)
      /\ map snd vs = map N.of_nat (seq 0 (length vs)))
  /\ (forall s g l v, In s (svcs_in cs 1) -> is_query_svc s = true -> sv_methods s = [g; l; v] ->
        map mt_in [g; l; v] = map (fun n => sp_query_prefix e ++ bs n) ["GetRequest"; "ListRequest"; "EventsRequest"]%string
        /\ map mt_out [g; l; v] = map (fun n => sp_query_prefix e ++ bs n) ["GetResponse"; "ListResponse"; "EventsResponse"]%string)
  /\ Forall2 (fun c s => sv_name s = command_service e c
                /\ Forall2 (fun m mt => mt_in mt = md_name m ++ bs "Request"
                               /\ mt_out mt = match md_response m with
                                              | Some _ => md_name m ++ bs "Response"
                                              | None => bs ".google.api.HttpBody" end)
                            (c_methods c) (sv_methods s))
             (e_commands e) (filter is_command_svc (svcs_in cs 1))
  /\ (forall p, In p (svcs_in cs 2) -> topic_role p = 4 ->
        sv_name p = to_camel (sp_camel e ++ bs "Publish") ++ bs "Topic"
        /\ map mt_name (sv_methods p) = [sp_camel e ++ bs "Event"]
        /\ map mt_in (sv_methods p) = [sp_camel e ++ bs "EventMessage"])
  /\ Forall2 (fun sm s => sv_name s = to_camel (sp_summary_name e sm) ++ bs "Topic"
                /\ map mt_name (sv_methods s) = [sp_summary_name e sm]
                /\ map mt_in (sv_methods s) = [sp_summary_name e sm ++ bs "Message"])
             (e_summaries e) (filter (fun s => topic_role s =? 3) (svcs_in cs 2)).

(* ---- "optional query settings (events in get, default status filter)" ------------------------------------
   the responses of the query service: Get returns the entity's State under the entity's own name - and the
   events next to it exactly when eventsInGet is set -, List an array of State and the page, Events an array of
   Event and the page; the status property of State is filterable and its default filters are the enum values
   of the statuses the declaration lists, in order *)
Definition sp_events_in_get (e : entity) : bool :=
  match e_query e with Some q => q_events_in_get q | None => false end.
Definition sp_default_status (e : entity) : list bytes :=
  match e_query e with Some q => q_default_status q | None => [] end.
Definition field_view (f : ofield) : bytes * otype * bool := (f_json f, f_type f, f_repeated f).
Definition spec_query_settings (e : entity) (cs : list component) : Prop :=
  let own := to_lower_camel (to_snake (e_name e)) in
  let state := TObject [] (sp_name e "State") in
  let event := TObject [] (sp_name e "Event") in
  let page := (bs "page", TObject (bs "j5.list.v1") (bs "PageResponse"), false) in
  (forall s g l v, In s (svcs_in cs 1) -> is_query_svc s = true -> sv_methods s = [g; l; v] ->
     exists mg ml mv, has_msg cs 1 mg /\ m_name mg = mt_out g /\ has_msg cs 1 ml /\ m_name ml = mt_out l
       /\ has_msg cs 1 mv /\ m_name mv = mt_out v
       /\ map field_view (m_fields mg) = (own, state, false) :: (if sp_events_in_get e then [(bs "events", event, true)] else [])
       /\ map field_view (m_fields ml) = [(own, state, true); page]
       /\ map field_view (m_fields mv) = [(bs "events", event, true); page])
  /\ (exists m f, has_msg cs 0 m /\ m_name m = sp_name e "State" /\ In f (m_fields m) /\ f_json f = bs "status"
        /\ f_filter f = Some (map (sp_value_name (sp_status_prefix e)) (sp_default_status e))).

(* ---- the names of the three packages, split by who chose them ----------------------------------------------
   GENERATED: the names the expansion derives from the entity name and the statuses (README: the six
   schemas, the status values, the query service with its six messages, the publish topic and its message).
   USER: the names the declaration itself puts into the same package scopes - block schemas and the values of
   block enums; request / response messages of the command methods and the command services; the topics and
   messages of the summaries.  The quantifier asks that the USER's names are pairwise distinct and differ
   from the generated ones ([user_names_ok], a predicate on the declaration); that the GENERATED names never
   collide among themselves is a theorem (EntityAcceptProofs: generated_main_nodup, generated_service_nodup,
   generated_topic_nodup), so the distinctness of the whole scopes ([sp_main_scope] etc. = generated ++ user)
   is derived, not assumed (main_scope_distinct, service_scope_distinct, topic_scope_distinct). *)
Definition sp_main_generated (e : entity) : list bytes :=
  [sp_name e "Keys"; sp_name e "Data"; sp_name e "Status"]
  ++ sp_enum_values_n (sp_status_prefix e) (e_status e) (sp_first_number e)
  ++ [sp_name e "State"; sp_name e "EventType"; sp_name e "Event"].
Definition sp_main_user (e : entity) : list bytes := flat_map sp_schema_names (e_schemas e).
Definition sp_service_generated (e : entity) : list bytes :=
  let q := sp_query_prefix e in
  [q ++ bs "GetRequest"; q ++ bs "GetResponse"; q ++ bs "ListRequest"; q ++ bs "ListResponse";
   q ++ bs "EventsRequest"; q ++ bs "EventsResponse"; q ++ bs "QueryService"].
Definition sp_service_user (e : entity) : list bytes :=
  flat_map (fun c =>
       flat_map (fun m => (md_name m ++ bs "Request")
                          :: match md_response m with Some _ => [md_name m ++ bs "Response"] | None => [] end)
                (c_methods c)
       ++ [command_service e c]) (e_commands e).
Definition sp_topic_generated (e : entity) : list bytes :=
  [sp_camel e ++ bs "EventMessage"; to_camel (sp_camel e ++ bs "Publish") ++ bs "Topic"].
Definition sp_topic_user (e : entity) : list bytes :=
  flat_map (fun s => [sp_summary_name e s ++ bs "Message"; to_camel (sp_summary_name e s) ++ bs "Topic"])
           (e_summaries e).
Definition disjoint_bytes (a b : list bytes) : bool := forallb (fun x => negb (existsb (bytes_eqb x) b)) a.
Definition user_names_ok (e : entity) : bool :=
  nodup_bytes (sp_main_user e) && disjoint_bytes (sp_main_user e) (sp_main_generated e)
  && nodup_bytes (sp_service_user e) && disjoint_bytes (sp_service_user e) (sp_service_generated e)
  && nodup_bytes (sp_topic_user e) && disjoint_bytes (sp_topic_user e) (sp_topic_generated e).

(* ==== round 4: the List method and the field types of Keys / Data ================================= *)
(* the keys List is scoped by: key-typed keys flagged shardKey - primary or not *)
Definition key_in_list (k : ekey) : bool := key_typed k && k_shard k.
Definition shard_key_names (e : entity) : list bytes :=
  map (fun k => to_snake (key_name k)) (filter key_in_list (e_keys e)).

(* the path parameters of List are the shard keys in declaration order *)
Definition spec_list_path (e : entity) (cs : list component) : Prop :=
  forall s g l v, In s (svcs_in cs 1) -> is_query_svc s = true -> sv_methods s = [g; l; v] ->
    rule_params (mt_path l) = shard_key_names e.


(* ---- the List request: the shard keys, then page and query; the key fields are the very fields of
   the Get and Events requests (same type, key options, required / optional flags) --------------- *)
Definition spec_list_request (e : entity) (cs : list component) : Prop :=
  forall s g l v, In s (svcs_in cs 1) -> is_query_svc s = true -> sv_methods s = [g; l; v] ->
    exists mg ml mv,
      has_msg cs 1 mg /\ m_name mg = mt_in g /\ has_msg cs 1 ml /\ m_name ml = mt_in l
      /\ has_msg cs 1 mv /\ m_name mv = mt_in v
      /\ map f_json (m_fields ml)
         = map key_name (filter key_in_list (e_keys e)) ++ [bs "page"; bs "query"]
      /\ (forall f, In f (firstn (length (shard_key_names e)) (m_fields ml)) ->
            In f (m_fields mg) /\ In f (m_fields mv)).


(* the type the schema language gives an item: a scalar / well-known message / reference by name *)
Definition sp_item_type (i : ikind) : otype :=
  match i with
  | IScalar pt k => TScalar pt k
  | IExt tn k => TExt tn k
  | IObject n => TObject [] n
  | IOneof n => TOneof [] n
  | IEnum n => TEnum [] n
  end.
(* an inline (anonymous) schema becomes a type nested in the message, named Camel(field name);
   as the value of a map it sits inside the map type *)
Definition sp_inline_type (container : N) (field : bytes) (k : N) : otype :=
  if container =? 2 then TMap (TNested (to_camel field) k) else TNested (to_camel field) k.
Definition sp_declared_type (u : ufield) : otype :=
  match uf_kind u with
  | KScalar pt k => TScalar pt k
  | KObject n => TObject [] n
  | KOneof n => TOneof [] n
  | KEnum n => TEnum [] n
  | KKey _ _ _ => TScalar 9 (bs "key")          (* a string carrying the key annotation *)
  | KExt tn k => TExt tn k
  | KArray i => sp_item_type i
  | KMap v => TMap (sp_item_type v)
  | KInlineObject _ => sp_inline_type (uf_container u) (uf_name u) 0
  | KInlineOneof _ => sp_inline_type (uf_container u) (uf_name u) 1
  | KInlineEnum _ => sp_inline_type (uf_container u) (uf_name u) 2
  | KInlineTree k _ => sp_inline_type (uf_container u) (uf_name u) k
  end.
Definition sp_repeated (u : ufield) : bool :=
  match uf_kind u with
  | KArray _ | KMap _ => true
  | KInlineObject _ | KInlineOneof _ | KInlineEnum _ | KInlineTree _ _ => negb (uf_container u =? 0)
  | _ => false
  end.
Definition sp_key_flags (u : ufield) : bool * option bytes * option (bytes * bytes) :=
  match uf_kind u with
  | KKey p fo te => (p, te, fo)
  | _ => (false, None, None)
  end.

(* a property of a generated message IS the declared field: name, type, repeated, key flags
   (primary / tenant / foreign key), never flattened *)
Definition field_as_declared (u : ufield) (f : ofield) : Prop :=
  f_json f = uf_name u /\ f_type f = sp_declared_type u /\ f_repeated f = sp_repeated u
  /\ (f_primary f, f_tenant f, f_foreign f) = sp_key_flags u /\ f_flatten f = false.

Definition spec_field_types (e : entity) (cs : list component) : Prop :=
  exists mk md,
    has_msg cs 0 mk /\ m_name mk = sp_name e "Keys" /\ has_msg cs 0 md /\ m_name md = sp_name e "Data"
    /\ Forall2 (fun k f => field_as_declared (k_def k) f) (e_keys e) (m_fields mk)
    /\ Forall2 field_as_declared (e_data e) (m_fields md).


(* the same for the members: the nested message of every event, the request and response message of
   every command method, the upsert message of every summary (after the upsert metadata), the objects
   and oneofs declared in the entity block hold the declared fields - name, type, repeated, key flags - in declaration order *)
Definition spec_member_field_types (e : entity) (cs : list component) : Prop :=
  (exists m, has_msg cs 0 m /\ m_name m = sp_name e "EventType"
     /\ Forall2 (fun ev n => fst n = ev_name ev /\ Forall2 field_as_declared (ev_fields ev) (snd n))
                (e_events e) (m_nested m))
  /\ (forall c md, In c (e_commands e) -> In md (c_methods c) ->
        (exists m, has_msg cs 1 m /\ m_name m = md_name md ++ bs "Request"
                   /\ Forall2 field_as_declared (md_request md) (m_fields m))
        /\ (forall r, md_response md = Some r ->
              exists m, has_msg cs 1 m /\ m_name m = md_name md ++ bs "Response"
                        /\ Forall2 field_as_declared r (m_fields m)))
  /\ (forall s, In s (e_summaries e) ->
        exists m up, has_msg cs 2 m /\ m_name m = sp_summary_name e s ++ bs "Message"
                     /\ Forall2 field_as_declared (s_fields s) (tl (m_fields m)) /\ hd_error (m_fields m) = Some up
                     /\ f_json up = bs "upsert")
  (* the objects and oneofs declared in the entity block: a message of that name with the declared fields *)
  /\ (forall s, In s (e_schemas e) ->
        match s with
        | SObject n fs => exists m, has_msg cs 0 m /\ m_name m = n /\ m_oneof m = false
                                    /\ Forall2 field_as_declared fs (m_fields m)
        | SOneof n fs => exists m, has_msg cs 0 m /\ m_name m = n /\ m_oneof m = true
                                   /\ Forall2 field_as_declared fs (m_fields m)
        | SEnum _ _ => True
        end).

(* THE SPECIFICATION, all clauses *)
Definition C17_spec_all (e : entity) (cs : list component) : Prop :=
  C17_spec e cs /\ spec_names e cs /\ spec_query_settings e cs
  /\ spec_list_path e cs /\ spec_list_request e cs /\ spec_field_types e cs
  /\ spec_member_field_types e cs.

Definition in_quantifier (e : entity) : bool :=
  (* the options of one enum - the statuses, the options of an enum of the block or of an inline enum -
     are distinct names for protobuf: their canonical names (enum-name prefix removed, PascalCase, protoc's
     rule) differ; `Active` next to `ACTIVE` is one name twice (a positioned compile error since fix 4fb405b) *)
  sp_enums_ok e
  && name_ok (e_name e) && pkg_ok (e_pkg e)
  && (is_nil (e_base_url e) || (rel_path_ok (e_base_url e) && is_nil (colon_params (e_base_url e))))
  (* 1..n keys of any type *)
  && negb (is_nil (e_keys e)) && fields_wf (map k_def (e_keys e)) && forallb (ref_ok e) (map k_def (e_keys e))
  (* 0..n data fields *)
  && fields_wf (e_data e) && forallb (ref_ok e) (e_data e)
  (* 1..n statuses: identifiers; only the first may be the UNSPECIFIED value *)
  && negb (is_nil (e_status e)) && forallb name_ok (e_status e)
  && forallb (fun s => negb (sp_explicit_zero (sp_status_prefix e) s)) (tl (e_status e))
  (* 0..n events: object names (upper-case initial), distinct also as oneof options *)
  && forallb (fun ev => type_name_ok (ev_name ev) && fields_wf (ev_fields ev) && forallb (ref_ok e) (ev_fields ev))
             (e_events e)
  && nodup_bytes (map (fun ev => to_snake (to_lower_camel (ev_name ev))) (e_events e))
  (* 0..n command services, each with distinct method names *)
  && forallb (fun c => match c_name c with Some n => name_ok n | None => true end
                       && match c_base c with Some b => rel_path_ok b && is_nil (colon_params b) | None => true end
                       && forallb (method_wf e) (c_methods c)
                       && nodup_bytes (map md_name (c_methods c))) (e_commands e)
  (* 0..n summaries with distinct names *)
  && forallb (fun s => (is_nil (s_name s) || name_ok (s_name s)) && fields_wf (s_fields s)
                       && forallb (ref_ok e) (s_fields s)) (e_summaries e)
  && nodup_bytes (map s_name (e_summaries e))
  (* schemas of the block: any identifier is a schema name (`enum level_type`: the compiler keeps it as written) *)
  && forallb (fun s => name_ok (schema_name s) && fields_wf (schema_fields s) && forallb (ref_ok e) (schema_fields s))
             (e_schemas e)
  (* the names the USER puts into the three package scopes (block schemas and their enum values; method
     request / response messages and command services; summary topics and messages) do not repeat each
     other nor a name the expansion generates.  That the whole scopes are then duplicate-free is PROVED
     (main_scope_distinct etc.): the generated names never collide among themselves *)
  && user_names_ok e
  (* query settings: events in get, default status filters that name statuses (no list-request
     settings: they are not part of the quantifier, and the real compiler panics on them) *)
  && negb (list_settings e)
  && match e_query e with
     | Some q => forallb (fun f => existsb (bytes_eqb f) (e_status e)) (q_default_status q)
     | None => true
     end.

(* the field names the expansion itself adds next to the user's in ONE proto scope: a declaration that
   uses one of them in that place is inside the quantifier, but the compiler rejects it (link error
   `symbol ... already defined`), which contradicts "each entity declaration yields ..." *)
Definition response_name (e : entity) : bytes := to_snake (to_lower_camel (to_snake (e_name e))).
(* no option of a oneof nested anywhere in a tree-form inline schema is named type *)
Definition options_type_free (k : N) (fs : list tfield) : bool :=
  if k =? 1 then forallb (fun t => negb (bytes_eqb (to_snake (tf_name t)) (bs "type"))) fs else true.
Fixpoint tfield_type_free (t : tfield) : bool :=
  match t with
  | TF _ (TKInline k _ fs _) _ _ _ => options_type_free k fs && forallb tfield_type_free fs
  | _ => true
  end.
Definition tree_type_free (k : N) (fs : list tfield) : bool :=
  options_type_free k fs && forallb tfield_type_free fs.
Definition reserved_free (e : entity) : bool :=
  (* keys in the Get/List/Events requests next to page and query *)
  forallb (fun k => negb (key_in_path k && existsb (bytes_eqb (to_snake (key_name k))) [bs "page"; bs "query"]))
          (e_keys e)
  (* summary fields next to upsert *)
  && forallb (fun s => forallb (fun u => negb (bytes_eqb (to_snake (uf_name u)) (bs "upsert"))) (s_fields s))
             (e_summaries e)
  (* oneof options next to the proto oneof "type" (the event oneof and the oneofs of the block) *)
  && forallb (fun ev => negb (bytes_eqb (to_snake (to_lower_camel (ev_name ev))) (bs "type"))) (e_events e)
  && forallb (fun s => match s with
                       | SOneof _ opts => forallb (fun u => negb (bytes_eqb (to_snake (uf_name u)) (bs "type"))) opts
                       | _ => true end) (e_schemas e)
  && forallb (fun u => match uf_kind u with
                        | KInlineOneof opts => forallb (fun o => negb (bytes_eqb (to_snake (sf_name o)) (bs "type"))) opts
                        | KInlineTree k fs => tree_type_free k fs
                        | _ => true end) (all_ufields e)
  (* the entity's own property in the Get / List responses next to events / page *)
  && negb (bytes_eqb (response_name e) (bs "page"))
  && negb (match e_query e with Some q => q_events_in_get q | None => false end
           && bytes_eqb (response_name e) (bs "events")).

(* ---- several entity declarations in one source file --------------------------------------------------
   each declaration in the quantifier and free of reserved names, and the documented names of the three
   packages distinct over the WHOLE file (the entities share the packages) *)
Definition file_quantifier (es : list entity) : bool :=
  forallb (fun e => in_quantifier e && reserved_free e) es
  && nodup_bytes (flat_map sp_main_scope es)
  && nodup_bytes (flat_map sp_service_scope es)
  && nodup_bytes (flat_map sp_topic_scope es).

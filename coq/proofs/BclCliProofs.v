(* BclCliProofs.v — `j5 j5s fmt` over a file tree (model/BclCli.v): without --write nothing changes;
   --dir --write on a tree whose .j5s files all format replaces exactly those files by the formatter's
   output and leaves every other file alone; the first rejected file (in walk order) ends the run with
   the earlier files rewritten and the later ones untouched; a second run changes nothing; and, with
   C09 on bytes, every accepted source keeps its document. *)
From Coq Require Import String List NArith ZArith Bool Permutation.
From J5V.lib Require Import Text Outcome.
From J5V.model Require Import BclLexer BclParser BclFmt BclCli.
From J5V.proofs Require Import BclFmtProofs BclFmtBytesProofs BclDocBytesProofs.
From J5V.model Require Import BclDoc.
Import ListNotations.

Lemma path_eqb_eq : forall a b, path_eqb a b = true <-> a = b.
Proof.
  induction a as [|x r IH]; intros [|y s]; cbn [path_eqb]; split; intros H; try reflexivity; try discriminate.
  - apply andb_true_iff in H. destruct H as [H1 H2]. apply list_N_eqb_eq in H1. apply IH in H2. congruence.
  - injection H as -> ->. apply andb_true_iff. split; [apply list_N_eqb_eq; reflexivity|apply IH; reflexivity].
Qed.
Lemma path_eqb_refl a : path_eqb a a = true.
Proof. apply path_eqb_eq. reflexivity. Qed.
Lemma path_eqb_neq a b : a <> b -> path_eqb a b = false.
Proof. intros H. destruct (path_eqb a b) eqn:E; [apply path_eqb_eq in E; contradiction|reflexivity]. Qed.

Definition fmt_out (d : list N) : list N := match fmt_bytes d with Ok o => o | _ => d end.
Definition fmt_ok (d : list N) : Prop := exists o, fmt_bytes d = Ok o.

(* ---- without --write ------------------------------------------------------------------------------ *)
Lemma run_files_no_write : forall todo t pr, fs_after (run_files false todo t pr) = t.
Proof.
  induction todo as [|[p d] r IH]; intros t pr; [reflexivity|]. cbn [run_files].
  destruct (fmt_bytes d); try reflexivity. apply IH.
Qed.
Theorem fmt_without_write_changes_nothing target t : fs_after (run_fmt target false t) = t.
Proof.
  destruct target as [p| |p]; cbn [run_fmt]; [|apply run_files_no_write|reflexivity].
  destruct (lookup t p); [apply run_files_no_write|reflexivity].
Qed.

(* ---- with --write: the visited files, one after the other -------------------------------------- *)
(* what a list of successfully formatted files does to an entry of the tree *)
Definition rewrite_by (done : list (path * list N)) (e : path * list N) : path * list N :=
  match lookup done (fst e) with Some d => (fst e, fmt_out d) | None => e end.

Lemma lookup_none_notin l p : lookup l p = None -> forall d, ~ In (p, d) l.
Proof.
  induction l as [|[q x] r IH]; intros H d Hi; [exact Hi|]. cbn [lookup] in H. destruct Hi as [E|E].
  - injection E as -> ->. rewrite path_eqb_refl in H. discriminate.
  - destruct (path_eqb q p); [discriminate|]. exact (IH H d E).
Qed.
Lemma lookup_in l p d : NoDup (map fst l) -> In (p, d) l -> lookup l p = Some d.
Proof.
  induction l as [|[q x] r IH]; intros Hn Hi; [contradiction|]. cbn [lookup]. destruct Hi as [E|E].
  - injection E as -> ->. rewrite path_eqb_refl. reflexivity.
  - cbn [map fst] in Hn. inversion Hn as [|a b Hq Hr]; subst.
    rewrite path_eqb_neq; [apply IH; assumption|].
    intros ->. apply Hq. change p with (fst (p, d)). apply in_map. exact E.
Qed.
Lemma lookup_notin l p : ~ In p (map fst l) -> lookup l p = None.
Proof.
  induction l as [|[q x] r IH]; intros H; [reflexivity|]. cbn [lookup]. cbn [map fst] in H.
  rewrite path_eqb_neq.
  - apply IH. intros Hi. apply H. right. exact Hi.
  - intros ->. apply H. left. reflexivity.
Qed.

(* all of [pre] format, then [stop] (a rejected file, or the end): the tree afterwards *)
Lemma run_files_write : forall pre rest t pr,
  NoDup (map fst pre) -> Forall (fun e => fmt_ok (snd e)) pre ->
  run_files true (pre ++ rest) t pr =
  run_files true rest (map (rewrite_by pre) t) pr.
Proof.
  induction pre as [|[p d] r IH]; intros rest t pr Hn Hok.
  - cbn [app]. f_equal. symmetry. rewrite <- (map_id t) at 2. apply map_ext. intros e. reflexivity.
  - inversion Hok as [|a b [o Ho] Hr]; subst. cbn [map fst] in Hn. inversion Hn as [|a b Hp Hnr]; subst.
    cbn [app run_files]. cbn [snd] in Ho. rewrite Ho. rewrite (IH rest (put t p o) pr Hnr Hr). f_equal.
    unfold put. rewrite map_map. apply map_ext. intros [q x]. cbn [fst].
    unfold rewrite_by. cbn [fst lookup]. destruct (path_eqb q p) eqn:E.
    + apply path_eqb_eq in E. subst q. cbn [fst]. rewrite path_eqb_refl.
      rewrite (lookup_notin r p Hp). unfold fmt_out. rewrite Ho. reflexivity.
    + cbn [fst]. rewrite path_eqb_neq; [reflexivity|]. intros ->. rewrite path_eqb_refl in E. discriminate.
Qed.

(* ---- walk order is a permutation of the .j5s files ------------------------------------------------ *)
Lemma insert_path_perm {A} (e : path * A) l : Permutation (insert_path e l) (e :: l).
Proof.
  induction l as [|x r IH]; [reflexivity|]. cbn [insert_path]. destruct (path_ltb (fst x) (fst e)); [|reflexivity].
  rewrite IH. apply perm_swap.
Qed.
Lemma walk_order_perm {A} (l : list (path * A)) : Permutation (walk_order l) l.
Proof.
  induction l as [|x r IH]; [reflexivity|]. unfold walk_order in *. cbn [fold_right]. rewrite insert_path_perm. constructor. exact IH.
Qed.

Definition j5s_files (t : tree) : list (path * list N) := walk_order (filter (fun e => is_j5s (fst e)) t).

Lemma NoDup_filter_fst {A B} (f : A * B -> bool) (l : list (A * B)) : NoDup (map fst l) -> NoDup (map fst (filter f l)).
Proof.
  induction l as [|x r IH]; intros H; [constructor|]. cbn [map] in H. inversion H as [|a b Hx Hr]; subst. cbn [filter].
  destruct (f x); [|apply IH; exact Hr]. cbn [map]. constructor; [|apply IH; exact Hr].
  intros Hi. apply Hx. apply in_map_iff in Hi. destruct Hi as (y & Ey & Hy). apply filter_In in Hy. destruct Hy as [Hy _].
  rewrite <- Ey. apply in_map. exact Hy.
Qed.
Lemma j5s_files_nodup t : NoDup (map fst t) -> NoDup (map fst (j5s_files t)).
Proof.
  intros H. unfold j5s_files. eapply Permutation_NoDup; [apply Permutation_map; symmetry; apply walk_order_perm|].
  apply NoDup_filter_fst. exact H.
Qed.
Lemma j5s_files_in t e : In e (j5s_files t) <-> In e t /\ is_j5s (fst e) = true.
Proof.
  unfold j5s_files. split; intros H.
  - apply (Permutation_in _ (walk_order_perm _)) in H. apply filter_In in H. exact H.
  - apply (Permutation_in _ (Permutation_sym (walk_order_perm _))). apply filter_In. exact H.
Qed.

(* rewriting by the .j5s files of the tree itself = formatting every .j5s entry in place *)
Lemma rewrite_by_own t : NoDup (map fst t) ->
  map (rewrite_by (j5s_files t)) t = map (fun e => if is_j5s (fst e) then (fst e, fmt_out (snd e)) else e) t.
Proof.
  intros Hn. apply map_ext_in. intros [p d] Hin. unfold rewrite_by. cbn [fst snd].
  destruct (is_j5s p) eqn:Ej.
  - rewrite (lookup_in (j5s_files t) p d (j5s_files_nodup t Hn)); [reflexivity|]. apply j5s_files_in. split; [exact Hin|exact Ej].
  - destruct (lookup (j5s_files t) p) as [x|] eqn:El; [|reflexivity].
    assert (Hx : In (p, x) (j5s_files t)).
    { clear -El. induction (j5s_files t) as [|[q y] r IH]; [discriminate|]. cbn [lookup] in El.
      destruct (path_eqb q p) eqn:E; [apply path_eqb_eq in E; injection El as ->; subst; left; reflexivity|right; apply IH; exact El]. }
    apply j5s_files_in in Hx. cbn [fst] in Hx. destruct Hx as [_ Hx]. congruence.
Qed.

Definition format_tree (t : tree) : tree := map (fun e => if is_j5s (fst e) then (fst e, fmt_out (snd e)) else e) t.

(* --dir --write, every .j5s file formats: exit 0, exactly the .j5s files replaced by Fmt's output *)
Theorem fmt_dir_write_spec t : NoDup (map fst t) ->
  (forall p d, In (p, d) t -> is_j5s p = true -> fmt_ok d) ->
  run_fmt TDir true t = mkCli (format_tree t) [] None.
Proof.
  intros Hn Hok. cbn [run_fmt]. fold (j5s_files t). rewrite <- (app_nil_r (j5s_files t)).
  rewrite run_files_write; [|apply j5s_files_nodup; exact Hn|].
  - cbn [run_files]. rewrite rewrite_by_own by exact Hn. reflexivity.
  - apply Forall_forall. intros [p d] Hi. apply j5s_files_in in Hi. destruct Hi as [Hi Hj]. exact (Hok p d Hi Hj).
Qed.

Lemma NoDup_app_l {A} (a b : list A) : NoDup (a ++ b) -> NoDup a.
Proof.
  induction a as [|x r IH]; intros H; [constructor|]. cbn [app] in H. inversion H as [|y z Hx Hr]; subst.
  constructor; [intros Hi; apply Hx; apply in_or_app; left; exact Hi|apply IH; exact Hr].
Qed.

(* the first rejected file in walk order ends the run: earlier files rewritten, that file and later ones untouched *)
Theorem fmt_dir_write_stops t pre p d post : NoDup (map fst t) ->
  j5s_files t = pre ++ (p, d) :: post -> Forall (fun e => fmt_ok (snd e)) pre -> ~ fmt_ok d ->
  run_fmt TDir true t = mkCli (map (rewrite_by pre) t) [] (Some p).
Proof.
  intros Hn Es Hpre Hd. cbn [run_fmt]. fold (j5s_files t). rewrite Es.
  assert (Hnp : NoDup (map fst pre)).
  { pose proof (j5s_files_nodup t Hn) as H. rewrite Es, map_app in H. apply NoDup_app_l in H. exact H. }
  rewrite run_files_write by assumption. cbn [run_files].
  destruct (fmt_bytes d) as [o| | |] eqn:E; try reflexivity. exfalso. apply Hd. exists o. exact E.
Qed.

(* a second run changes nothing and succeeds *)
Lemma format_tree_paths t : map fst (format_tree t) = map fst t.
Proof. unfold format_tree. rewrite map_map. apply map_ext. intros [p d]. cbn [fst]. destruct (is_j5s p); reflexivity. Qed.

Theorem fmt_dir_write_twice t : NoDup (map fst t) ->
  (forall p d, In (p, d) t -> is_j5s p = true -> fmt_ok d) ->
  run_fmt TDir true (format_tree t) = mkCli (format_tree t) [] None.
Proof.
  intros Hn Hok.
  assert (Hf : forall p d, In (p, d) (format_tree t) -> is_j5s p = true -> fmt_bytes d = Ok d).
  { intros p d Hi Hj. unfold format_tree in Hi. apply in_map_iff in Hi. destruct Hi as ([q x] & E & Hx). cbn [fst snd] in E.
    destruct (is_j5s q) eqn:Eq.
    - injection E as E1 E2. rewrite <- E2. destruct (Hok q x Hx Eq) as [o Ho]. unfold fmt_out. rewrite Ho. exact (fmt_bytes_idempotent x o Ho).
    - injection E as E1 E2. congruence. }
  rewrite fmt_dir_write_spec.
  - f_equal. unfold format_tree at 1. rewrite <- (map_id (format_tree t)) at 2. apply map_ext_in. intros [p d] Hi. cbn [fst snd].
    destruct (is_j5s p) eqn:Ej; [|reflexivity]. unfold fmt_out. rewrite (Hf p d Hi Ej). reflexivity.
  - rewrite format_tree_paths. exact Hn.
  - intros p d Hi Hj. exists d. exact (Hf p d Hi Hj).
Qed.

(* --file --write on a file that formats: that file, whatever its name, is replaced; nothing else *)
Theorem fmt_file_write_spec t p d : NoDup (map fst t) -> In (p, d) t -> fmt_ok d ->
  run_fmt (TFile p) true t = mkCli (map (fun e => if path_eqb (fst e) p then (fst e, fmt_out d) else e) t) [] None.
Proof.
  intros Hn Hi [o Ho]. cbn [run_fmt]. rewrite (lookup_in t p d Hn Hi). cbn [run_files]. rewrite Ho.
  unfold put, fmt_out. rewrite Ho. reflexivity.
Qed.

(* ---- meaning: what C09 says about the files the command leaves on disk ----------------------------- *)
Theorem fmt_dir_write_keeps_documents t : NoDup (map fst t) ->
  (forall p d, In (p, d) t -> is_j5s p = true -> fmt_ok d) ->
  forall p d, In (p, d) t -> is_j5s p = true -> accepted_bytes d ->
    exists d' fs fs', In (p, d') (fs_after (run_fmt TDir true t)) /\ accepted_bytes d' /\
      collect_fragments (utf8_decode d) = Ok fs /\ collect_fragments (utf8_decode d') = Ok fs' /\
      map doc_of fs' = map doc_of fs /\ fmt_bytes d' = Ok d'.
Proof.
  intros Hn Hok p d Hi Hj Ha. rewrite (fmt_dir_write_spec t Hn Hok). cbn [fs_after].
  destruct (fmt_full_bytes d Ha) as (outb & fs & fs' & Hf & Hacc & Hc & Hc' & Hd & Hid).
  exists outb, fs, fs'. split; [|auto].
  unfold format_tree. apply in_map_iff. exists (p, d). split; [|exact Hi]. cbn [fst snd]. rewrite Hj.
  unfold fmt_out. rewrite Hf. reflexivity.
Qed.

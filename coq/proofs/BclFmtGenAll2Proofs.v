(* BclFmtGenAll2Proofs.v — for ALL inputs, continued: singleLineTokens, inlineComment, multiLineToken,
   doDescription (prefix, width, TrimRight) from the translated table are the model's single_line,
   inline_comment, multi_line, description_diff. *)
From Coq Require Import String List NArith ZArith Bool Lia ZifyN ZifyNat ZifyBool.
From J5V.lib Require Import Text Outcome GoExpr.
From J5V.gen Require BclFmtGen.
From J5V.model Require Import BclLexer BclParser BclFmt.
From J5V.proofs Require Import BclFmtGenProofs BclFmtGenAllProofs BclUtf8Proofs.
Import ListNotations.
Local Open Scope string_scope.
Local Open Scope list_scope.
Local Open Scope Z_scope.

Lemma g_repeat_one c n : g_repeat [c] n = repeat c n.
Proof. induction n as [|k IH]; [reflexivity|]. cbn [g_repeat repeat app]. rewrite IH. reflexivity. Qed.

Lemma inline_comment_all c : inline_tab c = VS (inline_comment c).
Proof. destruct c as [c|]; reflexivity. Qed.

Lemma single_table_form :
  lit_field "fmt.go:singleLineTokens" 0 "FromLine" = GVar "src.Start.Line" /\
  lit_field "fmt.go:singleLineTokens" 0 "ToLine" = GBin "+" (GVar "src.End.Line") (GInt 1) /\
  assign_of "fmt.go:singleLineTokens" 3 = GBin "+" (GBin "+" (GCall "strings.Repeat" [GStr [9%N]; GVar "p.indent"]) (GVar "line")) (GStr [10%N]).
Proof. repeat split. Qed.

Theorem single_line_all indent s e c parts :
  let d := single_line indent s e c parts in
  let env := [("src.Start.Line", VZ (fst s)); ("src.End.Line", VZ (fst e)); ("p.indent", VZ (Z.of_nat indent));
              ("line", VS (parts ++ inline_comment c))] in
  ev env (lit_field "fmt.go:singleLineTokens" 0 "FromLine") = VZ (fd_from d) /\
  ev env (lit_field "fmt.go:singleLineTokens" 0 "ToLine") = VZ (fd_to d) /\
  ev env (assign_of "fmt.go:singleLineTokens" 3) = VS (fd_text d).
Proof.
  cbv zeta.
  change (lit_field "fmt.go:singleLineTokens" 0 "FromLine") with (GVar "src.Start.Line").
  change (lit_field "fmt.go:singleLineTokens" 0 "ToLine") with (GBin "+" (GVar "src.End.Line") (GInt 1)).
  change (assign_of "fmt.go:singleLineTokens" 3) with
    (GBin "+" (GBin "+" (GCall "strings.Repeat" [GStr [9%N]; GVar "p.indent"]) (GVar "line")) (GStr [10%N])).
  unfold ev. cbn [g_eval map g_lookup String.eqb Ascii.eqb Bool.eqb g_call existsb orb g_binop fst snd single_line fd_from fd_to fd_text].
  replace (Z.of_nat indent <? 0) with false by lia. rewrite Nat2Z.id, g_repeat_one. cbn [g_binop String.eqb Ascii.eqb Bool.eqb].
  unfold tabs. repeat split. rewrite <- !app_assoc. reflexivity.
Qed.

(* ---- multiLineToken / doDescription ------------------------------------------------------------------------ *)
Lemma g_trim_right_space x : g_trim_right [32%N] x = trim_right (N.eqb 32) x.
Proof.
  unfold g_trim_right, trim_right. f_equal. induction (rev x) as [|c r IH]; [reflexivity|].
  cbn [existsb drop_while]. rewrite orb_false_r, (N.eqb_sym c 32). destruct (N.eqb 32 c); [exact IH|reflexivity].
Qed.

Lemma multi_table_form :
  call_arg "fmt.go:doDescription" 1 1 = GStr [124; 32]%N /\
  call_arg "fmt.go:doDescription" 0 1 = GBin "-" (GInt 80) (GBin "*" (GVar "p.indent") (GInt 4)) /\
  assign_of "fmt.go:multiLineToken" 0 = GBin "+" (GCall "strings.Repeat" [GStr [9%N]; GVar "p.indent"]) (GVar "prefix") /\
  assign_of "fmt.go:multiLineToken" 1 = GCall "strings.TrimRight" [GBin "+" (GVar "fullPrefix") (GVar "part"); GStr [32%N]] /\
  lit_field "fmt.go:multiLineToken" 0 "FromLine" = GVar "src.Start.Line" /\
  lit_field "fmt.go:multiLineToken" 0 "ToLine" = GBin "+" (GVar "src.End.Line") (GInt 1) /\
  lit_field "fmt.go:multiLineToken" 0 "NewText" = GBin "+" (GCall "strings.Join" [GVar "lines"; GStr [10%N]]) (GStr [10%N]).
Proof. repeat split. Qed.

Theorem multi_line_all indent s e lines : multi_tab indent s e lines = Some (multi_line indent s e lines).
Proof.
  unfold multi_tab.
  change (call_arg "fmt.go:doDescription" 1 1) with (GStr [124; 32]%N).
  change (assign_of "fmt.go:multiLineToken" 0) with (GBin "+" (GCall "strings.Repeat" [GStr [9%N]; GVar "p.indent"]) (GVar "prefix")).
  change (assign_of "fmt.go:multiLineToken" 1) with (GCall "strings.TrimRight" [GBin "+" (GVar "fullPrefix") (GVar "part"); GStr [32%N]]).
  change (lit_field "fmt.go:multiLineToken" 0 "FromLine") with (GVar "src.Start.Line").
  change (lit_field "fmt.go:multiLineToken" 0 "ToLine") with (GBin "+" (GVar "src.End.Line") (GInt 1)).
  change (lit_field "fmt.go:multiLineToken" 0 "NewText") with (GBin "+" (GCall "strings.Join" [GVar "lines"; GStr [10%N]]) (GStr [10%N])).
  unfold ev. cbn [g_eval map g_lookup String.eqb Ascii.eqb Bool.eqb g_call existsb orb g_binop fst snd].
  replace (Z.of_nat indent <? 0) with false by lia. rewrite Nat2Z.id, g_repeat_one. cbn [g_binop String.eqb Ascii.eqb Bool.eqb].
  unfold multi_line. f_equal. f_equal. rewrite g_join_nl. f_equal. f_equal. apply map_ext. intros l.
  cbn [g_call existsb orb String.eqb Ascii.eqb Bool.eqb]. rewrite g_trim_right_space. unfold tabs. reflexivity.
Qed.

Theorem description_width_all indent : width_tab indent = 80 - Z.of_nat indent * 4.
Proof. reflexivity. Qed.

Theorem description_diff_all indent d :
  multi_tab indent (dsstart d) (dsend d)
    (match reformat_description (dvalue d) (width_tab indent) with [] => [[]] | o => o end) = Some (description_diff indent d).
Proof.
  rewrite multi_line_all, description_width_all. unfold description_diff. cbv zeta.
  destruct (reformat_description (dvalue d) (80 - Z.of_nat indent * 4)); reflexivity.
Qed.

(* ---- the tokens the formatter inserts, for all fragments ---------------------------------------------------------- *)
Lemma g_join_dot ls : g_join [46%N] ls = join_with 46 ls.
Proof.
  induction ls as [|l r IH]; [reflexivity|]. destruct r as [|l2 r2]; [reflexivity|].
  change (g_join [46%N] (l :: l2 :: r2)) with (l ++ [46%N] ++ g_join [46%N] (l2 :: r2)). rewrite IH. reflexivity.
Qed.

Theorem reference_text_all r : reference_text r = g_join (newtok "fmt.go:referenceTokens" 0) (map token_source r).
Proof. change (newtok "fmt.go:referenceTokens" 0) with [46%N]. rewrite g_join_dot. reflexivity. Qed.

Theorem assign_text_all a :
  let nt := newtok "fmt.go:doAssignment" in
  assign_text a = reference_text (akey a)
                  ++ (if is_true (ev [("assign.Append", VB (aappend a))] (cond_of "fmt.go:doAssignment" 0))
                      then nt 0%nat ++ nt 1%nat ++ nt 2%nat ++ nt 3%nat else nt 4%nat ++ nt 5%nat ++ nt 6%nat)
                  ++ value_text (avalue a).
Proof. cbv zeta. unfold assign_text. destruct (aappend a); reflexivity. Qed.

Theorem value_text_array_all vs s e :
  let vt := newtok "fmt.go:valueTokens" in
  value_text (VArr vs s e) =
  vt 0%nat ++ (fix elems (vs : list value) (first : bool) : list N :=
                 match vs with
                 | [] => []
                 | x :: r => (if first then [] else vt 1%nat ++ vt 2%nat) ++ value_text x ++ elems r false
                 end) vs true ++ vt 3%nat.
Proof. reflexivity. Qed.

Theorem tag_text_all t :
  tag_text t =
  (match tmark t, tmark_tok t with
   | MarkNone, _ => []
   | _, Some mt => token_source mt ++ newtok "fmt.go:tagString" 0
   | _, None => newtok "fmt.go:tagString" 0
   end) ++
  match tbody t with
  | TagVal (VTok tok _ _) => token_source tok
  | TagVal (VArr _ _ _) => []
  | TagRef r => reference_text r
  end.
Proof. reflexivity. Qed.

Theorem header_text_all h :
  let nt := newtok "fmt.go:doBlockHeader" in
  header_text h =
  reference_text (htype h)
  ++ flat_map (fun t => nt 0%nat ++ tag_text t) (htags h)
  ++ flat_map (fun t => nt 1%nat ++ tag_text t) (hquals h)
  ++ (if is_true (ev [("block.Open", VB (hopen h))] (cond_of "fmt.go:doBlockHeader" 0)) then nt 2%nat ++ nt 3%nat else [])
  ++ match hdesc h with
     | Some d => nt 4%nat ++ flat_map token_source (dtoks d)
     | None => []
     end.
Proof. cbv zeta. unfold header_text. destruct (hopen h); reflexivity. Qed.

(* ---- reformatDescription: the wrap decision, for all words -------------------------------------------------------- *)
Lemma encode_length l : Z.of_nat (length (utf8_encode l)) = Z.of_N (utf8_len l).
Proof.
  induction l as [|c r IH]; [reflexivity|]. unfold utf8_encode, utf8_len in *. cbn [flat_map fold_right].
  rewrite app_length, Nat2Z.inj_add, IH, encode_rune_length. lia.
Qed.

Theorem flow_words_step_all maxw w r p0 pr out :
  let pend := p0 :: pr in
  let env := [("pend", VS (utf8_encode pend)); ("word", VS (utf8_encode w)); ("maxWidth", VZ maxw)] in
  flow_words maxw (w :: r) pend out =
  if is_true (ev env (cond_of "description.go:reformatDescription" 4))
  then flow_words maxw r w (out ++ [pend])
  else flow_words maxw r (pend ++ 32%N :: w) out.
Proof.
  cbv zeta. cbn [flow_words].
  change (cond_of "description.go:reformatDescription" 4) with
    (GBin ">" (GBin "+" (GCall "len" [GVar "pend"]) (GCall "len" [GVar "word"])) (GVar "maxWidth")).
  unfold ev. cbn [g_eval map g_lookup String.eqb Ascii.eqb Bool.eqb g_call existsb orb g_binop fst snd is_true].
  rewrite !encode_length. destruct (maxw <? Z.of_N (utf8_len (p0 :: pr)) + Z.of_N (utf8_len w)); reflexivity.
Qed.

(* ProtoPrintBytesLayoutEnumProofs.v — the layout lemma of the C05 byte level for a first fragment WITH declarations:
   files whose declarations are top-level enums with values, no options (sections with an empty and a non-empty body,
   the blank line after a section, value lines with negative numbers). *)
From Coq Require Import String List NArith ZArith Bool Lia.
From J5V.lib Require Import Outcome Corr.
From J5V.model Require Import ProtoPrintLit ProtoPrint ProtoLex ProtoLayout ProtoPrintCorr ProtoPrintFile
  ProtoPrintFileErase ProtoPrintBytes.
From J5V.proofs Require Import ProtoLexProofs ProtoPrintBytesLayoutProofs.
From J5V.proofs Require ProtoPrintFileExample ProtoPrintFileWfProofs.
Import ListNotations.
Local Open Scope N_scope.

Definition value_ok (v : svalue) : bool :=
  is_nil_l (sv_opts v) && is_ident (sv_name v) && tok_ok (TLit (print_int (sv_num v))).

Lemma T_value ind v : value_ok v = true -> T (emit_value (erase_svalue v)) (wr_value ind v).
Proof.
  unfold value_ok. intro H. apply andb_prop in H. destruct H as [H Hl]. apply andb_prop in H. destruct H as [Ho Hn].
  destruct v as [c n z o]. cbn [sv_opts sv_name sv_num] in *. destruct o as [|o1 o]; [|discriminate].
  unfold wr_value, wr_field_style. cbn [sv_opts sv_name sv_num].
  apply T_wp.
  apply (Lline_items _ _ [(TIdent n, [32]); (TEq, [32]); (TLit (print_int z), []); (TSemi, [])]).
  - reflexivity.
  - unfold items_text. cbn. rewrite <- !app_assoc. reflexivity.
  - cbn [items_ok fst snd forallb tok_text punct_char]. rewrite Hl, boundary_semi. cbn [tok_ok]. rewrite Hn. reflexivity.
Qed.

Lemma Lline_open kw name : is_ident kw = true -> is_ident name = true ->
  Lline [TIdent kw; TIdent name; TLBrace] (kw ++ sb " " ++ name ++ sb " {").
Proof.
  intros Hk Hn. apply (Lline_items _ _ [(TIdent kw, [32]); (TIdent name, [32]); (TLBrace, [])]).
  - reflexivity.
  - unfold items_text. cbn. rewrite <- !app_assoc. reflexivity.
  - cbn [items_ok fst snd forallb tok_text punct_char tok_ok]. rewrite Hk, Hn. reflexivity.
Qed.

Lemma Lline_empty_block kw name : is_ident kw = true -> is_ident name = true ->
  Lline [TIdent kw; TIdent name; TLBrace; TRBrace] (kw ++ sb " " ++ name ++ sb " {}").
Proof.
  intros Hk Hn. apply (Lline_items _ _ [(TIdent kw, [32]); (TIdent name, [32]); (TLBrace, []); (TRBrace, [])]).
  - reflexivity.
  - unfold items_text. cbn. rewrite <- !app_assoc. reflexivity.
  - cbn [items_ok fst snd forallb tok_text punct_char tok_ok boundary]. rewrite Hk, Hn. reflexivity.
Qed.

Lemma Lline_close : Lline [TRBrace] (sb "}").
Proof. apply (Lline_items _ _ [(TRBrace, [])]); reflexivity. Qed.

(* printSection without option statements *)
Lemma T_section ind kw name (empty : bool) inner ts : is_ident kw = true -> is_ident name = true ->
  T ts inner -> (empty = true -> ts = []) ->
  T (TIdent kw :: TIdent name :: TLBrace :: ts ++ [TRBrace]) (wr_section ind kw name [] empty inner).
Proof.
  intros Hk Hn Hin He ts0 w HW. unfold wr_section. destruct empty.
  - rewrite (He eq_refl). cbn [app]. exact (T_wp _ ind _ (Lline_empty_block kw name Hk Hn) _ _ HW).
  - unfold wfold. cbn [fold_left].
    pose proof (T_wp _ ind _ (Lline_open kw name Hk Hn) _ _ HW) as W1.
    pose proof (Hin _ _ W1) as W2.
    pose proof (T_wend _ ind _ Lline_close _ _ W2) as W3.
    refine (W_eq _ _ _ _ W3). rewrite <- !app_assoc. reflexivity.
Qed.

Lemma flat_map_map' {A B C} (f : A -> B) (g : B -> list C) l : flat_map g (map f l) = flat_map (fun x => g (f x)) l.
Proof. induction l as [|x l IH]; [reflexivity|]. cbn [map flat_map]. rewrite IH. reflexivity. Qed.

Definition enum_elem_ok (e : selem) : bool :=
  match e with
  | SEnum _ n [] vs => is_ident n && forallb value_ok vs
  | _ => false
  end.

Lemma T_enum_elem ind e : enum_elem_ok e = true -> T (emit_elem (erase_selem e)) (wr_elem ind e).
Proof.
  destruct e as [f|c n o fs|c n o body|c n o vs|c n o ms]; try discriminate. destruct o as [|o1 o]; [|discriminate].
  cbn [enum_elem_ok]. intro H. apply andb_prop in H. destruct H as [Hn Hv].
  intros ts0 w HW. cbn [wr_elem erase_selem emit_elem]. unfold emit_block. cbn [emit_cmt c_det c_lead no_cmt map flat_map app].
  refine (W_eq _ _ _ (app_nil_r _) (T_wgap _ _ _)). rewrite flat_map_map'.
  assert (HT : T (flat_map (fun v => emit_value (erase_svalue v)) vs) (wfold (wr_value (S ind)) vs)).
  { apply T_wfold. intros v Hin. apply T_value. rewrite forallb_forall in Hv. exact (Hv v Hin). }
  refine (T_section ind kw_enum n (is_nil_l vs) _ _ eq_refl Hn HT _ _ _ HW).
  destruct vs; [reflexivity|discriminate].
Qed.

Lemma emit_elems_flat l : emit_elems l = flat_map emit_elem l.
Proof. induction l as [|x l IH]; [reflexivity|]. cbn [emit_elems flat_map]. rewrite IH. reflexivity. Qed.

(* files whose declarations are enums without options *)
Theorem render_enums_layout gen s : s_exts s = [] -> forallb enum_elem_ok (s_body s) = true -> header_ok gen s = true ->
  is_layout (emit_file (erase_sfile s)) (render_sfile gen s) = true.
Proof.
  intros Hx Hb H. pose proof (header_W gen s H) as HW.
  assert (HT : T (flat_map (fun e => emit_elem (erase_selem e)) (s_body s)) (wfold (wr_elem 0) (s_body s))).
  { apply T_wfold. intros e Hin. apply T_enum_elem. rewrite forallb_forall in Hb. exact (Hb e Hin). }
  pose proof (HT _ _ HW) as HW2. specialize (HW2 [] [] eq_refl). rewrite !app_nil_r in HW2.
  unfold render_sfile, emit_file, erase_sfile. cbn [s_pkg s_imports s_fopts s_exts s_body]. rewrite Hx. cbv zeta.
  cbn [map flat_map]. unfold wfold at 2. cbn [fold_left].
  rewrite emit_elems_flat, flat_map_map'.
  unfold write_header, header_tokens in HW2. cbv zeta in HW2.
  cbn [app] in HW2 |- *. rewrite <- ?app_assoc in HW2. rewrite <- ?app_assoc. cbn [app] in HW2 |- *. exact HW2.
Qed.

(* descriptor level, with C05_unlocated_no_comments: for a descriptor without source info whose declarations lay out
   as option-free enums, the rendered bytes are a layout of the printed tokens (no computed layout test) *)
From J5V.proofs Require Import ProtoPrintBytesEraseProofs.

Theorem bytes_layout_enums gen imp D :
  let st := to_symtab (dfile_symtab imp D) in
  unlocated_b D = true -> s_exts (lay_file st D) = [] ->
  forallb enum_elem_ok (s_body (lay_file st D)) = true -> header_ok gen (lay_file st D) = true ->
  is_layout (print_file_tokens st D) (render_bytes gen imp D) = true.
Proof.
  cbv zeta. intros Hu Hx Hb H. unfold print_file_tokens, render_bytes.
  rewrite <- (lay_file_unlocated _ D Hu) at 1. exact (render_enums_layout gen _ Hx Hb H).
Qed.

Definition enums_fragment_b (gen : list N) (imp : xsymtab) (D : dfile) : bool :=
  let s := lay_file (to_symtab (dfile_symtab imp D)) D in
  unlocated_b D && is_nil_l (s_exts s) && forallb enum_elem_ok (s_body s) && header_ok gen s.

Lemma enums_fragment_modelled gen imp D : enums_fragment_b gen imp D = true -> bytes_modelled_b gen imp D = true.
Proof.
  unfold enums_fragment_b. cbv zeta. intro H. apply andb_prop in H. destruct H as [H Hh]. apply andb_prop in H. destruct H as [H Hb].
  apply andb_prop in H. destruct H as [Hu Hx].
  assert (Hx' : s_exts (lay_file (to_symtab (dfile_symtab imp D)) D) = [])
    by (destruct (s_exts (lay_file (to_symtab (dfile_symtab imp D)) D)); [reflexivity|discriminate]).
  unfold bytes_modelled_b. rewrite Hu. rewrite (print_tokens_unlocated _ D Hu).
  rewrite (bytes_layout_enums gen imp D Hu Hx' Hb Hh).
  unfold header_ok in Hh. apply andb_prop in Hh. destruct Hh as [Hh _]. apply andb_prop in Hh. destruct Hh as [Hh _].
  apply andb_prop in Hh. destruct Hh as [Hh _]. apply andb_prop in Hh. destruct Hh as [Hg _]. rewrite Hg. reflexivity.
Qed.

(* the byte-level round trip with NO computed layout test: a purely syntactic fragment *)
From J5V.model Require Import ProtoParseFile ProtoPrintFileWf.
From J5V.proofs Require Import ProtoPrintFileFullProofs ProtoPrintFileTextProofs ProtoPrintFileXProofs ProtoPrintBytesProofs.

Theorem bytes_roundtrip_enums gen imp D : wf_dfile imp D -> enums_fragment_b gen imp D = true ->
  let text := render_bytes gen imp D in
  scan_text text = Some (print_file_tokens (to_symtab (dfile_symtab imp D)) D)
  /\ exists D0, read_text imp text = Some (erase_dfile D0) /\ desc_equiv D D0 /\ wf_dfile imp D0.
Proof.
  intros Hw H. cbv zeta. pose proof (enums_fragment_modelled gen imp D H) as Hm.
  split; [exact (scan_render_bytes_tokens gen imp D Hm)|].
  destruct (bytes_roundtrip_subclass gen imp D Hw Hm) as (_ & D0 & Hr & He & Hw0 & _).
  exists D0. auto.
Qed.

Module ExEnum.
Import ProtoPrintFileExample.
Definition e_flag : delem :=
  DEnum (kk 0 1) no_cmt (b "Flag") [] [ {| v_key := kk 0 0; v_cm := no_cmt; v_name := b "FLAG_UNSPECIFIED"; v_num := 0%Z; v_opts := [] |} ].
Definition ex_enum_file : dfile :=
  {| d_pkg := pkg_t; d_imports := [b "google/protobuf/empty.proto"];
     d_fopts := [(b "go_package", TLit (print_string_lit (b "example.com/t/v1")))]; d_exts := [];
     d_body := [e_kind; e_flag] |}.
Lemma ex_enum_wf : wf_dfile ex_imp ex_enum_file.
Proof. apply ProtoPrintFileWfProofs.wf_dfile_b_sound. vm_compute. reflexivity. Qed.
Lemma ex_enum_fragment : enums_fragment_b (sb "verif") ex_imp ex_enum_file = true.
Proof. vm_compute. reflexivity. Qed.
End ExEnum.

Theorem example_enums :
  wf_dfile ProtoPrintFileExample.ex_imp ExEnum.ex_enum_file
  /\ enums_fragment_b (sb "verif") ProtoPrintFileExample.ex_imp ExEnum.ex_enum_file = true.
Proof. split; [exact ExEnum.ex_enum_wf|exact ExEnum.ex_enum_fragment]. Qed.

(* CodecDecDenote.v — what a J5 JSON document DENOTES, stated without the decoder's state, and the
   exactness clause of C03 against it.

   [denotes ty j x]: the JSON value j denotes the proto value x at a field of type ty;
   [denotes_msg props ms m]: the member list ms denotes the message m for the property set props:
     (1) every non-null member is stored, at the proto path of its property, with exactly the value it
         denotes (in the form Message.Set leaves it: an implicit-presence zero or an empty list / map is
         an absent field), and
     (2) nothing else is stored: every populated field of m is owned by a non-null member.
   Neither relation mentions a prior message state, the decoder's "seen" list, fuel or nesting counters:
   the value of a container member is given by the same relations one level down.  The leaf reading of
   a scalar is the library-level conversion [scalar_from_go] of the one token (characterised
   independently per kind in proofs/CodecDecExact.v, CodecDecTime.v, CodecDecDecimal.v, CodecDecBase64.v).

   Main theorem [decoded_is_denoted]: on a fresh message, an accepted object / oneof body stores exactly
   the message its members denote — the prior state that the weaker theorems of CodecDecStored.v
   quantified existentially ([base], [sub0], [m0]) is shown to be empty. *)
From Coq Require Import String List NArith ZArith Bool Lia.
From J5V.lib Require Import Outcome Json.
From J5V.model Require Import CodecTypes CodecDecScalar CodecDec CodecDecTree.
From J5V.proofs Require Import CodecDecProofs CodecDecTreeProofs CodecDecTreeUnfold CodecDecTreeFuel CodecDecStored
                               CodecDecReorder CodecDecFaults CodecDecOneofReorder.
Import ListNotations.
Local Open Scope N_scope.
Local Open Scope bool_scope.

(* what Message.Set / Mutable leaves in the field of property p for the value x *)
Definition stored_as (p : property) (x : pval) : option pval :=
  match p_ty p with
  | FScalar _ | FEnum _ => stored_form (p_explicit p) x
  | _ => stored_form true x
  end.

(* the j5.types.any.v1.Any message for a type name and a value *)
Definition any_msg (tn : bytes) (v : jvalue) : msg :=
  msg_set false [] 3 (VBytes (canon_json (tokens_of v))) (msg_set false [] 1 (VStr tn) []).

Section Denote.
  Variable orc : oracles.
  Variable e : env.

  (* the field numbers of the holding message that property p may populate *)
  Definition owns (p : property) (n : N) : Prop :=
    match p_path p with
    | n' :: _ => n' = n
    | [] =>
      (* an exposed oneof: the fields of its arms (and what Set clears with them) *)
      match p_ty p with
      | FOneof ref =>
        match lookup e ref with
        | Some (SOneof ps) =>
            exists q, In q ps /\ (p_path q = [] \/ hd_error (p_path q) = Some n \/ In n (p_siblings q))
        | _ => False
        end
      | _ => False
      end
    end.

  (* nothing else is stored *)
  Definition accounted (props : list property) (ms : list (bytes * jvalue)) (m : msg) : Prop :=
    forall n, msg_get n m <> None ->
      exists key v p, In (key, v) ms /\ v <> JNull /\ find_prop props key = Some p /\ owns p n.

  Inductive denotes : field_ty -> jvalue -> pval -> Prop :=
  | D_scalar k j x :
      is_container j = false -> scalar_from_go orc k (goval_of_json j) = Ok (Some x) ->
      denotes (FScalar k) j x
  | D_enum ref prefix opts s z :
      lookup e ref = Some (SEnum prefix opts) -> option_by_name prefix opts s = Some z ->
      denotes (FEnum ref) (JStr s) (VEnum z)
  | D_object ref props ms sub :
      lookup e ref = Some (SObject props) -> denotes_msg props ms sub ->
      denotes (FObject ref) (JObj ms) (VMsg sub)
  | D_oneof ref props ms sub :
      lookup e ref = Some (SOneof props) -> (nontype ms <> [] \/ last_type ms None = None) ->
      denotes_msg props (nontype ms) sub ->
      denotes (FOneof ref) (JObj ms) (VMsg sub)
  (* {"!type": c} alone selects the arm c with its empty value, as CreateField makes it *)
  | D_oneof_type_only ref props ms c p sub :
      lookup e ref = Some (SOneof props) -> nontype ms = [] -> last_type ms None = Some c ->
      find_prop props c = Some p -> create_effect p [] = Ok sub ->
      denotes (FOneof ref) (JObj ms) (VMsg sub)
  | D_array item js l :
      Forall2 (denotes item) js l -> denotes (FArray item) (JArr js) (VList l)
  | D_map item ms es :
      Forall2 (fun kv kx => fst kx = fst kv /\ denotes item (snd kv) (snd kx)) ms es ->
      denotes (FMap item) (JObj ms) (VMap es)
  | D_any ms v tn :
      tr_any_body ms None None = Ok (Some v, Some tn) ->
      denotes (FAny false) (JObj ms) (VMsg (any_msg tn v))
  with denotes_msg : list property -> list (bytes * jvalue) -> msg -> Prop :=
  | D_msg props ms m :
      (forall key v, In (key, v) ms -> v <> JNull ->
         exists p, find_prop props key = Some p /\
           (p_path p <> [] ->
            exists x, denotes (p_ty p) v x /\ get_path (p_path p) m = stored_as p x)) ->
      accounted props ms m ->
      denotes_msg props ms m.

  (* ---------------------------------------------------------------- small facts *)
  Lemma get_path_nil path : get_path path [] = None.
  Proof. destruct path as [|n [|n2 r]]; reflexivity. Qed.

  Lemma scalar_from_go_none k g : scalar_from_go orc k g = Ok None -> g = GNil.
  Proof.
    destruct g as [|b|l|s]; [reflexivity| | |]; intros H; exfalso;
      destruct k; cbn in H; try discriminate;
      repeat match type of H with
             | context[match ?x with _ => _ end] => destruct x; try discriminate
             | context[if ?x then _ else _] => destruct x; try discriminate
             end.
  Qed.

  Lemma goval_nonnil v : v <> JNull -> is_container v = false -> goval_of_json v <> GNil.
  Proof. destruct v; cbn; congruence. Qed.

  (* with_holder on a path whose field is absent: the continuation runs on a holder where it is absent *)
  Lemma with_holder_own_fresh {A} (q : list N) (k : N -> msg -> outcome (msg * A)) :
    q <> [] ->
    forall m m' a, with_holder q m k = Ok (m', a) -> get_path q m = None ->
    exists n h h', k n h = Ok (h', a) /\ get_path q m' = msg_get n h' /\ msg_get n h = None.
  Proof.
    intros Hq. induction q as [|y q' IH]; [congruence|]. intros m m' a H Hf.
    destruct q' as [|y2 q''].
    - cbn [with_holder] in H. exists y, m, m'. repeat split; assumption.
    - change (with_holder (y :: y2 :: q'') m k) with
        (let '(sub, m1) := msg_mutable [] y m in
         obind (with_holder (y2 :: q'') sub k) (fun r => Ok (msg_put y (VMsg (fst r)) m1, snd r))) in H.
      destruct (msg_mutable [] y m) as [sub m1] eqn:Em.
      destruct (with_holder (y2 :: q'') sub k) as [[sub' a']| | |] eqn:Ew; try discriminate.
      cbn [obind fst snd] in H. inversion H; subst m' a; clear H.
      assert (Hsub : get_path (y2 :: q'') sub = None).
      { unfold msg_mutable in Em. rewrite get_path_cons2 in Hf.
        destruct (msg_get y m) as [[]|]; inversion Em; subst; try apply get_path_nil. exact Hf. }
      destruct (IH ltac:(discriminate) sub sub' a' Ew Hsub) as (n & h & h' & Hk & Hg & Hn).
      exists n, h, h'. repeat split; try assumption.
      rewrite get_path_cons2. rewrite msg_get_put_same. exact Hg.
  Qed.
End Denote.

(* ================================================================ the decoder stores what the document denotes *)
Section Exact.
  Variable orc : oracles.
  Variable e : env.
  (* the schema condition of CodecDecStored.v, for every property set of the environment
     (computable: env_separate, evaluated on every environment of a run) *)
  Hypothesis Hsep : forall name props,
    lookup e name = Some (SObject props) \/ lookup e name = Some (SOneof props) -> props_separate e props.

  (* the field of every property not yet seen is absent *)
  Definition fresh (props : list property) (m : msg) (seen : list bytes) : Prop :=
    forall q, In q props -> p_path q <> [] -> mem_bytes (p_json q) seen = false -> get_path (p_path q) m = None.

  Lemma tr_member_inv d dp p v m seen m1 seen1 :
    tr_member d dp p v m seen = Ok (m1, seen1) ->
    (v = JNull /\ m1 = m /\ seen1 = seen) \/
    (v <> JNull /\ mem_bytes (p_json p) seen = false /\ oneof_conflict p m = false /\
     dp v m = Ok m1 /\ seen1 = p_json p :: seen).
  Proof.
    unfold tr_member. destruct (max_nesting_depth <? d + 1); [discriminate|].
    destruct v; try (intros H; inversion H; subst; left; repeat split; reflexivity);
      (destruct (mem_bytes (p_json p) seen); [discriminate|]);
      (destruct (oneof_conflict p m); [discriminate|]);
      match goal with |- obind (dp ?v m) _ = _ -> _ => destruct (dp v m) as [m2| | |] eqn:E end; try discriminate;
      cbn [obind]; intros H; inversion H; subst; right; repeat split; try reflexivity; discriminate.
  Qed.

  Lemma mem_bytes_self a seen : mem_bytes a (a :: seen) = true.
  Proof. cbn [mem_bytes]. replace (bytes_eqb a a) with true; [reflexivity|]. symmetry. apply bytes_eqb_eq. reflexivity. Qed.

  Lemma mem_bytes_cons_false a b seen : mem_bytes a (b :: seen) = false -> bytes_eqb a b = false /\ mem_bytes a seen = false.
  Proof. cbn [mem_bytes]. apply orb_false_elim. Qed.

  Lemma fresh_step props d f p key v m seen m1 seen1 :
    props_separate e props -> find_prop props key = Some p ->
    tr_member d (tr_present orc e f (d + 1) p) p v m seen = Ok (m1, seen1) ->
    fresh props m seen -> fresh props m1 seen1.
  Proof.
    intros HS Hp Hm Hf. destruct (find_prop_In _ _ _ Hp) as [Hinp _].
    destruct (tr_member_inv _ _ _ _ _ _ _ _ Hm) as [(-> & -> & ->) | (Hv & Hns & Hc & Hd & ->)]; [exact Hf|].
    intros q Hin Hq Hnq. apply mem_bytes_cons_false in Hnq. destruct Hnq as [Hne Hnq].
    rewrite (tr_present_frame_any orc e f (d + 1) p v m m1 (p_path q)); [apply Hf; assumption | | exact Hc | exact Hd].
    apply HS; assumption.
  Qed.

  (* once a member's property has its value, the rest of the run leaves its field alone *)
  Lemma orun_tail_preserves props p d : props_separate e props -> In p props -> p_path p <> [] ->
    forall ms m seen m', orun orc e d props ms m seen m' -> mem_bytes (p_json p) seen = true ->
    get_path (p_path p) m' = get_path (p_path p) m.
  Proof.
    intros HS Hin Hq ms m seen m' R. induction R as [m seen | kv r m seen m1 seen1 m' (q & f & Eq & Em) R IH]; intros Hseen.
    - reflexivity.
    - destruct (find_prop_In _ _ _ Eq) as [Hinq _].
      destruct (tr_member_inv _ _ _ _ _ _ _ _ Em) as [(_ & -> & ->) | (Hv & Hns & Hc & Hd & ->)].
      + apply IH. exact Hseen.
      + rewrite IH by (cbn [mem_bytes]; rewrite Hseen; apply orb_true_r).
        eapply tr_present_frame_any; [| exact Hc | exact Hd].
        apply HS; try assumption. eapply mem_bytes_differ; eassumption.
  Qed.

  (* ---------------------------------------------------------------- typed environments (C06)
     msg_mutable / the "existing" list and map accessors of the model are total: a field holding a value
     of the wrong shape is treated as absent, where protoreflect would panic.  With separated paths this
     never matters: every member of a run that starts from a fresh state is decoded from a state in which
     its own field is ABSENT (so Mutable / List / Map are applied to an unpopulated field of the
     property's own kind), at every depth, because nested bodies start from an empty sub-message
     (P_all below).  [orun_at Q]: a run all of whose member steps start from a state satisfying Q. *)
  Inductive orun_at (d : N) (props : list property) (Q : property -> jvalue -> msg -> Prop)
    : list (bytes * jvalue) -> msg -> list bytes -> msg -> Prop :=
  | oa_nil m seen : orun_at d props Q [] m seen m
  | oa_cons kv r m seen m1 seen1 m' p f :
      find_prop props (fst kv) = Some p ->
      tr_member d (tr_present orc e f (d + 1) p) p (snd kv) m seen = Ok (m1, seen1) ->
      Q p (snd kv) m -> orun_at d props Q r m1 seen1 m' -> orun_at d props Q (kv :: r) m seen m'.

  Definition field_absent (p : property) (v : jvalue) (m : msg) : Prop :=
    v <> JNull -> p_path p <> [] -> get_path (p_path p) m = None.

  Theorem run_members_on_absent_fields props d : props_separate e props ->
    forall ms m seen m', orun orc e d props ms m seen m' -> fresh props m seen ->
    orun_at d props field_absent ms m seen m'.
  Proof.
    intros HS ms m seen m' R.
    induction R as [m seen | [key0 v0] r m seen m1 seen1 m' (p & f & Ep & Em) R IH]; intros Hf; [constructor|].
    cbn [fst snd] in Ep, Em. eapply oa_cons with (p := p) (f := f); cbn [fst snd]; try eassumption.
    - intros Hv Hq. destruct (find_prop_In _ _ _ Ep) as [Hinp _].
      destruct (tr_member_inv _ _ _ _ _ _ _ _ Em) as [(Hn & _) | (_ & Hns & _)]; [contradiction|].
      apply Hf; assumption.
    - apply IH. eapply fresh_step; eassumption.
  Qed.

  (* ---------------------------------------------------------------- nothing else is stored *)
  Lemma owns_or_indep p n : owns e p n \/ indep_prop e [n] p.
  Proof.
    unfold owns, indep_prop. destruct (p_path p) as [|y r] eqn:Ep.
    - destruct (p_ty p) as [ | | |ref| | | ]; try (right; exact I).
      destruct (lookup e ref) as [[|ps|]|]; try (right; exact I).
      induction ps as [|q ps IH]; [right; constructor|].
      destruct IH as [(q0 & Hin & H0) | IH]; [left; exists q0; split; [right; exact Hin|exact H0]|].
      destruct (p_path q) as [|y [|y2 r]] eqn:Eq.
      + left. exists q. split; [left; reflexivity|]. left. exact Eq.
      + destruct (N.eq_dec n y) as [->|Hne]; [left; exists q; split; [left; reflexivity|]; right; left; rewrite Eq; reflexivity|].
        destruct (in_dec N.eq_dec n (p_siblings q)) as [Hi|Hni];
          [left; exists q; split; [left; reflexivity|]; right; right; exact Hi|].
        right. constructor; [|exact IH]. rewrite Eq. split; [discriminate|]. cbn [indep]. split; assumption.
      + destruct (N.eq_dec n y) as [->|Hne]; [left; exists q; split; [left; reflexivity|]; right; left; rewrite Eq; reflexivity|].
        right. constructor; [|exact IH]. rewrite Eq. split; [discriminate|]. cbn [indep]. left. exact Hne.
    - destruct (N.eq_dec y n) as [->|Hne]; [left; reflexivity|]. right.
      destruct r as [|y2 r]; cbn [indep]; [split; [congruence|intros []] | left; congruence].
  Qed.

  Lemma accounted_more props pre kv m : accounted e props pre m -> accounted e props (pre ++ [kv]) m.
  Proof.
    intros H n Hn. destruct (H n Hn) as (key & v & p & Hin & R). exists key, v, p. split; [apply in_or_app; left; exact Hin|exact R].
  Qed.

  Lemma accounted_step props d f p key v m seen m1 seen1 pre :
    find_prop props key = Some p ->
    tr_member d (tr_present orc e f (d + 1) p) p v m seen = Ok (m1, seen1) ->
    accounted e props pre m -> accounted e props (pre ++ [(key, v)]) m1.
  Proof.
    intros Hp Hm Ha.
    destruct (tr_member_inv _ _ _ _ _ _ _ _ Hm) as [(-> & -> & ->) | (Hv & Hns & Hc & Hd & ->)];
      [apply accounted_more; exact Ha|].
    intros n Hn. destruct (owns_or_indep p n) as [Ho | Hi].
    - exists key, v, p. split; [apply in_or_app; right; left; reflexivity|]. repeat split; assumption.
    - assert (G : get_path [n] m1 = get_path [n] m) by (eapply tr_present_frame_any; eassumption).
      cbn [get_path] in G. rewrite G in Hn. exact (accounted_more props pre (key, v) m Ha n Hn).
  Qed.

  (* ---------------------------------------------------------------- by the size of the JSON value *)
  (* a member's own decode from a state where its field is absent stores what the value denotes *)
  Definition P_at (n : nat) : Prop :=
    forall f d p v m m1, (jsize v <= n)%nat -> p_path p <> [] -> v <> JNull ->
      tr_present orc e f d p v m = Ok m1 -> get_path (p_path p) m = None ->
      exists x, denotes orc e (p_ty p) v x /\ get_path (p_path p) m1 = stored_as p x.

  Definition small (n : nat) (ms : list (bytes * jvalue)) : Prop := forall kv, In kv ms -> (jsize (snd kv) <= n)%nat.

  Lemma orun_denoted n : P_at n ->
    forall d props ms m seen m', props_separate e props -> small n ms ->
      orun orc e d props ms m seen m' -> fresh props m seen ->
      forall pre, accounted e props pre m ->
      (forall key v, In (key, v) ms -> v <> JNull ->
         exists p, find_prop props key = Some p /\
           (p_path p <> [] -> exists x, denotes orc e (p_ty p) v x /\ get_path (p_path p) m' = stored_as p x)) /\
      accounted e props (pre ++ ms) m'.
  Proof.
    intros HP d props ms m seen m' HS Hsm R.
    induction R as [m seen | [key0 v0] r m seen m1 seen1 m' (p & f & Ep & Em) R IH]; intros Hf pre Ha.
    - split; [intros key v []|]. rewrite app_nil_r. exact Ha.
    - cbn [fst snd] in Ep, Em.
      assert (Hsm' : small n r) by (intros kv Hkv; apply Hsm; right; exact Hkv).
      assert (Hf1 := fresh_step props d f p key0 v0 m seen m1 seen1 HS Ep Em Hf).
      assert (Ha1 := accounted_step props d f p key0 v0 m seen m1 seen1 pre Ep Em Ha).
      destruct (IH Hsm' Hf1 (pre ++ [(key0, v0)]) Ha1) as [IHm IHa].
      split; [|rewrite <- app_assoc in IHa; exact IHa].
      intros key v [Heq | Hin] Hv; [|apply IHm; assumption].
      inversion Heq; subst key0 v0; clear Heq. exists p. split; [exact Ep|]. intros Hq.
      destruct (find_prop_In _ _ _ Ep) as [Hinp _].
      destruct (tr_member_inv _ _ _ _ _ _ _ _ Em) as [(Hn & _) | (_ & Hns & Hc & Hd & ->)]; [contradiction|].
      destruct (HP f (d + 1) p v m m1) as (x & Hx & Hg); try assumption.
      { apply (Hsm (key, v)). left. reflexivity. }
      { apply Hf; assumption. }
      exists x. split; [exact Hx|].
      rewrite (orun_tail_preserves props p d HS Hinp Hq r m1 (p_json p :: seen) m' R (mem_bytes_self _ _)). exact Hg.
  Qed.

  Lemma accounted_nil props : accounted e props [] [].
  Proof. intros n Hn. cbn in Hn. congruence. Qed.
  Lemma fresh_nil props : fresh props [] [].
  Proof. intros q _ _ _. apply get_path_nil. Qed.

  Lemma small_obj n ms : (jsize (JObj ms) <= S n)%nat -> small n ms.
  Proof.
    rewrite jsize_obj. intros H kv Hin. assert (S (jsize (snd kv)) <= msize ms)%nat; [|lia]. clear H.
    induction ms as [|kv0 r IH]; [contradiction|]. cbn [msize fold_right]. fold (msize r).
    destruct Hin as [->|Hin]; [lia|]. specialize (IH Hin). lia.
  Qed.
  Lemma small_nontype n ms : small n ms -> small n (nontype ms).
  Proof. intros H kv Hin. apply H. unfold nontype in Hin. apply filter_In in Hin. tauto. Qed.
  Lemma small_arr n js : (jsize (JArr js) <= S n)%nat -> forall v, In v js -> (jsize v <= n)%nat.
  Proof.
    rewrite jsize_arr. intros H v Hin. assert (jsize v <= lsize js)%nat; [|lia]. clear H.
    induction js as [|v0 r IH]; [contradiction|]. cbn [lsize fold_right]. fold (lsize r).
    destruct Hin as [->|Hin]; [lia|]. specialize (IH Hin). lia.
  Qed.

  (* a whole object body on a fresh message *)
  Lemma object_denoted n : P_at n -> forall f d props ms m', props_separate e props -> small n ms ->
    tr_object orc e f d props ms [] [] = Ok m' -> denotes_msg orc e props ms m'.
  Proof.
    intros HP f d props ms m' HS Hsm H. apply orun_of_tr_object in H.
    destruct (orun_denoted n HP d props ms [] [] m' HS Hsm H (fresh_nil props) [] (accounted_nil props)) as [Hm Ha].
    constructor; assumption.
  Qed.

  (* a whole oneof body on a fresh message *)
  Lemma oneof_denoted n : P_at n -> forall f d ref props ms m', lookup e ref = Some (SOneof props) -> small n ms ->
    tr_oneof orc e f d props ms [] [] [] None = Ok m' -> denotes orc e (FOneof ref) (JObj ms) (VMsg m').
  Proof.
    intros HP f d ref props ms m' Hl Hsm H.
    assert (HS : props_separate e props) by (eapply Hsep; right; exact Hl).
    destruct (tr_oneof_decomp orc e f _ _ _ _ _ _ _ _ H) as (_ & m1 & R & Hp). cbn [app] in Hp.
    destruct (orun_denoted n HP d props (nontype ms) [] [] m1 HS (small_nontype n ms Hsm) R (fresh_nil props) [] (accounted_nil props)) as [Hm Ha].
    cbn [app] in Ha.
    unfold oneof_post in Hp.
    destruct (nontype ms) as [|kv0 r] eqn:En.
    - cbn [map length N.of_nat N.eqb] in Hp. inversion R; subst m1.
      destruct (last_type ms None) as [c|] eqn:El.
      + destruct (find_prop props c) as [p|] eqn:Ep; [|discriminate].
        eapply D_oneof_type_only; eassumption.
      + inversion Hp; subst m'. eapply D_oneof; [exact Hl | right; exact El |]. rewrite En. constructor; assumption.
    - assert (Hm1 : m' = m1).
      { assert (E0 : (N.of_nat (length (map fst (kv0 :: r))) =? 0) = false) by (apply N.eqb_neq; cbn [map length]; lia).
        rewrite E0 in Hp.
        destruct (1 <? N.of_nat (length (map fst (kv0 :: r)))); [discriminate|].
        destruct (last_type ms None) as [c|]; [|inversion Hp; reflexivity].
        destruct (index0 (map fst (kv0 :: r))) as [k0| | |]; try discriminate. cbn [obind] in Hp.
        destruct (bytes_eqb k0 c); [inversion Hp; reflexivity|discriminate]. }
      subst m1. eapply D_oneof; [exact Hl | left; rewrite En; discriminate |]. rewrite En. constructor; assumption.
  Qed.

  Lemma small_obj_le n ms : (jsize (JObj ms) <= n)%nat -> small n ms.
  Proof.
    intros H. destruct n as [|n]; [pose proof (jsize_pos (JObj ms)); lia|].
    intros kv Hin. pose proof (small_obj n ms H kv Hin). lia.
  Qed.

  (* array elements / map values: each the denotation of its own JSON value, in document order *)
  Lemma array_denoted n : P_at n -> forall f d item js acc l,
    (forall v, In v js -> (jsize v <= n)%nat) -> tr_array orc e f d item js acc = Ok l ->
    exists vals, l = acc ++ vals /\ Forall2 (denotes orc e item) js vals.
  Proof.
    intros HP. induction f as [|f IH]; intros d item js acc l Hsm H; [discriminate|].
    rewrite tr_array_S in H. destruct js as [|v r].
    - inversion H; subst. exists []. split; [rewrite app_nil_r; reflexivity|constructor].
    - assert (Hr : forall v0, In v0 r -> (jsize v0 <= n)%nat) by (intros v0 Hv0; apply Hsm; right; exact Hv0).
      assert (Hv : (jsize v <= n)%nat) by (apply Hsm; left; reflexivity).
      destruct item as [k|ref|ref|ref|it|it|pb]; try discriminate.
      + destruct (is_container v) eqn:Ec; [discriminate|].
        destruct (scalar_from_go orc k (goval_of_json v)) as [[x|]| | |] eqn:Es; try discriminate.
        cbn [obind list_append] in H. destruct (IH _ _ _ _ _ Hr H) as (vals & -> & HF).
        exists (x :: vals). split; [rewrite <- app_assoc; reflexivity|].
        constructor; [apply D_scalar; assumption|exact HF].
      + destruct (is_container v) eqn:Ec; [discriminate|].
        destruct v as [| | |s| |]; try discriminate.
        destruct (lookup e ref) as [[| |prefix opts]|] eqn:El; try discriminate.
        destruct (option_by_name prefix opts s) as [z|] eqn:Eo; [|discriminate].
        destruct (IH _ _ _ _ _ Hr H) as (vals & -> & HF).
        exists (VEnum z :: vals). split; [rewrite <- app_assoc; reflexivity|].
        constructor; [eapply D_enum; eassumption|exact HF].
      + destruct (lookup e ref) as [[props| |]|] eqn:El; try discriminate.
        destruct v as [| | | | |ms]; try discriminate.
        destruct (tr_object orc e f d props ms [] []) as [sub| | |] eqn:Eo; try discriminate.
        cbn [obind] in H. destruct (IH _ _ _ _ _ Hr H) as (vals & -> & HF).
        exists (VMsg sub :: vals). split; [rewrite <- app_assoc; reflexivity|].
        constructor; [|exact HF]. eapply D_object; [exact El|].
        eapply (object_denoted n HP); [eapply Hsep; left; exact El | apply small_obj_le; exact Hv | exact Eo].
      + destruct (lookup e ref) as [[|props|]|] eqn:El; try discriminate.
        destruct v as [| | | | |ms]; try discriminate.
        destruct (tr_oneof orc e f d props ms [] [] [] None) as [sub| | |] eqn:Eo; try discriminate.
        cbn [obind] in H. destruct (IH _ _ _ _ _ Hr H) as (vals & -> & HF).
        exists (VMsg sub :: vals). split; [rewrite <- app_assoc; reflexivity|].
        constructor; [|exact HF].
        eapply (oneof_denoted n HP); [exact El | apply small_obj_le; exact Hv | exact Eo].
  Qed.

  Lemma map_denoted n : P_at n -> forall f d item ms acc l,
    small n ms -> tr_map orc e f d item ms acc = Ok l ->
    exists vals, l = acc ++ vals /\
      Forall2 (fun kv kx => fst kx = fst kv /\ denotes orc e item (snd kv) (snd kx)) ms vals.
  Proof.
    intros HP. induction f as [|f IH]; intros d item ms acc l Hsm H; [discriminate|].
    rewrite tr_map_S in H. destruct ms as [|[key v] r].
    - inversion H; subst. exists []. split; [rewrite app_nil_r; reflexivity|constructor].
    - assert (Hr : small n r) by (intros v0 Hv0; apply Hsm; right; exact Hv0).
      assert (Hv : (jsize v <= n)%nat) by (apply (Hsm (key, v)); left; reflexivity).
      destruct item as [k|ref|ref|ref|it|it|pb]; try discriminate;
        (destruct (map_get key acc) eqn:Eg; [discriminate|]).
      + destruct (is_container v) eqn:Ec; [discriminate|].
        destruct (scalar_from_go orc k (goval_of_json v)) as [[x|]| | |] eqn:Es; try discriminate.
        cbn [obind map_set_value] in H. rewrite (map_set_fresh key x acc Eg) in H.
        destruct (IH _ _ _ _ _ Hr H) as (vals & -> & HF).
        exists ((key, x) :: vals). split; [rewrite <- app_assoc; reflexivity|].
        constructor; [split; [reflexivity|apply D_scalar; assumption]|exact HF].
      + destruct v as [| | |s| |]; try discriminate.
        destruct (lookup e ref) as [[| |prefix opts]|] eqn:El; try discriminate.
        destruct (option_by_name prefix opts s) as [z|] eqn:Eo; [|discriminate].
        rewrite (map_set_fresh key (VEnum z) acc Eg) in H.
        destruct (IH _ _ _ _ _ Hr H) as (vals & -> & HF).
        exists ((key, VEnum z) :: vals). split; [rewrite <- app_assoc; reflexivity|].
        constructor; [split; [reflexivity|eapply D_enum; eassumption]|exact HF].
      + destruct (lookup e ref) as [[props| |]|] eqn:El; try discriminate.
        destruct v as [| | | | |ms']; try discriminate.
        destruct (tr_object orc e f d props ms' [] []) as [sub| | |] eqn:Eo; try discriminate.
        cbn [obind] in H. rewrite (map_set_fresh key (VMsg sub) acc Eg) in H.
        destruct (IH _ _ _ _ _ Hr H) as (vals & -> & HF).
        exists ((key, VMsg sub) :: vals). split; [rewrite <- app_assoc; reflexivity|].
        constructor; [|exact HF]. split; [reflexivity|]. eapply D_object; [exact El|].
        eapply (object_denoted n HP); [eapply Hsep; left; exact El | apply small_obj_le; exact Hv | exact Eo].
      + destruct (lookup e ref) as [[|props|]|] eqn:El; try discriminate.
        destruct v as [| | | | |ms']; try discriminate.
        destruct (tr_oneof orc e f d props ms' [] [] [] None) as [sub| | |] eqn:Eo; try discriminate.
        cbn [obind] in H. rewrite (map_set_fresh key (VMsg sub) acc Eg) in H.
        destruct (IH _ _ _ _ _ Hr H) as (vals & -> & HF).
        exists ((key, VMsg sub) :: vals). split; [rewrite <- app_assoc; reflexivity|].
        constructor; [|exact HF]. split; [reflexivity|].
        eapply (oneof_denoted n HP); [exact El | apply small_obj_le; exact Hv | exact Eo].
  Qed.

  Lemma stored_form_msg sub : stored_form true (VMsg sub) = Some (VMsg sub).
  Proof. reflexivity. Qed.

  Lemma mutable_fresh sib n h : msg_get n h = None -> fst (msg_mutable sib n h) = [].
  Proof. intros H. unfold msg_mutable. rewrite H. reflexivity. Qed.

  Theorem P_all : forall n, P_at n.
  Proof.
    induction n as [|n IH]; intros f d p v m m1 Hsz Hq Hv H Hfr.
    { pose proof (jsize_pos v). lia. }
    destruct f as [|f]; [discriminate|]. rewrite tr_present_S in H.
    unfold stored_as. destruct (p_ty p) as [k|ref|ref|ref|item|item|pb] eqn:Ety.
    - (* scalar *)
      destruct (is_container v) eqn:Ec; [discriminate|].
      destruct (scalar_from_go orc k (goval_of_json v)) as [[x|]| | |] eqn:Es; try discriminate.
      + cbn [obind] in H. apply omap_fst_ok in H. destruct H as [a H].
        destruct (with_holder_own (p_path p) _ Hq m m1 a H) as (n0 & h & h' & _ & Hk & Hg).
        cbv beta in Hk. injection Hk as Hh _. subst h'.
        exists x. split; [apply D_scalar; assumption|]. rewrite Hg. apply msg_get_set_same.
      + exfalso. apply scalar_from_go_none in Es. exact (goval_nonnil v Hv Ec Es).
    - (* enum *)
      destruct v as [| | |s| |]; try discriminate.
      destruct (lookup e ref) as [[| |prefix opts]|] eqn:El; try discriminate.
      destruct (option_by_name prefix opts s) as [z|] eqn:Eo; [|discriminate].
      apply omap_fst_ok in H. destruct H as [a H].
      destruct (with_holder_own (p_path p) _ Hq m m1 a H) as (n0 & h & h' & _ & Hk & Hg).
      cbv beta in Hk. injection Hk as Hh _. subst h'.
      exists (VEnum z). split; [eapply D_enum; eassumption|]. rewrite Hg.
      exact (msg_get_set_same (p_explicit p) (p_siblings p) n0 (VEnum z) h).
    - (* object *)
      destruct v as [| | | | |ms]; try discriminate.
      destruct (lookup e ref) as [[props| |]|] eqn:El; try discriminate.
      apply omap_fst_ok in H. destruct H as [a H].
      destruct (with_holder_own_fresh (p_path p) _ Hq m m1 a H Hfr) as (n0 & h & h' & Hk & Hg & Hn).
      cbv beta in Hk. pose proof (mutable_fresh (p_siblings p) n0 h Hn) as Hm.
      destruct (msg_mutable (p_siblings p) n0 h) as [sub0 h1]. cbn [fst] in Hm. subst sub0.
      destruct (tr_object orc e f d props ms [] []) as [sub'| | |] eqn:Eo; try discriminate.
      cbn [obind] in Hk. injection Hk as Hh _. subst h'.
      exists (VMsg sub'). split.
      + eapply D_object; [exact El|].
        eapply (object_denoted n IH); [eapply Hsep; left; exact El | apply small_obj; exact Hsz | exact Eo].
      + rewrite Hg. rewrite msg_get_put_same. reflexivity.
    - (* oneof (own sub-message) *)
      destruct v as [| | | | |ms]; try discriminate.
      destruct (lookup e ref) as [[|props|]|] eqn:El; try discriminate.
      destruct (p_path p) as [|n1 path1] eqn:Ep; [congruence|].
      apply omap_fst_ok in H. destruct H as [a H].
      destruct (with_holder_own_fresh (n1 :: path1) _ Hq m m1 a H Hfr) as (n0 & h & h' & Hk & Hg & Hn).
      cbv beta in Hk. pose proof (mutable_fresh (p_siblings p) n0 h Hn) as Hm.
      destruct (msg_mutable (p_siblings p) n0 h) as [sub0 h1]. cbn [fst] in Hm. subst sub0.
      destruct (tr_oneof orc e f d props ms [] [] [] None) as [sub'| | |] eqn:Eo; try discriminate.
      cbn [obind] in Hk. injection Hk as Hh _. subst h'.
      exists (VMsg sub'). split.
      + eapply (oneof_denoted n IH); [exact El | apply small_obj; exact Hsz | exact Eo].
      + rewrite Hg. rewrite msg_get_put_same. reflexivity.
    - (* array *)
      destruct v as [| | | |js|]; try discriminate.
      assert (Hw : omap fst (with_holder (p_path p) m (fun n0 h =>
                     let existing := match msg_get n0 h with Some (VList l) => l | _ => [] end in
                     obind (tr_array orc e f d item js existing) (fun l =>
                       Ok (msg_set true (p_siblings p) n0 (VList l) h, tt)))) = Ok m1)
        by (destruct item; try discriminate; exact H).
      clear H. apply omap_fst_ok in Hw. destruct Hw as [a H].
      destruct (with_holder_own_fresh (p_path p) _ Hq m m1 a H Hfr) as (n0 & h & h' & Hk & Hg & Hn).
      cbv beta zeta in Hk. rewrite Hn in Hk.
      destruct (tr_array orc e f d item js []) as [l| | |] eqn:Ea; try discriminate.
      cbn [obind] in Hk. injection Hk as Hh _. subst h'.
      destruct (array_denoted n IH f d item js [] l (small_arr n js Hsz) Ea) as (vals & -> & HF).
      exists (VList vals). split; [apply D_array; exact HF|]. rewrite Hg. cbn [app].
      exact (msg_get_set_same true (p_siblings p) n0 (VList vals) h).
    - (* map *)
      destruct v as [| | | | |ms]; try discriminate.
      assert (Hw : omap fst (with_holder (p_path p) m (fun n0 h =>
                     let existing := match msg_get n0 h with Some (VMap l) => l | _ => [] end in
                     obind (tr_map orc e f d item ms existing) (fun l =>
                       Ok (msg_set true (p_siblings p) n0 (VMap l) h, tt)))) = Ok m1)
        by (destruct item; try discriminate; exact H).
      clear H. apply omap_fst_ok in Hw. destruct Hw as [a H].
      destruct (with_holder_own_fresh (p_path p) _ Hq m m1 a H Hfr) as (n0 & h & h' & Hk & Hg & Hn).
      cbv beta zeta in Hk. rewrite Hn in Hk.
      destruct (tr_map orc e f d item ms []) as [l| | |] eqn:Ea; try discriminate.
      cbn [obind] in Hk. injection Hk as Hh _. subst h'.
      destruct (map_denoted n IH f d item ms [] l (small_obj n ms Hsz) Ea) as (vals & -> & HF).
      exists (VMap vals). split; [apply D_map; exact HF|]. rewrite Hg. cbn [app].
      exact (msg_get_set_same true (p_siblings p) n0 (VMap vals) h).
    - (* any *)
      destruct v as [| | | | |ms]; try discriminate.
      apply omap_fst_ok in H. destruct H as [a H].
      destruct (with_holder_own_fresh (p_path p) _ Hq m m1 a H Hfr) as (n0 & h & h' & Hk & Hg & Hn).
      cbv beta in Hk. pose proof (mutable_fresh (p_siblings p) n0 h Hn) as Hm.
      destruct (msg_mutable (p_siblings p) n0 h) as [sub0 h1]. cbn [fst] in Hm. subst sub0.
      destruct (tr_any_body ms None None) as [[[v'|] [tn|]]| | |] eqn:Eb; try discriminate.
      cbn [obind fst snd] in Hk. destruct pb; [discriminate|]. injection Hk as Hh _. subst h'.
      exists (VMsg (any_msg tn v')). split; [apply D_any; exact Eb|].
      rewrite Hg. rewrite msg_get_put_same. reflexivity.
  Qed.

  (* ---------------------------------------------------------------- the exactness clause *)
  (* an accepted object body on a fresh message stores exactly what its members denote *)
  Theorem object_body_denoted f d props ms m' :
    props_separate e props -> tr_object orc e f d props ms [] [] = Ok m' -> denotes_msg orc e props ms m'.
  Proof.
    intros HS H. eapply (object_denoted (jsize (JObj ms)) (P_all _)); [exact HS | apply small_obj_le; lia | exact H].
  Qed.

  Theorem oneof_body_denoted f d ref props ms m' :
    lookup e ref = Some (SOneof props) -> tr_oneof orc e f d props ms [] [] [] None = Ok m' ->
    denotes orc e (FOneof ref) (JObj ms) (VMsg m').
  Proof.
    intros Hl H. eapply (oneof_denoted (jsize (JObj ms)) (P_all _)); [exact Hl | apply small_obj_le; lia | exact H].
  Qed.

  (* the document: whichever sort of root *)
  Theorem decoded_is_denoted root j m' fuel :
    tr_decode orc e fuel root j = Ok m' ->
    exists ms, j = JObj ms /\
      ((exists props, lookup e root = Some (SObject props) /\ denotes_msg orc e props ms m') \/
       (exists props, lookup e root = Some (SOneof props) /\ denotes orc e (FOneof root) (JObj ms) (VMsg m'))).
  Proof.
    unfold tr_decode. destruct (lookup e root) as [[props|props|]|] eqn:El; try discriminate;
      destruct j as [| | | | |ms]; try discriminate; intros H; exists ms; (split; [reflexivity|]).
    - left. exists props. split; [reflexivity|]. eapply object_body_denoted; [eapply Hsep; left; exact El | exact H].
    - right. exists props. split; [reflexivity|]. eapply oneof_body_denoted; eassumption.
  Qed.
End Exact.

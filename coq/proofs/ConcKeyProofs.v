(* ConcKeyProofs.v — the keyed machine (ConcKey.v): results depend on the schedule when two
   descriptors share a cache key (refutation witnesses, both treatments of a foreign hit), and
   the keyed machine at an injective key is the machine of Conc.v up to the renaming of what
   callers see. *)
From Coq Require Import List NArith Bool Arith Lia.
From J5V.model Require Import Conc ConcKey.
From J5V.proofs Require Import ConcLeafProofs.
Import ListNotations.

(* ---- the witness ------------------------------------------------------------------------ *)
(* descriptors: 1 = M0 {}, 2 = M0.N1 { E3 r0 }, 3 = M0_N1 {} (top level), 4 = enum E3;
   descriptor 3 has the key of descriptor 2.  Thread 0 calls Schema(2), thread 1 calls Schema(3). *)
Definition col_graph : graph := [(1, []); (2, [4]); (3, []); (4, [])]%N.
Definition col_keys : keymap := [(3, 2)]%N.
Definition col_calls : list (list name) := [[2]; [3]]%N.
Definition sched_01 : list tid := repeat 0 8 ++ repeat 1 3.
Definition sched_10 : list tid := repeat 1 6 ++ repeat 0 3.

Lemma collision_witness_serve :
  let run s := krun HitServe (key_of col_keys) Guarded 3 col_graph col_calls s in
  all_done (run sched_01) = true /\ all_done (run sched_10) = true /\
  results (run sched_01) = [[ROk (UNode 2 [UNode 4 []])]; [ROk (UNode 2 [UNode 4 []])]]%N /\
  results (run sched_10) = [[ROk (UNode 2 [])]; [ROk (UNode 2 [])]]%N /\
  kresult_solo HitServe (key_of col_keys) 3 col_graph 2%N = ROk (UNode 2 [UNode 4 []])%N /\
  kresult_solo HitServe (key_of col_keys) 3 col_graph 3%N = ROk (UNode 2 [])%N.
Proof. vm_compute. repeat split. Qed.

Lemma collision_witness_check :
  let run s := krun HitCheck (key_of col_keys) Guarded 3 col_graph col_calls s in
  all_done (run sched_01) = true /\ all_done (run sched_10) = true /\
  results (run sched_01) = [[ROk (UNode 2 [UNode 4 []])]; [RErr]]%N /\
  results (run sched_10) = [[RErr]; [ROk (UNode 2 [])]]%N /\
  kresult_solo HitCheck (key_of col_keys) 3 col_graph 2%N = ROk (UNode 2 [UNode 4 []])%N /\
  kresult_solo HitCheck (key_of col_keys) 3 col_graph 3%N = ROk (UNode 2 [])%N.
Proof. vm_compute. repeat split. Qed.

Lemma col_calls_ok : calls_ok col_calls.
Proof.
  intros t n H. destruct t as [|[|t]]; cbn in H.
  - destruct H as [<-|[]]. discriminate.
  - destruct H as [<-|[]]. discriminate.
  - destruct t; destruct H.
Qed.

(* the same call, two schedules of the guarded machine, two different results: whatever the
   treatment of a foreign hit *)
Theorem result_depends_on_schedule pol :
  exists key k g calls s1 s2 t,
    calls_ok calls /\
    all_done (krun pol key Guarded k g calls s1) = true /\
    all_done (krun pol key Guarded k g calls s2) = true /\
    nth t (results (krun pol key Guarded k g calls s1)) [] <> nth t (results (krun pol key Guarded k g calls s2)) [].
Proof.
  exists (key_of col_keys), 3, col_graph, col_calls, sched_01, sched_10, 1.
  split; [exact col_calls_ok|].
  destruct pol; vm_compute; repeat split; discriminate.
Qed.

Theorem keyed_statement_refuted pol : ~ C10_keyed_statement pol Guarded.
Proof.
  intros H. specialize (H (key_of col_keys) 3 col_graph col_calls col_calls_ok).
  destruct pol.
  - destruct (H sched_01 1) as [j Hj]. revert Hj. destruct j as [|[|j]]; vm_compute; discriminate.
  - destruct (H sched_01 1) as [j Hj]. revert Hj. destruct j as [|[|j]]; vm_compute; discriminate.
Qed.

(* ConcKeyProofs.v — the keyed machine (ConcKey.v): results depend on the schedule when two
   descriptors share a cache key (refutation witnesses, both treatments of a foreign hit), and
   the keyed machine at an injective key is the machine of Conc.v up to the renaming of what
   callers see. *)
From Coq Require Import List NArith Bool Arith Lia.
From J5V.model Require Import Conc ConcKey.
From J5V.proofs Require Import ConcLeafProofs ConcMainProofs.
Import ListNotations.

(* ---- the witness ------------------------------------------------------------------------ *)
(* descriptors: 1 = M0 {}, 2 = M0.N1 { E3 r0 }, 3 = M0_N1 {} (top level), 4 = enum E3;
   descriptor 3 has the key of descriptor 2.  Thread 0 calls Schema(2), thread 1 calls Schema(3). *)
Definition col_graph : graph := [(1, []); (2, [4]); (3, []); (4, [])]%N.
Definition col_keys : keymap := [(3, 2)]%N.
Definition col_calls : list (list name) := [[2]; [3]]%N.
Definition sched_01 : list tid := repeat 0 8 ++ repeat 1 3.
Definition sched_10 : list tid := repeat 1 6 ++ repeat 0 3.

Lemma collision_witness_serve :
  let run s := krun HitServe (key_of col_keys) Guarded 3 col_graph col_calls s in
  all_done (run sched_01) = true /\ all_done (run sched_10) = true /\
  results (run sched_01) = [[ROk (UNode 2 [UNode 4 []])]; [ROk (UNode 2 [UNode 4 []])]]%N /\
  results (run sched_10) = [[ROk (UNode 2 [])]; [ROk (UNode 2 [])]]%N /\
  kresult_solo HitServe (key_of col_keys) 3 col_graph 2%N = ROk (UNode 2 [UNode 4 []])%N /\
  kresult_solo HitServe (key_of col_keys) 3 col_graph 3%N = ROk (UNode 2 [])%N.
Proof. vm_compute. repeat split. Qed.

Lemma collision_witness_check :
  let run s := krun HitCheck (key_of col_keys) Guarded 3 col_graph col_calls s in
  all_done (run sched_01) = true /\ all_done (run sched_10) = true /\
  results (run sched_01) = [[ROk (UNode 2 [UNode 4 []])]; [RErr]]%N /\
  results (run sched_10) = [[RErr]; [ROk (UNode 2 [])]]%N /\
  kresult_solo HitCheck (key_of col_keys) 3 col_graph 2%N = ROk (UNode 2 [UNode 4 []])%N /\
  kresult_solo HitCheck (key_of col_keys) 3 col_graph 3%N = ROk (UNode 2 [])%N.
Proof. vm_compute. repeat split. Qed.

Lemma col_calls_ok : calls_ok col_calls.
Proof.
  intros t n H. destruct t as [|[|t]]; cbn in H.
  - destruct H as [<-|[]]. discriminate.
  - destruct H as [<-|[]]. discriminate.
  - destruct t; destruct H.
Qed.

(* the same call, two schedules of the guarded machine, two different results: whatever the
   treatment of a foreign hit *)
Theorem result_depends_on_schedule pol :
  exists key k g calls s1 s2 t,
    calls_ok calls /\
    all_done (krun pol key Guarded k g calls s1) = true /\
    all_done (krun pol key Guarded k g calls s2) = true /\
    nth t (results (krun pol key Guarded k g calls s1)) [] <> nth t (results (krun pol key Guarded k g calls s2)) [].
Proof.
  exists (key_of col_keys), 3, col_graph, col_calls, sched_01, sched_10, 1.
  split; [exact col_calls_ok|].
  destruct pol; vm_compute; repeat split; discriminate.
Qed.

Theorem keyed_statement_refuted pol : ~ C10_keyed_statement pol Guarded.
Proof.
  intros H. specialize (H (key_of col_keys) 3 col_graph col_calls col_calls_ok).
  destruct pol.
  - destruct (H sched_01 1) as [j Hj]. revert Hj. destruct j as [|[|j]]; vm_compute; discriminate.
  - destruct (H sched_01 1) as [j Hj]. revert Hj. destruct j as [|[|j]]; vm_compute; discriminate.
Qed.

(* ---- injective key: the keyed machine is the machine of Conc.v up to renaming -------------- *)
Section Inj.
Variable key : name -> name.
Hypothesis key_inj : key_injective key.
Variable pol : hitpol.
Variable g : graph.

Local Notation kcmap := (ConcKey.kcmap key).
Local Notation kmapS := (ConcKey.kmapS key).
Local Notation kmapT := (ConcKey.kmapT key).
Local Notation kmapSt := (ConcKey.kmapSt key).
Definition omap (o : pc + result) : pc + result := match o with inl p => inl p | inr r => inr (rmap key r) end.

Lemma key_eqb a b : N.eqb (key a) (key b) = N.eqb a b.
Proof.
  destruct (N.eqb_spec a b) as [->|H]; [apply N.eqb_refl|].
  apply N.eqb_neq. intro E. apply H, key_inj, E.
Qed.

Lemma lookup_kcmap m n : lookup (kcmap m) (key n) = lookup m n.
Proof.
  induction m as [|[a c] r IH]; cbn; [reflexivity|].
  rewrite key_eqb. destruct (N.eqb a n); [reflexivity|exact IH].
Qed.

Lemma remove_key_kcmap m n : remove_key (kcmap m) (key n) = kcmap (remove_key m n).
Proof.
  unfold remove_key, ConcKey.kcmap. induction m as [|[a c] r IH]; cbn; [reflexivity|].
  rewrite key_eqb. destruct (N.eqb a n); cbn; [exact IH|f_equal; exact IH].
Qed.

Lemma fold_remove_kcmap ks : forall m,
  fold_left remove_key (map key ks) (kcmap m) = kcmap (fold_left remove_key ks m).
Proof. induction ks as [|a r IH]; cbn; intros m; [reflexivity|]. rewrite remove_key_kcmap. apply IH. Qed.

Lemma kmapS_rollback sh : rollback (kmapS sh) = kmapS (rollback sh).
Proof. unfold rollback, ConcKey.kmapS; cbn. rewrite fold_remove_kcmap. reflexivity. Qed.

Lemma kmapS_set_to sh c fs : set_to (kmapS sh) c fs = kmapS (set_to sh c fs).
Proof. unfold set_to. cbn [heap ConcKey.kmapS]. destruct (nth_error (heap sh) c); reflexivity. Qed.

Lemma kmapS_alloc sh n : kalloc key (kmapS sh) n = (kmapS (fst (alloc sh n)), snd (alloc sh n)).
Proof. unfold kalloc, alloc, ConcKey.kmapS; cbn. rewrite map_app. reflexivity. Qed.

Lemma kmapS_advance sh stk : advance (kmapS sh) stk = (kmapS (fst (advance sh stk)), snd (advance sh stk)).
Proof.
  unfold advance. destruct stk as [|f rest]; [reflexivity|].
  destruct (f_todo f) as [|m todo].
  - rewrite kmapS_set_to. destruct rest; reflexivity.
  - destruct (N.eqb m unsupported); [destruct rest; reflexivity|reflexivity].
Qed.

Lemma kmapS_finish res sh : finish_shared (rmap key res) (kmapS sh) = kmapS (finish_shared res sh).
Proof. destruct res; cbn [rmap finish_shared]; try apply kmapS_rollback; reflexivity. Qed.

Lemma hit_ok_named sh c n : named sh -> lookup (cmap sh) n = Some c -> hit_ok pol (kmapS sh) c n = true.
Proof.
  unfold hit_ok. destruct pol; [reflexivity|]. intros Hn Hl.
  destruct (Hn n c Hl) as (cl & Hc & Hname). unfold cell_src. cbn [heap ConcKey.kmapS].
  rewrite Hc, Hname. apply N.eqb_refl.
Qed.

Lemma klstep_kmapS k n sh p : named sh ->
  klstep pol key k g n (kmapS sh) p = (kmapS (fst (lstep k g n sh p)), omap (snd (lstep k g n sh p))).
Proof.
  intros Hn. destruct p as [| | | |stk|stk|stk|c|stk|]; try reflexivity.
  - (* PLookup *)
    cbn [klstep lstep cmap ConcKey.kmapS]. rewrite lookup_kcmap.
    destruct (lookup (cmap sh) n) as [c|] eqn:E; [|reflexivity].
    change (hit_ok pol (mkShared (heap sh) (kcmap (cmap sh)) (map key (reg sh)) (failed sh)) c n)
      with (hit_ok pol (kmapS sh) c n).
    rewrite (hit_ok_named _ _ _ Hn E).
    unfold cell_to. cbn [heap ConcKey.kmapS failed].
    destruct (nth_error (heap sh) c) as [cl|]; [destruct (c_to cl)|];
      try reflexivity; destruct (existsb (Nat.eqb c) (failed sh)); reflexivity.
  - (* PInsert *)
    cbn [klstep lstep]. rewrite kmapS_alloc. destruct (alloc sh n) as [sh1 c]. cbn [fst snd].
    rewrite kmapS_advance. destruct (advance sh1 _) as [sh2 p']. reflexivity.
  - (* PRefLookup *)
    destruct stk as [|f rest]; [reflexivity|]. cbn [klstep lstep].
    destruct (f_todo f) as [|m todo]; [reflexivity|].
    cbn [cmap ConcKey.kmapS]. rewrite lookup_kcmap.
    destruct (lookup (cmap sh) m) as [c|] eqn:E; [|reflexivity].
    change (hit_ok pol (mkShared (heap sh) (kcmap (cmap sh)) (map key (reg sh)) (failed sh)) c m)
      with (hit_ok pol (kmapS sh) c m).
    rewrite (hit_ok_named _ _ _ Hn E).
    change (mkShared (heap sh) (kcmap (cmap sh)) (map key (reg sh)) (failed sh)) with (kmapS sh).
    rewrite kmapS_advance. destruct (advance sh _) as [sh2 p']. reflexivity.
  - (* PRefInsert *)
    destruct stk as [|f rest]; [reflexivity|]. cbn [klstep lstep].
    destruct (f_todo f) as [|m todo]; [reflexivity|].
    rewrite kmapS_alloc. destruct (alloc sh m) as [sh1 c]. cbn [fst snd].
    rewrite kmapS_advance. destruct (advance sh1 _) as [sh2 p']. reflexivity.
  - (* PLinked *)
    cbn [klstep lstep]. rewrite kmapS_advance. destruct (advance sh stk) as [sh2 p']. reflexivity.
  - (* PFail *)
    destruct stk as [|f rest]; reflexivity.
Qed.

Lemma set_nth_map {A B} (f : A -> B) l : forall i x, set_nth (map f l) i (f x) = map f (set_nth l i x).
Proof. induction l as [|y r IH]; intros [|i] x; cbn; try reflexivity. f_equal. apply IH. Qed.

Lemma kgstep_kmapSt d k t st : named (s_sh st) ->
  kgstep pol key d k g t (kmapSt st) = kmapSt (gstep d k g t st).
Proof.
  intros Hn. unfold kgstep, gstep. cbn [s_thr ConcKey.kmapSt]. rewrite nth_error_map.
  destruct (nth_error (s_thr st) t) as [th|]; cbn [option_map]; [|reflexivity].
  cbn [t_calls ConcKey.kmapT]. destruct (t_calls th) as [|n rest]; [reflexivity|].
  cbn [t_pc ConcKey.kmapT].
  change (s_sh (kmapSt st)) with (kmapS (s_sh st)).
  change (s_lock (kmapSt st)) with (s_lock st).
  change (s_waitq (kmapSt st)) with (s_waitq st).
  assert (W : forall p, with_pc (kmapT th) p = kmapT (with_pc th p)) by reflexivity.
  assert (Main : forall p,
    (let (sh', o) := klstep pol key k g n (kmapS (s_sh st)) p in
     match o with
     | inl p' => mkState sh' (s_lock st) (s_waitq st) (set_nth (map kmapT (s_thr st)) t (with_pc (kmapT th) p'))
     | inr res =>
         let st' := mkState (finish_shared res sh') (s_lock st) (s_waitq st)
                            (set_nth (map kmapT (s_thr st)) t (finish_thread (kmapT th) res)) in
         match d with Unguarded => st' | Guarded => release st' end
     end) =
    kmapSt (let (sh', o) := lstep k g n (s_sh st) p in
     match o with
     | inl p' => mkState sh' (s_lock st) (s_waitq st) (set_nth (s_thr st) t (with_pc th p'))
     | inr res =>
         let st' := mkState (finish_shared res sh') (s_lock st) (s_waitq st)
                            (set_nth (s_thr st) t (finish_thread th res)) in
         match d with Unguarded => st' | Guarded => release st' end
     end)).
  { intros p. rewrite (klstep_kmapS k n (s_sh st) p Hn).
    destruct (lstep k g n (s_sh st) p) as [sh' o]. cbn [fst snd].
    destruct o as [p'|res]; cbn [omap].
    - rewrite W, set_nth_map. reflexivity.
    - change (finish_thread (kmapT th) (rmap key res)) with (kmapT (finish_thread th res)).
      rewrite set_nth_map, kmapS_finish. destruct d; reflexivity. }
  destruct (t_pc th) as [| | | |stk|stk|stk|c|stk|] eqn:Ep;
    [| |exact (Main PLookup)|exact (Main PInsert)|exact (Main (PRefLookup stk))|exact (Main (PRefInsert stk))
     |exact (Main (PLinked stk))|exact (Main (PReturn c))|exact (Main (PFail stk))|exact (Main PFailRoot)].
  - (* PEnter *)
    destruct d; [rewrite W, set_nth_map; reflexivity|].
    destruct (s_lock st); rewrite W, set_nth_map; reflexivity.
  - (* PWait *)
    destruct d; [reflexivity|]. destruct (s_lock st); [reflexivity|].
    rewrite W, set_nth_map. reflexivity.
Qed.

Lemma named_gstep d k t st : linv g (s_sh st) -> linv g (s_sh (gstep d k g t st)).
Proof. apply linv_gstep. Qed.

Lemma krun_from_kmapSt d k sched : forall st, linv g (s_sh st) ->
  krun_from pol key d k g sched (kmapSt st) = kmapSt (run_from d k g sched st).
Proof.
  unfold krun_from, run_from. induction sched as [|t r IH]; intros st H; cbn [fold_left]; [reflexivity|].
  rewrite kgstep_kmapSt by (exact (proj2 H)). apply IH. apply linv_gstep. exact H.
Qed.

Lemma kmapSt_init calls : kmapSt (init calls) = init calls.
Proof.
  unfold ConcKey.kmapSt, init. cbn. f_equal. rewrite map_map. apply map_ext. reflexivity.
Qed.

Theorem krun_injective d k calls sched :
  krun pol key d k g calls sched = kmapSt (run d k g calls sched).
Proof.
  unfold krun, run. rewrite <- (kmapSt_init calls) at 1. apply krun_from_kmapSt. apply linv_empty.
Qed.

Lemma results_kmapSt st : results (kmapSt st) = map (map (rmap key)) (results st).
Proof.
  unfold results. cbn [s_thr ConcKey.kmapSt]. rewrite !map_map. apply map_ext. intros th.
  cbn [t_results ConcKey.kmapT]. symmetry. apply map_rev.
Qed.

Lemma all_done_kmapSt st : all_done (kmapSt st) = all_done st.
Proof. unfold all_done. cbn [s_thr ConcKey.kmapSt]. induction (s_thr st) as [|th r IH]; cbn; [reflexivity|]. rewrite IH. reflexivity. Qed.

Lemma kresult_solo_injective k n : kresult_solo pol key k g n = rmap key (result_solo k g n).
Proof.
  unfold kresult_solo, result_solo. rewrite krun_injective, results_kmapSt.
  destruct (results (run Guarded k g [[n]] (repeat 0 (fuel_bound g [[n]])))) as [|[|r [|r' l]] rest]; reflexivity.
Qed.

(* on a type set without shared keys the keyed machine returns, under every schedule, what each
   call returns alone *)
Theorem keyed_results_injective k calls : calls_ok calls -> C10_keyed_results pol Guarded key k g calls.
Proof.
  intros Hok sched t. destruct (guarded_results k g calls sched t Hok) as [j Hj]. exists j.
  rewrite krun_injective, results_kmapSt.
  change (@nil result) with (map (rmap key) []) at 1. rewrite map_nth, Hj, map_map.
  apply map_ext. intros n. symmetry. apply kresult_solo_injective.
Qed.

End Inj.

(* ConcProofs.v — lemmas for C10 (part 1): the tie to the Go source and the
   refutation of the unguarded discipline.  The invariant proofs of the guarded
   discipline are in ConcGuardProofs.v. *)
From Coq Require Import String List NArith Bool Arith.
From J5V.model Require Import Conc ConcSites ConcCorr.
From J5V.gen Require ConcGen.
Import ListNotations.

(* ---- computed agreement with the regenerated tables ----------------------- *)
(* SchemaCache has a sync.Mutex; its only exported method that reaches shared state
   is one critical section; the unexported methods and the builder never touch the lock *)
Lemma code_is_guarded : code_guarded = true.
Proof. vm_compute. reflexivity. Qed.

Lemma code_disc_guarded : code_disc = Guarded.
Proof. unfold code_disc. rewrite code_is_guarded. reflexivity. Qed.

Lemma sites_all_guarded :
  forallb (site_guarded ConcGen.cache_methods) ConcGen.cache_methods = true.
Proof. vm_compute. reflexivity. Qed.

(* the reachability search behind site_guarded never ran out of fuel on the table at hand *)
Lemma reach_fuel_sufficient : reach_fuel_ok ConcGen.cache_methods = true.
Proof. vm_compute. reflexivity. Qed.

(* and when it does run out the answer is the explicit RsOutOfFuel, which site_guarded
   counts as NOT guarded: an exported method that reaches the map through a chain of
   three calls, searched with fuel 1; with the fuel of the table the lock is demanded *)
Definition deep_table : fn_table := [
  ("A"%string, true, ["call:b"%string]); ("b"%string, false, ["call:c"%string]);
  ("c"%string, false, ["call:d"%string]); ("d"%string, false, ["write:Schemas"%string])].

Lemma reaches_shared_out_of_fuel :
  reaches_shared 1 deep_table ["A"%string] ["call:b"%string] = RsOutOfFuel /\
  reaches_shared (reach_fuel deep_table) deep_table ["A"%string] ["call:b"%string] = RsYes /\
  site_guarded deep_table ("A"%string, true, ["call:b"%string]) = false.
Proof. repeat split; vm_compute; reflexivity. Qed.

(* the access sequence of every method of *SchemaCache is the one Conc.v mirrors *)
Lemma cache_methods_agree : ConcGen.cache_methods = expected_cache_methods.
Proof. vm_compute. reflexivity. Qed.

Lemma placeholder_functions_agree : ConcGen.placeholder_functions = expected_placeholder_functions.
Proof. vm_compute. reflexivity. Qed.

(* Reflector and Codec: methods only call (no assignment to a receiver field, no map,
   no lock); the cache is reached through SchemaCache.Schema *)
Lemma reflector_stateless : only_calls ConcGen.reflector_methods = true /\ ConcGen.reflector_package_vars = [].
Proof. split; vm_compute; reflexivity. Qed.

Lemma codec_stateless : only_calls ConcGen.codec_methods = true /\ ConcGen.codec_package_vars = ["Global"%string].
Proof. split; vm_compute; reflexivity. Qed.

Lemma codec_entry_points_agree : ConcGen.codec_entry_points = expected_codec_entry_points.
Proof. vm_compute. reflexivity. Qed.

(* the only mutable state on the path is the cache: struct fields and package-level variables *)
Lemma struct_fields_agree :
  ConcGen.cache_fields = expected_cache_fields /\
  ConcGen.reflector_fields = expected_reflector_fields /\
  ConcGen.codec_fields = expected_codec_fields.
Proof. repeat split; vm_compute; reflexivity. Qed.

Lemma package_vars_agree :
  ConcGen.codec_pkg_vars = expected_codec_pkg_vars /\
  ConcGen.reflect_pkg_vars = expected_reflect_pkg_vars /\
  ConcGen.schema_pkg_vars = expected_schema_pkg_vars /\
  ConcGen.codec_pkg_var_writers = [] /\ ConcGen.reflect_pkg_var_writers = [] /\ ConcGen.schema_pkg_var_writers = [].
Proof. repeat split; vm_compute; reflexivity. Qed.

Lemma schema_writers_agree : ConcGen.schema_writers = expected_schema_writers.
Proof. vm_compute. reflexivity. Qed.

(* ---- the unguarded discipline violates the property ------------------------ *)
Local Open Scope N_scope.

(* (name 0 is the reserved [unsupported]; types are numbered from 1)
   witness 1: thread 0 registers the placeholder of type 1 and is descheduled before
   linking it; thread 1 asks for type 0, finds the placeholder with To == nil and
   fails, although the call succeeds alone *)
Definition w1_graph : graph := [(1, [2]); (2, [])].
Definition w1_calls : list (list name) := [[1]; [1]].
Definition w1_sched : list tid := [0; 0; 0; 1; 1]%nat.

Lemma unguarded_refuted_root :
  nth 1%nat (results (run Unguarded 3 w1_graph w1_calls w1_sched)) [] = [RErr] /\
  result_solo 3 w1_graph 1 = ROk (UNode 1 [UNode 2 []]) /\
  results (run Unguarded 3 w1_graph [[1]] [0; 0; 0; 0; 0; 0; 0]%nat) = [[result_solo 3 w1_graph 1]].
Proof. repeat split; vm_compute; reflexivity. Qed.

(* witness 2: thread 1 builds type 2, which refers to type 0 while thread 0 is still
   building it: the schema thread 1 gets back has an unlinked nested reference *)
Definition w2_graph : graph := [(1, [2]); (2, []); (3, [1])].
Definition w2_calls : list (list name) := [[1]; [3]].
Definition w2_sched : list tid := [0; 0; 0; 1; 1; 1; 1; 1]%nat.

Lemma unguarded_refuted_nested :
  nth 1%nat (results (run Unguarded 3 w2_graph w2_calls w2_sched)) [] = [ROk (UNode 3 [UUnlinked 1])] /\
  result_solo 3 w2_graph 3 = ROk (UNode 3 [UNode 1 [UNode 2 []]]).
Proof. repeat split; vm_compute; reflexivity. Qed.

Lemma w1_calls_ok : calls_ok w1_calls.
Proof.
  intros t n Hin. unfold w1_calls in Hin. destruct t as [|[|t]]; cbn in Hin.
  - destruct Hin as [<-|[]]; discriminate.
  - destruct Hin as [<-|[]]; discriminate.
  - destruct t; cbn in Hin; contradiction.
Qed.

(* under the guarded discipline the same schedules block thread 1 on the lock *)
Lemma guarded_blocks_witness :
  snd (run_trace Guarded 3 w1_graph w1_calls w1_sched) = [2; 3; 4; 1; 1] /\
  snd (run_trace Guarded 3 w2_graph w2_calls w2_sched) = [2; 3; 4; 1; 1; 1; 1; 1].
Proof. split; vm_compute; reflexivity. Qed.

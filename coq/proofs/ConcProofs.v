(* ConcProofs.v — lemmas for C10 (part 1): the tie to the Go source and the
   refutation of the unguarded discipline.  The invariant proofs of the guarded
   discipline are in ConcGuardProofs.v. *)
From Coq Require Import String List NArith Bool Arith.
From J5V.model Require Import Conc ConcSites ConcCorr ConcState.
From J5V.gen Require ConcGen ConcStateGen.
Import ListNotations.

(* ---- computed agreement with the regenerated tables ----------------------- *)
(* SchemaCache has a sync.Mutex; its only exported method that reaches shared state
   is one critical section; the unexported methods and the builder never touch the lock *)
Lemma code_is_guarded : code_guarded = true.
Proof. vm_compute. reflexivity. Qed.

Lemma code_disc_guarded : code_disc = Guarded.
Proof. unfold code_disc. rewrite code_is_guarded. reflexivity. Qed.

Lemma sites_all_guarded :
  forallb (site_guarded ConcGen.cache_methods) ConcGen.cache_methods = true.
Proof. vm_compute. reflexivity. Qed.

(* the reachability search behind site_guarded never ran out of fuel on the table at hand *)
Lemma reach_fuel_sufficient : reach_fuel_ok ConcGen.cache_methods = true.
Proof. vm_compute. reflexivity. Qed.

(* and when it does run out the answer is the explicit RsOutOfFuel, which site_guarded
   counts as NOT guarded: an exported method that reaches the map through a chain of
   three calls, searched with fuel 1; with the fuel of the table the lock is demanded *)
Definition deep_table : fn_table := [
  ("A"%string, true, ["call:b"%string]); ("b"%string, false, ["call:c"%string]);
  ("c"%string, false, ["call:d"%string]); ("d"%string, false, ["write:Schemas"%string])].

Lemma reaches_shared_out_of_fuel :
  reaches_shared 1 deep_table ["A"%string] ["call:b"%string] = RsOutOfFuel /\
  reaches_shared (reach_fuel deep_table) deep_table ["A"%string] ["call:b"%string] = RsYes /\
  site_guarded deep_table ("A"%string, true, ["call:b"%string]) = false.
Proof. repeat split; vm_compute; reflexivity. Qed.

(* the access sequence of every method of *SchemaCache is the one Conc.v mirrors — up to where
   RefSchema.To is READ inside the critical section (ConcSites.v says why that cannot matter;
   census_projected_reads below is the side condition) *)
Lemma cache_methods_agree : project_tab ConcGen.cache_methods = expected_cache_methods.
Proof. vm_compute. reflexivity. Qed.

Lemma placeholder_functions_agree : project_tab ConcGen.placeholder_functions = expected_placeholder_functions.
Proof. vm_compute. reflexivity. Qed.

(* the projection drops nothing but reads of To: lock operations, map accesses, writes, hooks and
   calls of the raw table all survive it, in order *)
Lemma project_keeps : forall t toks, is_projected_read t = false -> In t toks -> In t (project toks).
Proof.
  intros t toks Ht Hin. unfold project. apply filter_In. split; [exact Hin | rewrite Ht; reflexivity].
Qed.

Lemma project_only_drops_to_reads : forall t toks, In t toks -> ~ In t (project toks) -> t = "read:To"%string.
Proof.
  intros t toks Hin Hn. destruct (is_projected_read t) eqn:E.
  - unfold is_projected_read in E. apply String.eqb_eq in E. exact E.
  - exfalso. apply Hn. apply project_keeps; assumption.
Qed.

Lemma codec_entry_points_agree : ConcGen.codec_entry_points = expected_codec_entry_points.
Proof. vm_compute. reflexivity. Qed.

(* ---- the census of mutable state (go/types; ConcStateGen.v) passes every check ---------- *)

(* the load-bearing parts by name first, so that a broken one is reported under its own name *)
Lemma census_lf_writes_nothing :
  lf_writes_nothing ConcStateGen.lockfree_fns ConcStateGen.state_writes = true.
Proof. vm_compute. reflexivity. Qed.

Lemma census_vars_only_initialised : vars_only_initialised ConcStateGen.state_writes = true.
Proof. vm_compute. reflexivity. Qed.

Lemma census_lf_reads_no_locked_field : lf_reads_no_locked_field ConcStateGen.lf_read_fields = true.
Proof. vm_compute. reflexivity. Qed.

Lemma census_holders : holders_hold_only_the_cache ConcStateGen.shared_fields = true.
Proof. vm_compute. reflexivity. Qed.

Lemma census_lk_writes_to_fresh : lk_writes_to_fresh ConcStateGen.lk_field_writes = true.
Proof. vm_compute. reflexivity. Qed.

(* every function of the token tables that reads To is off the lock-free path (so it runs with sc.mu
   held), an exported one is one critical section, and no lock-free function writes To *)
Lemma census_projected_reads :
  projected_reads_ok ConcStateGen.lockfree_fns ConcStateGen.state_writes = true.
Proof. vm_compute. reflexivity. Qed.

(* the codec walk: every field a lock-free function reads is written by no lock-free function, and
   by a locked function only with a classified origin *)
Lemma census_walk_reads_frozen :
  walk_reads_frozen ConcStateGen.lockfree_fns ConcStateGen.locked_fns ConcStateGen.lf_read_fields
                    ConcStateGen.state_writes ConcStateGen.lk_field_writes = true.
Proof. vm_compute. reflexivity. Qed.

Lemma census_walk : walk_ok = true.
Proof. vm_compute. reflexivity. Qed.

Lemma census_holds : census_ok = true.
Proof. vm_compute. reflexivity. Qed.

(* coverage in the usable direction: whatever function of the lock-free set one picks, it has
   no reported write other than to a caller's scalar buffer or a message under construction *)
Lemma lf_function_writes_nothing : forall w,
  In w ConcStateGen.state_writes -> In (w_fn w) ConcStateGen.lockfree_fns -> is_benign_target (w_target w) = true.
Proof.
  intros w Hw Hf. pose proof census_lf_writes_nothing as H. unfold lf_writes_nothing in H.
  rewrite forallb_forall in H. specialize (H w Hw).
  assert (E : in_strs (w_fn w) ConcStateGen.lockfree_fns = true).
  { unfold in_strs. apply existsb_exists. exists (w_fn w). split; [exact Hf | apply String.eqb_refl]. }
  rewrite E in H. exact H.
Qed.

Lemma in_strs_In x l : in_strs x l = true <-> In x l.
Proof.
  unfold in_strs. rewrite existsb_exists. split.
  - intros (y & Hy & E). apply String.eqb_eq in E. subst y. exact Hy.
  - intros H. exists x. split; [exact H | apply String.eqb_refl].
Qed.

(* the walk obligation in the direction one uses it: pick ANY write of the census to a field that some
   lock-free function reads — its function is not a lock-free one, and if it is a locked one the
   classification has an entry for it, which says "object of the critical section in progress" (or
   RefSchema.To, by one of the four functions of the token tables on the placeholder it registered) *)
Lemma walk_reads_are_frozen : forall w,
  In w ConcStateGen.state_writes -> is_field_target (w_target w) = true ->
  In (strip_field (w_target w)) ConcStateGen.lf_read_fields ->
  ~ In (w_fn w) ConcStateGen.lockfree_fns /\
  (In (w_fn w) ConcStateGen.locked_fns ->
   exists o, In (w_fn w, strip_field (w_target w), o) ConcStateGen.lk_field_writes /\
             lk_entry_ok (w_fn w, strip_field (w_target w), o) = true).
Proof.
  intros w Hw Hf Hr. pose proof census_walk_reads_frozen as H. unfold walk_reads_frozen in H.
  rewrite forallb_forall in H. specialize (H w Hw).
  apply in_strs_In in Hr. rewrite Hf, Hr in H. cbn [andb negb orb] in H.
  apply andb_true_iff in H. destruct H as [Hlf Hlk]. split.
  - intros Hin. apply in_strs_In in Hin. rewrite Hin in Hlf. discriminate.
  - intros Hin. apply in_strs_In in Hin. rewrite Hin in Hlk. cbn [negb orb] in Hlk.
    unfold lk_classified in Hlk. apply existsb_exists in Hlk. destruct Hlk as (e & He & Eq).
    apply andb_true_iff in Eq. destruct Eq as [E1 E2]. apply String.eqb_eq in E1, E2.
    destruct e as [[efn ef] eo]. unfold w_fn, w_target in E1, E2. cbn [fst snd] in E1, E2. subst efn ef.
    exists eo. split; [exact He|].
    pose proof census_lk_writes_to_fresh as F. unfold lk_writes_to_fresh in F.
    rewrite forallb_forall in F. exact (F _ He).
Qed.

(* it discriminates: a write by a locked function that the classification does not list, a lazily
   filled field written on the lock-free path *)
Lemma walk_rejects_regressions :
  walk_reads_frozen ConcStateGen.lockfree_fns ConcStateGen.locked_fns ConcStateGen.lf_read_fields
                    (unclassified_write :: ConcStateGen.state_writes) ConcStateGen.lk_field_writes = false /\
  walk_reads_frozen ConcStateGen.lockfree_fns ConcStateGen.locked_fns ConcStateGen.lf_read_fields
                    (walk_memo_write :: ConcStateGen.state_writes) ConcStateGen.lk_field_writes = false.
Proof. split; vm_compute; reflexivity. Qed.

(* the checks reject the seeded regressions *)
Lemma census_rejects_regressions :
  lf_writes_nothing ConcStateGen.lockfree_fns (memo_write :: ConcStateGen.state_writes) = false /\
  lf_writes_nothing ConcStateGen.lockfree_fns (memo_alias_write :: ConcStateGen.state_writes) = false /\
  vars_only_initialised (pkg_cache_write :: ConcStateGen.state_writes) = false /\
  holders_hold_only_the_cache (("j5reflect.Reflector.rootProps"%string, "map[string]*j5reflect.propSet"%string, true) :: ConcStateGen.shared_fields) = false /\
  forallb shared_type_ok ("j5reflect.propSet"%string :: ConcStateGen.shared_types) = false /\
  lk_writes_to_fresh (republish_write :: ConcStateGen.lk_field_writes) = false /\
  projected_reads_ok ("j5schema.buildEnumFieldSchema"%string :: ConcStateGen.lockfree_fns) ConcStateGen.state_writes = false /\
  projected_reads_ok ("j5schema.SchemaCache.schemaLocked"%string :: ConcStateGen.lockfree_fns) ConcStateGen.state_writes = false.
Proof. repeat split; vm_compute; reflexivity. Qed.

(* ---- the unguarded discipline violates the property ------------------------ *)
Local Open Scope N_scope.

(* (name 0 is the reserved [unsupported]; types are numbered from 1)
   witness 1: thread 0 registers the placeholder of type 1 and is descheduled before
   linking it; thread 1 asks for type 0, finds the placeholder with To == nil and
   fails, although the call succeeds alone *)
Definition w1_graph : graph := [(1, [2]); (2, [])].
Definition w1_calls : list (list name) := [[1]; [1]].
Definition w1_sched : list tid := [0; 0; 0; 1; 1]%nat.

Lemma unguarded_refuted_root :
  nth 1%nat (results (run Unguarded 3 w1_graph w1_calls w1_sched)) [] = [RUnlinked] /\
  result_solo 3 w1_graph 1 = ROk (UNode 1 [UNode 2 []]) /\
  results (run Unguarded 3 w1_graph [[1]] [0; 0; 0; 0; 0; 0; 0]%nat) = [[result_solo 3 w1_graph 1]].
Proof. repeat split; vm_compute; reflexivity. Qed.

(* witness 2: thread 1 builds type 2, which refers to type 0 while thread 0 is still
   building it: the schema thread 1 gets back has an unlinked nested reference *)
Definition w2_graph : graph := [(1, [2]); (2, []); (3, [1])].
Definition w2_calls : list (list name) := [[1]; [3]].
Definition w2_sched : list tid := [0; 0; 0; 1; 1; 1; 1; 1]%nat.

Lemma unguarded_refuted_nested :
  nth 1%nat (results (run Unguarded 3 w2_graph w2_calls w2_sched)) [] = [ROk (UNode 3 [UUnlinked 1])] /\
  result_solo 3 w2_graph 3 = ROk (UNode 3 [UNode 1 [UNode 2 []]]).
Proof. repeat split; vm_compute; reflexivity. Qed.

Lemma w1_calls_ok : calls_ok w1_calls.
Proof.
  intros t n Hin. unfold w1_calls in Hin. destruct t as [|[|t]]; cbn in Hin.
  - destruct Hin as [<-|[]]; discriminate.
  - destruct Hin as [<-|[]]; discriminate.
  - destruct t; cbn in Hin; contradiction.
Qed.

(* under the guarded discipline the same schedules block thread 1 on the lock *)
Lemma guarded_blocks_witness :
  snd (run_trace Guarded 3 w1_graph w1_calls w1_sched) = [2; 3; 4; 1; 1] /\
  snd (run_trace Guarded 3 w2_graph w2_calls w2_sched) = [2; 3; 4; 1; 1; 1; 1; 1].
Proof. split; vm_compute; reflexivity. Qed.

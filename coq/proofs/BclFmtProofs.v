(* BclFmtProofs.v — FmtDiffs: from the order of the walker's fragments to
   ascending, non-overlapping, in-range edits computed without a slice panic;
   applying the edits gives the formatter's output up to trailing blank lines. *)
From Coq Require Import String List NArith ZArith Bool Lia ZifyN ZifyNat ZifyBool.
From J5V.lib Require Import Text Outcome.
From J5V.model Require Import BclLexer BclParser BclFmt.
From J5V.proofs Require Import BclPosProofs BclLexerProofs BclParserProofs BclTextProofs.
Import ListNotations.
Local Open Scope Z_scope.
Arguments Nat.sub : simpl never.

(* ---- the invariant of the per-fragment diffs ------------------------------------------ *)
(* n = number of lines.  Each diff covers at least one line inside the document; the next
   one starts on the line the previous ends on, or later, and does not end earlier. *)
Fixpoint fd_chain (n : Z) (ds : list fdiff) : Prop :=
  match ds with
  | [] => True
  | d :: r => 0 <= fd_from d /\ fd_from d < fd_to d /\ fd_to d <= n /\
              match r with [] => True | g :: _ => fd_to d - 1 <= fd_from g /\ fd_to d <= fd_to g end /\
              fd_chain n r
  end.
(* after merging: strictly separated *)
Fixpoint fd_sep (n : Z) (ds : list fdiff) : Prop :=
  match ds with
  | [] => True
  | d :: r => 0 <= fd_from d /\ fd_from d < fd_to d /\ fd_to d <= n /\
              match r with [] => True | g :: _ => fd_to d <= fd_from g end /\
              fd_sep n r
  end.

Lemma merge_loop_sep n : forall ds c,
  0 <= fd_from c -> fd_from c < fd_to c -> fd_to c <= n ->
  match ds with [] => True | g :: _ => fd_to c - 1 <= fd_from g /\ fd_to c <= fd_to g end ->
  fd_chain n ds ->
  fd_sep n (merge_loop ds (Some c)) /\
  match merge_loop ds (Some c) with [] => False | m :: _ => fd_from m = fd_from c end.
Proof.
  induction ds as [|d r IH]; intros c H0 H1 H2 Hn Hc; cbn [merge_loop].
  - cbn. repeat split; auto.
  - cbn [fd_chain] in Hc. destruct Hc as (D0 & D1 & D2 & Dn & Dc). destruct Hn as [N1 N2].
    destruct (fd_from d <? fd_to c) eqn:E.
    + assert (Hmax : Z.max (fd_to c) (fd_to d) = fd_to d) by lia.
      specialize (IH (mkFD (fd_from c) (Z.max (fd_to c) (fd_to d)) (fd_text c ++ fd_text d))).
      cbn [fd_from fd_to] in IH. rewrite Hmax in *. apply IH; auto; lia.
    + destruct (IH d D0 D1 D2 Dn Dc) as [A B]. split; [|reflexivity].
      cbn [fd_sep]. repeat split; auto.
      destruct (merge_loop r (Some d)) as [|m ms]; [exact I|]. lia.
Qed.

Lemma merge_diffs_sep n ds : fd_chain n ds -> fd_sep n (merge_diffs ds).
Proof.
  unfold merge_diffs. destruct ds as [|d r]; [exact (fun _ => I)|].
  cbn [merge_loop fd_chain]. intros (D0 & D1 & D2 & Dn & Dc).
  apply (merge_loop_sep n r d); auto.
Qed.

(* ---- edits ------------------------------------------------------------------------------- *)
(* ascending from lo, non-overlapping, start <= end <= n *)
Fixpoint edits_wf (n lo : Z) (es : list edit) : Prop :=
  match es with
  | [] => True
  | e :: r => lo <= e_from e /\ e_from e <= e_to e /\ e_to e <= n /\ edits_wf n (e_to e) r
  end.

Lemma edits_wf_weaken n es : forall lo lo', lo' <= lo -> edits_wf n lo es -> edits_wf n lo' es.
Proof. destruct es; cbn; intros; [exact I|]. intuition lia. Qed.

Lemma range_lines_ok lines from to : 0 <= from -> from <= to -> to <= Z.of_nat (length lines) ->
  exists t, range_lines lines from to = Ok t.
Proof.
  intros. unfold range_lines.
  replace ((from <? 0) || (to <? from) || (Z.of_nat (length lines) <? to))%bool with false by lia. eauto.
Qed.

Lemma diffs_loop_wf lines : forall ds first last_end,
  fd_sep (Z.of_nat (length lines)) ds ->
  (first = true \/ (0 <= last_end /\ match ds with [] => True | d :: _ => last_end <= fd_from d end)) ->
  exists es, diffs_loop lines ds first last_end = Ok es /\
             edits_wf (Z.of_nat (length lines)) (if first then 0 else last_end) es.
Proof.
  induction ds as [|d r IH]; intros first last_end Hs Hf; cbn [diffs_loop]; [exists []; split; [reflexivity|exact I]|].
  cbn [fd_sep] in Hs. destruct Hs as (D0 & D1 & D2 & Dn & Ds).
  destruct (range_lines_ok lines (fd_from d) (fd_to d)) as [ex Eex]; try lia.
  destruct (IH false (fd_to d) Ds) as (rest & Er & Hr).
  { right. split; [lia|]. destruct r; [exact I|lia]. }
  cbn [negb] in Hr.
  assert (Hown : forall own, own = (if list_N_eqb ex (utf8_encode (fd_text d)) then []
                                    else [mkEdit (fd_from d) (fd_to d) (utf8_encode (fd_text d))]) ->
            edits_wf (Z.of_nat (length lines)) (fd_from d) (own ++ rest)).
  { intros own ->. destruct (list_N_eqb ex (utf8_encode (fd_text d))); cbn.
    - eapply edits_wf_weaken; [|exact Hr]. lia.
    - repeat split; try lia. exact Hr. }
  destruct first.
  - cbn [obind]. rewrite Eex. cbn [obind]. rewrite Er. cbn [obind].
    eexists. split; [reflexivity|].
    destruct (0 <? fd_from d) eqn:E0; cbn [app].
    + cbn [edits_wf e_from e_to]. repeat split; try lia. apply Hown. reflexivity.
    + eapply edits_wf_weaken; [|apply Hown; reflexivity]. lia.
  - destruct Hf as [Hf|[L0 L1]]; [discriminate|].
    destruct (last_end <? fd_from d) eqn:El.
    + destruct (range_lines_ok lines last_end (fd_from d)) as [gap Eg]; try lia.
      rewrite Eg. cbn [obind]. rewrite Eex. cbn [obind]. rewrite Er. cbn [obind].
      eexists. split; [reflexivity|].
      destruct (list_N_eqb gap [10%N]); cbn [app].
      * eapply edits_wf_weaken; [|apply Hown; reflexivity]. lia.
      * cbn [edits_wf e_from e_to]. repeat split; try lia. apply Hown. reflexivity.
    + cbn [obind]. rewrite Eex. cbn [obind]. rewrite Er. cbn [obind].
      eexists. split; [reflexivity|]. cbn [app].
      eapply edits_wf_weaken; [|apply Hown; reflexivity]. lia.
Qed.

(* ---- the walker's fragments satisfy the invariant -------------------------------------- *)
Lemma diff_file_from_to : forall fs indent,
  map (fun d => (fd_from d, fd_to d)) (diff_file fs indent)
  = map (fun f => (fst (frag_start f), fst (frag_end f) + 1)) fs.
Proof.
  induction fs as [|f r IH]; intros indent; [reflexivity|].
  destruct f; cbn [diff_file map]; rewrite IH; reflexivity.
Qed.

Lemma fd_chain_ext n : forall a b,
  map (fun d => (fd_from d, fd_to d)) a = map (fun d => (fd_from d, fd_to d)) b ->
  fd_chain n a -> fd_chain n b.
Proof.
  induction a as [|x xs IH]; intros [|y ys] E H; try discriminate; [exact I|].
  cbn [map] in E. injection E as E1 E2 E3.
  cbn [fd_chain] in *. destruct H as (A & B & C & D & F).
  rewrite <- E1, <- E2. split; [exact A|]. split; [exact B|]. split; [exact C|]. split.
  - destruct xs as [|x2 xs2], ys as [|y2 ys2]; try discriminate; [exact I|].
    cbn [map] in E3. injection E3 as G1 G2 G3. rewrite <- G1, <- G2. exact D.
  - apply (IH ys E3 F).
Qed.

Definition frag_fd (f : fragment) : fdiff := mkFD (fst (frag_start f)) (fst (frag_end f) + 1) [].

Lemma inside_line data p : valid_pos data p -> 0 <= fst p < Z.of_nat (length (rlines data)).
Proof.
  intros H. pose proof (valid_inside data p H) as Hi. unfold inside in Hi. destruct Hi as (A & B & l & Hn & _).
  split; [exact A|]. assert (Hlt : (Z.to_nat (fst p) < length (rlines data))%nat).
  { apply nth_error_Some. rewrite Hn. discriminate. }
  lia.
Qed.

Lemma frags_fd_chain data fs :
  Forall (node_wf data) (flat_map frag_nodes fs) -> frags_ordered fs ->
  fd_chain (Z.of_nat (length (rlines data))) (map frag_fd fs).
Proof.
  induction fs as [|f r IH]; intros Hw Ho; [exact I|].
  cbn [flat_map] in Hw. apply Forall_app in Hw. destruct Hw as [Hf Hr].
  cbn [frags_ordered] in Ho. destruct Ho as (O1 & O2 & O3).
  destruct (frag_nodes_head f) as (k & rest & E). rewrite E in Hf.
  inversion Hf as [|x l Hx Hl]; subst. unfold node_wf in Hx. destruct Hx as (V1 & V2 & L).
  pose proof (inside_line data _ V1) as I1. pose proof (inside_line data _ V2) as I2.
  cbn [map fd_chain frag_fd fd_from fd_to].
  assert (Hle : fst (frag_start f) <= fst (frag_end f)) by (destruct L as [L|[L _]]; lia).
  repeat split; try lia.
  - destruct r as [|g r']; [exact I|]. cbn [map frag_fd fd_from fd_to].
    cbn [frags_ordered] in O3. destruct O3 as (P1 & _ & _).
    assert (fst (frag_end f) <= fst (frag_start g)) by (destruct O2 as [X|[X _]]; lia).
    assert (fst (frag_start g) <= fst (frag_end g)) by (destruct P1 as [X|[X _]]; lia).
    lia.
  - apply IH; assumption.
Qed.

Lemma collect_fragments_chain data fs : collect_fragments data = Ok fs ->
  Forall (node_wf data) (flat_map frag_nodes fs) /\ frags_ordered fs.
Proof.
  unfold collect_fragments. pose proof (all_tokens_ok true data) as Hl.
  destruct (all_tokens true data) as [toks|ds|]; try discriminate.
  pose proof (walk_fragments_spec data true toks (schain_chain _ _ _ Hl)) as Hw.
  destruct (walk_fragments true toks) as [fs' ds|p|]; try contradiction.
  destruct ds; [|discriminate]. intros [= <-]. destruct Hw as [Hc _].
  split; [eapply frags_chain_wf; eauto|]. apply (frags_chain_ordered data fs' pos0 Hc).
Qed.

Lemma collect_fmt_chain data ds : collect_fmt data = Ok ds ->
  fd_chain (Z.of_nat (length (rlines data))) ds.
Proof.
  unfold collect_fmt, omap, obind. destruct (collect_fragments data) as [fs| | |] eqn:E; try discriminate.
  intros [= <-]. destruct (collect_fragments_chain data fs E) as [Hw Ho].
  eapply fd_chain_ext; [|apply (frags_fd_chain data fs Hw Ho)].
  rewrite diff_file_from_to, map_map. reflexivity.
Qed.

(* collectFmtFragments never panics or loops *)
Lemma collect_fmt_total data : (exists ds, collect_fmt data = Ok ds) \/ (exists c, collect_fmt data = Err c).
Proof.
  unfold collect_fmt, omap, obind, collect_fragments. pose proof (all_tokens_ok true data) as Hl.
  destruct (all_tokens true data) as [toks|ds|]; [|right; eauto|contradiction].
  pose proof (walk_fragments_spec data true toks (schain_chain _ _ _ Hl)) as Hw.
  destruct (walk_fragments true toks) as [fs' ds|p|]; try contradiction.
  destruct ds; [left|right]; eauto.
Qed.

(* ---- C19, first half: computed without failure; ascending, non-overlapping, in range --------- *)
Theorem fmt_diffs_wf input ds :
  collect_fmt (utf8_decode input) = Ok ds ->
  exists es, fmt_diffs input = Ok es /\
             edits_wf (Z.of_nat (length (split_on 10 input))) 0 es.
Proof.
  intros E. unfold fmt_diffs. rewrite E. cbn [obind]. unfold fmt_diffs_of.
  pose proof (collect_fmt_chain _ _ E) as Hc. unfold rlines in Hc. rewrite decode_line_count in Hc.
  apply merge_diffs_sep in Hc.
  destruct (diffs_loop_wf (split_on 10 input) (merge_diffs ds) true (-1) Hc (or_introl eq_refl)) as (es & Ee & Hw).
  exists es. split; [exact Ee|exact Hw].
Qed.

Theorem fmt_diffs_total input :
  match fmt_diffs input with Ok _ => True | Err _ => True | _ => False end.
Proof.
  destruct (collect_fmt_total (utf8_decode input)) as [[ds E]|[c E]].
  - destruct (fmt_diffs_wf input ds E) as (es & -> & _). exact I.
  - unfold fmt_diffs. rewrite E. exact I.
Qed.

Theorem fmt_accepts_iff input : (exists out, fmt_bytes input = Ok out) <-> (exists ds, collect_fmt (utf8_decode input) = Ok ds).
Proof.
  unfold fmt_bytes, fmt_runes, omap, obind.
  destruct (collect_fmt (utf8_decode input)) as [ds| | |]; split; intros [x H]; try discriminate; eauto.
Qed.

(* ====================================================================== *)
(* C19, second half: applying the edits gives the formatter's output        *)
Local Open Scope Z_scope.

Lemma list_N_eqb_eq a : forall b, list_N_eqb a b = true <-> a = b.
Proof.
  induction a as [|x r IH]; intros [|y s]; cbn; split; intros H; try discriminate; auto.
  - apply andb_true_iff in H. destruct H as [H1 H2]. apply N.eqb_eq in H1. apply IH in H2. congruence.
  - injection H as -> ->. rewrite N.eqb_refl. apply IH. reflexivity.
Qed.

(* a text that ends with a newline, and the lines it stands for *)
Definition wf_text (t : list N) : Prop := exists x, t = x ++ [10%N].

Lemma split_on_snoc_nl x : split_on 10 (x ++ [10%N]) = split_on 10 x ++ [[]].
Proof.
  induction x as [|c r IH]; [reflexivity|]. cbn [app split_on]. rewrite IH.
  destruct (N.eqb c 10); [reflexivity|].
  destruct (split_on 10 r) as [|l ls] eqn:E; [exfalso; eapply split_on_nonempty; eauto|]. reflexivity.
Qed.

Lemma text_lines_snoc x : text_lines (x ++ [10%N]) = split_on 10 x.
Proof. unfold text_lines. rewrite split_on_snoc_nl. apply removelast_last. Qed.

Lemma split_on_app_line x rest : split_on 10 (x ++ 10%N :: rest) = split_on 10 x ++ split_on 10 rest.
Proof.
  induction x as [|c r IH]; [reflexivity|]. cbn [app split_on]. rewrite IH.
  destruct (N.eqb c 10); [reflexivity|].
  destruct (split_on 10 r) as [|l ls] eqn:E; [exfalso; eapply split_on_nonempty; eauto|]. reflexivity.
Qed.

Lemma wf_text_split t rest : wf_text t -> split_on 10 (t ++ rest) = text_lines t ++ split_on 10 rest.
Proof.
  intros [x ->]. rewrite text_lines_snoc, <- app_assoc. cbn [app]. apply split_on_app_line.
Qed.

Lemma wf_text_app a b : wf_text a -> wf_text b -> wf_text (a ++ b).
Proof. intros [x ->] [y ->]. exists ((x ++ [10%N]) ++ y). now rewrite app_assoc. Qed.

(* Fmt on byte texts *)
Definition enc_fd (d : fdiff) : fdiff := mkFD (fd_from d) (fd_to d) (utf8_encode (fd_text d)).

Lemma utf8_encode_app a b : utf8_encode (a ++ b) = utf8_encode a ++ utf8_encode b.
Proof. unfold utf8_encode. apply flat_map_app. Qed.

Lemma fmt_join_enc : forall ds first le,
  utf8_encode (fmt_join ds first le) = fmt_join (map enc_fd ds) first le.
Proof.
  induction ds as [|d r IH]; intros first le; [reflexivity|].
  cbn [fmt_join map]. rewrite !utf8_encode_app, IH. cbn [enc_fd fd_from fd_to fd_text].
  destruct (negb first && (le <? fd_from d))%bool; reflexivity.
Qed.

Lemma merge_loop_enc : forall ds c,
  merge_loop (map enc_fd ds) (option_map enc_fd c) = map enc_fd (merge_loop ds c).
Proof.
  induction ds as [|d r IH]; intros [c|]; cbn [merge_loop map option_map]; try reflexivity.
  - cbn [enc_fd fd_from fd_to fd_text]. destruct (fd_from d <? fd_to c).
    + rewrite <- utf8_encode_app.
      exact (IH (Some (mkFD (fd_from c) (Z.max (fd_to c) (fd_to d)) (fd_text c ++ fd_text d)))).
    + cbn [map]. f_equal. exact (IH (Some d)).
  - exact (IH (Some d)).
Qed.

(* Fmt joins the unmerged diffs; merging changes nothing because a diff that starts inside the
   previous one is never preceded by a blank line *)
Lemma fmt_join_merge n : forall ds c first le,
  match ds with [] => True | g :: _ => fd_to c - 1 <= fd_from g /\ fd_to c <= fd_to g end ->
  fd_chain n ds ->
  fmt_join (c :: ds) first le = fmt_join (merge_loop ds (Some c)) first le.
Proof.
  induction ds as [|d r IH]; intros c first le Hn Hc; [reflexivity|].
  cbn [merge_loop]. cbn [fd_chain] in Hc. destruct Hc as (D0 & D1 & D2 & Dn & Dc). destruct Hn as [N1 N2].
  destruct (fd_from d <? fd_to c) eqn:E.
  - rewrite <- IH; [|cbn [fd_to fd_from]; rewrite Z.max_r by lia; exact Dn|exact Dc].
    cbn [fmt_join fd_from fd_to fd_text]. rewrite Z.max_r by lia.
    replace (fd_to c <? fd_from d) with false by lia. cbn [negb andb app]. rewrite <- app_assoc. reflexivity.
  - cbn [fmt_join]. rewrite <- IH by assumption. reflexivity.
Qed.

Lemma fmt_join_merge_diffs n ds : fd_chain n ds ->
  fmt_join ds true (-1) = fmt_join (merge_diffs ds) true (-1).
Proof.
  destruct ds as [|d r]; [reflexivity|]. cbn [fd_chain]. intros (D0 & D1 & D2 & Dn & Dc).
  unfold merge_diffs. cbn [merge_loop]. apply (fmt_join_merge n); assumption.
Qed.

(* the lines of the formatter output for separated diffs *)
Fixpoint fmt_lines (ms : list fdiff) (first : bool) (le : Z) : list (list N) :=
  match ms with
  | [] => []
  | m :: r => (if negb first && (le <? fd_from m) then [[]] else [])%bool
              ++ text_lines (utf8_encode (fd_text m)) ++ fmt_lines r false (fd_to m)
  end.

Lemma fmt_join_lines : forall ms first le,
  Forall (fun m => wf_text (utf8_encode (fd_text m))) ms ->
  split_on 10 (fmt_join (map enc_fd ms) first le) = fmt_lines ms first le ++ [[]].
Proof.
  induction ms as [|m r IH]; intros first le Hw; [reflexivity|].
  inversion Hw as [|x l Hm Hr]; subst.
  cbn [map fmt_join fmt_lines enc_fd fd_from fd_to fd_text].
  destruct (negb first && (le <? fd_from m))%bool.
  - cbn [app split_on]. replace (N.eqb 10 10) with true by reflexivity.
    rewrite (wf_text_split _ _ Hm), IH by assumption. rewrite <- app_assoc. reflexivity.
  - cbn [app]. rewrite (wf_text_split _ _ Hm), IH by assumption. rewrite <- app_assoc. reflexivity.
Qed.

(* ---- apply_edits ------------------------------------------------------------------------ *)
Definition sub_lines (lines : list (list N)) (from to : Z) : list (list N) :=
  firstn (Z.to_nat (to - from)) (skipn (Z.to_nat from) lines).

Lemma sub_lines_nil lines a : sub_lines lines a a = [].
Proof. unfold sub_lines. rewrite Z.sub_diag. reflexivity. Qed.

Lemma firstn_add_app {A} a b : forall (l : list A), firstn (a + b) l = firstn a l ++ firstn b (skipn a l).
Proof.
  induction a as [|a IH]; intros l; [reflexivity|]. destruct l as [|x r]; cbn.
  - destruct b; reflexivity.
  - rewrite IH. reflexivity.
Qed.

Lemma skipn_skipn' {A} a b : forall (l : list A), skipn a (skipn b l) = skipn (b + a) l.
Proof.
  induction b as [|b IH]; intros l; [reflexivity|]. destruct l as [|x r]; cbn.
  - destruct a; reflexivity.
  - apply IH.
Qed.

Lemma sub_lines_split lines a b c : 0 <= a <= b -> b <= c ->
  sub_lines lines a c = sub_lines lines a b ++ sub_lines lines b c.
Proof.
  intros H1 H2. unfold sub_lines.
  replace (Z.to_nat (c - a)) with (Z.to_nat (b - a) + Z.to_nat (c - b))%nat by lia.
  rewrite firstn_add_app. f_equal.
  rewrite skipn_skipn'. f_equal. f_equal. lia.
Qed.

Lemma skipn_sub_lines lines a b : 0 <= a <= b ->
  skipn (Z.to_nat a) lines = sub_lines lines a b ++ skipn (Z.to_nat b) lines.
Proof.
  intros H. unfold sub_lines. rewrite <- (firstn_skipn (Z.to_nat (b - a)) (skipn (Z.to_nat a) lines)) at 1.
  f_equal. rewrite skipn_skipn'. f_equal. lia.
Qed.

(* edits that all start at or after c can be applied from c, after copying lines[cur:c] *)
Lemma apply_shift lines cur c es : 0 <= cur <= c ->
  match es with [] => True | e :: _ => c <= e_from e end ->
  apply_edits lines cur es = sub_lines lines cur c ++ apply_edits lines c es.
Proof.
  intros Hc He. destruct es as [|e r]; cbn [apply_edits].
  - apply skipn_sub_lines. exact Hc.
  - change (firstn (Z.to_nat (e_from e - cur)) (skipn (Z.to_nat cur) lines)) with (sub_lines lines cur (e_from e)).
    change (firstn (Z.to_nat (e_from e - c)) (skipn (Z.to_nat c) lines)) with (sub_lines lines c (e_from e)).
    rewrite (sub_lines_split lines cur c (e_from e)) by lia. rewrite <- app_assoc. reflexivity.
Qed.

Lemma range_lines_eq lines from to t : range_lines lines from to = Ok t ->
  t = join_with 10 (sub_lines lines from to) ++ [10%N].
Proof.
  unfold range_lines. destruct ((from <? 0) || (to <? from) || (Z.of_nat (length lines) <? to))%bool; [discriminate|].
  intros [= <-]. reflexivity.
Qed.

Lemma sub_lines_length lines from to : 0 <= from <= to -> to <= Z.of_nat (length lines) ->
  length (sub_lines lines from to) = Z.to_nat (to - from).
Proof.
  intros H1 H2. unfold sub_lines. rewrite firstn_length, skipn_length. lia.
Qed.

Lemma Forall_firstn {A} (Q : A -> Prop) n l : Forall Q l -> Forall Q (firstn n l).
Proof. revert l. induction n; intros [|x r] H; cbn; try constructor; inversion H; subst; auto. Qed.
Lemma Forall_skipn {A} (Q : A -> Prop) n l : Forall Q l -> Forall Q (skipn n l).
Proof. revert l. induction n; intros [|x r] H; cbn; auto. inversion H; subst; auto. Qed.

Lemma join_nil_single ls : ls <> [] -> join_with 10 ls = [] -> ls = [[]].
Proof.
  destruct ls as [|l r]; [congruence|]. intros _. destruct r as [|l2 r2]; cbn.
  - intros ->. reflexivity.
  - intros H. apply (f_equal (@length N)) in H. rewrite app_length in H. cbn in H. lia.
Qed.

Lemma last_cons_default {A} (l : list A) : forall x d, last (x :: l) d = last l x.
Proof.
  induction l as [|y r IH]; intros x d; [reflexivity|].
  change (last (x :: y :: r) d) with (last (y :: r) d). rewrite !IH. reflexivity.
Qed.

Section Apply.
Variable lines : list (list N).
Hypothesis lines_no_nl : Forall no_nl lines.
Let n := Z.of_nat (length lines).

Lemma sub_no_nl a b : Forall no_nl (sub_lines lines a b).
Proof. unfold sub_lines. apply Forall_firstn, Forall_skipn, lines_no_nl. Qed.

(* the text of an unchanged range is the range *)
Lemma existing_eq from to x : 0 <= from -> from < to -> to <= n ->
  join_with 10 (sub_lines lines from to) ++ [10%N] = x ++ [10%N] ->
  split_on 10 x = sub_lines lines from to.
Proof.
  intros H0 H1 H2 E. apply app_inj_tail in E. destruct E as [E _]. subst x.
  apply split_join; [|apply sub_no_nl].
  intros Hn. apply (f_equal (@length _)) in Hn. rewrite sub_lines_length in Hn by (unfold n in *; lia).
  cbn in Hn. lia.
Qed.

Lemma diffs_apply : forall ms first le cur es,
  fd_sep n ms ->
  Forall (fun m => wf_text (utf8_encode (fd_text m))) ms ->
  (first = true /\ cur = 0 \/ first = false /\ cur = le /\ 0 <= le /\
     match ms with [] => True | m :: _ => le <= fd_from m end) ->
  diffs_loop lines ms first le = Ok es ->
  apply_edits lines cur es =
    fmt_lines ms first le ++ skipn (Z.to_nat (last (map fd_to ms) cur)) lines
  /\ match es with [] => True | e :: _ => cur <= e_from e end.
Proof.
  induction ms as [|m r IH]; intros first le cur es Hs Hw Hst He.
  - cbn in He. injection He as <-. cbn. auto.
  - cbn [fd_sep] in Hs. destruct Hs as (D0 & D1 & D2 & Dn & Ds).
    inversion Hw as [|x l Hm Hr]; subst. destruct Hm as [body Hbody].
    cbn [diffs_loop] in He.
    (* the edits of the tail *)
    destruct (range_lines lines (fd_from m) (fd_to m)) as [ex| | |] eqn:Eex;
      try (destruct first; [|destruct (le <? fd_from m); [destruct (range_lines lines le (fd_from m))|]]; discriminate).
    pose proof (range_lines_eq _ _ _ _ Eex) as Hex.
    destruct (diffs_loop lines r false (fd_to m)) as [rest| | |] eqn:Er;
      try (destruct first; [|destruct (le <? fd_from m); [destruct (range_lines lines le (fd_from m))|]]; discriminate).
    destruct (IH false (fd_to m) (fd_to m) rest Ds Hr) as [IHa IHb].
    { right. repeat split; try lia. destruct r; [exact I|lia]. }
    { exact Er. }
    assert (Hlast : last (map fd_to (m :: r)) cur = last (map fd_to r) (fd_to m)).
    { cbn [map]. apply last_cons_default. }
    rewrite Hlast.
    (* own edit, applied from fd_from m *)
    remember (if list_N_eqb ex (utf8_encode (fd_text m)) then []
              else [mkEdit (fd_from m) (fd_to m) (utf8_encode (fd_text m))]) as own eqn:Eown.
    assert (Hown : apply_edits lines (fd_from m) (own ++ rest) =
                   text_lines (utf8_encode (fd_text m)) ++ fmt_lines r false (fd_to m)
                   ++ skipn (Z.to_nat (last (map fd_to r) (fd_to m))) lines
                   /\ match own ++ rest with [] => True | e :: _ => fd_from m <= e_from e end).
    { subst own. destruct (list_N_eqb ex (utf8_encode (fd_text m))) eqn:Eq.
      - apply list_N_eqb_eq in Eq. cbn [app].
        rewrite (apply_shift lines (fd_from m) (fd_to m) rest) by (try lia; exact IHb).
        rewrite IHa. split; [|destruct rest; [exact I|lia]].
        f_equal. rewrite Hbody, text_lines_snoc. symmetry.
        apply existing_eq; [lia|lia|exact D2|]. rewrite <- Hex, Eq, Hbody. reflexivity.
      - cbn [app apply_edits e_from e_to e_text]. rewrite Z.sub_diag. cbn [Z.to_nat firstn app].
        rewrite IHa. split; [reflexivity|lia]. }
    destruct Hown as [Hown1 Hown2].
    destruct first.
    + destruct Hst as [[_ ->]|[Hf _]]; [|discriminate].
      cbn [obind] in He. injection He as <-. rewrite <- ?Eown.
      cbn [fmt_lines negb andb app].
      destruct (0 <? fd_from m) eqn:E0; cbn [app].
      * cbn [apply_edits e_from e_to e_text]. cbn [Z.to_nat firstn]. change (text_lines []) with (@nil (list N)).
        cbn [app]. rewrite Hown1. split; [rewrite <- app_assoc; reflexivity|lia].
      * assert (fd_from m = 0) by lia.
        replace 0 with (fd_from m) at 1 by lia. rewrite Hown1.
        split; [rewrite <- app_assoc; reflexivity|]. destruct (own ++ rest); [exact I|lia].
    + destruct Hst as [[Hf _]|(_ & -> & L0 & L1)]; [discriminate|].
      cbn [fmt_lines negb andb].
      destruct (le <? fd_from m) eqn:El.
      * destruct (range_lines lines le (fd_from m)) as [gap| | |] eqn:Eg; try discriminate.
        cbn [obind] in He. injection He as <-. rewrite <- ?Eown.
        pose proof (range_lines_eq _ _ _ _ Eg) as Hg.
        destruct (list_N_eqb gap [10%N]) eqn:Egq; cbn [app].
        -- apply list_N_eqb_eq in Egq.
           rewrite (apply_shift lines le (fd_from m) (own ++ rest)) by (try lia; exact Hown2).
           rewrite Hown1. split; [|destruct (own ++ rest); [exact I|lia]].
           rewrite <- !app_assoc. f_equal.
           assert (Hsl : sub_lines lines le (fd_from m) = [[]]).
           { apply join_nil_single.
             - intros Hn. apply (f_equal (@length _)) in Hn.
               rewrite sub_lines_length in Hn by (unfold n in *; lia). cbn in Hn. lia.
             - rewrite Egq in Hg. change [10%N] with ([] ++ [10%N]) in Hg at 1.
               apply app_inj_tail in Hg. destruct Hg as [Hg _]. symmetry. exact Hg. }
           rewrite Hsl. reflexivity.
        -- cbn [apply_edits e_from e_to e_text]. rewrite Z.sub_diag. cbn [Z.to_nat firstn app].
           change (text_lines [10%N]) with [@nil N]. rewrite Hown1.
           split; [rewrite <- !app_assoc; reflexivity|lia].
      * cbn [obind] in He. injection He as <-. rewrite <- ?Eown. cbn [app].
        assert (le = fd_from m) by lia. subst le. rewrite Hown1.
        split; [rewrite <- app_assoc; reflexivity|exact Hown2].
Qed.
End Apply.

(* ---- trailing blank lines ---------------------------------------------------------------- *)
Lemma drop_while_all {A} (p : A -> bool) l : forallb p l = true -> drop_while p l = [].
Proof. induction l as [|x r IH]; cbn; [reflexivity|]. intros H. apply andb_true_iff in H. destruct H as [-> H]. auto. Qed.

Lemma drop_while_app_all {A} (p : A -> bool) a b : forallb p a = true -> drop_while p (a ++ b) = drop_while p b.
Proof. induction a as [|x r IH]; cbn; [reflexivity|]. intros H. apply andb_true_iff in H. destruct H as [-> H]. auto. Qed.

Lemma strip_app_blank a b : forallb blank_line b = true ->
  strip_trailing_blank (a ++ b) = strip_trailing_blank a.
Proof.
  intros H. unfold strip_trailing_blank. rewrite rev_app_distr.
  rewrite drop_while_app_all; [reflexivity|]. rewrite forallb_forall in *. intros x Hx. apply H. apply in_rev. exact Hx.
Qed.

(* ---- C19, second half, for the real pipeline ----------------------------------------------- *)
(* every diff text ends with a newline *)
Lemma diff_file_wf_text : forall fs indent,
  Forall (fun m => wf_text (utf8_encode (fd_text m))) (diff_file fs indent).
Proof.
  assert (Hsl : forall i s e c parts, wf_text (utf8_encode (fd_text (single_line i s e c parts)))).
  { intros. unfold single_line. cbn [fd_text]. rewrite !app_assoc, utf8_encode_app.
    eexists. reflexivity. }
  induction fs as [|f r IH]; intros indent; [constructor|].
  destruct f; cbn [diff_file]; constructor; auto.
  unfold description_diff, multi_line. cbn [fd_text]. rewrite utf8_encode_app. eexists. reflexivity.
Qed.

Lemma merge_loop_wf_text : forall ds c,
  Forall (fun m => wf_text (utf8_encode (fd_text m))) ds ->
  match c with Some c => wf_text (utf8_encode (fd_text c)) | None => True end ->
  Forall (fun m => wf_text (utf8_encode (fd_text m))) (merge_loop ds c).
Proof.
  induction ds as [|d r IH]; intros [c|] Hd Hc; cbn [merge_loop]; try (repeat constructor; assumption).
  - inversion Hd; subst. destruct (fd_from d <? fd_to c).
    + apply IH; [assumption|]. cbn [fd_text]. rewrite utf8_encode_app. apply wf_text_app; assumption.
    + constructor; [assumption|]. apply IH; assumption.
  - inversion Hd; subst. apply IH; assumption.
Qed.

Theorem fmt_diffs_apply input ds out es :
  collect_fmt (utf8_decode input) = Ok ds ->
  fmt_bytes input = Ok out -> fmt_diffs input = Ok es ->
  let lines := split_on 10 input in
  (* the lines after the last statement are blank *)
  forallb blank_line (skipn (Z.to_nat (last (map fd_to (merge_diffs ds)) 0)) lines) = true ->
  strip_trailing_blank (apply_edits lines 0 es) = strip_trailing_blank (split_on 10 out).
Proof.
  intros E Eo Ee lines Hblank.
  pose proof (collect_fmt_chain _ _ E) as Hc. unfold rlines in Hc. rewrite decode_line_count in Hc.
  unfold fmt_bytes, fmt_runes, omap, obind in Eo. rewrite E in Eo. injection Eo as <-.
  unfold fmt_diffs in Ee. rewrite E in Ee. cbn [obind] in Ee. unfold fmt_diffs_of in Ee. fold lines in Ee.
  assert (Hw : Forall (fun m => wf_text (utf8_encode (fd_text m))) (merge_diffs ds)).
  { unfold merge_diffs. apply merge_loop_wf_text; [|exact I].
    unfold collect_fmt, omap, obind in E. destruct (collect_fragments (utf8_decode input)); try discriminate.
    injection E as <-. apply diff_file_wf_text. }
  destruct (diffs_apply lines (split_on_no_nl input) (merge_diffs ds) true (-1) 0 es
              (merge_diffs_sep _ _ Hc) Hw (or_introl (conj eq_refl eq_refl)) Ee) as [Ha _].
  rewrite Ha, fmt_join_enc.
  assert (Hm : fmt_join (map enc_fd ds) true (-1) = fmt_join (map enc_fd (merge_diffs ds)) true (-1)).
  { rewrite <- !fmt_join_enc. f_equal. apply (fmt_join_merge_diffs _ ds Hc). }
  rewrite Hm, fmt_join_lines by exact Hw.
  rewrite !strip_app_blank; [reflexivity|reflexivity|exact Hblank].
Qed.

(* ---- the formatter accepts whatever the parser accepts ---------------------------------------- *)
Theorem parser_accepts_formatter_accepts data body :
  parse_runes true data = Ok (mkP (Some body) []) -> exists out, fmt_runes data = Ok out.
Proof.
  unfold parse_runes, fmt_runes, collect_fmt, collect_fragments, omap, obind.
  destruct (all_tokens true data) as [toks|ds|]; try discriminate.
  destruct (walk_fragments true toks) as [fs ds|p|]; try discriminate.
  destruct ds as [|d r]; [eauto|discriminate].
Qed.

(* Fmt never panics and never exhausts fuel *)
Theorem fmt_runes_total data : match fmt_runes data with Ok _ => True | Err _ => True | _ => False end.
Proof.
  unfold fmt_runes, omap, obind. destruct (collect_fmt_total data) as [[ds ->]|[c ->]]; exact I.
Qed.

(* J5sEntityExtProofs.v — C13 over files that declare entities.  The expansion of an entity
   (J5sEntity.expand_entity) after an append edit extends the expansion before it in the sense
   of J5sEdit.element_ext, declaration by declaration; so the expanded bundles are related by
   bfile_ext and the C13 machinery (compile_package_ext_g) gives the embedding of the linked
   descriptors.  J5sEntity.v / J5sFullProofs.v are read only. *)
From Coq Require Import String List NArith Bool.
From J5V.lib Require Import Outcome Strcase.
From J5V.model Require Import J5sAst Desc J5sWalk J5sLink J5sConvert J5sContract J5sValid J5sEdit J5sCorr J5sEntity J5sEntityEdit.
From J5V.proofs Require Import J5sProofs J5sNameProofs StrcaseProofs J5sStrcaseProofs J5sSubPkgProofs J5sExtProofs J5sPkgExtProofs J5sC13Proofs J5sFullProofs.
Import ListNotations.
Local Open Scope N_scope.

(* ---- C13 for any two valid bundles related file by file by the source extension *)
Theorem c13_bext : forall bd bd' pkg,
  valid bd = true -> valid bd' = true -> Forall2 bfile_ext bd bd' ->
  (exists x, In x bd /\ bfile_pkg x = pkg) ->
  exists D D', compile bd pkg = Ok D /\ compile bd' pkg = Ok D' /\ files_ext D D'.
Proof.
  intros bd bd' pkg Hv Hv' Hb Hex.
  destruct (compile_correct_full to_snake to_camel to_screaming_snake bd pkg Hv Hex) as (D & Hc & _).
  assert (Hn : NoDup (map bfile_path bd)).
  { unfold valid, valid_bundle in Hv. apply andb_true_iff in Hv. destruct Hv as [_ Hd]. apply distinct_nodup. exact Hd. }
  assert (Hmap : map (by_path bd') bd = bd').
  { apply (by_path_map bd bd' Hb Hn []). intros y []. }
  assert (Hrel : forall x, In x bd -> bfile_ext x (by_path bd' x)).
  { apply forall2_map_in. rewrite Hmap. exact Hb. }
  rewrite <- Hmap in Hv' |- *.
  destruct (compile_package_ext_g to_snake to_camel to_screaming_snake to_camel_nodot to_snake_nodot
              bd (by_path bd') pkg D) as (D' & Hc' & He); try assumption.
  - intros x Hx. exact (bfile_ext_path _ _ (Hrel x Hx)).
  - intros x Hx. pose proof (Hrel x Hx) as Hr. destruct x as [j|p].
    + destruct (by_path bd' (BJ j)) as [j'|q] eqn:E; cbn in Hr; [|contradiction]. left. exists j, j'. auto.
    + destruct (by_path bd' (BP p)) as [j'|q] eqn:E; cbn in Hr; [contradiction|]. right. exists p. subst q. auto.
  - exact (valid_pkgs_nonempty _ _ _ bd Hv).
  - exists D, D'. auto.
Qed.

(* ---- lists of properties / nested declarations built by map *)
Lemma props_ext_mkprops_app l extra : props_ext (mkprops l) (mkprops (l ++ extra)).
Proof.
  induction l as [|p r IH]; cbn [mkprops app]; [constructor|]. destruct p. constructor; [apply fe_refl|exact IH].
Qed.

Lemma nesteds_ext_mknesteds_app l extra : nesteds_ext (mknesteds l) (mknesteds (l ++ extra)).
Proof.
  induction l as [|n r IH]; cbn [mknesteds app]; constructor; [apply ne_refl|exact IH].
Qed.

Lemma nesteds_ext_update {A} (F : A -> nested) (g : A -> A) :
  (forall x, nested_ext (F x) (F (g x))) ->
  forall l i, nesteds_ext (mknesteds (map F l)) (mknesteds (map F (update_nth i g l))).
Proof.
  intros H. induction l as [|x r IH]; intros i; destruct i; cbn [update_nth map mknesteds]; try constructor.
  - apply H.
  - apply nesteds_ext_refl.
  - apply ne_refl.
  - apply IH.
Qed.

Lemma map_update_same {A B} (F : A -> B) (g : A -> A) :
  (forall x, F (g x) = F x) -> forall l i, map F (update_nth i g l) = map F l.
Proof.
  intros H. induction l as [|x r IH]; intros i; destruct i; cbn [update_nth map]; try reflexivity.
  - rewrite H. reflexivity.
  - rewrite IH. reflexivity.
Qed.

Lemma filter_snoc_false {A} (f : A -> bool) l x : f x = false -> filter f (l ++ [x]) = filter f l.
Proof.
  intros H. induction l as [|a r IH]; cbn [app filter]; [rewrite H; reflexivity|]. rewrite IH. reflexivity.
Qed.

(* a key that is not a URL key leaves the URL keys of the query methods alone *)
Lemma get_keys_snoc e k : url_key k = false ->
  get_keys (mkEntity (et_name e) (et_keys e ++ [k]) (et_data e) (et_status e) (et_events e)) = get_keys e.
Proof. intros H. unfold get_keys. cbn [et_keys]. apply filter_snoc_false. exact H. Qed.

Lemma list_keys_snoc e k : url_key k = false ->
  list_keys (mkEntity (et_name e) (et_keys e ++ [k]) (et_data e) (et_status e) (et_events e)) = list_keys e.
Proof.
  intros H. unfold list_keys. cbn [et_keys]. apply filter_snoc_false.
  unfold url_key in H. destruct (is_key_field _); [|reflexivity]. cbn [andb] in *.
  destruct (ek_shard k); [rewrite orb_true_r in H; discriminate H|reflexivity].
Qed.

(* ---- one action on an entity: every declaration of the expansion is extended *)
Definition action_ok (a : ent_action) : Prop := match a with XKey k => url_key k = false | _ => True end.

Theorem ent_apply_ext pkg a e : action_ok a ->
  Forall2 element_ext (expand_entity pkg e) (expand_entity pkg (ent_apply a e)).
Proof.
  intros Hok. destruct e as [nm keys data status events].
  destruct a as [k|p|o|ev|i p]; cbn [ent_apply et_name et_keys et_data et_status et_events]; unfold expand_entity.
  - (* key: the Keys object gets the field; the query methods are untouched *)
    cbn [action_ok] in Hok.
    pose proof (get_keys_snoc (mkEntity nm keys data status events) k Hok) as Hg.
    pose proof (list_keys_snoc (mkEntity nm keys data status events) k Hok) as Hl.
    cbn [et_name et_keys et_data et_status et_events] in Hg, Hl.
    assert (Hq : query_service pkg (mkEntity nm (keys ++ [k]) data status events) = query_service pkg (mkEntity nm keys data status events)).
    { unfold query_service. rewrite Hg, Hl. reflexivity. }
    rewrite Hq.
    constructor; [|apply forall2_refl; apply element_ext_refl].
    unfold keys_object. cbn [et_keys]. unfold component. cbn [et_name]. rewrite map_app.
    constructor; [apply props_ext_mkprops_app|constructor].
  - (* data field *)
    constructor; [apply element_ext_refl|]. constructor; [|apply forall2_refl; apply element_ext_refl].
    unfold data_object, component. cbn [et_name et_data]. constructor; [apply props_ext_snoc|constructor].
  - (* status *)
    constructor; [apply element_ext_refl|]. constructor; [apply element_ext_refl|].
    constructor; [|apply forall2_refl; apply element_ext_refl].
    unfold status_enum, component. cbn [et_name et_status]. apply (ee_enum _ _ status [o]).
  - (* event: a member of the oneof and the event object nested in it, both at the end *)
    do 4 (constructor; [apply element_ext_refl|]).
    constructor; [|apply forall2_refl; apply element_ext_refl].
    unfold event_type, component. cbn [et_name et_events]. rewrite !map_app.
    constructor; [apply props_ext_mkprops_app|apply nesteds_ext_mknesteds_app].
  - (* field of an existing event *)
    do 4 (constructor; [apply element_ext_refl|]).
    constructor; [|apply forall2_refl; apply element_ext_refl].
    unfold event_type, component. cbn [et_name et_events].
    rewrite (map_update_same (fun ev => Property (to_lower_camel (ee_name ev)) false false
               (FObjRef (mkRef [] ((to_camel nm ++ to_camel (b "EventType")) ++ dot ++ ee_name ev))))).
    2: { intros x. reflexivity. }
    constructor; [apply (proj2 props_ext_refl)|].
    apply (nesteds_ext_update (fun ev => NObject (ee_name ev) (ee_fields ev) NNil)).
    intros x. cbn [ee_name ee_fields]. apply ne_obj; [apply props_ext_snoc|constructor].
Qed.

(* ---- files *)
Definition expand1 (pkg : str) (x : eelement) : list element :=
  match x with XPlain el => [el] | XEntity e => expand_entity pkg e end.

Lemma expand_elements_app pkg l l' : expand_elements pkg (l ++ l') = expand_elements pkg l ++ expand_elements pkg l'.
Proof. unfold expand_elements. apply flat_map_app. Qed.

Lemma forall2_app_ee a a' c c' :
  Forall2 element_ext a a' -> Forall2 element_ext c c' -> Forall2 element_ext (a ++ c) (a' ++ c').
Proof. intros H. induction H; cbn [app]; [auto|]. intros Hc. constructor; auto. Qed.

Lemma expand_update_ext pkg g :
  (forall x, Forall2 element_ext (expand1 pkg x) (expand1 pkg (g x))) ->
  forall l k, Forall2 element_ext (expand_elements pkg l) (expand_elements pkg (update_nth k g l)).
Proof.
  intros H. induction l as [|x r IH]; intros k; destruct k; cbn [update_nth]; try (apply forall2_refl; apply element_ext_refl).
  - change (x :: r) with ([x] ++ r). change (g x :: r) with ([g x] ++ r). rewrite !expand_elements_app.
    apply forall2_app_ee; [|apply forall2_refl; apply element_ext_refl].
    unfold expand_elements. cbn [flat_map]. rewrite !app_nil_r. apply H.
  - change (x :: r) with ([x] ++ r). change (x :: update_nth k g r) with ([x] ++ update_nth k g r). rewrite !expand_elements_app.
    apply forall2_app_ee; [apply forall2_refl; apply element_ext_refl|apply IH].
Qed.

Lemma eedit_element_ext pkg e x : eedit_ok e = true ->
  Forall2 element_ext (expand1 pkg x) (expand1 pkg (eedit_element e x)).
Proof.
  intros Hok. destruct e as [fi k a|fi y|fi k ed], x as [el|en]; cbn [eedit_element expand1];
    try (apply forall2_refl; apply element_ext_refl).
  - apply ent_apply_ext. destruct a; cbn [action_ok]; try exact I. cbn [eedit_ok] in Hok.
    apply negb_true_iff in Hok. exact Hok.
  - constructor; [apply edit_element_ext|constructor].
Qed.

Theorem eedit_file_ext e x : eedit_ok e = true -> bfile_ext (expand_bfile x) (expand_bfile (eedit_file e x)).
Proof.
  intros Hok. destruct x as [d bs im els|p]; cbn [eedit_file expand_bfile]; [|reflexivity].
  assert (Hupd : forall k, file_src_ext (expand_jfile d bs im els) (expand_jfile d bs im (update_nth k (eedit_element e) els))).
  { intros k. unfold expand_jfile. repeat split; try reflexivity. cbn [jf_elements].
    eexists. exists []. split; [|rewrite app_nil_r; reflexivity].
    apply expand_update_ext. intros y. apply eedit_element_ext. exact Hok. }
  destruct e as [fi k a|fi y|fi k ed]; cbn [bfile_ext]; try apply Hupd.
  unfold expand_jfile. repeat split; try reflexivity. cbn [jf_elements].
  exists (expand_elements (join dot d) els), (expand_elements (join dot d) [y]). split.
  - apply forall2_refl. apply element_ext_refl.
  - apply expand_elements_app.
Qed.

Lemma apply_eedit_bext bd e : eedit_ok e = true ->
  Forall2 bfile_ext (expand_bundle bd) (expand_bundle (apply_eedit bd e)).
Proof.
  intros Hok. unfold apply_eedit. generalize (eedit_target e) as k.
  induction bd as [|x r IH]; intros k; destruct k; cbn [update_nth expand_bundle map]; constructor.
  - apply eedit_file_ext. exact Hok.
  - apply forall2_refl_b.
  - apply bfile_ext_refl.
  - apply IH.
Qed.

Lemma apply_eedits_bext es : forall bd, forallb eedit_ok es = true ->
  Forall2 bfile_ext (expand_bundle bd) (expand_bundle (apply_eedits bd es)).
Proof.
  induction es as [|e r IH]; intros bd Hok; cbn [apply_eedits fold_left]; [apply forall2_refl_b|].
  cbn [forallb] in Hok. apply andb_true_iff in Hok. destruct Hok as [He Hr].
  eapply forall2_bext_trans; [apply apply_eedit_bext; exact He|apply IH; exact Hr].
Qed.

(* ---- C13 over entity files, any history *)
Theorem c13_entity_histories : forall es bd pkg,
  forallb eedit_ok es = true ->
  valid (expand_bundle bd) = true -> valid (expand_bundle (apply_eedits bd es)) = true ->
  (exists x, In x (expand_bundle bd) /\ bfile_pkg x = pkg) ->
  exists D D', compile (expand_bundle bd) pkg = Ok D /\
               compile (expand_bundle (apply_eedits bd es)) pkg = Ok D' /\ files_ext D D'.
Proof.
  intros es bd pkg Hok Hv Hv' Hex. apply c13_bext; try assumption. apply apply_eedits_bext. exact Hok.
Qed.

(* the list-annotations import added outside the syntax does not touch what files_ext compares *)
Lemma sub_list_map_both {A} (R : A -> A -> Prop) (f : A -> A) :
  (forall a c, R a c -> R (f a) (f c)) -> forall l l', sub_list R l l' -> sub_list R (map f l) (map f l').
Proof.
  intros H l l' S. induction S; cbn [map]; [apply sl_nil|apply sl_keep; auto|apply sl_skip; auto].
Qed.

Theorem with_entity_imports_ext ents D D' : files_ext D D' -> files_ext (with_entity_imports ents D) (with_entity_imports ents D').
Proof.
  unfold files_ext, with_entity_imports. apply sub_list_map_both.
  intros a c (Hp & Hk & Hm & He & Hs). rewrite Hp.
  destruct (J5sConvert.mem_str (fl_path c) ents); unfold file_ext; cbn [fl_path fl_pkg fl_msgs fl_enums fl_svcs];
    repeat split; try assumption; try (rewrite <- Hp; reflexivity).
Qed.

Theorem c13_entity_statement_holds : C13_entity_statement.
Proof. exact c13_entity_histories. Qed.

(* ---- witnesses: the README entity *)
Definition w_sfield (n : string) : property := Property (b n) false false (FScalar SString).
Definition w_foo : entity :=
  mkEntity (b "Foo")
    [mkEkey (Property (b "fooId") false false (FScalar (SKey KId62))) true false]
    (mkprops [w_sfield "name"]) [b "ACTIVE"; b "INACTIVE"]
    [mkEevent (b "Create") (mkprops [w_sfield "name"]); mkEevent (b "Archive") PNil].
Definition w_ent : ebundle := [EBJ [b "foo"; b "v1"] (b "a") [] [XEntity w_foo]].

(* a history of every kind of edit: a key that is not a URL key, a data field, a status, an event,
   a field of an existing event, a declaration, a second entity, a field of the declaration *)
Definition w_ent_edits : list eedit :=
  [XEnt 0 0 (XKey (mkEkey (w_sfield "region") false false));
   XEnt 0 0 (XData (w_sfield "note"));
   XEnt 0 0 (XStatus (b "DELETED"));
   XEnt 0 0 (XEvent (mkEevent (b "Rename") (mkprops [w_sfield "to"])));
   XEnt 0 0 (XEventField 1 (w_sfield "reason"));
   XAppend 0 (XPlain (EObject (b "Extra") (mkprops [w_sfield "x"]) NNil));
   XAppend 0 (XEntity (mkEntity (b "Bar")
      [mkEkey (Property (b "barId") false false (FScalar (SKey KId62))) true false]
      (mkprops [w_sfield "name"]) [b "ON"] [mkEevent (b "Make") PNil]));
   XPlainAt 0 1 (EAppendField 0 0 (w_sfield "y"))].

Theorem entity_history_example :
  forallb eedit_ok w_ent_edits = true /\
  valid (expand_bundle w_ent) = true /\ valid (expand_bundle (apply_eedits w_ent w_ent_edits)) = true /\
  (exists x, In x (expand_bundle w_ent) /\ bfile_pkg x = b "foo.v1") /\
  (exists D D', compile (expand_bundle w_ent) (b "foo.v1") = Ok D /\
                compile (expand_bundle (apply_eedits w_ent w_ent_edits)) (b "foo.v1") = Ok D' /\
                files_ext_b D D' = true /\
                msg_field_nums D (b "FooKeys") (b "foo_id") = [1] /\
                msg_field_nums D' (b "FooKeys") (b "region") = [2] /\
                msg_field_nums D' (b "FooEventsRequest") (b "page") = [2]).
Proof.
  split; [vm_compute; reflexivity|]. split; [vm_compute; reflexivity|]. split; [vm_compute; reflexivity|].
  split; [eexists; split; [left; reflexivity|vm_compute; reflexivity]|].
  eexists. eexists. split; [vm_compute; reflexivity|]. split; [vm_compute; reflexivity|].
  repeat split; vm_compute; reflexivity.
Qed.

(* ---- the excluded class is exact on the witness: a second primary key appended *)
Definition w_url_edit : list eedit :=
  [XEnt 0 0 (XKey (mkEkey (Property (b "tenantId") false false (FScalar (SKey KId62))) true false))].

Lemma sub_list_in {A} (R : A -> A -> Prop) l l' : sub_list R l l' -> forall a, In a l -> exists c, In c l' /\ R a c.
Proof.
  intros S. induction S as [l|a c l l' Hr S IH|c l l' S IH]; intros x Hx.
  - destruct Hx.
  - destruct Hx as [<-|Hx]; [exists c; split; [left; reflexivity|exact Hr]|].
    destruct (IH x Hx) as (y & Hy & Hxy). exists y. split; [right; exact Hy|exact Hxy].
  - destruct (IH x Hx) as (y & Hy & Hxy). exists y. split; [right; exact Hy|exact Hxy].
Qed.

(* embedded descriptors keep the number of every field of every top-level message *)
Lemma files_ext_field_nums D D' : files_ext D D' -> forall m f n,
  In n (msg_field_nums D m f) -> In n (msg_field_nums D' m f).
Proof.
  intros He m f n Hin. unfold msg_field_nums in *.
  apply in_flat_map in Hin. destruct Hin as (fl & Hfl & Hin).
  apply in_flat_map in Hin. destruct Hin as (ms & Hms & Hin).
  destruct (sub_list_in _ _ _ He fl Hfl) as (fl' & Hfl' & (_ & _ & Hm & _ & _)).
  destruct (sub_list_in _ _ _ Hm ms Hms) as (ms' & Hms' & Hme).
  apply in_flat_map. exists fl'. split; [exact Hfl'|].
  apply in_flat_map. exists ms'. split; [exact Hms'|].
  inversion Hme as [nm k fs fs' sub sub' es es' Hp _ _ E1 E2]. subst ms ms'.
  destruct (str_eqb nm m); [|exact Hin].
  destruct Hp as (t & ->). rewrite filter_app, map_app. apply in_or_app. left. exact Hin.
Qed.

Theorem entity_url_key_witness :
  forallb eedit_ok w_url_edit = false /\
  valid (expand_bundle w_ent) = true /\ valid (expand_bundle (apply_eedits w_ent w_url_edit)) = true /\
  out_field_nums (compile (expand_bundle w_ent) (b "foo.v1")) (b "FooEventsRequest") (b "page") = [2] /\
  out_field_nums (compile (expand_bundle (apply_eedits w_ent w_url_edit)) (b "foo.v1")) (b "FooEventsRequest") (b "page") = [3].
Proof. repeat split; vm_compute; reflexivity. Qed.

Theorem entity_full_refuted : ~ C13_entity_full_statement.
Proof.
  intros H.
  destruct entity_url_key_witness as (_ & Hv & Hv' & H2 & H3).
  destruct (H w_url_edit w_ent (b "foo.v1") Hv Hv') as (D & D' & Hc & Hc' & He).
  { eexists. split; [left; reflexivity|vm_compute; reflexivity]. }
  rewrite Hc in H2. rewrite Hc' in H3. cbn [out_field_nums] in H2, H3.
  pose proof (files_ext_field_nums D D' He (b "FooEventsRequest") (b "page") 2) as Hin.
  rewrite H2, H3 in Hin. destruct (Hin (or_introl eq_refl)) as [E|[]]. discriminate E.
Qed.

(* ---- a message appended to a publish topic (outside J5sEdit.edit / file_src_ext: the relation keeps
   the number of messages of a topic).  Converter level: when every message of the topic carries a
   name of its own, the messages and rpcs generated before are a prefix of the new ones - the
   names do not depend on how many messages the topic has (acceptTopic: the topic's name is used
   only for a message without a name, and only when it is the single one). *)
Section TopicMsgs.
Variables snake camel screaming : str -> str.
Notation cv_tmsgs := (J5sConvert.cv_tmsgs snake camel screaming).
Notation accept_topic := (J5sConvert.accept_topic snake camel screaming).

Definition all_named (l : list tmsg) : Prop := Forall (fun t => tm_name t <> None) l.

Lemma cv_tmsgs_single_irrel ev tn virt l s s' : all_named l -> cv_tmsgs ev tn s virt l = cv_tmsgs ev tn s' virt l.
Proof.
  intros H. induction H as [|t r Ht Hr IH]; [reflexivity|]. cbn [J5sConvert.cv_tmsgs].
  destruct (tm_name t) as [n|]; [|contradiction Ht; reflexivity]. rewrite IH. reflexivity.
Qed.

Lemma cv_tmsgs_app ev tn s virt extra : forall l ms ds is r',
  cv_tmsgs ev tn s virt l = Ok (ms, ds, is) -> cv_tmsgs ev tn s virt (l ++ extra) = Ok r' ->
  exists ms2 ds2 is2, cv_tmsgs ev tn s virt extra = Ok (ms2, ds2, is2) /\ r' = (ms ++ ms2, ds ++ ds2, is ++ is2).
Proof.
  induction l as [|t r IH]; intros ms ds is r' H H'.
  - cbn in H. inversion H. subst. cbn [app] in H'. destruct r' as [[x y] z]. exists x, y, z. split; [exact H'|reflexivity].
  - cbn [J5sConvert.cv_tmsgs app] in H, H'.
    apply obind_ok in H. destruct H as (mn & Emn & H).
    apply obind_ok in H'. destruct H' as (mn' & Emn' & H').
    rewrite Emn in Emn'. inversion Emn'. subst mn'. clear Emn'.
    apply obind_ok in H. destruct H as (a & Ea & H).
    apply obind_ok in H'. destruct H' as (a' & Ea' & H').
    rewrite Ea in Ea'. inversion Ea'. subst a'. clear Ea'.
    apply obind_ok in H. destruct H as ([[cm cd] ci] & Er & H).
    apply obind_ok in H'. destruct H' as ([[cm' cd'] ci'] & Er' & H').
    inversion H. inversion H'. subst. clear H H'.
    destruct (IH _ _ _ _ Er Er') as (ms2 & ds2 & is2 & E2 & Eq). inversion Eq. subst.
    exists ms2, ds2, is2. split; [exact E2|]. cbn [app]. rewrite app_assoc. reflexivity.
Qed.

Theorem publish_append_messages ev tn topic_name rl virt l extra ms ss is ms' ss' is' :
  all_named l ->
  accept_topic ev tn topic_name rl virt l = Ok (ms, ss, is) ->
  accept_topic ev tn topic_name rl virt (l ++ extra) = Ok (ms', ss', is') ->
  prefix_of ms ms' /\ Forall2 service_ext ss ss'.
Proof.
  intros Hn H H'. unfold J5sConvert.accept_topic in *.
  rewrite (cv_tmsgs_single_irrel ev tn virt l (is_single l) (is_single (l ++ extra)) Hn) in H.
  apply obind_ok in H. destruct H as ([[m1 d1] i1] & E & H).
  apply obind_ok in H'. destruct H' as ([[m1' d1'] i1'] & E' & H').
  inversion H. inversion H'. subst. clear H H'.
  destruct (cv_tmsgs_app _ _ _ _ _ _ _ _ _ _ E E') as (ms2 & ds2 & is2 & _ & Eq). inversion Eq. subst.
  split; [exists ms2; reflexivity|].
  constructor; [|constructor]. unfold service_ext. cbn [ds_name ds_topic ds_methods].
  repeat split. exists ds2. reflexivity.
Qed.
End TopicMsgs.

(* CodecEncSpecDet.v — the declarative wire format pins the tree: inside the documented domain (in-domain
   scalars, Any values that store JSON text) two trees satisfying it for the same value are equal. *)
From Coq Require Import String List Arith NArith ZArith Bool Lia.
From J5V.lib Require Import Outcome Json JsonPrint Base64 Civil.
From J5V.model Require Import CodecTypes CodecEnc CodecEncSpec CodecEncDec.
From J5V.proofs Require Import CodecEncDecProofs.
Import ListNotations.
Local Open Scope N_scope.

(* The wire format leaves no freedom inside the documented domain: for a value all of whose scalars
   are in-domain and whose Any values store JSON text, the tree is unique. *)
Section Det.
  Variable fmt_float : bool -> N -> bytes.
  Variable env : env.
  Notation wire_value := (wire_value fmt_float env).
  Notation wire_members := (wire_members fmt_float env).
  Notation wire_oneof := (wire_oneof fmt_float env).

  Inductive pinned : field_ty -> pval -> Prop :=
  | P_scalar k v : (exists b, k = KBool /\ v = VBool b) \/ scalar_text fmt_float k v <> None -> pinned (FScalar k) v
  | P_enum r v : pinned (FEnum r) v
  | P_object r v :
      (forall ps m, lookup env r = Some (SObject ps) -> v = VMsg m -> pinned_props ps m) -> pinned (FObject r) v
  | P_oneof r v :
      (forall ps m, lookup env r = Some (SOneof ps) -> v = VMsg m -> pinned_props ps m) -> pinned (FOneof r) v
  | P_array it v : (forall l, v = VList l -> Forall (pinned it) l) -> pinned (FArray it) v
  | P_map it v : (forall es, v = VMap es -> Forall (fun kv => pinned it (snd kv)) es) -> pinned (FMap it) v
  | P_any v : (forall m, v = VMsg m -> exists s, msg_get 3 m = Some (VBytes s)) -> pinned (FAny false) v
  with pinned_props : list property -> msg -> Prop :=
  | PP ps m : (forall p v, In p ps -> prop_present env p m = Some v -> pinned (p_ty p) v) -> pinned_props ps m.

  Definition D_value (n : nat) : Prop := forall t v j1 j2, (jsize j1 <= n)%nat ->
    pinned t v -> wire_value t v j1 -> wire_value t v j2 -> j1 = j2.

  Lemma jsize_pos' j : (1 <= jsize j)%nat.
  Proof. destruct j; cbn [jsize]; lia. Qed.

  Lemma members_det n : D_value n -> forall ps m ms1 ms2,
    (fold_right (fun kv a => jsize (snd kv) + a)%nat 0%nat ms1 <= n)%nat ->
    (forall p v, In p ps -> prop_present env p m = Some v -> pinned (p_ty p) v) ->
    wire_members ps m ms1 -> wire_members ps m ms2 -> ms1 = ms2.
  Proof.
    intros IH ps. induction ps as [|p r IHr]; intros m ms1 ms2 Hn Hp H1 H2.
    - inversion H1; inversion H2; subst. reflexivity.
    - inversion H1 as [|? ? ? ? Hu1 Hr1|? ? ? v1 j1 ms1' Hs1 Hv1 Hr1]; subst;
      inversion H2 as [|? ? ? ? Hu2 Hr2|? ? ? v2 j2 ms2' Hs2 Hv2 Hr2]; subst; try congruence.
      + apply (IHr m ms1 ms2 Hn); [intros; eapply Hp; [right|]; eassumption|assumption|assumption].
      + rewrite Hs1 in Hs2. injection Hs2 as <-. cbn [fold_right snd] in Hn.
        f_equal.
        * f_equal. apply (IH (p_ty p) v1 j1 j2); [lia|apply (Hp p v1 (or_introl eq_refl) Hs1)|assumption|assumption].
        * apply (IHr m ms1' ms2'); [lia|intros; eapply Hp; [right|]; eassumption|assumption|assumption].
  Qed.

  Lemma det_all : forall n, D_value n.
  Proof.
    induction n as [|n IH]; intros t v j1 j2 Hn Hp H1 H2; [pose proof (jsize_pos' j1); lia|].
    inversion H1 as [k v0 j0 Hs1|r pre opts nn name Hl1 Ho1|r ps m ms Hl1 Hm1|r ps m j0 Hl1 Hm1|it l js Hf1|it es ms Hf1|pb m j0 Ha1]; subst.
    - (* scalar *)
      inversion H2 as [? ? ? Hs2| | | | | |]; subst. inversion Hp as [? ? Hd| | | | | |]; subst.
      unfold wire_scalar in *. destruct Hd as [(b & -> & ->)|Hd]; [congruence|].
      destruct k, v; try congruence; destruct (scalar_text fmt_float _ _); congruence.
    - inversion H2 as [|? ? ? ? ? Hl2 Ho2| | | | |]; subst. rewrite Hl1 in Hl2. injection Hl2 as <- <-. congruence.
    - inversion H2 as [| |? ? ? ms2 Hl2 Hm2| | | |]; subst. rewrite Hl1 in Hl2. injection Hl2 as <-.
      inversion Hp as [| |? ? Hq| | | |]; subst. specialize (Hq _ _ Hl1 eq_refl). inversion Hq as [? ? Hq']; subst.
      f_equal. apply (members_det n IH ps m ms ms2); [cbn [jsize] in Hn; lia|exact Hq'|assumption|assumption].
    - inversion H2 as [| | |? ? ? ? Hl2 Hm2| | |]; subst. rewrite Hl1 in Hl2. injection Hl2 as <-.
      inversion Hp as [| | |? ? Hq| | |]; subst. specialize (Hq _ _ Hl1 eq_refl). inversion Hq as [? ? Hq']; subst.
      inversion Hm1 as [? ? He1|? ? p1 v1 jv1 Hi1 Hs1 Ho1 Hw1]; subst;
      inversion Hm2 as [? ? He2|? ? p2 v2 jv2 Hi2 Hs2 Ho2 Hw2]; subst.
      + reflexivity.
      + rewrite (He1 p2 Hi2) in Hs2. discriminate.
      + rewrite (He2 p1 Hi1) in Hs1. discriminate.
      + assert (p1 = p2).
        { destruct (property_eq_dec p1 p2) as [E|E]; [exact E|]. rewrite (Ho2 p1 Hi1 E) in Hs1. discriminate. }
        subst p2. rewrite Hs1 in Hs2. injection Hs2 as <-.
        f_equal. f_equal. f_equal. f_equal. apply (IH (p_ty p1) v1 jv1 jv2); [cbn [jsize fold_right snd] in Hn; lia|apply (Hq' p1 v1 Hi1 Hs1)|assumption|assumption].
    - inversion H2 as [| | | |? ? js2 Hf2| |]; subst. inversion Hp as [| | | |? ? Hq| |]; subst. specialize (Hq _ eq_refl).
      f_equal. cbn [jsize] in Hn. clear H1 H2 Hp.
      revert js2 Hf2 Hn Hq. induction Hf1 as [|x j l' js' Hx Hr IHf]; intros js2 Hf2 Hn Hq.
      + inversion Hf2. reflexivity.
      + inversion Hf2 as [|? j' ? js2' Hx2 Hr2]; subst. inversion Hq as [|? ? Hqx Hqr]; subst. cbn [fold_right] in Hn.
        f_equal; [apply (IH it x j j'); [lia|assumption|assumption|assumption]|apply IHf; [assumption|lia|assumption]].
    - inversion H2 as [| | | | |? ? ms2 Hf2|]; subst. inversion Hp as [| | | | |? ? Hq|]; subst. specialize (Hq _ eq_refl).
      f_equal. cbn [jsize] in Hn. clear H1 H2 Hp.
      revert ms2 Hf2 Hn Hq. induction Hf1 as [|x km l' ms' Hx Hr IHf]; intros ms2 Hf2 Hn Hq.
      + inversion Hf2. reflexivity.
      + inversion Hf2 as [|? km' ? ms2' Hx2 Hr2]; subst. inversion Hq as [|? ? Hqx Hqr]; subst. cbn [fold_right] in Hn.
        destruct Hx as [Hk1 Hv1]. destruct Hx2 as [Hk2 Hv2]. destruct km as [k1 jv1], km' as [k2 jv2]. cbn [fst snd] in *.
        f_equal; [f_equal; [congruence|apply (IH it (snd x) jv1 jv2); [lia|assumption|assumption|assumption]]|apply IHf; [assumption|lia|assumption]].
    - inversion H2 as [| | | | | |? ? j2' Ha2]; subst. inversion Hp as [| | | | | |? Hq]; subst.
      destruct (Hq m eq_refl) as (s & Hs).
      pose proof (Ha1 s eq_refl Hs) as E1. pose proof (Ha2 s eq_refl Hs) as E2. rewrite E1 in E2. injection E2 as <-. reflexivity.
  Qed.

  Theorem wire_value_deterministic t v j1 j2 :
    pinned t v -> wire_value t v j1 -> wire_value t v j2 -> j1 = j2.
  Proof. intros. eapply (det_all (jsize j1)); eauto. Qed.

  (* ... and so is the whole document *)
  Theorem wire_format_deterministic root m j1 j2 :
    (forall ps, lookup env root = Some (SObject ps) \/ lookup env root = Some (SOneof ps) -> pinned_props ps m) ->
    wire_format fmt_float env root m j1 -> wire_format fmt_float env root m j2 -> j1 = j2.
  Proof.
    unfold wire_format. intros Hp H1 H2. destruct (lookup env root) as [[ps|ps|]|] eqn:El; try contradiction.
    - destruct H1 as (ms1 & -> & Hm1). destruct H2 as (ms2 & -> & Hm2).
      specialize (Hp ps (or_introl eq_refl)). inversion Hp as [? ? Hp']; subst.
      f_equal. eapply (members_det _ (det_all _)); [apply Nat.le_refl|exact Hp'|exact Hm1|exact Hm2].
    - specialize (Hp ps (or_intror eq_refl)).
      assert (Hv : pinned (FOneof root) (VMsg m)).
      { constructor. intros ps' m' El' [= <-]. rewrite El in El'. injection El' as <-. exact Hp. }
      apply (wire_value_deterministic (FOneof root) (VMsg m)); [exact Hv| |]; econstructor; eassumption.
  Qed.
End Det.

(* CodecFloatNonFinite.v — the scalar round trip of the NON-finite floats, width by width.
   Outside C01's quantifier (finite floats) but inside the codec's contract since /repo 5e4d94d: addFloat
   writes NaN / +Inf / -Inf as the quoted strings of the protobuf JSON mapping and the decoder's string arm
   reads them with strconv.ParseFloat AT THE WIDTH OF THE FIELD (the float32 range test that follows in
   scalarReflectFromGo must let the infinities through: seeded change C01-H).  Premise: what ParseFloat
   answers for the three words at each width (exercised on every run: the literal tables of the
   non-finite-float stream hold strconv's answers for these strings). *)
From Coq Require Import String List NArith ZArith Bool Lia ZifyN ZifyBool.
From J5V.lib Require Import Outcome Json JsonPrint.
From J5V.model Require Import CodecTypes CodecEnc CodecEncDec.
From J5V.proofs Require Import CodecEncProofs.
Import ListNotations.
Local Open Scope N_scope.
Local Open Scope bool_scope.

Definition pos_inf (is32 : bool) : N := if is32 then 2139095040 else 9218868437227405312.      (* 0x7f800000, 0x7ff0000000000000 *)
Definition neg_inf (is32 : bool) : N := if is32 then 4286578688 else 18442240474082181120.     (* 0xff800000, 0xfff0000000000000 *)
Definition fkind (is32 : bool) : scalar_kind := if is32 then KFloat32 else KFloat64.
Definition ftop (is32 : bool) : N := if is32 then 4294967296 else 18446744073709551616.

(* strconv.ParseFloat on the three words, at each width *)
Definition nonfinite_parse_ok (parse_float : bool -> bytes -> option N) : Prop :=
  forall is32, parse_float is32 txt_Infinity = Some (pos_inf is32) /\
               parse_float is32 (45 :: txt_Infinity) = Some (neg_inf is32) /\
               exists b, parse_float is32 txt_NaN = Some b /\ float_is_nan is32 b = true.

(* an infinity is one of two patterns *)
Lemma inf_patterns is32 bits : bits < ftop is32 -> float_is_inf is32 bits = true ->
  bits = (if float_negative is32 bits then neg_inf is32 else pos_inf is32).
Proof.
  unfold float_is_inf, float_exp_all_ones, float_mantissa, float_negative, ftop, pos_inf, neg_inf.
  intros Hb H. apply andb_true_iff in H as [He Hm]. apply N.eqb_eq in Hm.
  destruct is32.
  - apply N.eqb_eq in He.
    pose proof (N.div_mod bits 8388608 ltac:(lia)) as D. rewrite Hm in D.
    set (q := bits / 8388608) in *.
    assert (Hq : q < 512) by (unfold q; apply N.div_lt_upper_bound; lia).
    pose proof (N.div_mod q 256 ltac:(lia)) as D2. rewrite He in D2.
    assert (Hq2 : q / 256 < 2) by (apply N.div_lt_upper_bound; lia).
    destruct (2147483648 <=? bits) eqn:Es; lia.
  - apply N.eqb_eq in He.
    pose proof (N.div_mod bits 4503599627370496 ltac:(lia)) as D. rewrite Hm in D.
    set (q := bits / 4503599627370496) in *.
    assert (Hq : q < 4096) by (unfold q; apply N.div_lt_upper_bound; lia).
    pose proof (N.div_mod q 2048 ltac:(lia)) as D2. rewrite He in D2.
    assert (Hq2 : q / 2048 < 2) by (apply N.div_lt_upper_bound; lia).
    destruct (9223372036854775808 <=? bits) eqn:Es; lia.
Qed.

Lemma plain_words : Forall plain txt_NaN /\ Forall plain txt_Infinity /\ Forall plain (45 :: txt_Infinity).
Proof. repeat split; repeat constructor; unfold plain; lia. Qed.

Section NonFinite.
  Variable fmt_float : bool -> N -> bytes.
  Variable parse_float : bool -> bytes -> option N.
  Variable parse_time : bytes -> option (Z * Z).
  Hypothesis Hnf : nonfinite_parse_ok parse_float.

  Theorem nonfinite_float_roundtrip is32 bits :
    bits < ftop is32 -> float_finite is32 bits = false ->
    exists J, enc_scalar fmt_float (fkind is32) (VFloat bits) = Ok (print J) /\ wfb J = true /\
      exists b', dec_scalar parse_float parse_time (fkind is32) J = Ok (Some (VFloat b')) /\
                 (float_is_inf is32 bits = true -> b' = bits) /\
                 (float_is_nan is32 bits = true -> float_is_nan is32 b' = true).
  Proof.
    intros Hb Hf. destruct (Hnf is32) as (Hp & Hn & bn & Hnan & Hbn).
    destruct plain_words as (P1 & P2 & P3).
    assert (Hall : float_exp_all_ones is32 bits = true) by (unfold float_finite in Hf; destruct (float_exp_all_ones is32 bits); [reflexivity|discriminate]).
    assert (Henc : enc_scalar fmt_float (fkind is32) (VFloat bits) = Ok (enc_float fmt_float is32 bits)) by (destruct is32; reflexivity).
    assert (Hdec : forall t, dec_scalar parse_float parse_time (fkind is32) (JStr t) =
                             match parse_float is32 t with None => Err "strconv.ParseFloat" | Some b => Ok (Some (VFloat b)) end)
      by (destruct is32; reflexivity).
    unfold enc_float in Henc. unfold float_is_nan, float_is_inf in *. rewrite Hall in *. cbn [andb] in *.
    destruct (float_mantissa is32 bits =? 0) eqn:Em; cbn [negb] in Henc.
    - (* an infinity *)
      assert (Hinf : float_is_inf is32 bits = true) by (unfold float_is_inf; rewrite Hall, Em; reflexivity).
      pose proof (inf_patterns is32 bits Hb Hinf) as Hpat.
      destruct (float_negative is32 bits).
      + exists (JStr (45 :: txt_Infinity)). destruct (print_plain_str _ P3) as [Hpr Hw].
        split; [rewrite Henc, Hpr; reflexivity|]. split; [exact Hw|].
        exists (neg_inf is32). rewrite Hdec, Hn. split; [reflexivity|]. split; [intros _; symmetry; exact Hpat|discriminate].
      + exists (JStr txt_Infinity). destruct (print_plain_str _ P2) as [Hpr Hw].
        split; [rewrite Henc, Hpr; reflexivity|]. split; [exact Hw|].
        exists (pos_inf is32). rewrite Hdec, Hp. split; [reflexivity|]. split; [intros _; symmetry; exact Hpat|discriminate].
    - (* a NaN: every payload is written as NaN and read back as strconv's NaN *)
      exists (JStr txt_NaN). destruct (print_plain_str _ P1) as [Hpr Hw].
      split; [rewrite Henc, Hpr; reflexivity|]. split; [exact Hw|].
      exists bn. rewrite Hdec, Hnan. split; [reflexivity|]. split; [discriminate|intros _; exact Hbn].
  Qed.
End NonFinite.

(* the premise is satisfiable *)
Definition inst_nf (is32 : bool) (s : bytes) : option N :=
  if bytes_eqb s txt_Infinity then Some (pos_inf is32)
  else if bytes_eqb s (45 :: txt_Infinity) then Some (neg_inf is32)
  else if bytes_eqb s txt_NaN then Some (if is32 then 2143289344 else 9221120237041090561) else None.
Lemma nonfinite_parse_satisfiable : nonfinite_parse_ok inst_nf.
Proof. intros is32. split; [reflexivity|]. split; [reflexivity|]. eexists. split; [reflexivity|]. destruct is32; vm_compute; reflexivity. Qed.

(* RulesNestedSemProofs.v — C12 for inline (nested) schemas: on the tree of messages the
   compiler model emits for a declaration tree of objects whose properties the validator
   can evaluate, the modelled validator (field constraints of the message, then the
   embedded messages of every populated field of an inline type, recursively) returns a
   verdict, and accepts iff the declared rules hold of the value, recursively. *)
From Coq Require Import String List NArith ZArith Bool Lia.
From J5V.lib Require Import Outcome.
From J5V.gen Require Id62Gen.
From J5V.model Require Import RulesDecl RulesWrite RulesRead RulesNested RulesSpec Validate RulesSpecDec RulesNestedSem.
From J5V.model Require Import RulesOneof.
From J5V.proofs Require Import RulesProofs RulesReadProofs RulesNestedProofs RulesDecides RulesOneofProofs.
Import ListNotations.

(* ---- the reference does not matter for validation ---- *)
Lemma set_ref_elem n d : elem_ty (p_ty (set_ref n d)) = set_ref_ty n (elem_ty (p_ty d)).
Proof. unfold set_ref. cbn [p_ty]. destruct (p_ty d); reflexivity. Qed.

Lemma key_placement_set_ref n d : key_placement_ok (set_ref n d) = key_placement_ok d.
Proof. unfold key_placement_ok, set_ref. cbn [p_ty]. destruct (p_ty d) as [t|r s t|r t]; try reflexivity; destruct t; reflexivity. Qed.

Lemma evaluable_set_ref re_ok n d : evaluable re_ok (set_ref n d) = evaluable re_ok d.
Proof.
  unfold evaluable, unique_on_messages, set_ref. cbn [p_ty].
  destruct (p_ty d) as [t|r s t|r t]; cbn [elem_ty]; destruct t; reflexivity.
Qed.

Lemma fvalue_typed_set_ref n d fv : fvalue_typed (set_ref n d) fv = fvalue_typed d fv.
Proof.
  unfold fvalue_typed, set_ref. cbn [p_ty p_opt].
  destruct (p_ty d) as [t|r s t|r t]; destruct t; reflexivity.
Qed.

Lemma rule_sem_set_ref pat_sem env n d fv : rule_sem pat_sem env (set_ref n d) fv = rule_sem pat_sem env d fv.
Proof.
  destruct d as [nm rq op ty ds]. unfold set_ref, rule_sem, must_be_set, own_presence. cbn [p_ty p_req p_opt p_name p_desc].
  destruct ty as [t|r s t|r t]; destruct t; reflexivity.
Qed.

Lemma member_decl_set_ref n d : member_decl (set_ref n d) = member_decl d.
Proof. unfold member_decl, set_ref. cbn [p_ty p_opt]. destruct (p_ty d) as [t|r s t|r t]; try reflexivity; destruct t; reflexivity. Qed.

Lemma member_sem_set_ref pat_sem env n d fv : member_sem pat_sem env (set_ref n d) fv = member_sem pat_sem env d fv.
Proof.
  unfold member_sem. change (as_optional (set_ref n d)) with (set_ref n (as_optional d)).
  rewrite rule_sem_set_ref. reflexivity.
Qed.

Lemma resolve_cases here f :
  resolve here f = nf_prop f \/ exists n, resolve here f = set_ref n (nf_prop f).
Proof. destruct f as [d [s|]]; cbn [resolve nf_prop]; [right; eexists; reflexivity|left; reflexivity]. Qed.

Lemma key_placement_resolve here f : key_placement_ok (resolve here f) = key_placement_ok (nf_prop f).
Proof. destruct (resolve_cases here f) as [->|[n ->]]; [reflexivity|apply key_placement_set_ref]. Qed.
Lemma evaluable_resolve re_ok here f : evaluable re_ok (resolve here f) = evaluable re_ok (nf_prop f).
Proof. destruct (resolve_cases here f) as [->|[n ->]]; [reflexivity|apply evaluable_set_ref]. Qed.
Lemma fvalue_typed_resolve here f fv : fvalue_typed (resolve here f) fv = fvalue_typed (nf_prop f) fv.
Proof. destruct (resolve_cases here f) as [->|[n ->]]; [reflexivity|apply fvalue_typed_set_ref]. Qed.
Lemma rule_sem_resolve pat_sem env here f fv : rule_sem pat_sem env (resolve here f) fv = rule_sem pat_sem env (nf_prop f) fv.
Proof. destruct (resolve_cases here f) as [->|[n ->]]; [reflexivity|apply rule_sem_set_ref]. Qed.

Lemma member_decl_resolve here f : member_decl (resolve here f) = member_decl (nf_prop f).
Proof. destruct (resolve_cases here f) as [->|[n ->]]; [reflexivity|apply member_decl_set_ref]. Qed.
Lemma member_sem_resolve pat_sem env here f fv : member_sem pat_sem env (resolve here f) fv = member_sem pat_sem env (nf_prop f) fv.
Proof. destruct (resolve_cases here f) as [->|[n ->]]; [reflexivity|apply member_sem_set_ref]. Qed.

Lemma member_obj_resolve pat_sem env here : forall fields fvs,
  member_obj pat_sem env (map (resolve here) fields) fvs <-> member_obj pat_sem env (map nf_prop fields) fvs.
Proof.
  unfold member_obj. induction fields as [|f r IH]; intros fvs; cbn [map].
  - split; intro H; inversion H; constructor.
  - split; intro H; inversion H as [|? ? ? ? H1 H2]; subst; constructor.
    + rewrite <- member_sem_resolve with (here := here). exact H1.
    + apply IH. exact H2.
    + rewrite member_sem_resolve. exact H1.
    + apply IH. exact H2.
Qed.

Lemma forallb_member_resolve here : forall fields,
  forallb member_decl (map (resolve here) fields) = forallb member_decl (map nf_prop fields).
Proof. induction fields as [|f r IH]; [reflexivity|]. cbn [map forallb]. rewrite member_decl_resolve, IH. reflexivity. Qed.

Lemma typed_obj_resolve here : forall fields fvs,
  typed_obj (map (resolve here) fields) fvs = typed_obj (map nf_prop fields) fvs.
Proof.
  induction fields as [|f r IH]; intros [|fv fr]; try reflexivity.
  cbn [map typed_obj]. rewrite fvalue_typed_resolve, IH. reflexivity.
Qed.

Lemma rule_obj_resolve pat_sem env here : forall fields fvs,
  rule_obj pat_sem env (map (resolve here) fields) fvs <-> rule_obj pat_sem env (map nf_prop fields) fvs.
Proof.
  unfold rule_obj. induction fields as [|f r IH]; intros fvs; cbn [map].
  - split; intro H; inversion H; constructor.
  - split; intro H; inversion H as [|? ? ? ? H1 H2]; subst; constructor.
    + rewrite <- rule_sem_resolve with (here := here). exact H1.
    + apply IH. exact H2.
    + rewrite rule_sem_resolve. exact H1.
    + apply IH. exact H2.
Qed.

Section TreeSem.
Variable re_ok : str -> bool.
Variable re_match : str -> str -> bool.
Variable pat_sem : str -> str -> Prop.
Hypothesis re_dec : forall p s, re_match p s = true <-> pat_sem p s.
Hypothesis re_id62_ok : re_ok Id62Gen.pattern_string = true.
Hypothesis re_id62 : forall s, re_match Id62Gen.pattern_string s = id62_ok s.
Variable env : enum_env.
Hypothesis Hwf : wf_env env = true.

Local Notation vtree := (validate_tree re_ok re_match (defined_numbers env)).

(* the trees the theorem is about: every property with its keys placed and evaluable; the
   options of a oneof are member declarations (singular, not explicitly optional) *)
Fixpoint tree_evaluable (s : nschema) : bool :=
  match s with
  | NS k _ _ fields =>
      match k with RObject => true | ROneof => forallb member_decl (map nf_prop fields) end
      && (fix go (fs : list nfield) : bool :=
            match fs with
            | [] => true
            | NF d None :: r => key_placement_ok d && evaluable re_ok d && go r
            | NF d (Some s') :: r => key_placement_ok d && evaluable re_ok d && tree_evaluable s' && go r
            end) fields
  end.

(* ---- the inner loops, named ---- *)
Definition vt_all (n : mtree) : list mvalue -> verdict :=
  fix all (l : list mvalue) : verdict :=
    match l with [] => VAccept | x :: r => vworst (vtree n x) (all r) end.
Definition vt_inner : list mtree -> list (list mvalue) -> verdict :=
  fix go (ns : list mtree) (is : list (list mvalue)) : verdict :=
    match ns, is with
    | [], [] => VAccept
    | n :: nr, vs :: ir => vworst (vt_all n vs) (go nr ir)
    | _, _ => VReject
    end.
Definition rt_all (s' : nschema) : list mvalue -> Prop :=
  fix all (l : list mvalue) : Prop :=
    match l with [] => True | x :: r' => rule_tree pat_sem env s' x /\ all r' end.
Definition rt_inner_sem : list nfield -> list (list mvalue) -> Prop :=
  fix go (fs : list nfield) (is : list (list mvalue)) : Prop :=
    match fs with
    | [] => match is with [] => True | _ => False end
    | NF _ None :: r => go r is
    | NF _ (Some s') :: r => match is with vs :: ir => rt_all s' vs /\ go r ir | [] => False end
    end.
Definition ty_all (s' : nschema) : list mvalue -> bool :=
  fix all (l : list mvalue) : bool :=
    match l with [] => true | x :: r' => typed_tree s' x && all r' end.
Definition ty_inner : list nfield -> list fvalue -> list (list mvalue) -> bool :=
  fix go (fs : list nfield) (fvs : list fvalue) (is : list (list mvalue)) : bool :=
    match fs, fvs with
    | [], [] => match is with [] => true | _ => false end
    | NF _ None :: r, _ :: fr => go r fr is
    | NF _ (Some s') :: r, fv :: fr =>
        match is with
        | vs :: ir => Nat.eqb (held fv) (length vs) && ty_all s' vs && go r fr ir
        | [] => false
        end
    | _, _ => false
    end.
Definition ev_inner : list nfield -> bool :=
  fix go (fs : list nfield) : bool :=
    match fs with
    | [] => true
    | NF d None :: r => key_placement_ok d && evaluable re_ok d && go r
    | NF d (Some s') :: r => key_placement_ok d && evaluable re_ok d && tree_evaluable s' && go r
    end.

Lemma validate_tree_eq o nested fvs inner :
  vtree (MT o nested) (MV fvs inner) =
  vworst (validate_obj re_ok re_match (defined_numbers env) (ro_fields o) fvs) (vt_inner nested inner).
Proof. reflexivity. Qed.
Lemma rule_tree_eq k on desc fields fvs inner :
  rule_tree pat_sem env (NS k on desc fields) (MV fvs inner) =
  (match k with
   | RObject => rule_obj pat_sem env (map nf_prop fields) fvs
   | ROneof => member_obj pat_sem env (map nf_prop fields) fvs
   end /\ rt_inner_sem fields inner).
Proof. reflexivity. Qed.
Lemma typed_tree_eq k on desc fields fvs inner :
  typed_tree (NS k on desc fields) (MV fvs inner) = typed_obj (map nf_prop fields) fvs && ty_inner fields fvs inner.
Proof. reflexivity. Qed.
Lemma tree_evaluable_eq k on desc fields :
  tree_evaluable (NS k on desc fields) =
  match k with RObject => true | ROneof => forallb member_decl (map nf_prop fields) end && ev_inner fields.
Proof. reflexivity. Qed.

Lemma ev_inner_props here : forall fields, ev_inner fields = true ->
  forallb key_placement_ok (map (resolve here) fields) = true /\
  forallb (evaluable re_ok) (map (resolve here) fields) = true.
Proof.
  induction fields as [|[d [s|]] r IH]; intro H; [split; reflexivity| |]; cbn [ev_inner] in H; cbn [map forallb];
    rewrite key_placement_resolve, evaluable_resolve; cbn [nf_prop].
  - apply andb_true_iff in H as [H Hr]. apply andb_true_iff in H as [H _]. apply andb_true_iff in H as [Hk He].
    destruct (IH Hr) as [I1 I2]. rewrite Hk, He, I1, I2. split; reflexivity.
  - apply andb_true_iff in H as [H Hr]. apply andb_true_iff in H as [Hk He].
    destruct (IH Hr) as [I1 I2]. rewrite Hk, He, I1, I2. split; reflexivity.
Qed.

Definition tree_decides (s : nschema) : Prop :=
  forall path name m v, tree_evaluable s = true -> write_schema env path name s = Ok m ->
    typed_tree s v = true -> decides (vtree (c12_view m) v) (rule_tree pat_sem env s v).

Lemma all_decides s m : forall vs,
  (forall x, typed_tree s x = true -> decides (vtree m x) (rule_tree pat_sem env s x)) ->
  ty_all s vs = true -> decides (vt_all m vs) (rt_all s vs).
Proof.
  induction vs as [|x r IH]; intros H Ht.
  - exact decides_accept.
  - cbn [ty_all] in Ht. apply andb_true_iff in Ht as [Hx Hr]. cbn [vt_all rt_all].
    apply decides_vworst; [apply H; exact Hx|apply IH; assumption].
Qed.

Lemma inner_decides here : forall fields fvs inner ms,
  Forall (fun f => match f with NF _ (Some s) => tree_decides s | NF _ None => True end) fields ->
  ev_inner fields = true -> write_inner env here fields = Ok ms -> ty_inner fields fvs inner = true ->
  decides (vt_inner (map c12_view ms) inner) (rt_inner_sem fields inner).
Proof.
  induction fields as [|[d [s|]] r IH]; intros fvs inner ms HQ Hev Hw Hty.
  - inversion Hw; subst ms. destruct fvs; [|discriminate]. destruct inner; [|discriminate]. exact decides_accept.
  - inversion HQ as [|? ? Hs Hrest]; subst.
    cbn [ev_inner] in Hev. apply andb_true_iff in Hev as [Hev Hevr]. apply andb_true_iff in Hev as [_ Hes].
    cbn [write_inner] in Hw. destruct (kind_matches (ns_kind s) (item_ty d)); [|discriminate].
    apply obind_ok in Hw as [m [Hm Hw]]. apply obind_ok in Hw as [ms' [Hms Hw]]. inversion Hw; subst ms.
    destruct fvs as [|fv fr]; [discriminate|]. destruct inner as [|vs ir]; [discriminate|].
    cbn [ty_inner] in Hty. apply andb_true_iff in Hty as [Hty Htyr]. apply andb_true_iff in Hty as [_ Hall].
    cbn [map vt_inner rt_inner_sem]. apply decides_vworst.
    + apply all_decides; [|exact Hall]. intros x Hx. exact (Hs here (inner_name d s) m x Hes Hm Hx).
    + exact (IH fr ir ms' Hrest Hevr Hms Htyr).
  - inversion HQ as [|? ? _ Hrest]; subst.
    cbn [ev_inner] in Hev. apply andb_true_iff in Hev as [_ Hevr].
    cbn [write_inner] in Hw. destruct fvs as [|fv fr]; [discriminate|]. cbn [ty_inner] in Hty.
    cbn [rt_inner_sem]. exact (IH fr inner ms Hrest Hevr Hw Hty).
Qed.

Theorem c12_tree : forall s, tree_decides s.
Proof.
  apply nschema_ind'. intros k on desc fields HQ path name m [fvs inner] Hev Hw Hty.
  rewrite tree_evaluable_eq in Hev. apply andb_true_iff in Hev as [Hk Hev].
  rewrite write_schema_eq in Hw. apply obind_ok in Hw as [o [Ho Hw]]. apply obind_ok in Hw as [ms [Hms Hw]].
  inversion Hw; subst m. rewrite typed_tree_eq in Hty. apply andb_true_iff in Hty as [Hto Hti].
  unfold write_root in Ho. apply obind_ok in Ho as [os [Hos Ho]]. inversion Ho; subst o.
  cbn [rd_props rd_kind rd_name rd_desc] in Hos. unfold write_object in Hos.
  cbn [c12_view ro_name ro_comment ro_msgopt ro_fields].
  rewrite validate_tree_eq, rule_tree_eq. cbn [ro_fields].
  destruct (ev_inner_props (path ++ [name]) fields Hev) as [Hkp Hevl].
  apply decides_vworst.
  - destruct k.
    + apply (decides_iff _ _ _ (rule_obj_resolve pat_sem env (path ++ [name]) fields fvs)).
      apply (c12_object re_ok re_match pat_sem re_dec re_id62_ok re_id62 env _ 0%N os fvs Hwf Hkp Hevl Hos).
      rewrite typed_obj_resolve. exact Hto.
    + apply (decides_iff _ _ _ (member_obj_resolve pat_sem env (path ++ [name]) fields fvs)).
      apply (c12_members re_ok re_match pat_sem re_dec re_id62_ok re_id62 env Hwf _ 0%N os fvs).
      * rewrite forallb_member_resolve. exact Hk.
      * exact Hevl.
      * exact Hos.
      * rewrite typed_obj_resolve. exact Hto.
  - exact (inner_decides (path ++ [name]) fields fvs inner ms HQ Hev Hms Hti).
Qed.

End TreeSem.

(* ---- the decision procedure of the declared meaning of trees ---- *)
Section TreeDecide.
Variable re_match : str -> str -> bool.
Variable pat_sem : str -> str -> Prop.
Hypothesis re_dec : forall p s, re_match p s = true <-> pat_sem p s.
Variable env : enum_env.

Definition rb_all (s' : nschema) : list mvalue -> bool :=
  fix all (l : list mvalue) : bool :=
    match l with [] => true | x :: r' => rule_treeb re_match env s' x && all r' end.
Definition rb_inner : list nfield -> list (list mvalue) -> bool :=
  fix go (fs : list nfield) (is : list (list mvalue)) : bool :=
    match fs with
    | [] => match is with [] => true | _ => false end
    | NF _ None :: r => go r is
    | NF _ (Some s') :: r => match is with vs :: ir => rb_all s' vs && go r ir | [] => false end
    end.

Lemma rule_treeb_eq k on desc fields fvs inner :
  rule_treeb re_match env (NS k on desc fields) (MV fvs inner) =
  match k with
  | RObject => rule_objb re_match env (map nf_prop fields) fvs
  | ROneof => member_objb re_match env (map nf_prop fields) fvs
  end && rb_inner fields inner.
Proof. reflexivity. Qed.

Theorem rule_treeb_spec : forall s v, rule_treeb re_match env s v = true <-> rule_tree pat_sem env s v.
Proof.
  apply (nschema_ind' (fun s => forall v, rule_treeb re_match env s v = true <-> rule_tree pat_sem env s v)).
  intros k on desc fields HQ [fvs inner].
  rewrite rule_treeb_eq, rule_tree_eq, andb_true_iff.
  assert (Hhead : (match k with
                   | RObject => rule_objb re_match env (map nf_prop fields) fvs
                   | ROneof => member_objb re_match env (map nf_prop fields) fvs
                   end = true) <->
                  match k with
                  | RObject => rule_obj pat_sem env (map nf_prop fields) fvs
                  | ROneof => member_obj pat_sem env (map nf_prop fields) fvs
                  end).
  { destruct k; [apply (rule_objb_spec re_match pat_sem re_dec env)|apply (member_objb_spec re_match pat_sem re_dec env)]. }
  rewrite Hhead.
  assert (Hin : forall inner, rb_inner fields inner = true <-> rt_inner_sem pat_sem env fields inner).
  { clear Hhead fvs inner. induction fields as [|[d [s|]] r IH]; intros inner; cbn [rb_inner rt_inner_sem].
    - destruct inner; split; intro H; try exact I; try reflexivity; try discriminate; destruct H.
    - inversion HQ as [|? ? Hs Hrest]; subst. destruct inner as [|vs ir]; [split; [discriminate|intros []]|].
      rewrite andb_true_iff, (IH Hrest ir).
      assert (Hall : rb_all s vs = true <-> rt_all pat_sem env s vs).
      { induction vs as [|x xr IHx]; cbn [rb_all rt_all]; [split; intro; [exact I|reflexivity]|].
        rewrite andb_true_iff, (Hs x), IHx. reflexivity. }
      rewrite Hall. reflexivity.
    - inversion HQ as [|? ? _ Hrest]; subst. apply (IH Hrest). }
  rewrite (Hin inner). reflexivity.
Qed.

End TreeDecide.

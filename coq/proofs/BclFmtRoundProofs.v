(* BclFmtRoundProofs.v — C09 at file level: reading the formatter's output again.
   The output lexes to the canonical stream of the fragments (BclFmtFileProofs), the stream is
   well formed because adjacent description blocks are kept apart by an empty line
   (BclDescGapProofs), so the walker rebuilds fragments with the same documents
   (BclWalkBackProofs); and the block structure — all that fragmentsToFile's diagnostics depend
   on — is part of the document. *)
From Coq Require Import String List NArith ZArith Bool Lia ZifyN ZifyNat ZifyBool.
From J5V.lib Require Import Text Outcome.
From J5V.model Require Import BclLexer BclParser BclFmt.
From J5V.proofs Require Import BclPosProofs BclLexerProofs BclParserProofs BclFmtLitProofs BclLexLitProofs
                               BclFmtSeqProofs BclFragWfProofs BclFmtLineProofs BclWalkBackProofs BclReflowProofs
                               BclFmtFileProofs BclDescGapProofs.
Import ListNotations.
Local Open Scope Z_scope.
Arguments Nat.sub : simpl never.

(* ---- the stream of a walker-produced fragment list is well formed -------------------------------- *)
Lemma entries_stream_ok : forall fs n first last, Forall frag_lx fs -> desc_gap fs ->
  stream_ok (entries fs n first last).
Proof.
  induction fs as [|f r IH]; intros n first last Hlx Hgap; [exact I|].
  inversion Hlx as [|x y Hf Hr]; subst. cbn [desc_gap] in Hgap. destruct Hgap as [Hg Hgr].
  assert (Hnext : forall n' last' (b : bool) e, is_desc e = false \/ (exists d, f = FDesc d /\ last' = fst (dsend d) + 1) ->
            match entries r n' false last' with
            | (b2, e2) :: _ => is_desc e = true -> is_desc e2 = true -> b2 = true
            | [] => True
            end).
  { intros n' last' b e He. destruct r as [|f2 r2]; [exact I|].
    destruct He as [He|(d & -> & ->)].
    - destruct f2; cbn [entries]; intros H; congruence.
    - destruct f2 as [h2|a2|d2|t2|t2]; cbn [entries is_desc]; try (intros _ H; discriminate).
      intros _ _. cbn [first_desc_line] in Hg. cbn [negb andb]. apply Z.ltb_lt. lia. }
  destruct f as [h|a|d|t|t]; cbn [entries stream_ok].
  - split; [split; [exact Hf|discriminate]|]. split; [apply (Hnext _ _ true); left; reflexivity|apply IH; assumption].
  - split; [split; [exact Hf|discriminate]|]. split; [apply (Hnext _ _ true); left; reflexivity|apply IH; assumption].
  - split; [apply desc_lines_ok|]. split; [apply (Hnext _ _ true); right; eauto|apply IH; assumption].
  - split; [split; [exact Hf|discriminate]|]. split; [apply (Hnext _ _ true); left; reflexivity|apply IH; assumption].
  - split; [split; [exact Hf|discriminate]|]. split; [apply (Hnext _ _ true); left; reflexivity|apply IH; assumption].
Qed.

(* ---- reading the output ---------------------------------------------------------------------------- *)
Lemma fdoc_of_desc f : (match f with FDesc d => DD (dvalue d) | _ => fdoc_of f end) = fdoc_of f.
Proof. destruct f; reflexivity. Qed.

Theorem fmt_roundtrip data fs : collect_fragments data = Ok fs ->
  exists fs', collect_fragments (fmt_join (diff_file fs 0) true (-1)) = Ok fs' /\
              map fdoc_of fs' = map (fun be => entry_doc (snd be)) (entries fs 0 true (-1)).
Proof.
  intros Hc. pose proof (collect_fragments_lx data fs Hc) as Hlx. pose proof (collect_fragments_gap data fs Hc) as Hgap.
  destruct (fmt_output_tokens fs Hlx) as (ts & Hlex & Hts).
  pose proof (entries_stream_ok fs 0 true (-1) Hlx Hgap) as Hok.
  destruct (walk_stream_back (entries fs 0 true (-1)) (S (length ts)) (mkW ts None) Hok) as (fs' & Hw & _ & Hdocs).
  { rewrite pt_mk. exact Hts. }
  { cbn. lia. }
  exists fs'. split.
  - unfold collect_fragments. rewrite Hlex. unfold walk_fragments. rewrite Hw. reflexivity.
  - rewrite <- Hdocs. apply map_ext. intros f. symmetry. apply fdoc_of_desc.
Qed.

(* ---- block structure: what fragmentsToFile's diagnostics depend on ------------------------------- *)
(* 1 = a header that opens a block, 2 = a closing brace, 0 = everything else *)
Definition dshape (x : fdoc) : N := match x with DH _ _ _ _ true _ => 1 | DX => 2 | _ => 0 end%N.
Definition shape (f : fragment) : N := dshape (fdoc_of f).

(* depth after the fragments, None when a closing brace came without an open block *)
Fixpoint bal (ss : list N) (depth : nat) : option nat :=
  match ss with
  | [] => Some depth
  | s :: r => if N.eqb s 1 then bal r (S depth)
              else if N.eqb s 2 then match depth with O => None | S d => bal r d end
              else bal r depth
  end.

Lemma to_file_loop_prefix : forall fs cur stack errs,
  exists z, snd (to_file_loop fs cur stack errs) = errs ++ z.
Proof.
  induction fs as [|f r IH]; intros cur stack errs; [exists []; cbn; rewrite app_nil_r; reflexivity|].
  destruct f as [h|a|d|t|t]; cbn [to_file_loop]; try apply IH.
  - destruct (hopen h); apply IH.
  - destruct stack as [|[h parent] st]; [|apply IH].
    destruct (IH cur [] (errs ++ [mkDiag (tstart t) (tend t) msg_close])) as (z & Hz). rewrite Hz, <- app_assoc. eauto.
Qed.

Lemma to_file_loop_bal : forall fs cur stack errs,
  match bal (map shape fs) (length stack) with
  | Some d => length (snd (fst (to_file_loop fs cur stack errs))) = d /\ snd (to_file_loop fs cur stack errs) = errs
  | None => exists x y, snd (to_file_loop fs cur stack errs) = errs ++ x :: y
  end.
Proof.
  induction fs as [|f r IH]; intros cur stack errs; [cbn; auto|].
  destruct f as [h|a|d|t|t]; cbn [to_file_loop map bal].
  - replace (shape (FHeader h)) with (if hopen h then 1%N else 0%N) by (unfold shape; cbn; destruct (hopen h); reflexivity).
    destruct (hopen h); cbn [N.eqb Pos.eqb].
    + apply (IH [] ((h, cur) :: stack) errs).
    + apply IH.
  - change (shape (FAssign a)) with 0%N. cbn [N.eqb]. apply IH.
  - change (shape (FDesc d)) with 0%N. cbn [N.eqb]. apply IH.
  - change (shape (FComment t)) with 0%N. cbn [N.eqb]. apply IH.
  - change (shape (FClose t)) with 2%N. cbn [N.eqb Pos.eqb]. destruct stack as [|[h parent] st]; cbn [length].
    + destruct (to_file_loop_prefix r cur [] (errs ++ [mkDiag (tstart t) (tend t) msg_close])) as (z & Hz).
      rewrite Hz, <- app_assoc. cbn. eauto.
    + apply IH.
Qed.

Theorem to_file_ok_iff fs : snd (fragments_to_file fs) = [] <-> bal (map shape fs) 0 = Some O.
Proof.
  destruct fs as [|f0 r0]; [cbn; split; reflexivity|]. set (fs := f0 :: r0).
  assert (E : exists lf, last (map Some fs) None = Some lf).
  { exists (last r0 f0). unfold fs. generalize (@None fragment). clear. revert f0.
    induction r0 as [|y r IH]; intros f d; [reflexivity|].
    change (map Some (f :: y :: r)) with (Some f :: map Some (y :: r)). rewrite !last_cons_dflt. apply IH. }
  destruct E as (lf & Elf).
  unfold fragments_to_file. rewrite Elf. pose proof (to_file_loop_bal fs [] [] []) as H. cbn [length] in H.
  destruct (to_file_loop fs [] [] []) as [[cur stack] errs]. cbn [fst snd] in *.
  revert H. destruct (bal (map shape fs) 0) as [d|]; intros H.
  - destruct H as [Hd ->]. destruct stack as [|x st]; cbn [length] in Hd; subst d.
    + split; reflexivity.
    + split; intros H; discriminate.
  - destruct H as (x & y & ->). split; [|discriminate].
    destruct stack; cbn; discriminate.
Qed.

(* acceptance by the parser in terms of the fragments *)
Definition accepted (data : list N) : Prop := exists body, parse_runes true data = Ok (mkP (Some body) []).

Lemma accepted_iff data : accepted data <-> exists fs, collect_fragments data = Ok fs /\ snd (fragments_to_file fs) = [].
Proof.
  unfold accepted, parse_runes, collect_fragments. destruct (all_tokens true data) as [toks|ds|].
  - destruct (walk_fragments true toks) as [fs ds|p|].
    + destruct ds as [|d ds].
      * destruct (fragments_to_file fs) as [body errs] eqn:E. cbn [snd]. split.
        -- intros (b & [= -> ->]). exists fs. rewrite E. auto.
        -- intros (fs0 & [= <-] & He). rewrite E in He. cbn in He. subst errs. eauto.
      * split; [intros (b & H); discriminate|intros (fs0 & H & _); discriminate].
    + split; [intros (b & H); discriminate|intros (fs0 & H & _); discriminate].
    + split; [intros (b & H); discriminate|intros (fs0 & H & _); discriminate].
  - split; [intros (b & H); discriminate|intros (fs0 & H & _); discriminate].
  - split; [intros (b & H); discriminate|intros (fs0 & H & _); discriminate].
Qed.

Lemma entries_shape : forall fs n first last,
  map (fun be => dshape (entry_doc (snd be))) (entries fs n first last) = map shape fs.
Proof.
  induction fs as [|f r IH]; intros n first last; [reflexivity|].
  destruct f; cbn [entries map snd entry_doc]; rewrite IH; reflexivity.
Qed.

(* the parser accepts the formatter's output of every file it accepts *)
Theorem fmt_output_accepted data : accepted data ->
  exists out, fmt_runes data = Ok out /\ accepted out.
Proof.
  intros Ha. apply accepted_iff in Ha. destruct Ha as (fs & Hc & Hok).
  exists (fmt_join (diff_file fs 0) true (-1)). split.
  - unfold fmt_runes, collect_fmt. rewrite Hc. reflexivity.
  - destruct (fmt_roundtrip data fs Hc) as (fs' & Hc' & Hdocs). apply accepted_iff. exists fs'. split; [exact Hc'|].
    apply to_file_ok_iff. apply to_file_ok_iff in Hok. rewrite <- Hok. f_equal.
    rewrite <- (entries_shape fs 0 true (-1)). unfold shape.
    rewrite <- (map_map fdoc_of dshape), Hdocs, map_map. reflexivity.
Qed.

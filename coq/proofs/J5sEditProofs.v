(* J5sEditProofs.v — C13: appending never renumbers, renames or retypes what was there.
   Prefix-preservation facts about the converter model. *)
From Coq Require Import String List NArith Bool Lia ZifyN ZifyNat ZifyBool.
From J5V.lib Require Import Outcome Corr.
From J5V.model Require Import J5sAst Desc J5sWalk J5sLink J5sConvert J5sContract J5sValid.
From J5V.proofs Require Import J5sProofs J5sContractProofs.
Import ListNotations.
Local Open Scope N_scope.

Lemma pres_app_nil_l a : pres_app pres_nil a = a.
Proof. destruct a; reflexivity. Qed.
Lemma pres_app_nil_r a : pres_app a pres_nil = a.
Proof. destruct a; unfold pres_app; cbn; rewrite !app_nil_r; reflexivity. Qed.
Lemma pres_app_assoc a c d : pres_app (pres_app a c) d = pres_app a (pres_app c d).
Proof. unfold pres_app; cbn; rewrite !app_assoc; reflexivity. Qed.

Lemma plen_list ps : plen ps = N.of_nat (length (props_list ps)).
Proof. induction ps as [|p r IH]; cbn [plen props_list length]; [reflexivity|]. rewrite IH. lia. Qed.

Lemma props_list_papp x y : props_list (papp x y) = props_list x ++ props_list y.
Proof. induction x as [|p r IH]; cbn; [reflexivity|]. rewrite IH. reflexivity. Qed.

Section Edit.
Variables snake camel screaming : str -> str.
Notation cv_props := (cv_props snake camel screaming).
Notation cv_property := (cv_property snake camel screaming).
Notation cv_enum := (cv_enum screaming).

(* converting a run of properties splits at any point; the second part starts at the number
   after the first part, and nothing of the first part depends on the second *)
Lemma cv_props_app ev path io n x y :
  cv_props ev path io n (papp x y) =
  obind (cv_props ev path io n x) (fun a =>
  obind (cv_props ev path io (n + plen x) y) (fun c => Ok (pres_app a c))).
Proof.
  revert n. induction x as [|p r IH]; intros n.
  - cbn [papp plen]. rewrite N.add_0_r.
    change (cv_props ev path io n PNil) with (@Ok pres pres_nil). cbn [obind].
    destruct (cv_props ev path io n y); cbn [obind]; try reflexivity. rewrite pres_app_nil_l. reflexivity.
  - cbn [papp plen]. rewrite !(cv_props_cons snake camel screaming).
    destruct (cv_property ev path io n p) as [a| | |]; cbn [obind]; try reflexivity.
    rewrite IH. replace (N.succ n + plen r) with (n + N.succ (plen r)) by lia.
    destruct (cv_props ev path io (N.succ n) r) as [c| | |]; cbn [obind]; try reflexivity.
    destruct (cv_props ev path io (n + N.succ (plen r)) y) as [d| | |]; cbn [obind]; try reflexivity.
    rewrite pres_app_assoc. reflexivity.
Qed.

(* appending one property: the earlier fields, nested messages and enums are a prefix of the
   new ones, and the new field gets the next number *)
Theorem cv_props_snoc ev path io n ps p r :
  cv_props ev path io n ps = Ok r ->
  cv_props ev path io n (papp ps (PCons p PNil)) =
  obind (cv_property ev path io (n + plen ps) p) (fun a => Ok (pres_app r a)).
Proof.
  intros H. rewrite cv_props_app, H. cbn [obind]. rewrite (cv_props_cons snake camel screaming).
  destruct (cv_property ev path io (n + plen ps) p) as [a| | |]; cbn [obind]; try reflexivity.
  change (cv_props ev path io (N.succ (n + plen ps)) PNil) with (@Ok pres pres_nil). cbn [obind].
  rewrite pres_app_nil_r. reflexivity.
Qed.

Corollary cv_props_snoc_prefix ev path io n ps p r r' :
  cv_props ev path io n ps = Ok r ->
  cv_props ev path io n (papp ps (PCons p PNil)) = Ok r' ->
  exists a, pr_fields r' = pr_fields r ++ pr_fields a /\
            pr_msgs r' = pr_msgs r ++ pr_msgs a /\
            pr_enums r' = pr_enums r ++ pr_enums a /\
            cv_property ev path io (n + plen ps) p = Ok a.
Proof.
  intros H H'. rewrite (cv_props_snoc _ _ _ _ _ _ _ H) in H'. apply obind_ok in H'.
  destruct H' as (a & Ha & Hr). inversion Hr. subst r'. exists a. cbn. auto.
Qed.

(* enum: a new option at the end gets the next number; every earlier value keeps name and number *)
Lemma number_opts_app pfx n x y :
  number_opts pfx n (x ++ y) =
  number_opts pfx n x ++ number_opts pfx (n + N.of_nat (length x)) y.
Proof.
  revert n. induction x as [|o r IH]; intros n; cbn [app number_opts length].
  - rewrite N.add_0_r. reflexivity.
  - rewrite IH. replace (N.succ n + N.of_nat (length r)) with (n + N.of_nat (S (length r))) by lia. reflexivity.
Qed.

Theorem cv_enum_snoc name nm pfx opts o :
  opts <> [] ->
  exists v, en_vals (cv_enum name (mkEnum nm pfx (opts ++ [o]))) =
            en_vals (cv_enum name (mkEnum nm pfx opts)) ++ [v] /\
            snd v = N.of_nat (length (en_vals (cv_enum name (mkEnum nm pfx opts)))).
Proof.
  intros Hne. destruct opts as [|o0 r]; [contradiction|].
  unfold J5sConvert.cv_enum. cbn [e_opts e_prefix app].
  destruct (explicit_zero _ o0); cbn [en_vals].
  - rewrite number_opts_app. cbn [number_opts].
    eexists. split; [rewrite app_comm_cons; reflexivity|].
    cbn [snd length]. rewrite number_opts_length. lia.
  - change (o0 :: r ++ [o]) with ((o0 :: r) ++ [o]). rewrite number_opts_app. cbn [number_opts].
    eexists. split; [rewrite app_comm_cons; reflexivity|].
    cbn [snd length]. rewrite number_opts_length. cbn [length]. lia.
Qed.

(* the zero value of an enum is <PREFIX>UNSPECIFIED whatever its options are (fix a65e1f2), so
   it does not depend on options added at the end - not even on the first one *)
Theorem cv_enum_zero name e :
  nth_error (en_vals (cv_enum name e)) 0 = Some (enum_prefix screaming name (e_prefix e) ++ unspecified, 0).
Proof.
  unfold J5sConvert.cv_enum. destruct (e_opts e) as [|o r]; [reflexivity|].
  destruct (explicit_zero _ o) eqn:Hx; cbn [en_vals nth_error]; [|reflexivity].
  unfold explicit_zero in Hx. apply str_eqb_eq in Hx. rewrite Hx. reflexivity.
Qed.

Theorem cv_enum_zero_stable name nm pfx opts o :
  nth_error (en_vals (cv_enum name (mkEnum nm pfx (opts ++ [o])))) 0 =
  nth_error (en_vals (cv_enum name (mkEnum nm pfx opts))) 0.
Proof. rewrite !cv_enum_zero. reflexivity. Qed.

End Edit.

(* C17, the List method: "List is scoped by the declared shard keys". The clause is stated over an
   ARBITRARY component list (like the clauses of EntitySpec.v) and proved of every expansion of a
   declaration in the quantifier. Written after seeded change C17-J (a key that is primary AND shard
   dropped out of List's path while Get / Events kept it): the clause about List was only in the
   Part-B theorem C17_list_path (literal default base path); this one has no base-path hypothesis. *)
From Coq Require Import String Ascii List NArith Bool PeanoNat.
From J5V.lib Require Import Outcome Strcase.
From J5V.model Require Import Entity.
From J5V.proofs Require Import StrcaseProofs EntityProofs EntitySpec EntitySpecProofs.
Import ListNotations.
Local Open Scope N_scope.

(* the keys List is scoped by: key-typed keys flagged shardKey - primary or not *)
Definition key_in_list (k : ekey) : bool := key_typed k && k_shard k.
Definition shard_key_names (e : entity) : list bytes :=
  map (fun k => to_snake (key_name k)) (filter key_in_list (e_keys e)).

(* the path parameters of List are the shard keys in declaration order *)
Definition spec_list_path (e : entity) (cs : list component) : Prop :=
  forall s g l v, In s (svcs_in cs 1) -> is_query_svc s = true -> sv_methods s = [g; l; v] ->
    rule_params (mt_path l) = shard_key_names e.

Lemma list_keys_incl_get_keys : forall e u, In u (list_keys e) -> In u (get_keys e).
Proof.
  intros e u H. unfold list_keys, get_keys in *. apply in_map_iff in H. destruct H as [k [<- Hk]].
  apply in_map_iff. exists k. split; [reflexivity|]. apply filter_In in Hk. destruct Hk as [Hin Hk].
  apply filter_In. split; [exact Hin|]. apply andb_true_iff in Hk. destruct Hk as [H1 H2].
  rewrite H1, H2. cbn. apply orb_true_r.
Qed.

Theorem list_path_params : forall e,
  Forall (fun p => plain_seg p = true) (segments (query_base e)) ->
  Forall (fun u => key_seg_ok u = true) (list_keys e) ->
  rule_params (nth 1 (query_paths e) []) = map (fun u => to_snake (uf_name u)) (list_keys e).
Proof.
  intros e Hb Hk. unfold query_paths. cbn [nth].
  assert (Hks : Forall (fun p => seg_ok p = true) (key_path (list_keys e))).
  { apply key_path_seg_ok. eapply Forall_impl; [|exact Hk]. intros u H. unfold key_seg_ok in H.
    apply andb_true_iff in H. tauto. }
  assert (Hkp : Forall (fun p => seg_param_ok p = true) (key_path (list_keys e))).
  { unfold key_path. apply Forall_map. eapply Forall_impl; [|exact Hk]. intros u H. unfold key_seg_ok in H.
    apply andb_true_iff in H. cbn [app seg_param_ok]. tauto. }
  assert (Hsb : segments (query_base e) <> []).
  { unfold query_base. rewrite app_assoc. change (bs "/q") with ([47] ++ bs "q").
    rewrite segments_app_slash. intros H. apply app_eq_nil in H. destruct H as [_ H]. discriminate. }
  rewrite (path_join_segments _ _ Hks).
  set (sb := segments (query_base e)) in *. set (kp := key_path (list_keys e)) in *.
  assert (Ok1 : Forall (fun p => seg_ok p = true) (sb ++ kp)).
  { apply Forall_app. split; [apply segments_seg_ok|assumption]. }
  assert (Pk1 : Forall (fun p => seg_param_ok p = true) (sb ++ kp)).
  { apply Forall_app. split; [|assumption]. eapply Forall_impl; [|exact Hb]. apply plain_seg_param_ok. }
  assert (Ne1 : sb ++ kp <> []) by (intros H; apply app_eq_nil in H; tauto).
  destruct (rule_params_join (sb ++ kp) Ne1 Ok1 Pk1) as [_ P1].
  rewrite P1, flat_map_app, (plain_no_params sb Hb). cbn [app]. apply key_path_params.
Qed.

Lemma list_keys_names : forall e,
  map (fun u => to_snake (uf_name u)) (list_keys e) = shard_key_names e.
Proof. intros e. unfold list_keys, shard_key_names. rewrite map_map. reflexivity. Qed.

Theorem spec_list_path_holds : forall e fl, in_quantifier e = true -> spec_list_path e (expand_with e fl).
Proof.
  intros e fl H s g l v Hs Hq Hm. rewrite svcs_in_expand_1 in Hs.
  destruct (query_svc_shape e) as [g' [l' [v' [Hshape [_ [_ [_ [_ [_ [Hpaths _]]]]]]]]]].
  destruct Hs as [<-|Hs].
  2:{ apply in_map_iff in Hs. destruct Hs as [c [<- _]]. discriminate. }
  rewrite Hshape in Hm. cbn [sv_methods] in Hm. inversion Hm; subst g' l' v'.
  assert (Hk : Forall (fun u => key_seg_ok u = true) (list_keys e)).
  { pose proof (in_quantifier_key_segs e H) as Hg. rewrite Forall_forall in *. intros u Hu.
    apply Hg. now apply list_keys_incl_get_keys. }
  pose proof (list_path_params e (in_quantifier_base_plain e H) Hk) as P1.
  unfold query_paths in *. cbn [map] in Hpaths. inversion Hpaths as [[Eg El Ev]].
  cbn [nth] in P1. rewrite El. rewrite <- list_keys_names. exact P1.
Qed.

(* every shard key is also a path key of Get and Events: List's parameters are a sub-list of theirs
   (a key cannot be in List's path without being in Get's) *)
Theorem shard_keys_are_path_keys : forall e n, In n (shard_key_names e) -> In n (path_key_names e).
Proof.
  intros e n H. unfold shard_key_names, path_key_names in *. apply in_map_iff in H. destruct H as [k [<- Hk]].
  apply in_map_iff. exists k. split; [reflexivity|]. apply filter_In in Hk. destruct Hk as [Hin Hk].
  apply filter_In. split; [exact Hin|]. unfold key_in_list in Hk. unfold key_in_path.
  apply andb_true_iff in Hk. destruct Hk as [H1 H2]. rewrite H1, H2. cbn. apply orb_true_r.
Qed.

(* a key that is BOTH primary and shard is a path parameter of List (the combination seeded change
   C17-J lost): stated for every declaration *)
Theorem primary_shard_key_in_list : forall e k, In k (e_keys e) ->
  key_typed k = true -> key_primary k = true -> k_shard k = true ->
  In (to_snake (key_name k)) (shard_key_names e).
Proof.
  intros e k Hin Ht _ Hs. unfold shard_key_names. apply in_map_iff. exists k. split; [reflexivity|].
  apply filter_In. split; [exact Hin|]. unfold key_in_list. now rewrite Ht, Hs.
Qed.

(* about what the compiler emits: for every declaration in the quantifier that compiles, List's path
   parameters are the declared shard keys in declaration order, every one of them also a path
   parameter of Get and of Events *)
Theorem list_scoped_by_shard_keys : forall e cs, compile e = Ok cs -> in_quantifier e = true ->
  spec_list_path e cs /\ spec_query_paths e cs
  /\ (forall n, In n (shard_key_names e) -> In n (path_key_names e)).
Proof.
  intros e cs H Hq. destruct (compile_inv e cs H) as [_ [_ [Hl [fl [_ [-> _]]]]]].
  split; [now apply spec_list_path_holds|]. split; [now apply spec_query_paths_holds|].
  apply shard_keys_are_path_keys.
Qed.

(* non-vacuity: one declaration with the four flag combinations primary x shard; it is in the
   quantifier, compiles, List takes the two shard keys, Get all but the plain one *)
Definition key_flags_sample : entity :=
  mkE (bs "foo.v1") (bs "Foo") []
      [mkK (mkU (bs "fooId") (KKey true None None) false false) false;
       mkK (mkU (bs "bothId") (KKey true None None) false false) true;
       mkK (mkU (bs "shardId") (KKey false None None) false false) true;
       mkK (mkU (bs "plainId") (KKey false None None) false false) false]
      [] [bs "ACTIVE"] [] [] [] None [].
Lemma key_flags_sample_ok :
  in_quantifier key_flags_sample = true /\ is_ok (compile key_flags_sample) = true
  /\ shard_key_names key_flags_sample = [bs "both_id"; bs "shard_id"]
  /\ path_key_names key_flags_sample = [bs "foo_id"; bs "both_id"; bs "shard_id"]
  /\ nth 1 (query_paths key_flags_sample) [] = bs "/foo/v1/foo/q/{both_id}/{shard_id}".
Proof. repeat split; vm_compute; reflexivity. Qed.

(* ---- the List request: the shard keys, then page and query; the key fields are the very fields of
   the Get and Events requests (same type, key options, required / optional flags) --------------- *)
Definition spec_list_request (e : entity) (cs : list component) : Prop :=
  forall s g l v, In s (svcs_in cs 1) -> is_query_svc s = true -> sv_methods s = [g; l; v] ->
    exists mg ml mv,
      has_msg cs 1 mg /\ m_name mg = mt_in g /\ has_msg cs 1 ml /\ m_name ml = mt_in l
      /\ has_msg cs 1 mv /\ m_name mv = mt_in v
      /\ map f_json (m_fields ml)
         = map key_name (filter key_in_list (e_keys e)) ++ [bs "page"; bs "query"]
      /\ (forall f, In f (firstn (length (shard_key_names e)) (m_fields ml)) ->
            In f (m_fields mg) /\ In f (m_fields mv)).

Lemma list_request_shape : forall e,
  exists g l v,
    query_svc e = mkSvc (query_prefix e ++ bs "QueryService") (SQuery (snake_name e)) [g; l; v]
    /\ In (CMsg 1 (mkMsg (mt_in g) None false (map of_ufield (get_keys e)) [])) (query_components e)
    /\ In (CMsg 1 (mkMsg (mt_in l) None false (map of_ufield (list_keys e) ++ [page_request; query_request]) []))
          (query_components e)
    /\ In (CMsg 1 (mkMsg (mt_in v) None false (map of_ufield (get_keys e) ++ [page_request; query_request]) []))
          (query_components e).
Proof.
  intros e. unfold query_svc, query_components, service_components.
  rewrite svcs_in_app, svcs_in_flat_map. cbn [flat_map]. rewrite !svcs_in_method_msgs.
  cbn [app svcs_in flat_map N.eqb Pos.eqb map snd method_components]. do 3 eexists.
  split; [rewrite <- app_assoc; reflexivity|].
  cbn [mt_name mt_sq mt_verb mt_path mt_in map fst]. repeat split.
  - cbn [app In]. left. reflexivity.
  - cbn [app In]. do 2 right. left. reflexivity.
  - cbn [app In]. do 4 right. left. reflexivity.
Qed.

Lemma map_json_of_ufield : forall us, map f_json (map of_ufield us) = map uf_name us.
Proof.
  induction us as [|u us IH]; [reflexivity|]. cbn [map]. rewrite IH. f_equal.
  destruct (of_ufield_key u) as [H _]. exact H.
Qed.

Theorem spec_list_request_holds : forall e fl, spec_list_request e (expand_with e fl).
Proof.
  intros e fl s g l v Hs Hq Hm. rewrite svcs_in_expand_1 in Hs.
  destruct (list_request_shape e) as [g' [l' [v' [Hshape [Hg [Hl Hv]]]]]].
  destruct Hs as [<-|Hs].
  2:{ apply in_map_iff in Hs. destruct Hs as [c [<- _]]. discriminate. }
  rewrite Hshape in Hm. cbn [sv_methods] in Hm. inversion Hm; subst g' l' v'.
  eexists; eexists; eexists.
  split; [apply (in_expand_query e fl _ Hg)|]. split; [reflexivity|].
  split; [apply (in_expand_query e fl _ Hl)|]. split; [reflexivity|].
  split; [apply (in_expand_query e fl _ Hv)|]. split; [reflexivity|].
  cbn [m_fields]. split.
  - rewrite map_app, map_json_of_ufield. unfold list_keys. rewrite map_map. reflexivity.
  - intros f Hf.
    assert (Hlen : length (shard_key_names e) = length (map of_ufield (list_keys e))).
    { unfold shard_key_names, list_keys. rewrite !map_length. reflexivity. }
    rewrite Hlen, firstn_app, Nat.sub_diag, firstn_all in Hf. cbn [firstn] in Hf. rewrite app_nil_r in Hf.
    apply in_map_iff in Hf. destruct Hf as [u [<- Hu]]. apply list_keys_incl_get_keys in Hu.
    split; [|apply in_or_app; left]; apply in_map; exact Hu.
Qed.

Theorem list_request_scoped_by_shard_keys : forall e cs, compile e = Ok cs -> spec_list_request e cs.
Proof.
  intros e cs H. destruct (compile_inv e cs H) as [_ [_ [Hl [fl [_ [-> _]]]]]].
  apply spec_list_request_holds.
Qed.

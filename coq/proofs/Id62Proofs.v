(* Id62Proofs.v — lemmas behind props/C20.v *)
From Coq Require Import String List Arith NArith Bool Lia ZifyN ZifyNat ZifyBool.
From J5V.lib Require Import Radix Outcome.
From J5V.model Require Import Id62.
From J5V.gen Require Id62Gen.
Import ListNotations.
Local Open Scope N_scope.
Local Open Scope bool_scope.
Arguments Nat.sub : simpl never.

Definition is_byte (b : N) : Prop := b < 256.
Definition wf_id (bs : list N) : Prop := length bs = 16%nat /\ Forall is_byte bs.

(* ---------- generic radix facts ---------------------------------------- *)
Lemma be_as_le b ds : of_digits_be b 0 ds = of_digits_le b (rev ds).
Proof.
  rewrite <- (rev_involutive ds) at 1. rewrite of_digits_be_rev_le. lia.
Qed.

Lemma to_digits_fuel b f1 : 2 <= b -> forall f2 n,
  n < b ^ N.of_nat f1 -> (f1 <= f2)%nat -> to_digits_le b f2 n = to_digits_le b f1 n.
Proof.
  intros Hb. induction f1 as [|f1 IH]; intros f2 n Hn Hf.
  - change (N.of_nat 0) with 0 in Hn. rewrite N.pow_0_r in Hn. apply N.lt_1_r in Hn. subst n.
    destruct f2; reflexivity.
  - destruct f2 as [|f2]; [lia|]. cbn [to_digits_le].
    destruct (n =? 0); [reflexivity|]. f_equal. apply IH; [|lia].
    rewrite Nnat.Nat2N.inj_succ, N.pow_succ_r' in Hn.
    apply N.div_lt_upper_bound; lia.
Qed.

Lemma of_digits_le_app_zeros b ds k :
  of_digits_le b (ds ++ repeat 0 k) = of_digits_le b ds.
Proof.
  induction ds as [|d r IH]; cbn [app of_digits_le].
  - induction k as [|k IHk]; cbn [repeat of_digits_le]; [reflexivity|]. rewrite IHk. lia.
  - rewrite IH. reflexivity.
Qed.

Lemma of_digits_le_inj b : 2 <= b -> forall l1 l2,
  length l1 = length l2 ->
  Forall (fun d => d < b) l1 -> Forall (fun d => d < b) l2 ->
  of_digits_le b l1 = of_digits_le b l2 -> l1 = l2.
Proof.
  intros Hb. induction l1 as [|d1 r1 IH]; intros [|d2 r2] Hl H1 H2 He;
    try discriminate; [reflexivity|].
  inversion H1 as [|? ? Hd1 Hr1]; inversion H2 as [|? ? Hd2 Hr2]; subst.
  cbn [of_digits_le] in He.
  assert (Hm1 : d1 = (d1 + b * of_digits_le b r1) mod b).
  { apply N.mod_unique with (q := of_digits_le b r1); lia. }
  assert (Hm2 : d2 = (d2 + b * of_digits_le b r2) mod b).
  { apply N.mod_unique with (q := of_digits_le b r2); lia. }
  assert (d1 = d2) by (rewrite Hm1, Hm2, He; reflexivity). subst d2.
  f_equal. apply IH; auto.
  assert (b * of_digits_le b r1 = b * of_digits_le b r2) by lia.
  apply N.mul_cancel_l in H; [exact H|lia].
Qed.

Lemma rev_repeat {A} (x : A) k : rev (repeat x k) = repeat x k.
Proof.
  induction k as [|k IH]; cbn [repeat rev]; [reflexivity|]. rewrite IH.
  clear IH. induction k as [|k IH]; cbn [repeat app]; [reflexivity|]. rewrite IH. reflexivity.
Qed.

Lemma Forall_repeat {A} (P : A -> Prop) x k : P x -> Forall P (repeat x k).
Proof. intros; induction k; cbn; constructor; auto. Qed.

(* ---------- alphabet ---------------------------------------------------- *)
Lemma digit_alphabet d : d < 62 -> digit_val (alphabet d) = Some d.
Proof.
  intros H. unfold alphabet, digit_val.
  destruct (d <? 10) eqn:E1.
  - replace ((48 <=? 48 + d) && (48 + d <=? 57)) with true by lia. f_equal. lia.
  - destruct (d <? 36) eqn:E2.
    + replace ((48 <=? 97 + (d - 10)) && (97 + (d - 10) <=? 57)) with false by lia.
      replace ((97 <=? 97 + (d - 10)) && (97 + (d - 10) <=? 122)) with true by lia.
      f_equal. lia.
    + replace ((48 <=? 65 + (d - 36)) && (65 + (d - 36) <=? 57)) with false by lia.
      replace ((97 <=? 65 + (d - 36)) && (65 + (d - 36) <=? 122)) with false by lia.
      replace ((65 <=? 65 + (d - 36)) && (65 + (d - 36) <=? 90)) with true by lia.
      f_equal. lia.
Qed.

Lemma alphabet_not_sign d : d < 62 -> alphabet d <> 43 /\ alphabet d <> 45.
Proof.
  intros H. unfold alphabet. destruct (d <? 10) eqn:E1; [lia|].
  destruct (d <? 36) eqn:E2; lia.
Qed.

Definition id62_class : list (N * N) := [(48, 57); (65, 90); (97, 122)].

Lemma alphabet_in_class d : d < 62 -> in_class id62_class (alphabet d) = true.
Proof.
  intros H. unfold in_class, id62_class, alphabet. cbn [existsb fst snd].
  destruct (d <? 10) eqn:E1; [lia|]. destruct (d <? 36) eqn:E2; lia.
Qed.

Lemma digits_val_app s t :
  digits_val (s ++ t) =
  match digits_val s, digits_val t with Some a, Some b => Some (a ++ b) | _, _ => None end.
Proof.
  induction s as [|c r IH]; cbn [app digits_val].
  - destruct (digits_val t); reflexivity.
  - rewrite IH. destruct (digit_val c); [|reflexivity].
    destruct (digits_val r); [|reflexivity]. destruct (digits_val t); reflexivity.
Qed.

Lemma digits_val_zeros k : digits_val (repeat 48 k) = Some (repeat 0 k).
Proof. induction k as [|k IH]; cbn [repeat digits_val]; [reflexivity|]. rewrite IH. reflexivity. Qed.

Lemma digits_val_alphabet ds :
  Forall (fun d => d < 62) ds -> digits_val (map alphabet ds) = Some ds.
Proof.
  induction 1 as [|d r Hd Hr IH]; cbn [map digits_val]; [reflexivity|].
  rewrite digit_alphabet, IH by assumption. reflexivity.
Qed.

(* ---------- bytes ------------------------------------------------------- *)
Lemma of_bytes_bound bs : Forall is_byte bs -> of_bytes_be bs < 256 ^ N.of_nat (length bs).
Proof.
  intros H. unfold of_bytes_be. rewrite be_as_le. rewrite <- rev_length.
  apply of_digits_le_bound; [lia|]. apply Forall_rev. exact H.
Qed.

Lemma pow_facts : 256 ^ 16 = 2 ^ 128 /\ 2 ^ 128 < 62 ^ 22 /\ 62 ^ 21 < 2 ^ 128.
Proof. vm_compute. repeat split; reflexivity. Qed.

Lemma wf_id_bound bs : wf_id bs -> of_bytes_be bs < 2 ^ 128.
Proof.
  intros [Hl Hb]. pose proof (of_bytes_bound bs Hb) as H. rewrite Hl in H.
  change (N.of_nat 16) with 16 in H. destruct pow_facts as [E _]. rewrite E in H. exact H.
Qed.

(* ---------- render ------------------------------------------------------ *)
Definition digits62 (bs : list N) : list N := to_digits_le 62 22 (of_bytes_be bs).

Lemma digits62_len bs : (length (digits62 bs) <= 22)%nat.
Proof. apply to_digits_len. Qed.

Lemma render_eq bs : wf_id bs ->
  render bs = Ok (repeat 48 (22 - length (digits62 bs)) ++ rev (map alphabet (digits62 bs))).
Proof.
  intros Hwf. pose proof (wf_id_bound bs Hwf) as Hn. destruct Hwf as [Hl Hb].
  destruct pow_facts as [_ [H62 _]].
  unfold render, digits62. rewrite Hl. change (8 * 16 + 1)%nat with 129%nat.
  set (n := of_bytes_be bs) in *.
  assert (Hf : to_digits_le 62 129 n = to_digits_le 62 22 n).
  { apply to_digits_fuel; [lia| |lia]. change (N.of_nat 22) with 22. lia. }
  unfold text62. destruct (n =? 0) eqn:E0.
  - apply N.eqb_eq in E0. rewrite E0. reflexivity.
  - rewrite Hf. set (ds := to_digits_le 62 22 n).
    assert (Hlen : (length ds <= 22)%nat) by apply to_digits_len.
    assert (Hne : (0 < length ds)%nat).
    { subst ds. cbn [to_digits_le]. rewrite E0. cbn [length]. lia. }
    rewrite rev_length, map_length.
    destruct (Nat.ltb (length ds) 22) eqn:E1; [reflexivity|].
    destruct (Nat.ltb 22 (length ds)) eqn:E2; [lia|].
    replace (22 - length ds)%nat with 0%nat by lia. reflexivity.
Qed.

Lemma render_len bs s : wf_id bs -> render bs = Ok s -> length s = 22%nat.
Proof.
  intros Hwf. rewrite render_eq by assumption. intros [= <-].
  rewrite app_length, repeat_length, rev_length, map_length.
  pose proof (digits62_len bs). lia.
Qed.

Lemma render_no_panic bs : wf_id bs -> exists s, render bs = Ok s.
Proof. intros H. rewrite render_eq by assumption. eauto. Qed.

Lemma digits62_bound bs : Forall (fun d => d < 62) (digits62 bs).
Proof. apply to_digits_bound. lia. Qed.

Lemma render_class bs s : wf_id bs -> render bs = Ok s ->
  forallb (in_class id62_class) s = true.
Proof.
  intros Hwf. rewrite render_eq by assumption. intros [= <-].
  rewrite forallb_app. apply andb_true_iff. split.
  - apply forallb_forall. intros c Hc. apply repeat_spec in Hc. subst c. reflexivity.
  - apply forallb_forall. intros c Hc. apply in_rev in Hc. apply in_map_iff in Hc.
    destruct Hc as [d [<- Hd]]. apply alphabet_in_class.
    pose proof (digits62_bound bs) as Hf. rewrite Forall_forall in Hf. auto.
Qed.

Lemma pattern_parsed : parse_pattern Id62Gen.pattern_string = Some (id62_class, 22).
Proof. vm_compute. reflexivity. Qed.

Lemma render_matches bs s : wf_id bs -> render bs = Ok s ->
  exists p, parse_pattern Id62Gen.pattern_string = Some p /\ matches p s = true.
Proof.
  intros Hwf Hr. exists (id62_class, 22). split; [exact pattern_parsed|].
  unfold matches. cbn [fst snd]. rewrite (render_len bs s Hwf Hr), (render_class bs s Hwf Hr).
  reflexivity.
Qed.

(* ---------- parse (render b) = b --------------------------------------- *)
Lemma strip_sign_noop s :
  s <> [] -> (forall c, In c s -> c <> 43 /\ c <> 45) -> strip_sign s = s.
Proof.
  destruct s as [|c r]; [congruence|]. intros _ H. cbn [strip_sign].
  destruct (H c (or_introl eq_refl)) as [H1 H2].
  replace ((c =? 43) || (c =? 45)) with false by lia. reflexivity.
Qed.

Lemma parse_value_render bs s : wf_id bs -> render bs = Ok s ->
  parse_value s = Some (of_bytes_be bs).
Proof.
  intros Hwf Hr. pose proof (render_len bs s Hwf Hr) as Hlen.
  pose proof (wf_id_bound bs Hwf) as Hn.
  rewrite render_eq in Hr by assumption. injection Hr as <-.
  pose proof (digits62_bound bs) as Hb.
  unfold parse_value. rewrite strip_sign_noop.
  - set (s := repeat 48 _ ++ _) in *.
    destruct s as [|c r] eqn:Es; [cbn in Hlen; lia|]. rewrite <- Es. subst s.
    rewrite digits_val_app, digits_val_zeros, <- map_rev, digits_val_alphabet
      by (apply Forall_rev; exact Hb).
    f_equal. rewrite of_digits_be_app.
    replace (of_digits_be 62 0 (repeat 0 (22 - length (digits62 bs)))) with 0.
    2:{ pose proof (of_digits_be_zeros 62 (22 - length (digits62 bs)) []) as Hz.
        rewrite app_nil_r in Hz. rewrite Hz. reflexivity. }
    rewrite be_as_le, rev_involutive. unfold digits62. apply of_to_le; [lia|].
    destruct pow_facts as [_ [H62 _]]. change (N.of_nat 22) with 22. lia.
  - intro E. rewrite E in Hlen. cbn in Hlen. lia.
  - intros c Hc. apply in_app_or in Hc. destruct Hc as [Hc|Hc].
    + apply repeat_spec in Hc. subst c. lia.
    + apply in_rev in Hc. apply in_map_iff in Hc. destruct Hc as [d [<- Hd]].
      apply alphabet_not_sign. rewrite Forall_forall in Hb. auto.
Qed.

Lemma bytes_canonical bs fuel : wf_id bs -> (16 <= fuel)%nat ->
  let ls := to_bytes_be fuel (of_bytes_be bs) in
  (length ls <= 16)%nat /\ repeat 0 (16 - length ls) ++ ls = bs.
Proof.
  intros Hwf Hf. pose proof Hwf as [Hl Hb]. cbv zeta. unfold to_bytes_be.
  set (n := of_bytes_be bs).
  assert (Hn : n < 256 ^ N.of_nat 16).
  { subst n. rewrite <- Hl. apply of_bytes_bound. exact Hb. }
  rewrite (to_digits_fuel 256 16) by (try lia; exact Hn).
  set (ls := to_digits_le 256 16 n).
  assert (Hlen : (length ls <= 16)%nat) by apply to_digits_len.
  rewrite rev_length. split; [exact Hlen|].
  (* compare little-endian lists of equal length *)
  assert (E : ls ++ repeat 0 (16 - length ls) = rev bs).
  { apply (of_digits_le_inj 256); [lia| | | |].
    - rewrite app_length, repeat_length, rev_length. lia.
    - apply Forall_app. split; [apply to_digits_bound; lia|apply Forall_repeat; lia].
    - apply Forall_rev. exact Hb.
    - rewrite of_digits_le_app_zeros. subst ls. rewrite of_to_le by (try lia; exact Hn).
      subst n. unfold of_bytes_be. apply be_as_le. }
  rewrite <- (rev_involutive bs), <- E, rev_app_distr, rev_repeat. reflexivity.
Qed.

Lemma parse_render bs s : wf_id bs -> render bs = Ok s -> parse s = Ok bs.
Proof.
  intros Hwf Hr. unfold parse. rewrite (parse_value_render bs s Hwf Hr).
  pose proof (render_len bs s Hwf Hr) as Hlen. rewrite Hlen.
  destruct (bytes_canonical bs (22 + 1) Hwf ltac:(lia)) as [H1 H2].
  cbv zeta. replace (Nat.ltb 16 _) with false by (symmetry; apply Nat.ltb_ge; exact H1).
  rewrite H2. reflexivity.
Qed.

Lemma render_inj b1 b2 s : wf_id b1 -> wf_id b2 -> render b1 = Ok s -> render b2 = Ok s -> b1 = b2.
Proof.
  intros H1 H2 R1 R2. pose proof (parse_render b1 s H1 R1) as P1.
  pose proof (parse_render b2 s H2 R2) as P2. congruence.
Qed.

(* ---------- parse is total, shape of results, rejection ---------------- *)
Lemma parse_total s : is_panic (parse s) = false /\ parse s <> OutOfFuel.
Proof.
  unfold parse. destruct (parse_value s); cbv zeta; [|split; [reflexivity|discriminate]].
  destruct (Nat.ltb 16 _); split; try reflexivity; discriminate.
Qed.

Lemma to_bytes_complete fuel n : n < 256 ^ N.of_nat fuel ->
  of_digits_le 256 (to_digits_le 256 fuel n) = n.
Proof. intros; apply of_to_le; [lia|assumption]. Qed.

Lemma parse_ok_shape s bs : parse s = Ok bs -> length bs = 16%nat /\ Forall is_byte bs.
Proof.
  unfold parse. destruct (parse_value s) as [n|]; [|discriminate]. cbv zeta.
  destruct (Nat.ltb 16 _) eqn:E; [discriminate|]. intros [= <-].
  apply Nat.ltb_ge in E. split.
  - rewrite app_length, repeat_length. lia.
  - apply Forall_app. split; [apply Forall_repeat; unfold is_byte; lia|].
    unfold to_bytes_be. apply Forall_rev. apply to_digits_bound. lia.
Qed.

(* the value denoted by a digit string of length L is below 62^L <= 256^L *)
Lemma digits_val_len s ds : digits_val s = Some ds ->
  length ds = length s /\ Forall (fun d => d < 62) ds.
Proof.
  revert ds. induction s as [|c r IH]; intros ds; cbn [digits_val].
  - intros [= <-]. split; [reflexivity|constructor].
  - destruct (digit_val c) as [d|] eqn:Ed; [|discriminate].
    destruct (digits_val r) as [dr|]; [|discriminate]. intros [= <-].
    destruct (IH dr eq_refl) as [Hl Hf]. split; [cbn; lia|]. constructor; [|exact Hf].
    unfold digit_val in Ed.
    destruct ((48 <=? c) && (c <=? 57)) eqn:E1; [injection Ed as <-; lia|].
    destruct ((97 <=? c) && (c <=? 122)) eqn:E2; [injection Ed as <-; lia|].
    destruct ((65 <=? c) && (c <=? 90)) eqn:E3; [injection Ed as <-; lia|discriminate].
Qed.

Lemma strip_sign_len s : (length (strip_sign s) <= length s)%nat.
Proof. destruct s as [|c r]; cbn; [lia|]. destruct ((c =? 43) || (c =? 45)); cbn; lia. Qed.

Lemma parse_value_bound s n : parse_value s = Some n -> n < 256 ^ N.of_nat (length s).
Proof.
  unfold parse_value. pose proof (strip_sign_len s) as Hs.
  destruct (strip_sign s) as [|c r] eqn:Eb; [discriminate|].
  destruct (digits_val (c :: r)) as [ds|] eqn:Ed; [|discriminate]. intros [= <-].
  destruct (digits_val_len _ _ Ed) as [Hl Hf].
  rewrite be_as_le.
  assert (H1 : of_digits_le 62 (rev ds) < 62 ^ N.of_nat (length (rev ds))).
  { apply of_digits_le_bound; [lia|apply Forall_rev; exact Hf]. }
  rewrite rev_length, Hl in H1.
  assert (H2 : 62 ^ N.of_nat (length (c :: r)) <= 256 ^ N.of_nat (length s)).
  { transitivity (256 ^ N.of_nat (length (c :: r))).
    - apply N.pow_le_mono_l. lia.
    - apply N.pow_le_mono_r; lia. }
  lia.
Qed.

(* a value that needs more than 16 bytes is rejected, and an accepted string
   denotes exactly the returned bytes *)
Lemma parse_value_exact s n bs : parse_value s = Some n -> parse s = Ok bs -> of_bytes_be bs = n.
Proof.
  intros Hv. unfold parse. rewrite Hv. cbv zeta.
  destruct (Nat.ltb 16 _) eqn:E; [discriminate|]. intros [= <-].
  unfold of_bytes_be, to_bytes_be. rewrite be_as_le, rev_app_distr, rev_involutive, rev_repeat.
  rewrite of_digits_le_app_zeros. apply to_bytes_complete.
  pose proof (parse_value_bound s n Hv) as Hb.
  eapply N.lt_le_trans; [exact Hb|]. apply N.pow_le_mono_r; lia.
Qed.

Lemma parse_rejects_big s n : parse_value s = Some n -> 2 ^ 128 <= n -> is_err (parse s) = true.
Proof.
  intros Hv Hbig. destruct (parse s) as [bs| | |] eqn:Ep; try reflexivity.
  - exfalso. pose proof (parse_value_exact s n bs Hv Ep) as He.
    destruct (parse_ok_shape s bs Ep) as [Hl Hf].
    pose proof (wf_id_bound bs (conj Hl Hf)). lia.
  - pose proof (parse_total s) as [Hp _]. rewrite Ep in Hp. discriminate.
  - pose proof (parse_total s) as [_ Hp]. congruence.
Qed.

(* ---------- NewHash ----------------------------------------------------- *)
Lemma new_hash_pure ns1 ins1 ns2 ins2 :
  ns1 ++ concat ins1 = ns2 ++ concat ins2 -> new_hash ns1 ins1 = new_hash ns2 ins2.
Proof. unfold new_hash. intros ->. reflexivity. Qed.

Lemma new_hash_len ns ins : (length (new_hash ns ins) <= 16)%nat.
Proof. unfold new_hash. apply firstn_le_length. Qed.

(* ---------- the language Parse accepts ----------------------------------- *)
Lemma to_bytes_len_small fuel n : n < 2 ^ 128 -> (length (to_bytes_be fuel n) <= 16)%nat.
Proof.
  intros Hn. unfold to_bytes_be. rewrite rev_length.
  destruct (Nat.le_gt_cases 16 fuel) as [H|H].
  - rewrite (to_digits_fuel 256 16) by (try lia; destruct pow_facts as [E _]; change (N.of_nat 16) with 16; lia).
    apply to_digits_len.
  - pose proof (to_digits_len 256 fuel n). lia.
Qed.

(* Parse accepts exactly: an optional sign, then one or more base62 digits, of magnitude < 2^128 —
   any length, any number of leading zeros; the sign is dropped *)
Lemma parse_accepts_iff s :
  (exists bs, parse s = Ok bs) <-> (exists n, parse_value s = Some n /\ n < 2 ^ 128).
Proof.
  split.
  - intros [bs Hp]. unfold parse in Hp. destruct (parse_value s) as [n|] eqn:Hv; [|discriminate].
    exists n. split; [reflexivity|]. destruct (N.lt_ge_cases n (2 ^ 128)) as [H|H]; [exact H|].
    pose proof (parse_rejects_big s n Hv H) as He. unfold parse in He. rewrite Hv in He. cbv zeta in *.
    destruct (Nat.ltb 16 _); [discriminate|]. discriminate.
  - intros [n [Hv Hn]]. unfold parse. rewrite Hv. cbv zeta.
    pose proof (to_bytes_len_small (length s + 1) n Hn) as Hl.
    replace (Nat.ltb 16 _) with false by (symmetry; apply Nat.ltb_ge; exact Hl). eauto.
Qed.

Lemma digit_val_inv c d : digit_val c = Some d -> c = alphabet d /\ d < 62.
Proof.
  unfold digit_val, alphabet.
  destruct ((48 <=? c) && (c <=? 57)) eqn:E1; [intros [= <-]; replace (c - 48 <? 10) with true by lia; lia|].
  destruct ((97 <=? c) && (c <=? 122)) eqn:E2;
    [intros [= <-]; replace (c - 97 + 10 <? 10) with false by lia; replace (c - 97 + 10 <? 36) with true by lia; lia|].
  destruct ((65 <=? c) && (c <=? 90)) eqn:E3; [|discriminate].
  intros [= <-]. replace (c - 65 + 36 <? 10) with false by lia. replace (c - 65 + 36 <? 36) with false by lia. lia.
Qed.

Lemma digits_val_inv s : forall ds, digits_val s = Some ds -> s = map alphabet ds.
Proof.
  induction s as [|c r IH]; intros ds; cbn [digits_val].
  - intros [= <-]. reflexivity.
  - destruct (digit_val c) as [d|] eqn:Ed; [|discriminate].
    destruct (digits_val r) as [dr|]; [|discriminate]. intros [= <-].
    cbn [map]. f_equal; [apply (digit_val_inv c d Ed)|apply IH; reflexivity].
Qed.

Lemma class_not_sign c : in_class id62_class c = true -> c <> 43 /\ c <> 45.
Proof. unfold in_class, id62_class. cbn [existsb fst snd]. lia. Qed.

(* a string of the published shape: its digits *)
Lemma shaped_digits s n : matches (id62_class, 22) s = true -> parse_value s = Some n ->
  exists ds, digits_val s = Some ds /\ length ds = 22%nat /\ Forall (fun d => d < 62) ds /\ of_digits_be 62 0 ds = n.
Proof.
  unfold matches. cbn [fst snd]. intros Hm Hv. apply andb_true_iff in Hm. destruct Hm as [Hl Hc].
  apply N.eqb_eq in Hl. assert (Hlen : length s = 22%nat) by lia.
  unfold parse_value in Hv. rewrite strip_sign_noop in Hv.
  - destruct s as [|c r] eqn:Es; [discriminate|]. rewrite <- Es in *.
    destruct (digits_val s) as [ds|] eqn:Ed; [|destruct s; discriminate].
    assert (Some (of_digits_be 62 0 ds) = Some n) as E by (destruct s; [discriminate|exact Hv]).
    injection E as E. destruct (digits_val_len _ _ Ed) as [H1 H2].
    exists ds. repeat split; try assumption. lia.
  - intro E. rewrite E in Hlen. discriminate.
  - intros c Hin. apply class_not_sign. rewrite forallb_forall in Hc. auto.
Qed.

(* on strings of the published shape Parse is the exact inverse of String: the only such string
   that parses to an identifier is its rendering (so Parse is injective there) *)
Lemma parse_shaped_inverse s bs : matches (id62_class, 22) s = true -> parse s = Ok bs -> render bs = Ok s.
Proof.
  intros Hm Hp. destruct (parse_ok_shape s bs Hp) as [Hl Hb]. assert (Hwf : wf_id bs) by (split; assumption).
  destruct (render_no_panic bs Hwf) as [s' Hr]. rewrite Hr. f_equal.
  assert (Hv : parse_value s = Some (of_bytes_be bs)).
  { unfold parse in Hp. destruct (parse_value s) as [n|] eqn:Hv; [|discriminate].
    f_equal. symmetry. apply (parse_value_exact s n bs Hv). unfold parse. rewrite Hv. exact Hp. }
  pose proof (parse_value_render bs s' Hwf Hr) as Hv'.
  assert (Hm' : matches (id62_class, 22) s' = true).
  { destruct (render_matches bs s' Hwf Hr) as [p [Hpp Hmm]]. rewrite pattern_parsed in Hpp. injection Hpp as <-. exact Hmm. }
  destruct (shaped_digits s _ Hm Hv) as (ds & Hd & Hn & Hf & He).
  destruct (shaped_digits s' _ Hm' Hv') as (ds' & Hd' & Hn' & Hf' & He').
  rewrite (digits_val_inv s ds Hd), (digits_val_inv s' ds' Hd'). f_equal.
  rewrite <- (rev_involutive ds), <- (rev_involutive ds'). f_equal.
  apply (of_digits_le_inj 62); [lia| | | |].
  - rewrite !rev_length. lia.
  - apply Forall_rev. exact Hf'.
  - apply Forall_rev. exact Hf.
  - rewrite <- !be_as_le. congruence.
Qed.

(* Parse is not a validator of the published pattern: signs, short strings and over-long strings
   with leading zeros are accepted *)
Lemma parse_not_a_validator :
  let id1 := repeat 0 15 ++ [1] in
  parse [45; 49] = Ok id1 /\ parse [43; 49] = Ok id1 /\ parse [49] = Ok id1 /\
  parse (repeat 48 40 ++ [49]) = Ok id1 /\
  matches (id62_class, 22) [45; 49] = false /\ matches (id62_class, 22) (repeat 48 40 ++ [49]) = false /\
  render id1 = Ok (repeat 48 21 ++ [49]).
Proof. vm_compute. repeat split. Qed.

(* ---------- NewHash: no package state ------------------------------------- *)
Lemma new_hash_seq_spec st cs :
  new_hash_seq st cs = (st, map (fun c => new_hash (fst c) (snd c)) cs).
Proof.
  induction cs as [|c r IH]; cbn [new_hash_seq map]; [reflexivity|].
  unfold new_hash_step. rewrite IH. reflexivity.
Qed.

(* the tie: NewHash, and the functions of package id62 it calls, touch no package-level variable and
   start no goroutine; what it calls is the digest it creates itself *)
Lemma newhash_is_stateless :
  Id62Gen.newhash_state_refs = [] /\
  Id62Gen.newhash_calls = ["call:sha1.New"; "call:h.Reset"; "call:h.Write"; "call:h.Write"; "call:h.Sum"; "call:copy"]%string.
Proof. vm_compute. repeat split. Qed.

(* ---------- the compiler and the reader use the published pattern ---------- *)
(* both refer to id62.PatternString (at least once each) and neither has a private copy of the text *)
Definition pattern_single_source : bool :=
  (1 <=? Id62Gen.writer_refs) && (1 <=? Id62Gen.reader_refs) && (Id62Gen.literal_copies =? 0).

Lemma pattern_single_source_ok : pattern_single_source = true.
Proof. vm_compute. reflexivity. Qed.

Lemma nlist_eqb_eq a : forall b, Corr.nlist_eqb a b = true -> a = b.
Proof.
  unfold Corr.nlist_eqb. induction a as [|x r IH]; intros [|y s]; cbn; intros H; try discriminate; [reflexivity|].
  apply andb_true_iff in H. destruct H as [H1 H2]. apply N.eqb_eq in H1. subst. f_equal. apply IH. exact H2.
Qed.

(* the reader's table maps the published pattern, and nothing else, to the id62 format *)
Lemma reader_recognises_published :
  reads_back_as Id62Gen.reader_patterns Id62Gen.reader_id62_format Id62Gen.pattern_string = true.
Proof. vm_compute. reflexivity. Qed.

Lemma reader_only_published pat :
  reads_back_as Id62Gen.reader_patterns Id62Gen.reader_id62_format pat = true -> pat = Id62Gen.pattern_string.
Proof.
  assert (G : forall tab, forallb (fun e => negb (Corr.nlist_eqb (snd e) Id62Gen.reader_id62_format)
                                            || Corr.nlist_eqb (fst e) Id62Gen.pattern_string) tab = true ->
              reads_back_as tab Id62Gen.reader_id62_format pat = true -> pat = Id62Gen.pattern_string).
  { induction tab as [|[k f] r IH]; unfold reads_back_as; cbn [recognise forallb fst snd]; intros Ht H; [discriminate|].
    apply andb_true_iff in Ht. destruct Ht as [H1 H2].
    destruct (Corr.nlist_eqb k pat) eqn:Ek.
    - rewrite H in H1. cbn in H1. apply nlist_eqb_eq in Ek. apply nlist_eqb_eq in H1. congruence.
    - apply IH; assumption. }
  apply G. vm_compute. reflexivity.
Qed.

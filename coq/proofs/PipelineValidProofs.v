(* PipelineValidProofs.v — the computable test of model/PipelineValid.v implies valid_package: a declared
   package that passes it is inside C16_full. *)
From Coq Require Import String Ascii List Arith NArith Bool Lia ZifyN ZifyNat ZifyBool.
From J5V.lib Require Import Outcome Corr.
From J5V.model Require Import Pipeline PipelineCompile PipelineValid.
From J5V.gen Require SwaggerGen.
From J5V.proofs Require Import PipelineProofs.
Import ListNotations.
Local Open Scope N_scope.
Local Open Scope bool_scope.

Section Valid.
Variable to_snake : str -> str.

Lemma clean_part_b_sound part : clean_part_b part = true -> clean_part part.
Proof.
  unfold clean_part_b, clean_part. intros H c Hc. rewrite forallb_forall in H. specialize (H c Hc).
  unfold clean_char_b in H. repeat (apply andb_true_iff in H as [H ?]).
  repeat split; intro E; subst c; cbn in *; discriminate.
Qed.

Lemma wf_part_b_sound props part : wf_part_b props part = true -> wf_part props part.
Proof.
  unfold wf_part_b, wf_part. intro H. apply orb_true_iff in H as [H|H]; [left; apply clean_part_b_sound; exact H|].
  right. destruct part as [|c n]; [discriminate|]. apply andb_true_iff in H as [Hc Hn]. apply N.eqb_eq in Hc. subst c.
  exists n. split; [reflexivity|apply mem_str_In; exact Hn].
Qed.

Lemma snake_inj_b_sound props : snake_inj_b to_snake props = true -> snake_inj to_snake props.
Proof.
  unfold snake_inj_b, snake_inj. intros H n m Hn Hm E. rewrite forallb_forall in H. specialize (H n Hn).
  rewrite forallb_forall in H. specialize (H m Hm). apply orb_true_iff in H as [H|H].
  - apply negb_true_iff in H. rewrite E, str_eqb_refl in H. discriminate.
  - apply str_eqb_eq. exact H.
Qed.

Lemma no_char_b_sound c s : no_char_b c s = true -> no_char c s.
Proof.
  unfold no_char_b, no_char. intros H Hin. apply negb_true_iff in H.
  assert (E : existsb (N.eqb c) s = true) by (apply existsb_exists; exists c; split; [exact Hin|apply N.eqb_refl]).
  rewrite E in H. discriminate.
Qed.

Lemma snake_ok_b_sound props : snake_ok_b to_snake props = true -> snake_ok to_snake props.
Proof.
  unfold snake_ok_b, snake_ok. intros H n Hn. rewrite forallb_forall in H. specialize (H n Hn).
  apply andb_true_iff in H as [A B]. split; apply no_char_b_sound; assumption.
Qed.

Lemma wf_decl_b_sound d : wf_decl_b to_snake d = true -> wf_decl to_snake d.
Proof.
  unfold wf_decl_b, wf_decl. intro H. repeat (apply andb_true_iff in H as [H ?]).
  split; [lia|]. split; [destruct (dm_parts d); [discriminate|discriminate]|]. split.
  - rewrite Forall_forall. intros p Hp. apply wf_part_b_sound. rewrite forallb_forall in H2. apply H2. exact Hp.
  - split; [apply snake_inj_b_sound; assumption|apply snake_ok_b_sound; assumption].
Qed.

Lemma nodup_b_sound l : nodup_b l = true -> NoDup l.
Proof.
  induction l as [|x r IH]; intro H; [constructor|]. cbn [nodup_b] in H. apply andb_true_iff in H as [A B].
  constructor; [|apply IH; exact B]. intro Hin. apply mem_str_In in Hin. rewrite Hin in A. discriminate.
Qed.

Lemma wf_env_b_sound g : wf_env_b g = true -> wf_env g.
Proof.
  unfold wf_env_b, wf_env. intro H. rewrite Forall_forall. intros ks Hks. rewrite forallb_forall in H. specialize (H ks Hks).
  unfold wf_props. rewrite Forall_forall. intros p Hp. rewrite forallb_forall in H. exact (H p Hp).
Qed.

Lemma no_flatten_cycle_b_sound g : no_flatten_cycle_b g = true -> client_env g <> None.
Proof. unfold no_flatten_cycle_b. destruct (client_env g); [discriminate|discriminate]. Qed.

Theorem valid_package_b_sound P : valid_package_b to_snake P = true -> valid_package to_snake P.
Proof.
  unfold valid_package_b, valid_package. intro H.
  apply andb_true_iff in H as [H H6]. apply andb_true_iff in H as [H H5]. apply andb_true_iff in H as [H H4].
  apply andb_true_iff in H as [H H3]. apply andb_true_iff in H as [H1 H2].
  split; [|split; [|split; [|split; [exact H4|split; [apply wf_env_b_sound; exact H5|apply no_flatten_cycle_b_sound; exact H6]]]]].
  - rewrite Forall_forall. intros d Hd. apply wf_decl_b_sound. rewrite forallb_forall in H1. apply H1. exact Hd.
  - apply nodup_b_sound. exact H2.
  - rewrite Forall_forall. intros d Hd Hq. rewrite forallb_forall in H3. specialize (H3 d Hd). unfold list_ok_b in H3.
    rewrite Hq in H3. cbn [negb orb] in H3. destruct (list_root (df_resp d)) as [root| | |]; try discriminate. exists root. reflexivity.
Qed.
End Valid.

(* J5sCompileProofs.v — acceptance of whole packages: in a valid bundle every package compiles
   (conversion, link step, link of the imported files), hence - with compile_sound - the full
   statement of C02. *)
From Coq Require Import String List NArith Bool Lia.
From J5V.lib Require Import Outcome Corr.
From J5V.model Require Import J5sAst Desc J5sWalk J5sLink J5sConvert J5sContract J5sValid.
From J5V.proofs Require Import J5sProofs J5sContractProofs J5sLinkProofs J5sServiceProofs J5sTotalProofs J5sSymbolProofs.
Import ListNotations.
Local Open Scope N_scope.

(* ------------------------------------------------------------------ names *)
Definition starts_upper (s : str) : bool := match s with c :: _ => is_upper c | [] => false end.
Definition nodot_b (s : str) : bool := forallb (fun c => negb (c =? 46)) s.

Lemma split_on_nodot s cur rest :
  nodot_b s = true -> split_on 46 (s ++ rest) cur = split_on 46 rest (rev s ++ cur).
Proof.
  revert cur. induction s as [|c r IH]; intros cur H; cbn in *; [reflexivity|].
  apply andb_true_iff in H. destruct H as [Hc Hr]. apply negb_true_iff in Hc. rewrite Hc.
  rewrite IH by exact Hr. rewrite <- app_assoc. reflexivity.
Qed.

Lemma split_nodot s : nodot_b s = true -> split 46 s = [s].
Proof.
  intros H. unfold split. replace s with (s ++ []) at 1 by apply app_nil_r.
  rewrite split_on_nodot by exact H. cbn. rewrite app_nil_r, rev_involutive. reflexivity.
Qed.

Lemma alnum_nodot s : forallb is_alnum s = true -> nodot_b s = true.
Proof.
  unfold nodot_b. induction s as [|c r IH]; cbn; [reflexivity|]. intros H.
  apply andb_true_iff in H. destruct H as [Hc Hr]. rewrite (IH Hr), andb_true_r.
  apply negb_true_iff. apply N.eqb_neq. intros ->. vm_compute in Hc. discriminate.
Qed.

Lemma type_ident_facts s : type_ident s = true -> starts_upper s = true /\ nodot_b s = true.
Proof.
  destruct s as [|c r]; cbn; [discriminate|]. intros H. apply andb_true_iff in H. destruct H as [Hc Hr].
  split; [exact Hc|]. apply andb_true_iff. split; [|apply alnum_nodot; exact Hr].
  apply negb_true_iff. apply N.eqb_neq. intros ->. vm_compute in Hc. discriminate.
Qed.

Lemma nodot_app x y : nodot_b x = true -> nodot_b y = true -> nodot_b (x ++ y) = true.
Proof. unfold nodot_b. intros Hx Hy. rewrite forallb_app, Hx, Hy. reflexivity. Qed.

Lemma starts_upper_app x y : starts_upper x = true -> starts_upper (x ++ y) = true.
Proof. destruct x; cbn; [discriminate|auto]. Qed.

(* ------------------------------------------------------------------ symbols of a file *)
Lemma list_eqb_eq {A} (eqb : A -> A -> bool) (Heq : forall a c, eqb a c = true <-> a = c) l l' :
  list_eqb eqb l l' = true <-> l = l'.
Proof.
  revert l'. induction l as [|x r IH]; destruct l' as [|y s]; cbn; try (split; [discriminate|discriminate]).
  - split; reflexivity.
  - rewrite andb_true_iff, Heq, IH. split; [intros [-> ->]; reflexivity|intros H; inversion H; auto].
Qed.

Lemma sym_mem_in p syms : sym_mem p syms = true <-> In p syms.
Proof.
  unfold sym_mem. rewrite existsb_exists. split.
  - intros (x & Hx & He). apply (list_eqb_eq str_eqb str_eqb_eq) in He. subst. exact Hx.
  - intros H. exists p. split; [exact H|]. apply (list_eqb_eq str_eqb str_eqb_eq). reflexivity.
Qed.

Lemma msg_syms_shape : forall m pre q, In q (msg_syms pre m) -> q = pre ++ [dm_name m] \/ (length pre + 1 < length q)%nat.
Proof.
  induction m as [n k fs ms es IH] using dmsg_ind2. intros pre q Hq. cbn [msg_syms dm_name] in Hq |- *.
  destruct Hq as [<-|Hq]; [left; reflexivity|]. right. apply in_app_or in Hq. destruct Hq as [Hq|Hq].
  - induction IH as [|x r Hx Hr IHr]; [destruct Hq|]. apply in_app_or in Hq. destruct Hq as [Hq|Hq]; [|apply IHr; exact Hq].
    destruct (Hx _ _ Hq) as [->|Hl]; rewrite ?app_length in *; cbn in *; lia.
  - apply in_map_iff in Hq. destruct Hq as (e & <- & _). rewrite app_length. cbn. lia.
Qed.

Lemma top_sym_in msgs n : In n (map dm_name msgs) -> sym_mem [n] (file_syms msgs []) = true.
Proof.
  intros H. apply sym_mem_in. unfold file_syms. rewrite app_nil_r. apply in_map_iff in H. destruct H as (m & <- & Hm).
  apply in_flat_map. exists m. split; [exact Hm|]. destruct m. cbn. left. reflexivity.
Qed.

Lemma top_sym_only msgs n : sym_mem [n] (file_syms msgs []) = true -> In n (map dm_name msgs).
Proof.
  intros H. apply sym_mem_in in H. unfold file_syms in H. rewrite app_nil_r in H.
  apply in_flat_map in H. destruct H as (m & Hm & Hq). destruct (msg_syms_shape _ _ _ Hq) as [E|Hl].
  - cbn in E. inversion E. apply in_map. exact Hm.
  - cbn in Hl. lia.
Qed.

(* ------------------------------------------------------------------ method type names that link *)
Definition tn_ok (top : list str) (tn : str) : Prop :=
  tn = [] \/ (exists r, tn = 46 :: r) \/ (nodot_b tn = true /\ In tn top) \/ tn = b "google.api.HttpBody".

Lemma tn_ok_incl top top' tn : incl top top' -> tn_ok top tn -> tn_ok top' tn.
Proof. intros Hi [H|[H|[[H1 H2]|H]]]; unfold tn_ok; auto. right. right. left. auto. Qed.

Lemma link_method_name_ok msgs fpkg tn :
  (forall n, In n (map dm_name msgs) -> starts_upper n = true) ->
  tn_ok (map dm_name msgs) tn -> exists r, link_method_name (file_syms msgs []) fpkg tn = Ok r.
Proof.
  intros Hup Hok. destruct Hok as [E|[E|[E|E]]]; [subst tn|destruct E as [r E]; subst tn|destruct E as [Hnd Hin]|subst tn].
  - eexists; reflexivity.
  - eexists; reflexivity.
  - unfold link_method_name. destruct tn as [|c r]; [eexists; reflexivity|].
    assert (Hc : (c =? 46) = false).
    { cbn in Hnd. apply andb_true_iff in Hnd. destruct Hnd as [Hnd _]. apply negb_true_iff in Hnd. exact Hnd. }
    rewrite Hc, (split_nodot _ Hnd), (top_sym_in _ _ Hin). eexists; reflexivity.
  - unfold link_method_name. cbn -[sym_mem file_syms].
    match goal with |- context [if sym_mem ?p ?s then _ else _] => destruct (sym_mem p s) eqn:E end.
    + apply top_sym_only in E. apply Hup in E. vm_compute in E. discriminate.
    + eexists; reflexivity.
Qed.

Definition methods_ok (top : list str) (svcs : list dservice) : Prop :=
  forall s m, In s svcs -> In m (ds_methods s) -> tn_ok top (me_in m) /\ tn_ok top (me_out m).

Lemma link_methods_ok msgs fpkg l :
  (forall n, In n (map dm_name msgs) -> starts_upper n = true) ->
  (forall m, In m l -> tn_ok (map dm_name msgs) (me_in m) /\ tn_ok (map dm_name msgs) (me_out m)) ->
  exists r, link_methods (file_syms msgs []) fpkg l = Ok r.
Proof.
  intros Hup. induction l as [|m r IH]; intros H; cbn [link_methods]; [eexists; reflexivity|].
  destruct (H m (or_introl eq_refl)) as [Hi Ho].
  destruct (link_method_name_ok _ fpkg _ Hup Hi) as [i Ei]. rewrite Ei. cbn [obind].
  destruct (link_method_name_ok _ fpkg _ Hup Ho) as [o Eo]. rewrite Eo. cbn [obind].
  destruct IH as [r' Er]; [intros x Hx; apply H; right; exact Hx|]. rewrite Er. cbn [obind]. eexists; reflexivity.
Qed.

Lemma link_services_ok msgs fpkg svcs :
  (forall n, In n (map dm_name msgs) -> starts_upper n = true) ->
  methods_ok (map dm_name msgs) svcs ->
  exists r, link_services (file_syms msgs []) fpkg svcs = Ok r.
Proof.
  intros Hup. induction svcs as [|s r IH]; intros H; cbn [link_services]; [eexists; reflexivity|].
  destruct (link_methods_ok msgs fpkg (ds_methods s) Hup) as [ms Ems].
  { intros m Hm. apply (H s m (or_introl eq_refl) Hm). }
  rewrite Ems. cbn [obind]. destruct IH as [r' Er].
  { intros s' m Hs Hm. apply (H s' m (or_intror Hs) Hm). }
  rewrite Er. cbn [obind]. eexists; reflexivity.
Qed.

(* ------------------------------------------------------------------ what the converter writes links *)
Section Linkable.
Variables snake camel screaming : str -> str.
Variable ev : env.
Notation cv_method := (cv_method snake camel screaming).
Notation cv_methods := (cv_methods snake camel screaming).
Notation cv_service := (cv_service snake camel screaming).
Notation cv_tmsgs := (cv_tmsgs snake camel screaming).
Notation accept_topic := (accept_topic snake camel screaming).
Notation cv_topic := (cv_topic snake camel screaming).

Definition good_name (s : str) : Prop := starts_upper s = true /\ nodot_b s = true.

Lemma good_suffix s suffix : good_name s -> nodot_b suffix = true -> good_name (s ++ suffix).
Proof. intros [H1 H2] H3. split; [apply starts_upper_app; exact H1|apply nodot_app; assumption]. Qed.

Definition names_ok (ms : list dmsg) (ds : list dmethod) : Prop :=
  (forall n, In n (map dm_name ms) -> starts_upper n = true) /\
  (forall dm, In dm ds -> tn_ok (map dm_name ms) (me_in dm) /\ tn_ok (map dm_name ms) (me_out dm)).

Lemma names_ok_app ms1 ds1 ms2 ds2 : names_ok ms1 ds1 -> names_ok ms2 ds2 -> names_ok (ms1 ++ ms2) (ds1 ++ ds2).
Proof.
  intros [U1 M1] [U2 M2]. split.
  - intros n Hn. rewrite map_app in Hn. apply in_app_or in Hn. destruct Hn; auto.
  - intros dm Hd. rewrite map_app. apply in_app_or in Hd. destruct Hd as [Hd|Hd].
    + destruct (M1 dm Hd). split; eapply tn_ok_incl; try eassumption; apply incl_appl; apply incl_refl.
    + destruct (M2 dm Hd). split; eapply tn_ok_incl; try eassumption; apply incl_appr; apply incl_refl.
Qed.

Lemma cv_method_names base m ms dm is :
  good_name (m_name m) -> cv_method ev base m = Ok (ms, dm, is) -> names_ok ms [dm].
Proof.
  intros Hg H. destruct (cv_method_ok snake camel screaming _ _ _ _ _ _ H) as [(Hn & Hi & Ho & _) Hms].
  assert (Grq : good_name (m_name m ++ b "Request")) by (apply good_suffix; [exact Hg|reflexivity]).
  assert (Grs : good_name (m_name m ++ b "Response")) by (apply good_suffix; [exact Hg|reflexivity]).
  unfold J5sContract.method_msgs_ok in Hms. destruct (m_response m) as [rs|].
  - destruct ms as [|rq [|rp [|? ?]]]; try contradiction. destruct Hms as [(Nq & _) (Np & _)].
    split.
    + intros n [<-|[<-|[]]]; [rewrite Nq; apply Grq|rewrite Np; apply Grs].
    + intros x [<-|[]]. rewrite Hi, Ho. cbn [map]. rewrite Nq, Np. split; right; right; left.
      * split; [apply Grq|left; reflexivity].
      * split; [apply Grs|right; left; reflexivity].
  - destruct ms as [|rq [|? ?]]; try contradiction. destruct Hms as (Nq & _).
    split.
    + intros n [<-|[]]. rewrite Nq. apply Grq.
    + intros x [<-|[]]. rewrite Hi, Ho. cbn [map]. rewrite Nq. split.
      * right; right; left. split; [apply Grq|left; reflexivity].
      * right; right; right. reflexivity.
Qed.

Lemma cv_methods_names base l : forall ms ds is,
  (forall m, In m l -> good_name (m_name m)) ->
  cv_methods ev base l = Ok (ms, ds, is) -> names_ok ms ds.
Proof.
  induction l as [|m r IH]; intros ms ds is Hg H; cbn [J5sConvert.cv_methods] in H.
  - inversion H. subst. split; [intros n []|intros dm []].
  - apply obind_ok in H. destruct H as ([[am ad] ai] & Ea & H).
    apply obind_ok in H. destruct H as ([[cm cd] ci] & Ec & H). inversion H. subst. clear H.
    change (ad :: cd) with ([ad] ++ cd). apply names_ok_app.
    + eapply cv_method_names; [apply Hg; left; reflexivity|exact Ea].
    + eapply IH; [intros x Hx; apply Hg; right; exact Hx|exact Ec].
Qed.

Lemma cv_tmsgs_names tname single virt l : forall ms ds is,
  (forall t, In t l -> good_name (tmsg_name tname t)) ->
  cv_tmsgs ev tname single virt l = Ok (ms, ds, is) -> names_ok ms ds.
Proof.
  induction l as [|t r IH]; intros ms ds is Hg H.
  - cbn in H. inversion H. subst. split; [intros n []|intros dm []].
  - cbn [J5sConvert.cv_tmsgs] in H.
    apply obind_ok in H. destruct H as (mn & Emn & H).
    apply obind_ok in H. destruct H as ([m1 i1] & Ev & H).
    apply obind_ok in H. destruct H as ([[cm cd] ci] & Er & H). inversion H. subst. clear H.
    assert (Hmn : mn = tmsg_name tname t).
    { unfold tmsg_name. destruct (tm_name t); [inversion Emn; reflexivity|].
      destruct single; inversion Emn. reflexivity. }
    subst mn.
    assert (Gm : good_name (tmsg_name tname t ++ b "Message")) by (apply good_suffix; [apply Hg; left; reflexivity|reflexivity]).
    destruct (cv_virtual_ok snake camel screaming _ _ _ _ _ _ Ev) as (Nm & _). cbn [fst].
    match goal with |- names_ok (?x :: ?xs) (?d :: ?dd) => change (names_ok ([x] ++ xs) ([d] ++ dd)) end.
    apply names_ok_app; [|eapply IH; [intros x Hx; apply Hg; right; exact Hx|exact Er]].
    split.
    + intros n [<-|[]]. rewrite Nm. apply Gm.
    + intros x [<-|[]]. cbn [me_in me_out map]. rewrite Nm. split.
      * right; right; left. split; [apply Gm|left; reflexivity].
      * right; left. eexists. reflexivity.
Qed.

(* accumulated sub-package file: its services link *)
Definition linkable (a : facc) : Prop :=
  (forall n, In n (map dm_name (fa_msgs a)) -> starts_upper n = true) /\
  methods_ok (map dm_name (fa_msgs a)) (fa_svcs a) /\ fa_enums a = [].

Lemma linkable_nil : linkable facc_nil.
Proof. split; [intros n []|]. split; [intros s m []|reflexivity]. Qed.

Lemma linkable_add a ms ss is :
  linkable a -> (forall n, In n (map dm_name ms) -> starts_upper n = true) ->
  methods_ok (map dm_name ms) ss -> linkable (facc_add a ms [] ss is).
Proof.
  intros (U & M & E) U' M'. unfold linkable, facc_add. cbn [fa_msgs fa_svcs fa_enums]. rewrite E, map_app.
  split; [intros n Hn; apply in_app_or in Hn; destruct Hn; auto|]. split; [|reflexivity].
  intros s m Hs Hm. apply in_app_or in Hs. destruct Hs as [Hs|Hs].
  - destruct (M s m Hs Hm). split; eapply tn_ok_incl; try eassumption; apply incl_appl; apply incl_refl.
  - destruct (M' s m Hs Hm). split; eapply tn_ok_incl; try eassumption; apply incl_appr; apply incl_refl.
Qed.

Lemma names_methods_ok ms ds nm tp : names_ok ms ds -> methods_ok (map dm_name ms) [mkDservice nm ds tp].
Proof. intros [_ M] s m [<-|[]] Hm. apply M. exact Hm. Qed.

Lemma service_linkable s ms ss is :
  wf_service snake camel ev s = true -> cv_service ev s = Ok (ms, ss, is) ->
  (forall n, In n (map dm_name ms) -> starts_upper n = true) /\ methods_ok (map dm_name ms) ss.
Proof.
  unfold wf_service, J5sConvert.cv_service. intros Hw H.
  apply andb_true_iff in Hw. destruct Hw as [Hw _]. apply andb_true_iff in Hw. destruct Hw as [_ Hw].
  apply obind_ok in H. destruct H as ([[m1 d1] i1] & E & H). inversion H. subst. clear H.
  assert (N : names_ok ms d1).
  { eapply cv_methods_names; [|exact E]. intros m Hm. rewrite forallb_forall in Hw. specialize (Hw m Hm).
    unfold wf_method in Hw. apply and4 in Hw. destruct Hw as (Hn & _). apply type_ident_facts in Hn. exact Hn. }
  split; [apply N|apply names_methods_ok; exact N].
Qed.

Lemma accept_linkable tname topic_name rl virt l ms ss is :
  (forall t, In t l -> good_name (tmsg_name tname t)) ->
  accept_topic ev tname topic_name rl virt l = Ok (ms, ss, is) ->
  (forall n, In n (map dm_name ms) -> starts_upper n = true) /\ methods_ok (map dm_name ms) ss.
Proof.
  unfold J5sConvert.accept_topic. intros Hg H.
  apply obind_ok in H. destruct H as ([[m1 d1] i1] & E & H). inversion H. subst. clear H.
  pose proof (cv_tmsgs_names _ _ _ _ _ _ _ Hg E) as N. split; [apply N|apply names_methods_ok; exact N].
Qed.

Lemma tmsgs_good single virt tname l :
  good_name tname -> forallb (wf_tmsg snake camel ev single virt) l = true ->
  forall t, In t l -> good_name (tmsg_name tname t).
Proof.
  intros Hg Hw t Ht. rewrite forallb_forall in Hw. specialize (Hw t Ht). unfold wf_tmsg in Hw.
  apply andb_true_iff in Hw. destruct Hw as [_ Hn]. unfold tmsg_name. destruct (tm_name t) as [n|]; [|exact Hg].
  apply type_ident_facts in Hn. exact Hn.
Qed.

Lemma topic_linkable t ms ss is :
  wf_topic snake camel ev t = true -> cv_topic ev t = Ok (ms, ss, is) ->
  (forall n, In n (map dm_name ms) -> starts_upper n = true) /\ methods_ok (map dm_name ms) ss.
Proof.
  destruct t as [name msgs|name req reply|name entity msg|name entity msg]; cbn [wf_topic J5sConvert.cv_topic]; intros Hw H.
  - apply andb_true_iff in Hw. destruct Hw as [Hn Hw]. apply type_ident_facts in Hn.
    eapply accept_linkable; [|exact H]. eapply tmsgs_good; eassumption.
  - apply andb_true_iff in Hw. destruct Hw as [Hw Hr]. apply andb_true_iff in Hw. destruct Hw as [Hn Hq].
    apply type_ident_facts in Hn.
    apply obind_ok in H. destruct H as ([[am asv] ai] & Ea & H).
    apply obind_ok in H. destruct H as ([[cm csv] ci] & Ec & H). inversion H. subst. clear H.
    destruct (accept_linkable _ _ _ _ _ _ _ _ (tmsgs_good _ _ _ _ (good_suffix _ (b "Request") Hn eq_refl) Hq) Ea) as [U1 M1].
    destruct (accept_linkable _ _ _ _ _ _ _ _ (tmsgs_good _ _ _ _ (good_suffix _ (b "Reply") Hn eq_refl) Hr) Ec) as [U2 M2].
    rewrite map_app. split; [intros n Hx; apply in_app_or in Hx; destruct Hx; auto|].
    intros s m Hs Hm. apply in_app_or in Hs. destruct Hs as [Hs|Hs].
    + destruct (M1 s m Hs Hm). split; eapply tn_ok_incl; try eassumption; apply incl_appl; apply incl_refl.
    + destruct (M2 s m Hs Hm). split; eapply tn_ok_incl; try eassumption; apply incl_appr; apply incl_refl.
  - apply andb_true_iff in Hw. destruct Hw as [Hn Hw]. apply type_ident_facts in Hn.
    eapply accept_linkable; [|exact H]. intros t [<-|[]]. unfold tmsg_name, default_tm_name.
    unfold wf_tmsg in Hw. apply andb_true_iff in Hw. destruct Hw as [_ Hw].
    destruct (tm_name msg) as [n|] eqn:E; cbn [tm_name]; [rewrite E; apply type_ident_facts; exact Hw|exact Hn].
  - apply andb_true_iff in Hw. destruct Hw as [Hn Hw]. apply type_ident_facts in Hn.
    eapply accept_linkable; [|exact H]. eapply (tmsgs_good true PNil); [exact Hn|]. cbn [forallb]. rewrite Hw. reflexivity.
Qed.

Lemma cv_elements_linkable pkg els : forall m s t m' s' t',
  forallb (wf_element snake camel ev) els = true -> linkable s -> linkable t -> fa_svcs m = [] ->
  cv_elements snake camel screaming ev pkg els m s t = Ok (m', s', t') ->
  linkable s' /\ linkable t' /\ fa_svcs m' = [].
Proof.
  induction els as [|e r IH]; intros m s t m' s' t' Hw Ls Lt Hm H; cbn [forallb J5sConvert.cv_elements] in Hw, H.
  - inversion H. subst. auto.
  - apply andb_true_iff in Hw. destruct Hw as [Hw1 Hw2]. destruct e as [nm ps subs|nm ps subs|en|sv|tp].
    + apply obind_ok in H. destruct H as ([[ms es] is] & _ & H).
      eapply IH; [exact Hw2|exact Ls|exact Lt| |exact H]. cbn. rewrite Hm. reflexivity.
    + apply obind_ok in H. destruct H as ([[ms es] is] & _ & H).
      eapply IH; [exact Hw2|exact Ls|exact Lt| |exact H]. cbn. rewrite Hm. reflexivity.
    + eapply IH; [exact Hw2|exact Ls|exact Lt| |exact H]. cbn. rewrite Hm. reflexivity.
    + apply obind_ok in H. destruct H as ([[ms ss] is] & E & H). cbn [wf_element] in Hw1.
      destruct (service_linkable _ _ _ _ Hw1 E) as [U M].
      eapply IH; [exact Hw2|apply (linkable_add s ms ss is Ls U M)|exact Lt|exact Hm|exact H].
    + apply obind_ok in H. destruct H as ([[ms ss] is] & E & H). cbn [wf_element] in Hw1.
      destruct (topic_linkable _ _ _ _ Hw1 E) as [U M].
      eapply IH; [exact Hw2|exact Ls|apply (linkable_add t ms ss is Lt U M)|exact Hm|exact H].
Qed.

End Linkable.

Lemma link_file_linkable path pkg a : linkable a -> exists f', link_file (mk_file path pkg a) = Ok f'.
Proof.
  intros (U & M & E). unfold link_file, mk_file. cbn [fl_msgs fl_enums fl_pkg fl_svcs fl_path fl_deps]. rewrite E.
  destruct (link_services_ok (fa_msgs a) pkg (fa_svcs a) U M) as [r Hr]. rewrite Hr. cbn [obind]. eexists; reflexivity.
Qed.

Lemma link_file_nosvc path pkg a : fa_svcs a = [] -> exists f', link_file (mk_file path pkg a) = Ok f'.
Proof.
  intros E. unfold link_file, mk_file. cbn [fl_msgs fl_enums fl_pkg fl_svcs fl_path fl_deps]. rewrite E.
  cbn [link_services obind]. eexists; reflexivity.
Qed.

(* ------------------------------------------------------------------ whole packages *)
Section CompileTotal.
Variables snake camel screaming : str -> str.

Definition links (df : dfile) : Prop := exists df', link_file df = Ok df'.

Lemma cv_file_links bd f D :
  valid_file snake camel bd f = true ->
  cv_file snake camel screaming (pkg_exports camel bd) f = Ok D -> forall df, In df D -> links df.
Proof.
  unfold valid_file, cv_file. intros Hv H. apply andb_true_iff in Hv. destruct Hv as [_ Hv].
  destruct (import_map (jf_imports f) []) as [im| | |]; try discriminate. cbn [obind] in H.
  apply obind_ok in H. destruct H as ([[m s] t] & E & H). inversion H. subst D. clear H.
  destruct (cv_elements_linkable snake camel screaming _ _ _ facc_nil facc_nil facc_nil _ _ _ Hv (linkable_nil) (linkable_nil) eq_refl E) as (Ls & Lt & Hm).
  intros df [<-|Hin]; [apply link_file_nosvc; exact Hm|].
  apply in_app_or in Hin. destruct Hin as [Hin|Hin].
  - destruct (fa_used s); [|destruct Hin]. destruct Hin as [<-|[]]. apply link_file_linkable. exact Ls.
  - destruct (fa_used t); [|destruct Hin]. destruct Hin as [<-|[]]. apply link_file_linkable. exact Lt.
Qed.

Lemma cv_files_links bd fs : forall D,
  (forall f, In (BJ f) fs -> valid_file snake camel bd f = true) ->
  cv_files snake camel screaming (pkg_exports camel bd) fs = Ok D -> forall df, In df D -> links df.
Proof.
  induction fs as [|x r IH]; intros D Hv H df Hin; cbn [J5sConvert.cv_files] in H.
  - inversion H. subst. destruct Hin.
  - destruct x as [j|p].
    + destruct (file_lists_ok j) eqn:Elists; [|discriminate]. apply obind_ok in H. destruct H as (a & Ea & H). apply obind_ok in H. destruct H as (c & Ec & H).
      inversion H. subst D. apply in_app_or in Hin. destruct Hin as [Hin|Hin].
      * eapply cv_file_links; [apply Hv; left; reflexivity|exact Ea|exact Hin].
      * eapply IH; [intros f Hf; apply Hv; right; exact Hf|exact Ec|exact Hin].
    + eapply IH; [intros f Hf; apply Hv; right; exact Hf|exact H|exact Hin].
Qed.

Lemma link_files_total l : (forall df, In df l -> links df) -> exists l', link_files l = Ok l'.
Proof.
  induction l as [|x r IH]; intros H; cbn [link_files]; [eexists; reflexivity|].
  destruct (H x (or_introl eq_refl)) as [x' Hx]. rewrite Hx. cbn [obind].
  destruct IH as [r' Hr]; [intros df Hd; apply H; right; exact Hd|]. rewrite Hr. cbn [obind]. eexists; reflexivity.
Qed.

Lemma valid_files bd : valid_bundle snake camel screaming bd = true -> forall f, In (BJ f) bd -> valid_file snake camel bd f = true.
Proof.
  unfold valid_bundle. intros H f Hf. apply andb_true_iff in H. destruct H as [H _].
  apply andb_true_iff in H. destruct H as [H _].
  apply andb_true_iff in H. destruct H as [H _]. rewrite forallb_forall in H. exact (H _ Hf).
Qed.

Lemma convert_package_links bd pkg D :
  valid_bundle snake camel screaming bd = true ->
  convert_package snake camel screaming bd pkg = Ok D -> forall df, In df D -> links df.
Proof.
  unfold convert_package. intros Hv H. destruct (pkg_files bd pkg) as [|x r] eqn:E; [discriminate|].
  eapply cv_files_links; [|exact H]. intros f Hf. apply valid_files; [exact Hv|].
  rewrite <- E in Hf. unfold pkg_files in Hf. apply in_sort_by in Hf. apply filter_In in Hf. destruct Hf as [Hf _]. exact Hf.
Qed.

(* ---- the imported files: every unit of fuel pays for a generated file not linked before *)
Definition pending (bd : bundle) (done : list str) : nat :=
  length (filter (fun f => match f with
                           | BJ j => negb (J5sConvert.mem_str (main_proto_path j) done)
                           | BP _ => false
                           end) bd).

Lemma find_jfile_some bd p j : find_jfile bd p = Some j -> In (BJ j) bd /\ main_proto_path j = p.
Proof.
  unfold find_jfile. destruct (find _ bd) as [[j'|p']|] eqn:E; try discriminate. intros H. inversion H. subst j'.
  apply find_some in E. destruct E as [Hin He]. split; [exact Hin|apply str_eqb_eq; exact He].
Qed.

Lemma next_todo_some bd todo done p j rest :
  next_todo bd todo done = Some (p, j, rest) -> J5sConvert.mem_str p done = false /\ find_jfile bd p = Some j.
Proof.
  induction todo as [|q r IH]; cbn [next_todo]; [discriminate|].
  destruct (J5sConvert.mem_str q done) eqn:Em; [exact IH|].
  destruct (find_jfile bd q) as [j'|] eqn:Ef; [|exact IH]. intros H. inversion H. subst. auto.
Qed.

Lemma filter_length_le {A} (f g : A -> bool) l :
  (forall x, g x = true -> f x = true) -> (length (filter g l) <= length (filter f l))%nat.
Proof.
  intros H. induction l as [|x r IH]; cbn; [lia|]. destruct (g x) eqn:Eg.
  - rewrite (H x Eg). cbn. lia.
  - destruct (f x); cbn; lia.
Qed.

Lemma filter_length_lt {A} (f g : A -> bool) l a :
  (forall x, g x = true -> f x = true) -> In a l -> f a = true -> g a = false ->
  (length (filter g l) < length (filter f l))%nat.
Proof.
  intros H Hin Hf Hg. induction l as [|x r IH]; [destruct Hin|]. cbn. destruct Hin as [<-|Hin].
  - rewrite Hf, Hg. cbn. pose proof (filter_length_le f g r H). lia.
  - specialize (IH Hin). destruct (g x) eqn:Eg; [rewrite (H x Eg); cbn; lia|]. destruct (f x); cbn; lia.
Qed.

Lemma pending_decreases bd done p j :
  In (BJ j) bd -> main_proto_path j = p -> J5sConvert.mem_str p done = false ->
  (pending bd (p :: done) < pending bd done)%nat.
Proof.
  intros Hin Hp Hm. unfold pending. apply filter_length_lt with (a := BJ j); try exact Hin.
  - intros [j'|p'] Hx; [|discriminate]. apply negb_true_iff in Hx. apply negb_true_iff.
    unfold J5sConvert.mem_str in *. cbn [existsb] in Hx. apply orb_false_iff in Hx. destruct Hx as [_ Hx]. exact Hx.
  - rewrite Hp, Hm. reflexivity.
  - rewrite Hp. unfold J5sConvert.mem_str. cbn [existsb]. rewrite str_eqb_refl. reflexivity.
Qed.

(* the symbol clause of validity *)
Lemma nodup_str_app_r a c : nodup_str (a ++ c) = true -> nodup_str c = true.
Proof. induction a as [|x r IH]; cbn; [auto|]. intros H. apply andb_true_iff in H. destruct H. auto. Qed.

Lemma nodup_str_app_l a c : nodup_str (a ++ c) = true -> nodup_str a = true.
Proof.
  induction a as [|x r IH]; cbn; [reflexivity|]. intros H. apply andb_true_iff in H. destruct H as [H1 H2].
  apply andb_true_iff. split; [|auto]. rewrite existsb_app in H1. apply negb_true_iff in H1.
  apply orb_false_iff in H1. destruct H1 as [H1 _]. rewrite H1. reflexivity.
Qed.

Lemma nodup_str_flat_map {A} (g : A -> list str) l x :
  In x l -> nodup_str (flat_map g l) = true -> nodup_str (g x) = true.
Proof.
  induction l as [|y r IH]; [destruct 1|]. intros [<-|Hin] H; cbn [flat_map] in H.
  - eapply nodup_str_app_l. exact H.
  - apply IH; [exact Hin|]. eapply nodup_str_app_r. exact H.
Qed.

Lemma valid_symbols bd pkg fs :
  valid_bundle snake camel screaming bd = true -> In pkg (bundle_pkgs bd) ->
  convert_package snake camel screaming bd pkg = Ok fs ->
  nodup_str (package_symbols bd pkg fs) = true.
Proof.
  unfold valid_bundle. intros H Hin Hfs. apply andb_true_iff in H. destruct H as [H _].
  apply andb_true_iff in H. destruct H as [_ H]. rewrite forallb_forall in H. specialize (H _ Hin).
  apply andb_true_iff in H. destruct H as [H _]. unfold symbols_ok in H.
  rewrite (package_symbols_declared snake camel screaming _ _ _ Hfs). exact H.
Qed.

Theorem link_closure_total bd :
  valid_bundle snake camel screaming bd = true ->
  forall fuel todo done, (pending bd done < fuel)%nat ->
  link_closure snake camel screaming fuel bd todo done = Ok tt.
Proof.
  intros Hv. induction fuel as [|fu IH]; intros todo done Hlt; [lia|].
  cbn [J5sConvert.link_closure]. destruct (next_todo bd todo done) as [[[p j] rest]|] eqn:En; [|reflexivity].
  destruct (next_todo_some _ _ _ _ _ _ En) as [Hm Hf]. destruct (find_jfile_some _ _ _ Hf) as [Hin Hp].
  destruct (convert_package_total snake camel screaming bd (j5s_pkg j) Hv) as [fs Hfs].
  { exists (BJ j). split; [exact Hin|reflexivity]. }
  rewrite Hfs. cbn [obind].
  (* the generated file of j is among the converted files *)
  assert (Hmain : exists df, In df fs /\ fl_path df = p).
  { unfold convert_package in Hfs. pose proof (in_pkg_files _ _ _ Hin eq_refl) as Hpf.
    destruct (pkg_files bd (j5s_pkg j)) as [|x r] eqn:E; [destruct Hpf|].
    destruct (cv_files_main snake camel screaming _ _ _ _ Hfs Hpf) as (df & Hd & (Hpath & _)).
    exists df. split; [exact Hd|rewrite Hpath; exact Hp]. }
  destruct Hmain as (df & Hd & Hpath).
  destruct (find (fun f => str_eqb (fl_path f) p) fs) as [f|] eqn:Efind.
  - apply find_some in Efind. destruct Efind as [Hfin _].
    assert (Hsym : nodup_str (file_symbols f) = true).
    { eapply nodup_str_flat_map; [exact Hfin|]. eapply nodup_str_app_r.
      apply (valid_symbols bd (j5s_pkg j) fs Hv); [|exact Hfs].
      unfold bundle_pkgs. change (j5s_pkg j) with (bfile_pkg (BJ j)). apply in_map. exact Hin. }
    rewrite Hsym.
    destruct (convert_package_links bd _ _ Hv Hfs f Hfin) as [f' Hf']. rewrite Hf'. cbn [obind].
    apply IH. pose proof (pending_decreases bd done p j Hin Hp Hm). lia.
  - exfalso. pose proof (find_none _ _ Efind df Hd) as Hn. cbn beta in Hn. rewrite Hpath, str_eqb_refl in Hn. discriminate.
Qed.

Lemma pending_le bd done : (pending bd done <= length bd)%nat.
Proof. unfold pending. induction bd as [|x r IH]; cbn; [lia|]. destruct (match x with BJ _ => _ | BP _ => _ end); cbn; lia. Qed.

(* PackageSet.CompilePackage accepts every package of a valid bundle *)
Theorem compile_total bd pkg :
  valid_bundle snake camel screaming bd = true -> (exists f, In f bd /\ bfile_pkg f = pkg) ->
  exists D, compile_package snake camel screaming bd pkg = Ok D.
Proof.
  intros Hv Hex. unfold compile_package.
  destruct (convert_package_total snake camel screaming bd pkg Hv Hex) as [fs Hfs]. rewrite Hfs. cbn [obind].
  assert (Hsym : nodup_str (package_symbols bd pkg fs) = true).
  { apply (valid_symbols bd pkg fs Hv); [|exact Hfs]. destruct Hex as (f & Hf & <-). unfold bundle_pkgs. apply in_map. exact Hf. }
  rewrite Hsym. cbn [negb].
  destruct (link_files_total fs (convert_package_links bd pkg fs Hv Hfs)) as [linked Hl]. rewrite Hl. cbn [obind].
  rewrite (link_closure_total bd Hv); [cbn [obind]; eexists; reflexivity|].
  pose proof (pending_le bd (map fl_path fs)). lia.
Qed.

(* C02 at full strength for the structural contract: every package of a valid bundle compiles, and
   what it compiles to satisfies the contract *)
Theorem compile_correct bd pkg :
  valid_bundle snake camel screaming bd = true -> (exists f, In f bd /\ bfile_pkg f = pkg) ->
  exists D, compile_package snake camel screaming bd pkg = Ok D /\
            package_contract snake camel screaming bd pkg D.
Proof.
  intros Hv Hex. destruct (compile_total bd pkg Hv Hex) as [D HD]. exists D. split; [exact HD|].
  apply compile_sound. exact HD.
Qed.

End CompileTotal.

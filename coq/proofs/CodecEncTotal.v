(* CodecEncTotal.v — encoding a representable message succeeds: no error, no panic, and the
   fuel the model gives the encoder (4 per message level + 4) is enough.  Together with
   codec_roundtrip this is the full statement of C01. *)
From Coq Require Import String List Arith NArith ZArith Bool Lia ZifyN ZifyNat ZifyBool.
From J5V.lib Require Import Outcome Json JsonPrint Base64 Civil Decimal.
From J5V.model Require Import CodecTypes CodecEnc CodecEncSpec CodecEncDec.
From J5V.proofs Require Import CodecEncProofs CodecEncDecProofs.
Import ListNotations.
Local Open Scope N_scope.
Local Open Scope bool_scope.
Arguments Nat.sub : simpl never.

(* ---------------------------------------------------------------- depth of what a path reaches *)
Lemma msg_get_depth n m v : msg_get n m = Some v -> (pval_depth v < pval_depth (VMsg m))%nat.
Proof.
  cbn [pval_depth]. induction m as [|[k w] r IH]; cbn [msg_get fold_right snd]; [discriminate|].
  destruct (k =? n).
  - intros [= ->]. lia.
  - intros H. specialize (IH H). lia.
Qed.

Lemma present_depth path : forall m v, present path m = Some v -> (pval_depth v < pval_depth (VMsg m))%nat.
Proof.
  induction path as [|n rest IH]; intros m v H; [discriminate|].
  destruct rest as [|n2 rest'].
  - cbn [present] in H. apply msg_get_depth in H. exact H.
  - change (present (n :: n2 :: rest') m) with
      (match msg_get n m with Some (VMsg sub) => present (n2 :: rest') sub | _ => None end) in H.
    destruct (msg_get n m) as [[]|] eqn:E; try discriminate.
    apply msg_get_depth in E. apply IH in H. lia.
Qed.

Lemma list_depth x l : In x l -> (pval_depth x < pval_depth (VList l))%nat.
Proof.
  cbn [pval_depth]. induction l as [|y r IH]; intros []; cbn [fold_right].
  - subst. lia.
  - specialize (IH H). lia.
Qed.

Lemma map_depth (kv : bytes * pval) es : In kv es -> (pval_depth (snd kv) < pval_depth (VMap es))%nat.
Proof.
  cbn [pval_depth]. induction es as [|y r IH]; intros []; cbn [fold_right].
  - subst. lia.
  - specialize (IH H). lia.
Qed.

Lemma sequence_all_ok {A B} (g : A -> outcome B) l :
  (forall x, In x l -> exists y, g x = Ok y) -> exists ys, sequence (map g l) = Ok ys.
Proof.
  induction l as [|x r IH]; intros H; [exists []; reflexivity|].
  destruct (H x (or_introl eq_refl)) as (y & Hy).
  destruct IH as (ys & Hys); [intros z Hz; apply H; right; exact Hz|].
  exists (y :: ys). cbn [map sequence]. rewrite Hy. cbn [obind]. unfold omap. rewrite Hys. reflexivity.
Qed.

Lemma escape_total s : valid_utf8 s = true -> exists t, escape s = Ok t.
Proof. intros H. rewrite escape_spec, H. eauto. Qed.

Lemma NoDup_app_parts {A} (l1 l2 : list A) : NoDup (l1 ++ l2) -> NoDup l1 /\ NoDup l2.
Proof.
  induction l1 as [|a l1 IH]; cbn [app]; intros H; [split; [constructor|exact H]|].
  apply NoDup_cons_iff in H as [Hn H]. destruct (IH H) as [H1 H2]. split; [|exact H2].
  constructor; [|exact H1]. intros Hin. apply Hn. apply in_or_app. left. exact Hin.
Qed.

Lemma NoDup_flat_map_part {A B} (f : A -> list B) l x : NoDup (flat_map f l) -> In x l -> NoDup (f x).
Proof.
  induction l as [|y r IH]; intros Hn []; cbn [flat_map] in Hn.
  - subst. apply NoDup_app_parts in Hn as [Hn _]. exact Hn.
  - apply IH; [apply NoDup_app_parts in Hn as [_ Hn]; exact Hn|assumption].
Qed.

(* two entries of members_present come from two positions of the list *)
Lemma members_two ps m x y t : NoDup ps -> members_present ps m = x :: y :: t ->
  In (fst x) ps /\ In (fst y) ps /\ fst x <> fst y /\
  present (p_path (fst x)) m <> None /\ present (p_path (fst y)) m <> None.
Proof.
  unfold members_present. induction ps as [|p r IH]; intros Hn H; cbn [flat_map] in H; [discriminate|].
  apply NoDup_cons_iff in Hn as [Hnin Hn].
  destruct (present (p_path p) m) as [v|] eqn:Ep; cbn [app] in H.
  - injection H as <- H. cbn [fst].
    assert (Hy : In (fst y) r /\ present (p_path (fst y)) m <> None).
    { clear -H. revert H. induction r as [|q r IH]; cbn [flat_map]; [discriminate|].
      destruct (present (p_path q) m) as [w|] eqn:Eq; cbn [app].
      - intros [= <- _]. cbn [fst]. split; [left; reflexivity|congruence].
      - intros H. destruct (IH H). split; [right; assumption|assumption]. }
    destruct Hy as [Hy1 Hy2]. split; [left; reflexivity|]. split; [right; exact Hy1|].
    split; [intros E; apply Hnin; rewrite E; exact Hy1|]. split; [congruence|exact Hy2].
  - destruct (IH Hn H) as (A1 & A2 & A3 & A4 & A5).
    split; [right; exact A1|]. split; [right; exact A2|]. repeat split; assumption.
Qed.

Section Total.
  Variable fmt_float : bool -> N -> bytes.
  Variable any_inner : bytes -> bytes -> outcome bytes.
  Variable dsc : scalar_kind -> jvalue -> outcome (option pval).
  Variable raw : jvalue -> bytes.
  Variable any_back : option (bytes -> bytes -> outcome bytes).
  Variable env : env.
  Hypothesis Hflat : oneofs_flat env.
  Hypothesis Hscalar : scalar_rt_ok fmt_float dsc.

  Notation rep_value := (rep_value any_inner raw any_back env).
  Notation rep_props := (rep_props any_inner raw any_back env).
  Notation enc_value := (enc_value fmt_float any_inner env).
  Notation enc_object := (enc_object fmt_float any_inner env).
  Notation enc_oneof := (enc_oneof fmt_float any_inner env).

  Definition TV (d : nat) : Prop := forall t v, rep_value t v -> (pval_depth v <= d)%nat ->
    forall f, (4 * d <= f)%nat -> exists txt, enc_value f t v = Ok txt.

  (* the body of a oneof: flat members, each populated one representable, at most one populated *)
  Lemma oneof_total d : TV d -> forall qs m,
    Forall (fun p => p_path p <> []) qs -> NoDup qs ->
    (forall q v, In q qs -> present (p_path q) m = Some v -> rep_value (p_ty q) v) ->
    (forall q, In q qs -> valid_utf8 (p_json q) = true) ->
    (forall q1 q2, In q1 qs -> In q2 qs ->
       present (p_path q1) m <> None -> present (p_path q2) m <> None -> q1 = q2) ->
    (pval_depth (VMsg m) <= S d)%nat ->
    forall f, (4 * d + 1 <= f)%nat -> exists txt, enc_oneof f qs m = Ok txt.
  Proof.
    intros IH qs m HF Hnd Hrep Hutf Hone Hd f Hf.
    destruct f as [|f]; [lia|]. rewrite enc_oneof_S. unfold get_one.
    rewrite (get_one_members _ qs m None).
    2:{ intros q Hq. apply prop_lookup_path. rewrite Forall_forall in HF. apply HF. exact Hq. }
    pose proof (members_spec qs m) as Hs.
    destruct (members_present qs m) as [|[p v] [|y t]] eqn:Em.
    - cbn [obind]. eauto.
    - destruct Hs as (Hin & Hp & _). cbn [obind].
      destruct (escape_total txt_type eq_refl) as (l1 & ->). cbn [obind].
      destruct (escape_total (p_json p) (Hutf p Hin)) as (nm & ->). cbn [obind].
      destruct (IH (p_ty p) v (Hrep p v Hin Hp)) with (f := f) as (b & ->).
      + apply present_depth in Hp. lia.
      + lia.
      + cbn [obind]. eauto.
    - exfalso. destruct (members_two qs m _ _ _ Hnd Em) as (A1 & A2 & A3 & A4 & A5).
      apply A3. apply Hone; assumption.
  Qed.

  Lemma any_total m : rep_value (FAny false) (VMsg m) -> exists txt, enc_any any_inner false m = Ok txt.
  Proof.
    intros H. inversion H as [| | | | | |? Hu Hshape Hcomp (t & Ht) _|]; subst.
    unfold enc_any.
    assert (H1 : field_bytes 1 m = Ok (sfield 1 m)).
    { unfold field_bytes, sfield. destruct (msg_get 1 m) as [w|] eqn:E; [|reflexivity].
      destruct (Hshape 1 w E) as [(_ & s & ->)|[(Hn & _)|(Hn & _)]]; [reflexivity|discriminate|discriminate]. }
    rewrite H1. cbn [obind].
    assert (Hdata : (match (match msg_get 3 m with Some (VBytes s) => Some s | _ => None end) with
                     | Some js => stored_json js
                     | None => obind (field_bytes 2 m) (fun pbytes => any_inner (sfield 1 m) pbytes)
                     end) = Ok t).
    { unfold any_text in Ht. destruct (msg_get 3 m) as [w|] eqn:E3.
      - destruct (Hshape 3 w E3) as [(Hn & _)|[(Hn & _)|(_ & s & ->)]]; [discriminate|discriminate|].
        injection Ht as <-. destruct (Hcomp s eq_refl) as (j & Hwj & ->).
        unfold stored_json. rewrite (parse_print j Hwj). reflexivity.
      - assert (H2 : field_bytes 2 m = Ok (sfield 2 m)).
        { unfold field_bytes, sfield. destruct (msg_get 2 m) as [w|] eqn:E; [|reflexivity].
          destruct (Hshape 2 w E) as [(Hn & _)|[(_ & s & ->)|(Hn & _)]]; [discriminate|reflexivity|discriminate]. }
        rewrite H2. cbn [obind]. exact Ht. }
    rewrite Hdata. cbn [obind].
    destruct (escape_total txt_type eq_refl) as (l1 & ->). cbn [obind].
    destruct (escape_total (sfield 1 m) Hu) as (tt & ->). cbn [obind].
    destruct (escape_total txt_value eq_refl) as (l2 & ->). cbn [obind]. eauto.
  Qed.

  Lemma trim_any_prefix tn : trim_prefix any_prefix (any_prefix ++ tn) = tn.
  Proof.
    unfold trim_prefix.
    assert (Hsp : forall p t, strip_prefix p (p ++ t) = Some t).
    { clear. induction p as [|c r IH]; intros t; cbn [app strip_prefix]; [reflexivity|]. rewrite N.eqb_refl. apply IH. }
    rewrite Hsp. reflexivity.
  Qed.

  Lemma pbany_total m : rep_value (FAny true) (VMsg m) -> exists txt, enc_any any_inner true m = Ok txt.
  Proof.
    intros H. inversion H as [| | | | | | |? tn Hurl Hu Hshape (t & Ht) _]; subst.
    unfold enc_any.
    assert (H1 : field_bytes 1 m = Ok (sfield 1 m)).
    { unfold field_bytes, sfield. destruct (msg_get 1 m) as [w|] eqn:E; [|reflexivity].
      destruct (Hshape 1 w E) as [(_ & s & ->)|(Hn & _)]; [reflexivity|discriminate]. }
    assert (H2 : field_bytes 2 m = Ok (sfield 2 m)).
    { unfold field_bytes, sfield. destruct (msg_get 2 m) as [w|] eqn:E; [|reflexivity].
      destruct (Hshape 2 w E) as [(Hn & _)|(_ & s & ->)]; [discriminate|reflexivity]. }
    rewrite H1. cbn [obind]. rewrite Hurl, trim_any_prefix. rewrite H2. cbn [obind]. rewrite Ht. cbn [obind].
    destruct (escape_total txt_type eq_refl) as (l1 & ->). cbn [obind].
    destruct (escape_total tn Hu) as (tt & ->). cbn [obind].
    destruct (escape_total txt_value eq_refl) as (l2 & ->). cbn [obind]. eauto.
  Qed.

  Lemma leaves_of_flat qs : Forall (fun p => p_path p <> []) qs -> leaves env qs = qs.
  Proof.
    induction 1 as [|p r Hp Hr IH]; [reflexivity|]. unfold leaves in *. cbn [flat_map]. rewrite IH.
    unfold prop_leaves. destruct (p_path p); [congruence|reflexivity].
  Qed.

  Lemma prop_lookup_S f p m :
    prop_lookup env (S f) p m =
      match p_path p with
      | [] =>
        match p_ty p with
        | FOneof r =>
          match lookup env r with
          | Some (SOneof ps) =>
            match get_one_with (fun q => prop_lookup env f q m) ps None with
            | Ok (Some _) => Ok (Some (VMsg m))
            | Ok None => Ok None
            | Err _ => Ok None
            | Panic s => Panic s
            | OutOfFuel => OutOfFuel
            end
          | _ => Panic "schema reference"
          end
        | _ => Err "Reflection Bug: no proto field and not a oneof"
        end
      | path => Ok (walk path m)
      end.
  Proof. reflexivity. Qed.

  Lemma object_total d : TV d -> forall ps m, rep_props ps m -> (pval_depth (VMsg m) <= S d)%nat ->
    forall f, (4 * d + 3 <= f)%nat -> exists txt, enc_object f ps m = Ok txt.
  Proof.
    intros IH ps m Hrep Hd f Hf. destruct f as [|f]; [lia|]. rewrite enc_object_S.
    inversion Hrep as [? ? Hok Hvals Hsib Hexp]; subst.
    destruct (sequence_all_ok (fun p =>
              obind (prop_lookup env lookup_fuel p m) (fun ov =>
              match ov with
              | None => Ok []
              | Some v => obind (escape (p_json p)) (fun l =>
                          omap (fun b => [member l b]) (enc_value f (p_ty p) v))
              end)) ps) as (xs & Hxs).
    2:{ rewrite Hxs. unfold omap. cbn [obind]. eauto. }
    intros p Hp. destruct (p_path p) as [|n0 rest] eqn:Epath.
    - (* an exposed oneof *)
      destruct (po_exposed _ _ Hok p Hp Epath) as (r & qs & Ety & Elk).
      pose proof (Hflat _ _ Elk) as HF.
      assert (Hlv : prop_leaves env p = qs) by (unfold prop_leaves; rewrite Epath, Ety, Elk; reflexivity).
      assert (Hsub : forall q, In q qs -> In q (leaves env ps)).
      { intros q Hq. unfold leaves. apply in_flat_map. exists p. split; [exact Hp|rewrite Hlv; exact Hq]. }
      assert (Hlook : prop_lookup env lookup_fuel p m =
                      match members_present qs m with [_] => Ok (Some (VMsg m)) | _ => Ok None end).
      { unfold lookup_fuel. rewrite prop_lookup_S, Epath, Ety, Elk.
        rewrite (get_one_members _ qs m None).
        2:{ intros q Hq. apply prop_lookup_path. rewrite Forall_forall in HF. apply HF. exact Hq. }
        destruct (members_present qs m) as [|x [|y t]]; reflexivity. }
      rewrite Hlook. destruct (members_present qs m) as [|x [|y t]] eqn:Em; cbn [obind]; eauto.
      destruct (escape_total (p_json p) (po_utf8 _ _ Hok p Hp)) as (l & ->). cbn [obind].
      destruct f as [|f']; [lia|]. rewrite enc_value_S, Ety, Elk.
      destruct (oneof_total d IH qs m HF) with (f := f') as (b & Hb).
      + pose proof (po_nodup _ _ Hok) as Hn. unfold leaves in Hn.
        pose proof (NoDup_flat_map_part _ _ p Hn Hp) as Hq. rewrite Hlv in Hq. exact Hq.
      + intros q v Hq Hv. apply (Hvals q v (Hsub q Hq) Hv).
      + intros q Hq. apply (po_utf8_leaves _ _ Hok). apply Hsub. exact Hq.
      + intros q1 q2 H1 H2 P1 P2. apply (Hexp p q1 q2 Hp); try assumption;
          unfold exposed_members; rewrite Epath, Hlv; assumption.
      + exact Hd.
      + lia.
      + rewrite Hb. unfold omap. cbn [obind]. eauto.
    - rewrite prop_lookup_path by congruence. rewrite Epath.
      destruct (present (n0 :: rest) m) as [v|] eqn:Ev; cbn [obind]; eauto.
      destruct (escape_total (p_json p) (po_utf8 _ _ Hok p Hp)) as (l & ->). cbn [obind].
      assert (Hleaf : In p (leaves env ps)).
      { unfold leaves. apply in_flat_map. exists p. split; [exact Hp|]. unfold prop_leaves. rewrite Epath. left. reflexivity. }
      rewrite <- Epath in Ev. destruct (Hvals p v Hleaf Ev) as [Hrv _].
      destruct (IH (p_ty p) v Hrv) with (f := f) as (b & ->).
      + apply present_depth in Ev. lia.
      + lia.
      + unfold omap. cbn [obind]. eauto.
  Qed.

  Lemma value_total : forall d, TV d.
  Proof.
    induction d as [|d IH].
    - intros t v _ Hd. exfalso. destruct v; cbn [pval_depth] in Hd; lia.
    - intros t v Hrep Hd f Hf. destruct f as [|f]; [lia|]. rewrite enc_value_S.
      inversion Hrep as [k w Hs|r pre opts n name Elk Eon _ Hu|r ps m Elk Hp|r ps m Elk Hp Hone|it l Hne Hit Hall
                         |it es Hne Hit Hnd Hall Hkeys|m Hu Hshape Hcomp Hany Hbk|m tn Hurl Hu Hshape Hany Hbk]; subst.
      + destruct (Hscalar k v Hs) as (J & (txt & Ht & _) & _). eauto.
      + rewrite Elk, Eon. apply escape_total. exact Hu.
      + rewrite Elk. apply (object_total d IH ps m Hp Hd). lia.
      + rewrite Elk. pose proof (Hflat _ _ Elk) as HF.
        inversion Hp as [? ? Hok Hvals _ _]; subst. pose proof (leaves_of_flat ps HF) as Hlv.
        apply (oneof_total d IH ps m HF).
        * pose proof (po_nodup _ _ Hok) as Hn. rewrite Hlv in Hn. exact Hn.
        * intros q w Hq Hw. apply (Hvals q w); [rewrite Hlv; exact Hq|exact Hw].
        * intros q Hq. apply (po_utf8 _ _ Hok). exact Hq.
        * exact Hone.
        * exact Hd.
        * lia.
      + destruct (sequence_all_ok (enc_value f it) l) as (xs & Hxs).
        * intros x Hx. rewrite Forall_forall in Hall. apply (IH it x (Hall x Hx)); [|lia].
          apply list_depth in Hx. lia.
        * rewrite Hxs. unfold omap. cbn [obind]. eauto.
      + destruct (sequence_all_ok (fun kv => obind (escape (fst kv)) (fun l =>
                                             omap (member l) (enc_value f it (snd kv)))) es) as (xs & Hxs).
        * intros kv Hkv. rewrite Forall_forall in Hall, Hkeys.
          destruct (escape_total (fst kv) (Hkeys kv Hkv)) as (l & ->). cbn [obind].
          destruct (IH it (snd kv) (Hall kv Hkv)) with (f := f) as (b & ->).
          -- apply map_depth in Hkv. apply Nat.lt_succ_r. eapply Nat.lt_le_trans; [exact Hkv|exact Hd].
          -- lia.
          -- unfold omap. cbn [obind]. eauto.
        * rewrite Hxs. unfold omap. cbn [obind]. eauto.
      + apply any_total. exact Hrep.
      + apply pbany_total. exact Hrep.
  Qed.

  Theorem encode_total root m : rep_root any_inner raw any_back env root m ->
    exists txt, encode fmt_float any_inner env root m = Ok txt.
  Proof.
    unfold rep_root, encode, encode_fuel. intros Hrep.
    destruct (lookup env root) as [[ps|ps|]|] eqn:Elk; try contradiction.
    - set (d := pval_depth (VMsg m)).
      assert (Hd : (1 <= d)%nat) by (unfold d; cbn [pval_depth]; lia).
      apply (object_total (d - 1) (value_total (d - 1)) ps m Hrep); lia.
    - destruct Hrep as [Hrep Hone]. set (d := pval_depth (VMsg m)).
      assert (Hd : (1 <= d)%nat) by (unfold d; cbn [pval_depth]; lia).
      pose proof (Hflat _ _ Elk) as HF.
      inversion Hrep as [? ? Hok Hvals _ _]; subst. pose proof (leaves_of_flat ps HF) as Hlv.
      apply (oneof_total (d - 1) (value_total (d - 1)) ps m HF).
      + pose proof (po_nodup _ _ Hok) as Hn. rewrite Hlv in Hn. exact Hn.
      + intros q w Hq Hw. apply (Hvals q w); [rewrite Hlv; exact Hq|exact Hw].
      + intros q Hq. apply (po_utf8 _ _ Hok). exact Hq.
      + exact Hone.
      + lia.
      + lia.
  Qed.

  (* the property: encoding succeeds, the text is one JSON document, and decoding it (within the
     decoder's nesting bound) gives an equivalent message *)
  Hypothesis Hnames : oneof_names_ok env.
  Hypothesis Hinner : inner_ok any_inner.
  Hypothesis Hraw_ne : forall j, wfb j = true -> raw j <> [].
  Variable mapchk : bool.

  Theorem codec_full root m : rep_root any_inner raw any_back env root m ->
    exists txt J, encode fmt_float any_inner env root m = Ok txt /\ strict_parse txt = Some J /\
      (N.of_nat (jnest J) <= max_nesting ->
       exists m', decode_tree dsc raw mapchk any_back env root J = Ok m' /\ equiv_root any_inner raw any_back env root m m').
  Proof.
    intros Hrep. destruct (encode_total root m Hrep) as (txt & Henc).
    destruct (codec_roundtrip fmt_float any_inner dsc raw Hraw_ne mapchk any_back env Hflat Hnames Hscalar Hinner root m txt Hrep Henc)
      as (J & HJ & Hdec).
    exists txt, J. repeat split; assumption.
  Qed.
End Total.

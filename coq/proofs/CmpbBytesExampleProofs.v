(* CmpbBytesExampleProofs.v — non-vacuity of output_total_deterministic / output_deterministic (CmpbBytesProofs.v).
   Source set: foo/v1/a.j5s (object Foo: a reference into the imported package baz.v1, an enum reference with rules,
   a reference to another file of its own package), foo/v1/b.j5s (object Other, service Svc: a sub-package file),
   baz/v1/types.j5s.  Dependency set: j5/ext/v1/annotations.proto and buf/validate/validate.proto, both importing
   google/protobuf/descriptor.proto: every generated file imports NON-LOCAL files, which findFileByPath hands to the
   dependency resolver.  Annotation table: message Foo has a source line, a leading comment and one option; field
   Foo.bar has two options (so the two Range orders really differ).
   Run 1: canonical listings, identity orders, fresh PackageSet.  Run 2: reversed package listing, reversed file
   listing, every map order reversed, other fuels, baz.v1 and foo.v1 compiled before on the same PackageSet, Range
   order reversed. *)
From Coq Require Import String List Arith NArith ZArith Bool Lia Permutation.
From J5V.lib Require Import Outcome Strcase.
From J5V.model Require Import Desc J5sAst J5sWalk J5sConvert CmpbOrder CmpbInstance CmpbBytes.
From J5V.model Require ProtoPrintLit ProtoPrint ProtoPrintFile ProtoPrintFileWf ProtoParseFile.
From J5V.proofs Require ProtoPrintFileExample ProtoPrintFileSemProofs ProtoPrintFileFullProofs ProtoPrintFileWfProofs.
From J5V.proofs Require Import CmpbOrderProofs CmpbComposeProofs CmpbLinkTotalProofs CmpbBytesProofs.
Import ListNotations.
Module X := ProtoPrintFileExample.

Definition foo_v1 : list str := [b "foo"; b "v1"].
Definition baz_v1 : list str := [b "baz"; b "v1"].
Definition exb_bd : J5sAst.bundle :=
  [ BJ (mkJfile foo_v1 (b "a") [mkImport (b "baz.v1") (b "baz")]
         [EObject (b "Foo") (mkprops [Property (b "bar") false false (FObjRef (mkRef (b "baz") (b "Bar")));
                                      Property (b "k") true false (FEnumRef (mkRef (b "baz") (b "Kind")));
                                      Property (b "own") false false (FObjRef (mkRef [] (b "Other")))]) NNil]);
    BJ (mkJfile foo_v1 (b "b") [] [EObject (b "Other") (mkprops [Property (b "x") false false (FScalar SString)]) NNil;
                                   EService (J5sAst.mkService (b "Svc") None [])]);
    BJ (mkJfile baz_v1 (b "types") [] [EObject (b "Bar") (mkprops [Property (b "x") false false (FScalar SString)]) NNil;
                                       EEnum (J5sAst.mkEnum (b "Kind") [] [b "A"; b "B"])]) ].
Definition p_desc : bytes := b "google/protobuf/descriptor.proto".
Definition p_ann : bytes := b "j5/ext/v1/annotations.proto".
Definition p_val : bytes := b "buf/validate/validate.proto".
Definition exb_exts : list Desc.dfile :=
  [ mkDfile p_ann (b "j5.ext.v1") [p_desc] [] [] [];
    mkDfile p_val (b "buf.validate") [p_desc] [] [] [];
    mkDfile p_desc (b "google.protobuf") [] [] [] [] ].
Definition exb_pkgs : list bytes := [b "foo.v1"; b "baz.v1"].
Definition exb_ann : ann_table := fun file kind path =>
  if (kind =? K_FIELD)%N && PP.qname_eqb path [b "Foo"; b "bar"] then mkAnnot 0 PF.no_cmt [X.opt_key; X.opt_validate]
  else if (kind =? K_MSG)%N && PP.qname_eqb path [b "Foo"] then
         mkAnnot 3 {| PF.c_det := []; PF.c_lead := X.bl " Foo" |} [X.opt_object]
  else mkAnnot 0 PF.no_cmt [].
Definition exb_r1 : run :=
  mkRun exb_pkgs (src_files exb_bd) (fun _ l => l) (fun _ l => l) (fun _ l => l) 3 6 [] (fun l => l).
Definition exb_r2 : run :=
  mkRun (rev exb_pkgs) (rev (src_files exb_bd)) (fun _ l => rev l) (fun _ l => rev l) (fun _ l => rev l) 5 9
        [b "baz.v1"; b "foo.v1"] (fun l => rev l).
Definition exb_rank (n : bytes) : nat := if beqb n (b "foo.v1") then 1%nat else 0%nat.
Definition exb_frank (o : bytes) : nat :=
  if beqb o p_desc then 0%nat else if beqb o p_ann then 1%nat else if beqb o p_val then 1%nat
  else if beqb o (b "baz/v1/types.j5s.proto") then 2%nat else if beqb o (b "foo/v1/b.j5s.proto") then 3%nat
  else if beqb o (b "foo/v1/a.j5s.proto") then 4%nat else 2%nat.
Notation exb_b0 := (flat_bundle exb_pkgs (src_files exb_bd)).
Notation exb_conv := (cmpa_convert exb_bd).

Lemma str_eqb_true x : forall y, str_eqb x y = true -> x = y.
Proof.
  induction x as [|c r IH]; intros [|d s] H; cbn [str_eqb] in H; try discriminate; [reflexivity|].
  apply andb_prop in H. destruct H as [A B]. apply N.eqb_eq in A. subst. f_equal. apply IH. exact B.
Qed.

Ltac which_pkg H q :=
  rewrite find_pkg_flat in H; cbn [existsb exb_pkgs] in H;
  destruct (beqb q (b "foo.v1")) eqn:?E1;
  [apply beqb_eq in E1; subst q
  |destruct (beqb q (b "baz.v1")) eqn:?E2; [apply beqb_eq in E2; subst q|]]; cbn [orb] in H.

Lemma exb_valid : valid exb_b0.
Proof.
  intros n fs H. which_pkg H n; try discriminate; inversion H; subst fs; split; vm_compute;
    repeat (constructor; [cbn; intuition discriminate|]); constructor.
Qed.
Lemma exb_wf : well_founded_deps exb_b0 exb_rank.
Proof.
  intros n files H d Hd. which_pkg H n; try discriminate; inversion H; subst files; vm_compute in Hd.
  - destruct Hd as [<-|[]]. split; [vm_compute; discriminate|vm_compute; lia].
  - destruct Hd.
Qed.

(* the produced files, by package *)
Lemma exb_files q o d : map_get o (p_files (spec_pkg exb_conv exb_b0 q)) = Some d ->
  (q = b "foo.v1" /\ In (o, d) (p_files (spec_pkg exb_conv exb_b0 (b "foo.v1"))))
  \/ (q = b "baz.v1" /\ In (o, d) (p_files (spec_pkg exb_conv exb_b0 (b "baz.v1")))).
Proof.
  intro H. apply map_get_in_pair in H.
  destruct (find_pkg q exb_b0) as [files|] eqn:Ef; [|unfold spec_pkg in H; rewrite Ef in H; destruct H].
  which_pkg Ef q; try discriminate; [left|right]; split; try reflexivity; exact H.
Qed.

Ltac each_file Hin :=
  vm_compute in Hin;
  repeat match goal with
         | H : _ \/ _ |- _ => destruct H as [H|H]
         | H : False |- _ => destruct H
         | H : (_, _) = (_, _) |- _ => inversion H; clear H; subst
         end.

Lemma exb_owner_ok : owner_ok exb_conv split_owner (is_local_of exb_pkgs) exb_b0.
Proof.
  intros q o d H. destruct (exb_files q o d H) as [[-> Hin]|[-> Hin]]; each_file Hin; split; vm_compute; reflexivity.
Qed.

(* the first clause of imports_wf, decided once by computation over the produced files *)
Definition exb_dep_ok (q : bytes) (files : list (@srcfile jfile)) (o dep : bytes) : bool :=
  (negb (is_local_of exb_pkgs dep) || beqb (split_owner dep) q || existsb (beqb (split_owner dep)) (dep_names q files))
  && match spec_lookup exb_conv split_owner (is_local_of exb_pkgs) (c_ext_file exb_exts) exb_b0 dep with Some _ => true | None => false end
  && (exb_frank dep <? exb_frank o)%nat.
Definition exb_pkg_ok (q : bytes) : bool :=
  match find_pkg q exb_b0 with
  | None => false
  | Some files => forallb (fun od => forallb (exb_dep_ok q files (fst od)) (c_deps_of (snd od))) (p_files (spec_pkg exb_conv exb_b0 q))
  end.
Lemma exb_pkgs_ok : exb_pkg_ok (b "foo.v1") = true /\ exb_pkg_ok (b "baz.v1") = true.
Proof. split; vm_compute; reflexivity. Qed.

Lemma exb_imports_wf : imports_wf exb_conv split_owner (is_local_of exb_pkgs) (c_ext_file exb_exts) c_deps_of exb_b0 exb_frank.
Proof.
  split.
  - intros q files o d Hf H dep Hdep.
    assert (Hq : exb_pkg_ok q = true /\ In (o, d) (p_files (spec_pkg exb_conv exb_b0 q))).
    { destruct (exb_files q o d H) as [[-> Hin]|[-> Hin]]; split; try exact Hin; apply exb_pkgs_ok. }
    destruct Hq as [Hok Hin]. unfold exb_pkg_ok in Hok. rewrite Hf in Hok.
    rewrite forallb_forall in Hok. specialize (Hok (o, d) Hin). cbn [fst snd] in Hok.
    rewrite forallb_forall in Hok. specialize (Hok dep Hdep). unfold exb_dep_ok in Hok.
    apply andb_prop in Hok. destruct Hok as [Hok C]. apply andb_prop in Hok. destruct Hok as [A B].
    split; [|split].
    + intro Hl. rewrite Hl in A. cbn [negb orb] in A. apply orb_prop in A. destruct A as [A|A].
      * left. apply beqb_eq. exact A.
      * right. apply existsb_exists in A. destruct A as [x [Hx Ex]]. apply beqb_eq in Ex. subst x. exact Hx.
    + destruct (spec_lookup exb_conv split_owner (is_local_of exb_pkgs) (c_ext_file exb_exts) exb_b0 dep); [discriminate|discriminate B].
    + apply Nat.ltb_lt. exact C.
  - intros n d Hl He dep Hdep. unfold c_ext_file in He.
    destruct (find (fun d0 : Desc.dfile => str_eqb (fl_path d0) n) exb_exts) as [d0|] eqn:Ef; [|discriminate].
    inversion He; subst d. clear He. apply find_some in Ef. destruct Ef as [Hd0 Hn]. apply str_eqb_true in Hn. subst n.
    cbn [exb_exts In] in Hd0. destruct Hd0 as [<-|[<-|[<-|[]]]]; cbn [c_deps_of fl_deps fl_path In] in *.
    + destruct Hdep as [<-|[]]. split; [reflexivity|split; [vm_compute; discriminate|vm_compute; lia]].
    + destruct Hdep as [<-|[]]. split; [reflexivity|split; [vm_compute; discriminate|vm_compute; lia]].
    + destruct Hdep.
Qed.

Ltac distinct_keys :=
  let a := fresh "a" in let c := fresh "c" in let Ha := fresh "Ha" in let Hc := fresh "Hc" in let E := fresh "E" in
  intros a c Ha Hc E; cbn [a_opts In] in Ha, Hc;
  repeat match goal with H : _ \/ _ |- _ => destruct H | H : False |- _ => destruct H end;
  subst; try reflexivity; vm_compute in E; discriminate.
Lemma exb_ann_ok : ann_ok exb_ann.
Proof.
  intros file kind path. unfold exb_ann.
  destruct ((kind =? K_FIELD)%N && PP.qname_eqb path [b "Foo"; b "bar"]); [distinct_keys|].
  destruct ((kind =? K_MSG)%N && PP.qname_eqb path [b "Foo"]); distinct_keys.
Qed.

Lemma exb_r1_ok : run_ok exb_pkgs exb_bd exb_r1.
Proof. unfold run_ok, perm_fun. cbn. repeat split; intros; apply Permutation_refl. Qed.
Lemma exb_r2_ok : run_ok exb_pkgs exb_bd exb_r2.
Proof. unfold run_ok, perm_fun. cbn [exb_r2 r_pkgs r_files r_lf r_rd r_rf r_range]. repeat split; intros; apply Permutation_sym, Permutation_rev. Qed.

(* both runs compute, to the same three files with their descriptors and non-empty token sequences *)
Lemma exb_computes : exists o,
  compile_and_print exb_bd exb_exts exb_ann exb_r1 (b "foo.v1") = Some o
  /\ compile_and_print exb_bd exb_exts exb_ann exb_r2 (b "foo.v1") = Some o
  /\ map (fun x => fst (fst x)) o = [b "foo/v1/a.j5s.proto"; b "foo/v1/b.j5s.proto"; b "foo/v1/service/b.p.j5s.proto"]
  /\ forallb (fun x => match snd (fst x) with Some _ => true | None => false end && negb (Nat.eqb (length (snd x)) 0)) o = true.
Proof. eexists. split; [vm_compute; reflexivity|split; [vm_compute; reflexivity|split; vm_compute; reflexivity]]. Qed.

(* the printer really receives two different descriptors in the two runs (the options of Foo.bar arrive in the other order) *)
Lemma exb_range_differs : forall out, compile_run exb_bd exb_exts exb_r1 (b "foo.v1") = Some out ->
  map (fun x => reorder (r_range exb_r1) (to_print exb_ann (snd x))) out
  <> map (fun x => reorder (r_range exb_r2) (to_print exb_ann (snd x))) out.
Proof. intros out H. vm_compute in H. inversion H; subst out. clear H. intro E. vm_compute in E. discriminate. Qed.

(* the theorem applies: EVERY run of this source set returns one and the same output *)
Lemma exb_total : exists o, forall r, run_ok exb_pkgs exb_bd r -> (1 < r_fuel r)%nat -> (4 < r_lfuel r)%nat ->
  compile_and_print exb_bd exb_exts exb_ann r (b "foo.v1") = Some o.
Proof.
  destruct (output_total_deterministic exb_bd exb_exts exb_ann exb_pkgs exb_rank exb_frank (b "foo.v1")
              exb_valid exb_wf exb_owner_ok exb_imports_wf) as [o H]; [vm_compute; discriminate|exact exb_ann_ok|].
  exists o. intros r Hr Hf Hl. apply H; [exact Hr|exact Hf|].
  intros f Hin. assert (Hle : (exb_frank f <= 4)%nat); [|lia].
  vm_compute in Hin. destruct Hin as [<-|[<-|[<-|[]]]]; vm_compute; lia.
Qed.

(* the tokens are protobuf text FOR that descriptor in tool's model: every printer descriptor of the example, under both
   Range orders, is well formed in tool's sense (ProtoPrintFileWf.wf_dfile_b: every type reference resolves in the symbol
   table of the file and its imports, ...), so by tool's round-trip theorem its printed tokens parse back (tool's model of
   the protocompile parser) to an equivalent descriptor *)
Lemma exb_printed_reads_back : forall out, compile_run exb_bd exb_exts exb_r1 (b "foo.v1") = Some out ->
  forall x, In x out -> forall rng, rng = r_range exb_r1 \/ rng = r_range exb_r2 ->
    ProtoPrintFileWf.wf_dfile_b (imp_symtab exb_ann (l_imports (snd x))) (reorder rng (to_print exb_ann (snd x))) = true
    /\ exists D', ProtoParseFile.parse_file_tokens (imp_symtab exb_ann (l_imports (snd x))) (print_linked exb_ann rng (snd x)) = Some D'
                  /\ ProtoPrintFileFullProofs.desc_equiv (reorder rng (to_print exb_ann (snd x))) D'.
Proof.
  intros out H. vm_compute in H. inversion H; subst out. clear H.
  intros x Hx rng Hr.
  assert (Hb : ProtoPrintFileWf.wf_dfile_b (imp_symtab exb_ann (l_imports (snd x))) (reorder rng (to_print exb_ann (snd x))) = true
               /\ st_of exb_ann (snd x) = PF.to_symtab (PF.dfile_symtab (imp_symtab exb_ann (l_imports (snd x))) (reorder rng (to_print exb_ann (snd x))))).
  { cbn [In] in Hx. destruct Hx as [<-|[<-|[<-|[]]]]; destruct Hr as [->| ->]; split; vm_compute; reflexivity. }
  destruct Hb as [Hb Hs]. split; [exact Hb|].
  destruct (ProtoPrintFileFullProofs.token_roundtrip _ _ (ProtoPrintFileWfProofs.wf_dfile_b_sound _ _ Hb)) as (D' & Hp & He & _).
  exists D'. split; [|exact He]. unfold print_linked. rewrite Hs. exact Hp.
Qed.

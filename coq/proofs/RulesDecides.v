(* RulesDecides.v — a verdict that decides a proposition, and how such verdicts combine. *)
From Coq Require Import String List NArith ZArith Bool.
From J5V.lib Require Import Outcome.
From J5V.model Require Import RulesDecl Validate.
From J5V.proofs Require Import RulesProofs.
Import ListNotations.

(* a verdict that decides a proposition: accept iff it holds, reject iff it does not
   (so it is never an error) *)
Definition decides (a : verdict) (P : Prop) : Prop := (a = VAccept <-> P) /\ (a = VReject <-> ~ P).

Lemma decides_accept : decides VAccept True.
Proof. split; split; intro H; try exact I; try reflexivity; try discriminate. exfalso. apply H. exact I. Qed.

Lemma decides_iff a P Q : (P <-> Q) -> decides a P -> decides a Q.
Proof. intros H [Ha Hr]. split; [rewrite Ha; exact H|rewrite Hr; rewrite H; reflexivity]. Qed.

Lemma decides_vworst a b P Q : decides a P -> decides b Q -> decides (vworst a b) (P /\ Q).
Proof.
  intros [Ha Hra] [Hb Hrb]. split.
  - rewrite vworst_accept, Ha, Hb. reflexivity.
  - split.
    + intros Hv [HP HQ]. apply Ha in HP. apply Hb in HQ. rewrite HP, HQ in Hv. discriminate.
    + intro Hn.
      assert (Ea : a = VAccept \/ a = VReject).
      { destruct a as [| |k]; auto. exfalso.
        assert (HnP : ~ P) by (intro HP; apply Ha in HP; discriminate). apply Hra in HnP. discriminate. }
      assert (Eb : b = VAccept \/ b = VReject).
      { destruct b as [| |k]; auto. exfalso.
        assert (HnQ : ~ Q) by (intro HQ; apply Hb in HQ; discriminate). apply Hrb in HnQ. discriminate. }
      destruct Ea as [Ea|Ea], Eb as [Eb|Eb]; subst; cbn; try reflexivity.
      exfalso. apply Hn. split; [apply Ha|apply Hb]; reflexivity.
Qed.


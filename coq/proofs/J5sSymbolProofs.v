(* J5sSymbolProofs.v — the symbols of what the converter produces are exactly the symbols the
   source declares (J5sSymbols, read off the source with the README naming rules): for every
   run of properties, nested declaration, request / response / topic message, service, topic,
   file and package, whenever the conversion succeeds. *)
From Coq Require Import String List NArith Bool Lia.
From J5V.lib Require Import Outcome Corr.
From J5V.model Require Import J5sAst Desc J5sWalk J5sLink J5sConvert J5sContract J5sSymbols.
From J5V.proofs Require Import J5sProofs J5sContractProofs J5sServiceProofs.
Import ListNotations.
Local Open Scope N_scope.

Definition msyms (scope : str) (l : list dmsg) : list str := flat_map (msg_symbols scope) l.
Definition esyms (scope : str) (l : list denum) : list str := flat_map (enum_symbols scope) l.

Lemma msg_symbols_eq scope n k fs ms es :
  msg_symbols scope (DMsg n k fs ms es) =
  qual scope n :: map (fun f => qual (qual scope n) (f_name f)) fs ++ msyms (qual scope n) ms ++ esyms (qual scope n) es.
Proof. reflexivity. Qed.

Lemma msyms_app scope a c : msyms scope (a ++ c) = msyms scope a ++ msyms scope c.
Proof. unfold msyms. apply flat_map_app. Qed.
Lemma esyms_app scope a c : esyms scope (a ++ c) = esyms scope a ++ esyms scope c.
Proof. unfold esyms. apply flat_map_app. Qed.

(* a sub-package accumulator is marked used exactly when a service / topic was added *)
Lemma J5sSubPkgAux_used snake camel screaming ev pkg els : forall m s t m' s' t',
  cv_elements snake camel screaming ev pkg els m s t = Ok (m', s', t') ->
  fa_used s' = (fa_used s || match flat_map elem_services els with [] => false | _ => true end) /\
  fa_used t' = (fa_used t || match flat_map elem_topics els with [] => false | _ => true end).
Proof.
  induction els as [|e r IH]; intros m s t m' s' t' H; cbn [J5sConvert.cv_elements] in H.
  - inversion H. subst. cbn. rewrite !orb_false_r. auto.
  - destruct e as [nm ps subs|nm ps subs|en|sv|tp]; cbn [flat_map elem_services elem_topics app].
    + apply obind_ok in H. destruct H as ([[ms es] is] & _ & H). exact (IH _ _ _ _ _ _ H).
    + apply obind_ok in H. destruct H as ([[ms es] is] & _ & H). exact (IH _ _ _ _ _ _ H).
    + exact (IH _ _ _ _ _ _ H).
    + apply obind_ok in H. destruct H as ([[ms ss] is] & _ & H). destruct (IH _ _ _ _ _ _ H) as [A B].
      cbn [facc_add fa_used] in A. rewrite A, orb_true_r. cbn [orb]. split; [reflexivity|exact B].
    + apply obind_ok in H. destruct H as ([[ms ss] is] & _ & H). destruct (IH _ _ _ _ _ _ H) as [A B].
      cbn [facc_add fa_used] in B. rewrite B, orb_true_r. cbn [orb]. split; [exact A|reflexivity].
Qed.

Section Syms.
Variables snake camel screaming : str -> str.
Notation cv_item := (cv_item snake camel screaming).
Notation cv_props := (cv_props snake camel screaming).
Notation cv_property := (cv_property snake camel screaming).
Notation cv_enum := (cv_enum screaming).
Notation cv_nested := (cv_nested snake camel screaming).
Notation cv_nesteds := (cv_nesteds snake camel screaming).
Notation cv_virtual := (cv_virtual snake camel screaming).
Notation decl_enum_syms := (decl_enum_syms screaming).
Notation item_enum_syms := (item_enum_syms camel screaming).
Notation props_enum_syms := (props_enum_syms camel screaming).
Notation field_syms := (field_syms snake).
Notation item_msg_syms := (item_msg_syms snake camel screaming).
Notation props_msg_syms := (props_msg_syms snake camel screaming).
Notation property_msg_syms := (property_msg_syms snake camel screaming).
Notation entry_syms := (entry_syms snake).
Notation virtual_syms := (virtual_syms snake camel screaming).
Notation nested_msg_syms := (nested_msg_syms snake camel screaming).
Notation nesteds_msg_syms := (nesteds_msg_syms snake camel screaming).
Notation nesteds_enum_syms := (nesteds_enum_syms screaming).

(* ---- unfolding equations of the declared symbols *)
Lemma item_msg_syms_obj scope pn nm ps :
  item_msg_syms scope pn (FObjInline nm ps) =
  qual scope (inline_type_name camel pn nm) ::
    field_syms (qual scope (inline_type_name camel pn nm)) (props_list ps) ++
    props_msg_syms (qual scope (inline_type_name camel pn nm)) ps ++
    props_enum_syms (qual scope (inline_type_name camel pn nm)) ps.
Proof. reflexivity. Qed.
Lemma item_msg_syms_oneof scope pn nm ps :
  item_msg_syms scope pn (FOneofInline nm ps) =
  qual scope (inline_type_name camel pn nm) ::
    field_syms (qual scope (inline_type_name camel pn nm)) (props_list ps) ++
    props_msg_syms (qual scope (inline_type_name camel pn nm)) ps ++
    props_enum_syms (qual scope (inline_type_name camel pn nm)) ps.
Proof. reflexivity. Qed.
Lemma props_msg_syms_cons scope p r :
  props_msg_syms scope (PCons p r) = property_msg_syms scope p ++ props_msg_syms scope r.
Proof. reflexivity. Qed.
Lemma property_msg_syms_eq scope n rq op f :
  property_msg_syms scope (Property n rq op f) =
  match f with
  | FArray it => item_msg_syms scope n it
  | FMap it => item_msg_syms scope n it ++ entry_syms scope n
  | _ => item_msg_syms scope n f
  end.
Proof. destruct f; reflexivity. Qed.
Lemma props_enum_syms_cons scope n rq op f r :
  props_enum_syms scope (PCons (Property n rq op f) r) = item_enum_syms scope n (elem f) ++ props_enum_syms scope r.
Proof. reflexivity. Qed.

(* ---- enums *)
Lemma number_opts_names pfx l : forall n, map fst (number_opts pfx n l) = map (opt_value_name pfx) l.
Proof. induction l as [|o r IH]; intros n; cbn; [reflexivity|]. rewrite IH. reflexivity. Qed.

Lemma cv_enum_syms scope name e : enum_symbols scope (cv_enum name e) = decl_enum_syms scope name e.
Proof.
  unfold enum_symbols, J5sSymbols.decl_enum_syms, decl_value_names, J5sConvert.cv_enum, strict_opts.
  rewrite (enum_prefix_spec screaming).
  destruct (e_opts e) as [|o r]; cbn [en_name en_vals map fst]; [reflexivity|].
  change (b "UNSPECIFIED") with unspecified.
  rewrite (explicit_zero_spec). destruct (zero_spelled _ o) eqn:Hz; cbn [en_name en_vals map fst].
  - unfold zero_spelled in Hz. apply str_eqb_eq in Hz. unfold opt_value_name in Hz. unfold value_name. rewrite Hz.
    rewrite <- map_map with (f := fst). rewrite number_opts_names. reflexivity.
  - rewrite <- map_map with (f := fst). rewrite number_opts_names. reflexivity.
Qed.

(* ---- properties, to any depth *)
Definition item_sym0 (f : field) : Prop :=
  forall ev path pn c scope, cv_item ev path (camel pn) f = Ok c ->
    msyms scope (fc_msgs c) = item_msg_syms scope pn f /\
    esyms scope (fc_enums c) = item_enum_syms scope pn f.
Definition item_sym (f : field) : Prop :=
  item_sym0 f /\ match f with FArray it | FMap it => item_sym0 it | _ => True end.
Definition props_sym (ps : props) : Prop :=
  forall ev path io num r scope, cv_props ev path io num ps = Ok r ->
    map (fun f => qual scope (f_name f)) (pr_fields r) = field_syms scope (props_list ps) /\
    msyms scope (pr_msgs r) = props_msg_syms scope ps /\
    esyms scope (pr_enums r) = props_enum_syms scope ps.
Definition property_sym (p : property) : Prop :=
  forall ev path io num r scope, cv_property ev path io num p = Ok r ->
    map (fun f => qual scope (f_name f)) (pr_fields r) = [qual scope (snake (prop_name p))] /\
    msyms scope (pr_msgs r) = property_msg_syms scope p /\
    esyms scope (pr_enums r) = item_enum_syms scope (prop_name p) (elem (prop_field p)).

Theorem convert_symbols :
  (forall f, item_sym f) /\ (forall ps, props_sym ps) /\ (forall p, property_sym p).
Proof.
  apply ast_mutind.
  - intros s. split; [|exact I]. intros ev path pn c scope H. cbn in H. inversion H. subst c.
    destruct (scalar_core_msgs s) as [Hm He]. rewrite Hm, He. split; reflexivity.
  - intros r. split; [|exact I]. intros ev path pn c scope H. cbn in H. apply ref_core_shape in H.
    destruct H as (_ & Hm & He). rewrite Hm, He. split; reflexivity.
  - intros nm ps IH. split; [|exact I]. intros ev path pn c scope H.
    rewrite (cv_item_obj snake camel screaming) in H. inv_ok H. inversion H. subst c. clear H.
    cbn [fc_msgs fc_enums]. rewrite (inline_name_spec camel) in *.
    split; [|reflexivity]. unfold msyms at 1. cbn [flat_map]. rewrite app_nil_r, msg_symbols_eq, item_msg_syms_obj.
    destruct (IH _ _ _ _ _ (qual scope (inline_type_name camel pn nm)) E) as (Hf & Hm & He).
    rewrite Hf, Hm, He. reflexivity.
  - intros r. split; [|exact I]. intros ev path pn c scope H. cbn in H. apply ref_core_shape in H.
    destruct H as (_ & Hm & He). rewrite Hm, He. split; reflexivity.
  - intros nm ps IH. split; [|exact I]. intros ev path pn c scope H.
    rewrite (cv_item_oneof snake camel screaming) in H. inv_ok H. inversion H. subst c. clear H.
    cbn [fc_msgs fc_enums]. rewrite (inline_name_spec camel) in *.
    split; [|reflexivity]. unfold msyms at 1. cbn [flat_map]. rewrite app_nil_r, msg_symbols_eq, item_msg_syms_oneof.
    destruct (IH _ _ _ _ _ (qual scope (inline_type_name camel pn nm)) E) as (Hf & Hm & He).
    rewrite Hf, Hm, He. reflexivity.
  - intros r. split; [|exact I]. intros ev path pn c scope H. cbn in H. apply ref_core_shape in H.
    destruct H as (_ & Hm & He). rewrite Hm, He. split; reflexivity.
  - intros e. split; [|exact I]. intros ev path pn c scope H.
    cbn [J5sConvert.cv_item] in H. inversion H. subst c. clear H.
    cbn [fc_msgs fc_enums]. rewrite (inline_name_spec camel).
    split; [reflexivity|]. unfold esyms. cbn [flat_map]. rewrite app_nil_r, cv_enum_syms. reflexivity.
  - intros it [IH _]. split; [|exact IH]. intros ev path pn c scope H. cbn in H. discriminate.
  - intros it [IH _]. split; [|exact IH]. intros ev path pn c scope H. cbn in H. discriminate.
  - intros ev path io num r scope H. cbn in H. inversion H. subst r. cbn. auto.
  - intros p IHp ps IHps ev path io num r scope H. rewrite (cv_props_cons snake camel screaming) in H.
    inv_ok H. inversion H. subst r. clear H.
    destruct (IHp _ _ _ _ _ scope E) as (Hf & Hm & He). destruct (IHps _ _ _ _ _ scope E0) as (Hf' & Hm' & He').
    cbn [pres_app pr_fields pr_msgs pr_enums props_list].
    rewrite map_app, msyms_app, esyms_app, Hf, Hm, He, Hf', Hm', He', props_msg_syms_cons.
    destruct p as [n rq op f]. rewrite props_enum_syms_cons. cbn [prop_name prop_field]. auto.
  - intros n rq op f [IH IHit] ev path io num r scope H. rewrite (cv_property_eq snake camel screaming) in H.
    rewrite property_msg_syms_eq. cbn [prop_name prop_field].
    destruct f as [s|rf|nm ps|rf|nm ps|rf|e|it|it].
    1-7: inv_ok H; apply finish_inv in H; destruct H as (Hf & Hm & He);
         destruct (IH _ _ _ _ scope E) as (Hms & Hes); rewrite Hf, Hm, He; cbn [map f_name elem];
         (split; [reflexivity|]); split; assumption.
    + inv_ok H. apply finish_inv in H. destruct H as (Hf & Hm & He).
      destruct (IHit _ _ _ _ scope E) as (Hms & Hes). rewrite Hf, Hm, He. cbn [map f_name elem].
      split; [reflexivity|]. split; assumption.
    + inv_ok H. destruct io; [discriminate|]. apply finish_inv in H. destruct H as (Hf & Hm & He).
      destruct (IHit _ _ _ _ scope E) as (Hms & Hes). rewrite Hf, Hm, He. cbn [map f_name elem].
      split; [reflexivity|]. split; [|exact Hes].
      rewrite msyms_app, Hms. f_equal. unfold msyms. cbn [flat_map]. rewrite app_nil_r, msg_symbols_eq.
      rewrite (map_name_spec snake). reflexivity.
Qed.

(* ---- declared objects / oneofs / enums with their nested declarations *)
Lemma nested_msg_syms_obj scope nm ps subs :
  nested_msg_syms scope (NObject nm ps subs) =
  qual scope nm :: field_syms (qual scope nm) (props_list ps) ++
    (props_msg_syms (qual scope nm) ps ++ nesteds_msg_syms (qual scope nm) subs) ++
    (props_enum_syms (qual scope nm) ps ++ nesteds_enum_syms (qual scope nm) subs).
Proof. reflexivity. Qed.
Lemma nested_msg_syms_oneof scope nm ps subs :
  nested_msg_syms scope (NOneof nm ps subs) =
  qual scope nm :: field_syms (qual scope nm) (props_list ps) ++
    (props_msg_syms (qual scope nm) ps ++ nesteds_msg_syms (qual scope nm) subs) ++
    (props_enum_syms (qual scope nm) ps ++ nesteds_enum_syms (qual scope nm) subs).
Proof. reflexivity. Qed.
Lemma nesteds_msg_syms_cons scope n r :
  nesteds_msg_syms scope (NCons n r) = nested_msg_syms scope n ++ nesteds_msg_syms scope r.
Proof. reflexivity. Qed.

Definition nested_enum_syms (scope : str) (n : nested) : list str :=
  match n with NEnum e => decl_enum_syms scope (e_name e) e | _ => [] end.
Lemma nesteds_enum_syms_cons scope n r :
  nesteds_enum_syms scope (NCons n r) = nested_enum_syms scope n ++ nesteds_enum_syms scope r.
Proof. destruct n; reflexivity. Qed.

Theorem nested_symbols :
  (forall n ev path ms es is scope, cv_nested ev path n = Ok (ms, es, is) ->
     msyms scope ms = nested_msg_syms scope n /\ esyms scope es = nested_enum_syms scope n) /\
  (forall ns ev path ms es is scope, cv_nesteds ev path ns = Ok (ms, es, is) ->
     msyms scope ms = nesteds_msg_syms scope ns /\ esyms scope es = nesteds_enum_syms scope ns).
Proof.
  destruct convert_symbols as (_ & Hprops & _).
  apply nested_mutind.
  - intros nm ps subs IH ev path ms es is scope H. rewrite (cv_nested_obj snake camel screaming) in H. inv_ok H.
    destruct a0 as [[sm se] si]. inversion H. subst ms es is. clear H.
    destruct (Hprops _ _ _ _ _ _ (qual scope nm) E) as (Hf & Hm & He).
    destruct (IH _ _ _ _ _ (qual scope nm) E0) as (Hsm & Hse).
    split; [|reflexivity]. unfold msyms at 1. cbn [flat_map]. rewrite app_nil_r, msg_symbols_eq, nested_msg_syms_obj.
    rewrite msyms_app, esyms_app, Hf, Hm, He, Hsm, Hse. reflexivity.
  - intros nm ps subs IH ev path ms es is scope H. rewrite (cv_nested_oneof snake camel screaming) in H. inv_ok H.
    destruct a0 as [[sm se] si]. inversion H. subst ms es is. clear H.
    destruct (Hprops _ _ _ _ _ _ (qual scope nm) E) as (Hf & Hm & He).
    destruct (IH _ _ _ _ _ (qual scope nm) E0) as (Hsm & Hse).
    split; [|reflexivity]. unfold msyms at 1. cbn [flat_map]. rewrite app_nil_r, msg_symbols_eq, nested_msg_syms_oneof.
    rewrite msyms_app, esyms_app, Hf, Hm, He, Hsm, Hse. reflexivity.
  - intros e ev path ms es is scope H. cbn in H. inversion H. subst. split; [reflexivity|].
    unfold esyms. cbn [flat_map nested_enum_syms]. rewrite app_nil_r. apply cv_enum_syms.
  - intros ev path ms es is scope H. cbn in H. inversion H. subst. split; reflexivity.
  - intros n IHn r IHr ev path ms es is scope H. rewrite (cv_nesteds_cons snake camel screaming) in H. inv_ok H.
    destruct a as [[am ae] ai]. destruct a0 as [[cm ce] ci]. inversion H. subst ms es is. clear H.
    destruct (IHn _ _ _ _ _ scope E) as (A1 & A2). destruct (IHr _ _ _ _ _ scope E0) as (B1 & B2).
    rewrite msyms_app, esyms_app, A1, A2, B1, B2, nesteds_msg_syms_cons, nesteds_enum_syms_cons. auto.
Qed.

(* ---- requests, responses, topic messages *)
Lemma virtual_symbols ev scope name virt decl m is :
  cv_virtual ev name virt decl = Ok (m, is) -> msg_symbols scope m = virtual_syms scope name (papp virt decl).
Proof.
  unfold J5sConvert.cv_virtual. intros H. inv_ok H. inversion H. subst m is. clear H.
  destruct (proj1 (proj2 convert_symbols) _ _ _ _ _ _ (qual scope name) E) as (Hf & Hm & He).
  rewrite msg_symbols_eq, Hf, Hm, He. reflexivity.
Qed.

Notation cv_method := (cv_method snake camel screaming).
Notation cv_methods := (cv_methods snake camel screaming).
Notation cv_service := (cv_service snake camel screaming).
Notation cv_tmsgs := (cv_tmsgs snake camel screaming).
Notation accept_topic := (accept_topic snake camel screaming).
Notation cv_topic := (cv_topic snake camel screaming).
Notation method_msg_syms := (method_msg_syms snake camel screaming).
Notation service_msg_syms := (service_msg_syms snake camel screaming).
Notation tmsgs_msg_syms := (tmsgs_msg_syms snake camel screaming).
Notation tmsgs_svc_syms := (tmsgs_svc_syms camel).
Notation topic_msg_syms := (topic_msg_syms snake camel screaming).
Notation topic_svc_syms := (topic_svc_syms camel).

Lemma method_symbols ev scope base m ms dm is :
  cv_method ev base m = Ok (ms, dm, is) -> msyms scope ms = method_msg_syms scope m /\ me_name dm = m_name m.
Proof.
  unfold J5sConvert.cv_method. intros H.
  apply obind_ok in H. destruct H as ([rq rqi] & Erq & H).
  apply obind_ok in H. destruct H as ([[rmsgs outn] rimps] & Ers & H).
  apply obind_ok in H. destruct H as (h & _ & H). inversion H. subst ms dm is. clear H.
  split; [|reflexivity]. unfold J5sSymbols.method_msg_syms, msyms. cbn [flat_map fst].
  rewrite (virtual_symbols _ scope _ _ _ _ _ Erq). cbn [papp]. f_equal.
  destruct (m_response m) as [ps|].
  - apply obind_ok in Ers. destruct Ers as ([rs rsi] & Ev & Ers). inversion Ers. subst. cbn [flat_map fst].
    rewrite app_nil_r, (virtual_symbols _ scope _ _ _ _ _ Ev). reflexivity.
  - inversion Ers. subst. reflexivity.
Qed.

Lemma methods_symbols ev scope base l : forall ms ds is,
  cv_methods ev base l = Ok (ms, ds, is) ->
  msyms scope ms = flat_map (method_msg_syms scope) l /\ map me_name ds = map m_name l.
Proof.
  induction l as [|m r IH]; intros ms ds is H; cbn [J5sConvert.cv_methods] in H.
  - inversion H. subst. split; reflexivity.
  - apply obind_ok in H. destruct H as ([[am ad] ai] & Ea & H).
    apply obind_ok in H. destruct H as ([[cm cd] ci] & Ec & H). inversion H. subst. clear H.
    destruct (method_symbols _ scope _ _ _ _ _ Ea) as [A1 A2]. destruct (IH _ _ _ Ec) as [B1 B2].
    cbn [flat_map map]. rewrite msyms_app, A1, A2, B1, B2. split; reflexivity.
Qed.

Lemma service_symbols ev scope s ms ss is :
  cv_service ev s = Ok (ms, ss, is) ->
  msyms scope ms = service_msg_syms scope s /\ flat_map (svc_symbols scope) ss = service_svc_syms scope s.
Proof.
  unfold J5sConvert.cv_service. intros H. apply obind_ok in H. destruct H as ([[m1 d1] i1] & E & H). inversion H. subst. clear H.
  destruct (methods_symbols _ scope _ _ _ _ _ E) as [A1 A2]. split; [exact A1|].
  cbn [flat_map]. rewrite app_nil_r. unfold svc_symbols, service_svc_syms. cbn [ds_name ds_methods].
  f_equal. rewrite <- (map_map me_name), A2, map_map. reflexivity.
Qed.

Lemma tmsgs_symbols ev scope tname single virt l : forall ms ds is,
  cv_tmsgs ev tname single virt l = Ok (ms, ds, is) ->
  msyms scope ms = tmsgs_msg_syms scope tname virt l /\ map me_name ds = map (tmsg_name tname) l.
Proof.
  induction l as [|t r IH]; intros ms ds is H.
  - cbn in H. inversion H. subst. split; reflexivity.
  - cbn [J5sConvert.cv_tmsgs] in H.
    apply obind_ok in H. destruct H as (mn & Emn & H).
    apply obind_ok in H. destruct H as ([m1 i1] & Ev & H).
    apply obind_ok in H. destruct H as ([[cm cd] ci] & Er & H). inversion H. subst. clear H.
    assert (Hmn : mn = tmsg_name tname t).
    { unfold tmsg_name. destruct (tm_name t); [inversion Emn; reflexivity|].
      destruct single; inversion Emn. reflexivity. }
    subst mn. destruct (IH _ _ _ Er) as [B1 B2].
    unfold J5sSymbols.tmsgs_msg_syms in *. cbn [flat_map map fst me_name]. unfold msyms in *. cbn [flat_map].
    rewrite (virtual_symbols _ scope _ _ _ _ _ Ev), B1, B2. split; reflexivity.
Qed.

Lemma accept_symbols ev scope tname topic_name rl virt l ms ss is :
  accept_topic ev tname topic_name rl virt l = Ok (ms, ss, is) ->
  msyms scope ms = tmsgs_msg_syms scope tname virt l /\ flat_map (svc_symbols scope) ss = tmsgs_svc_syms scope tname l.
Proof.
  unfold J5sConvert.accept_topic. intros H. apply obind_ok in H. destruct H as ([[m1 d1] i1] & E & H). inversion H. subst. clear H.
  destruct (tmsgs_symbols _ scope _ _ _ _ _ _ _ E) as [A1 A2]. split; [exact A1|].
  cbn [flat_map]. rewrite app_nil_r. unfold svc_symbols, J5sSymbols.tmsgs_svc_syms. cbn [ds_name ds_methods].
  f_equal. rewrite <- (map_map me_name), A2, map_map. reflexivity.
Qed.

Lemma topic_symbols ev scope t ms ss is :
  cv_topic ev t = Ok (ms, ss, is) ->
  msyms scope ms = topic_msg_syms scope t /\ flat_map (svc_symbols scope) ss = topic_svc_syms scope t.
Proof.
  destruct t as [name msgs|name req reply|name entity msg|name entity msg]; cbn [J5sConvert.cv_topic]; intros H.
  - exact (accept_symbols _ scope _ _ _ _ _ _ _ _ H).
  - apply obind_ok in H. destruct H as ([[am asv] ai] & Ea & H).
    apply obind_ok in H. destruct H as ([[cm csv] ci] & Ec & H). inversion H. subst. clear H.
    destruct (accept_symbols _ scope _ _ _ _ _ _ _ _ Ea) as [A1 A2]. destruct (accept_symbols _ scope _ _ _ _ _ _ _ _ Ec) as [B1 B2].
    cbn [J5sSymbols.topic_msg_syms J5sSymbols.topic_svc_syms]. rewrite msyms_app, flat_map_app, A1, A2, B1, B2. split; reflexivity.
  - exact (accept_symbols _ scope _ _ _ _ _ _ _ _ H).
  - exact (accept_symbols _ scope _ _ _ _ _ _ _ _ H).
Qed.


(* ---- files *)
Notation cv_elements := (cv_elements snake camel screaming).
Notation elem_msg_syms := (elem_msg_syms snake camel screaming).
Notation elem_enum_syms := (elem_enum_syms screaming).
Notation service_svc_syms := (J5sSymbols.service_svc_syms).
Notation decl_file_symbols := (decl_file_symbols snake camel screaming).

Definition ssyms (scope : str) (l : list dservice) : list str := flat_map (svc_symbols scope) l.

Lemma cv_elements_symbols ev pkg spkg tpkg els : forall m s t m' s' t',
  cv_elements ev pkg els m s t = Ok (m', s', t') ->
  (msyms pkg (fa_msgs m') = msyms pkg (fa_msgs m) ++ flat_map (elem_msg_syms pkg) els /\
   esyms pkg (fa_enums m') = esyms pkg (fa_enums m) ++ flat_map (elem_enum_syms pkg) els /\
   fa_svcs m' = fa_svcs m) /\
  (msyms spkg (fa_msgs s') = msyms spkg (fa_msgs s) ++ flat_map (service_msg_syms spkg) (flat_map elem_services els) /\
   ssyms spkg (fa_svcs s') = ssyms spkg (fa_svcs s) ++ flat_map (service_svc_syms spkg) (flat_map elem_services els) /\
   fa_enums s' = fa_enums s) /\
  (msyms tpkg (fa_msgs t') = msyms tpkg (fa_msgs t) ++ flat_map (topic_msg_syms tpkg) (flat_map elem_topics els) /\
   ssyms tpkg (fa_svcs t') = ssyms tpkg (fa_svcs t) ++ flat_map (topic_svc_syms tpkg) (flat_map elem_topics els) /\
   fa_enums t' = fa_enums t).
Proof.
  induction els as [|e r IH]; intros m s t m' s' t' H; cbn [J5sConvert.cv_elements] in H.
  - inversion H. subst. cbn [flat_map]. rewrite !app_nil_r. auto 10.
  - destruct e as [nm ps subs|nm ps subs|en|sv|tp]; cbn [flat_map elem_services elem_topics app].
    + apply obind_ok in H. destruct H as ([[ms es] is] & E & H).
      destruct (IH _ _ _ _ _ _ H) as ((A1 & A2 & A3) & Hs & Ht). split; [|split; assumption].
      destruct (proj1 nested_symbols _ _ _ _ _ _ pkg E) as [N1 N2].
      cbn [facc_add fa_msgs fa_enums fa_svcs] in A1, A2, A3.
      rewrite msyms_app in A1. rewrite esyms_app in A2. rewrite app_nil_r in A3.
      rewrite A1, A2, A3, N1, N2. cbn [J5sSymbols.elem_msg_syms J5sSymbols.elem_enum_syms nested_enum_syms app].
      rewrite app_nil_r, <- !app_assoc. auto.
    + apply obind_ok in H. destruct H as ([[ms es] is] & E & H).
      destruct (IH _ _ _ _ _ _ H) as ((A1 & A2 & A3) & Hs & Ht). split; [|split; assumption].
      destruct (proj1 nested_symbols _ _ _ _ _ _ pkg E) as [N1 N2].
      cbn [facc_add fa_msgs fa_enums fa_svcs] in A1, A2, A3.
      rewrite msyms_app in A1. rewrite esyms_app in A2. rewrite app_nil_r in A3.
      rewrite A1, A2, A3, N1, N2. cbn [J5sSymbols.elem_msg_syms J5sSymbols.elem_enum_syms nested_enum_syms app].
      rewrite app_nil_r, <- !app_assoc. auto.
    + destruct (IH _ _ _ _ _ _ H) as ((A1 & A2 & A3) & Hs & Ht). split; [|split; assumption].
      cbn [facc_add fa_msgs fa_enums fa_svcs] in A1, A2, A3.
      rewrite app_nil_r in A1. rewrite esyms_app in A2. rewrite app_nil_r in A3.
      rewrite A1, A2, A3. cbn [J5sSymbols.elem_msg_syms J5sSymbols.elem_enum_syms app].
      unfold esyms at 2. cbn [flat_map]. rewrite app_nil_r, cv_enum_syms, <- !app_assoc. auto.
    + apply obind_ok in H. destruct H as ([[ms ss] is] & E & H).
      destruct (IH _ _ _ _ _ _ H) as (Hm & (A1 & A2 & A3) & Ht). split; [exact Hm|]. split; [|exact Ht].
      destruct (service_symbols _ spkg _ _ _ _ E) as [N1 N2].
      cbn [facc_add fa_msgs fa_enums fa_svcs] in A1, A2, A3.
      rewrite msyms_app in A1. unfold ssyms in *. rewrite flat_map_app in A2. rewrite app_nil_r in A3.
      rewrite A1, A2, A3, N1, N2, <- !app_assoc. auto.
    + apply obind_ok in H. destruct H as ([[ms ss] is] & E & H).
      destruct (IH _ _ _ _ _ _ H) as (Hm & Hs & (A1 & A2 & A3)). split; [exact Hm|]. split; [exact Hs|].
      destruct (topic_symbols _ tpkg _ _ _ _ E) as [N1 N2].
      cbn [facc_add fa_msgs fa_enums fa_svcs] in A1, A2, A3.
      rewrite msyms_app in A1. unfold ssyms in *. rewrite flat_map_app in A2. rewrite app_nil_r in A3.
      rewrite A1, A2, A3, N1, N2, <- !app_assoc. auto.
Qed.

Lemma file_symbols_mk path pkg a :
  file_symbols (mk_file path pkg a) = msyms pkg (fa_msgs a) ++ esyms pkg (fa_enums a) ++ ssyms pkg (fa_svcs a).
Proof. reflexivity. Qed.

(* the symbols of the files generated for one source file are the declared ones *)
Theorem cv_file_symbols exports f D :
  cv_file snake camel screaming exports f = Ok D -> flat_map file_symbols D = decl_file_symbols f.
Proof.
  unfold cv_file. intros H. apply obind_ok in H. destruct H as (im & _ & H).
  apply obind_ok in H. destruct H as ([[m s] t] & E & H). inversion H. subst D. clear H.
  destruct (cv_elements_symbols _ _ (sub_pkg (j5s_pkg f) (b "service")) (sub_pkg (j5s_pkg f) (b "topic")) _ _ _ _ _ _ _ E)
    as ((M1 & M2 & M3) & (S1 & S2 & S3) & (T1 & T2 & T3)).
  cbn [facc_nil fa_msgs fa_enums fa_svcs msyms esyms ssyms flat_map app] in *.
  unfold J5sSymbols.decl_file_symbols, file_services, file_topics.
  cbn [flat_map]. rewrite flat_map_app, !file_symbols_mk, M1, M2, M3. cbn [ssyms flat_map]. rewrite app_nil_r.
  f_equal. unfold sub_pkg in *. f_equal.
  - destruct (fa_used s) eqn:Eu; cbn [flat_map].
    + rewrite app_nil_r, file_symbols_mk, S1, S2, S3. reflexivity.
    + (* no service was added: nothing declared *)
      assert (Hn : flat_map elem_services (jf_elements f) = []).
      { destruct (J5sSubPkgAux_used snake camel screaming _ _ _ _ _ _ _ _ _ E) as [Hu _]. rewrite Eu in Hu.
        destruct (flat_map elem_services (jf_elements f)); [reflexivity|discriminate]. }
      rewrite Hn. reflexivity.
  - destruct (fa_used t) eqn:Eu; cbn [flat_map].
    + rewrite app_nil_r, file_symbols_mk, T1, T2, T3. reflexivity.
    + assert (Hn : flat_map elem_topics (jf_elements f) = []).
      { destruct (J5sSubPkgAux_used snake camel screaming _ _ _ _ _ _ _ _ _ E) as [_ Hu]. rewrite Eu in Hu.
        destruct (flat_map elem_topics (jf_elements f)); [reflexivity|discriminate]. }
      rewrite Hn. reflexivity.
Qed.


Lemma cv_files_symbols exports l : forall D,
  cv_files snake camel screaming exports l = Ok D ->
  flat_map file_symbols D = flat_map (fun bf => match bf with BJ j => decl_file_symbols j | BP _ => [] end) l.
Proof.
  induction l as [|x r IH]; intros D H; cbn [J5sConvert.cv_files] in H.
  - inversion H. reflexivity.
  - destruct x as [j|p]; cbn [flat_map].
    + destruct (file_lists_ok j) eqn:Elists; [|discriminate]. apply obind_ok in H. destruct H as (a & Ea & H). apply obind_ok in H. destruct H as (c & Ec & H).
      inversion H. subst D. rewrite flat_map_app, (cv_file_symbols _ _ _ Ea), (IH _ Ec). reflexivity.
    + cbn [app]. apply IH. exact H.
Qed.

(* the linker's symbol table for a package holds exactly the declared symbols *)
Theorem package_symbols_declared bd pkg fs :
  convert_package snake camel screaming bd pkg = Ok fs ->
  package_symbols bd pkg fs = decl_package_symbols snake camel screaming bd pkg.
Proof.
  unfold convert_package, package_symbols, decl_package_symbols. intros H.
  destruct (pkg_files bd pkg) as [|x r] eqn:E; [discriminate|]. rewrite (cv_files_symbols _ _ _ H). reflexivity.
Qed.

End Syms.

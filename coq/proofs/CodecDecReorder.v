(* CodecDecReorder.v — C03 quantifier "member reordering": the members of a JSON object can be
   given in any order.  If decoding an object succeeds, decoding any permutation of its members
   succeeds with the same message (hence, by symmetry, a permutation is accepted iff the original
   is).  Needs the schema condition [props_commute]: any two properties of the object have proto
   paths that part into different fields, neither a oneof sibling of the other (decidable, checked
   on the real schemas by every correspondence case), and no property without a proto path
   (an exposed oneof) at this level. *)
From Coq Require Import String List NArith ZArith Bool Lia Permutation.
From J5V.lib Require Import Outcome Json.
From J5V.model Require Import CodecTypes CodecDecScalar CodecDec CodecDecTree.
From J5V.model Require Import CodecDecCommute.
From J5V.proofs Require Import CodecDecProofs CodecDecStored CodecDecMsgSorted CodecDecSupport CodecDecLocal
                               CodecDecTreeUnfold CodecDecTreeFuel CodecDecExposed CodecDecOneofPair.
Import ListNotations.
Local Open Scope N_scope.

Lemma jvalue_null_dec (v : jvalue) : {v = JNull} + {v <> JNull}.
Proof. destruct v; first [left; reflexivity | right; discriminate]. Qed.

Definition seen_eq (s s' : list bytes) : Prop := forall k, mem_bytes k s = mem_bytes k s'.

Lemma seen_eq_cons k s s' : seen_eq s s' -> seen_eq (k :: s) (k :: s').
Proof. intros H x. cbn [mem_bytes]. rewrite H. reflexivity. Qed.

Lemma seen_eq_swap a b s s' : seen_eq s s' -> seen_eq (a :: b :: s) (b :: a :: s').
Proof. intros H x. cbn [mem_bytes]. rewrite H. destruct (bytes_eqb x a), (bytes_eqb x b); reflexivity. Qed.

Lemma seen_eq_refl s : seen_eq s s.
Proof. intros k. reflexivity. Qed.

Lemma seen_eq_trans a b c : seen_eq a b -> seen_eq b c -> seen_eq a c.
Proof. intros H1 H2 k. rewrite H1. apply H2. Qed.

Section Reorder.
  Variable orc : oracles.
  Variable e : env.

  (* ---------------------------------------------------------------- one member step in terms of pstep *)
  Lemma pstep_unit_ok path sibs (K : N -> msg -> outcome (msg * unit)) h h' :
    pstep path sibs K h = Ok (h', tt) <-> conflict_at path sibs h = false /\ omap fst (with_holder path h K) = Ok h'.
  Proof.
    unfold pstep, omap. destruct (conflict_at path sibs h); [split; [discriminate|intros [? _]; discriminate]|].
    destruct (with_holder path h K) as [[h1 []]| | |]; cbn [obind fst]; split; try discriminate;
      try (intros [_ ?]; discriminate).
    - intros H. injection H as <-. split; reflexivity.
    - intros [_ H]. injection H as <-. reflexivity.
  Qed.


  (* any two properties of the object: their paths part into different fields (neither a oneof
     sibling of the other), or the sets of fields they can touch are disjoint; exposed oneofs have
     arms with proto paths *)
  Definition props_commute (props : list property) : Prop :=
    (forall p, In p props -> prop_ok e p) /\
    forall p q, In p props -> In q props -> p_json p <> p_json q ->
      compat (p_path p) (p_siblings p) (p_path q) (p_siblings q) \/
      disjoint (prop_support e p) (prop_support e q) \/
      oneof_after p q.

  Lemma cstep_unit_ok d f p v h h' :
    cstep orc e d f p v h = Ok (h', tt) <-> oneof_conflict p h = false /\ tr_present orc e f (d + 1) p v h = Ok h'.
  Proof.
    unfold cstep. destruct (oneof_conflict p h); [split; [discriminate|intros [? _]; discriminate]|].
    destruct (tr_present orc e f (d + 1) p v h); cbn; split; try discriminate; try (intros [_ ?]; discriminate).
    - intros H. injection H as <-. split; reflexivity.
    - intros [_ H]. injection H as <-. reflexivity.
  Qed.

  Lemma cstep_commute d fa fb pa pb va vb :
    prop_ok e pa -> prop_ok e pb ->
    compat (p_path pa) (p_siblings pa) (p_path pb) (p_siblings pb) \/ disjoint (prop_support e pa) (prop_support e pb) ->
    forall h h1 h12, wf h -> cstep orc e d fa pa va h = Ok (h1, tt) -> cstep orc e d fb pb vb h1 = Ok (h12, tt) ->
    exists h2, cstep orc e d fb pb vb h = Ok (h2, tt) /\ cstep orc e d fa pa va h2 = Ok (h12, tt).
  Proof.
    intros Oka Okb [C|D] h h1 h12 W Ha Hb.
    - assert (Hpatha : p_path pa <> []) by (intros E; rewrite E in C; destruct (p_path pb); destruct C).
      assert (Hpathb : p_path pb <> []) by (intros E; rewrite E in C; destruct (p_path pa) as [|? [|? ?]]; destruct C).
      apply cstep_unit_ok in Ha. destruct Ha as [Hca Hpa]. apply cstep_unit_ok in Hb. destruct Hb as [Hcb Hpb].
      destruct fa as [|fa]; [discriminate|]. destruct fb as [|fb]; [discriminate|].
      destruct (shape_total orc e fa (d + 1) pa va Hpatha) as [ra Hra Hca' | Ka HKa Hea];
        [rewrite Hca' in Hpa; subst ra; discriminate|].
      destruct (shape_total orc e fb (d + 1) pb vb Hpathb) as [rb Hrb Hcb' | Kb HKb Heb];
        [rewrite Hcb' in Hpb; subst rb; discriminate|].
      rewrite Hea in Hpa. rewrite Heb in Hpb. rewrite oneof_conflict_at in Hca, Hcb.
      pose proof (proj2 (pstep_unit_ok _ _ Ka h h1) (conj Hca Hpa)) as Sa.
      pose proof (proj2 (pstep_unit_ok _ _ Kb h1 h12) (conj Hcb Hpb)) as Sb.
      destruct (pstep_commute _ _ Ka Kb HKa HKb _ _ C h h1 h12 tt tt W Sa Sb) as (h2 & Sb' & Sa').
      apply pstep_unit_ok in Sb'. destruct Sb' as [Hcb2 Hpb2]. apply pstep_unit_ok in Sa'. destruct Sa' as [Hca2 Hpa2].
      rewrite <- Heb in Hpb2. rewrite <- Hea in Hpa2. rewrite <- oneof_conflict_at in Hcb2, Hca2.
      exists h2. split; apply cstep_unit_ok; split; assumption.
    - exact (commute _ _ _ _ (cstep_supported orc e d fa pa va Oka) (cstep_supported orc e d fb pb vb Okb) D h h1 h12 tt tt W Ha Hb).
  Qed.

  (* one member of an object body, with whatever fuel *)
  Definition mstep (d : N) (props : list property) (kv : bytes * jvalue) (m : msg) (seen : list bytes)
             (m1 : msg) (seen1 : list bytes) : Prop :=
    exists p f, find_prop props (fst kv) = Some p /\
                tr_member d (tr_present orc e f (d + 1) p) p (snd kv) m seen = Ok (m1, seen1).

  Inductive orun (d : N) (props : list property) : list (bytes * jvalue) -> msg -> list bytes -> msg -> Prop :=
  | orun_nil m seen : orun d props [] m seen m
  | orun_cons kv r m seen m1 seen1 m' :
      mstep d props kv m seen m1 seen1 -> orun d props r m1 seen1 m' -> orun d props (kv :: r) m seen m'.

  Lemma orun_of_tr_object d props : forall f ms m seen m',
    tr_object orc e f d props ms m seen = Ok m' -> orun d props ms m seen m'.
  Proof.
    induction f as [|f IH]; intros ms m seen m' H; [discriminate|].
    rewrite tr_object_S in H. destruct ms as [|[key v] r]; [injection H as <-; constructor|].
    destruct (find_prop props key) as [p|] eqn:Ep; [|discriminate].
    destruct (tr_member d (tr_present orc e f (d + 1) p) p v m seen) as [[m1 seen1]| | |] eqn:Em; cbn [obind fst snd] in H; try discriminate.
    econstructor; [exists p, f; split; [exact Ep|exact Em]|]. apply IH. exact H.
  Qed.

  Lemma tr_member_more_fuel d p v m seen f k r :
    tr_member d (tr_present orc e f (d + 1) p) p v m seen = Ok r ->
    tr_member d (tr_present orc e (f + k) (d + 1) p) p v m seen = Ok r.
  Proof.
    unfold tr_member. destruct (max_nesting_depth <? d + 1); [discriminate|].
    destruct v; try (intros H; exact H);
      (destruct (mem_bytes (p_json p) seen); [discriminate|]);
      (destruct (oneof_conflict p m); [discriminate|]);
      match goal with |- obind (tr_present orc e f (d + 1) p ?v m) _ = _ -> _ =>
        destruct (tr_present orc e f (d + 1) p v m) as [m2| | |] eqn:E end; try discriminate;
      intros H; rewrite (tr_present_more_fuel orc e f k _ _ _ _ _ E ltac:(discriminate)); exact H.
  Qed.

  Lemma tr_object_of_orun d props ms m seen m' :
    orun d props ms m seen m' -> exists f, tr_object orc e f d props ms m seen = Ok m'.
  Proof.
    induction 1 as [m seen | [key v] r m seen m1 seen1 m' (p & f & Ep & Em) _ (fr & IH)].
    - exists 1%nat. reflexivity.
    - exists (S (f + fr))%nat. rewrite tr_object_S. cbn [fst snd] in Ep, Em. rewrite Ep.
      rewrite (tr_member_more_fuel d p v m seen f fr _ Em). cbn [obind fst snd].
      rewrite Nat.add_comm. apply (tr_object_more_fuel orc e fr f); [exact IH|discriminate].
  Qed.

  Lemma tr_member_seen d dp p v m seen seen' r1 s1 :
    seen_eq seen seen' -> tr_member d dp p v m seen = Ok (r1, s1) ->
    exists s1', tr_member d dp p v m seen' = Ok (r1, s1') /\ seen_eq s1 s1'.
  Proof.
    intros Hs. unfold tr_member. destruct (max_nesting_depth <? d + 1); [discriminate|].
    destruct v; try (intros H; injection H as <- <-; exists seen'; split; [reflexivity|exact Hs]);
      rewrite <- (Hs (p_json p));
      (destruct (mem_bytes (p_json p) seen); [discriminate|]);
      (destruct (oneof_conflict p m); [discriminate|]);
      match goal with |- obind ?t _ = _ -> _ => destruct t as [m2| | |] end; try discriminate;
      cbn [obind]; intros H; injection H as <- <-; eexists; (split; [reflexivity|apply seen_eq_cons; exact Hs]).
  Qed.

  Lemma mstep_seen d props kv m seen seen' m1 s1 :
    seen_eq seen seen' -> mstep d props kv m seen m1 s1 -> exists s1', mstep d props kv m seen' m1 s1' /\ seen_eq s1 s1'.
  Proof.
    intros Hs (p & f & Ep & Em). destruct (tr_member_seen _ _ _ _ _ _ _ _ _ Hs Em) as (s1' & Em' & Hs').
    exists s1'. split; [exists p, f; split; assumption|exact Hs'].
  Qed.

  Lemma mstep_wf d props kv m seen m1 s1 : wf m -> mstep d props kv m seen m1 s1 -> wf m1.
  Proof.
    intros W (p & f & Ep & Em). apply (tr_member_wf d (tr_present orc e f (d + 1) p) p (snd kv) m seen m1 s1); [|exact W|exact Em].
    intros m0 m0' W0 H0. exact (proj1 (wfl_all orc e f) _ _ _ _ _ W0 H0).
  Qed.

  (* a non-null member step, taken apart *)
  Lemma tr_member_nonnull d f p v m seen m1 s1 : v <> JNull ->
    tr_member d (tr_present orc e f (d + 1) p) p v m seen = Ok (m1, s1) ->
    (max_nesting_depth <? d + 1) = false /\ mem_bytes (p_json p) seen = false /\ oneof_conflict p m = false /\
    tr_present orc e f (d + 1) p v m = Ok m1 /\ s1 = p_json p :: seen.
  Proof.
    intros Hv. unfold tr_member. destruct (max_nesting_depth <? d + 1); [discriminate|].
    destruct v; try congruence;
      (destruct (mem_bytes (p_json p) seen); [discriminate|]);
      (destruct (oneof_conflict p m); [discriminate|]);
      match goal with |- obind ?t _ = _ -> _ => destruct t as [m2| | |] end; try discriminate;
      cbn [obind]; intros H; injection H as <- <-; repeat split; reflexivity.
  Qed.

  Lemma tr_member_build d f p v m seen m1 : v <> JNull ->
    (max_nesting_depth <? d + 1) = false -> mem_bytes (p_json p) seen = false -> oneof_conflict p m = false ->
    tr_present orc e f (d + 1) p v m = Ok m1 ->
    tr_member d (tr_present orc e f (d + 1) p) p v m seen = Ok (m1, p_json p :: seen).
  Proof.
    intros Hv Hd Hs Hc Hp. unfold tr_member. rewrite Hd.
    destruct v; try congruence; rewrite Hs, Hc, Hp; reflexivity.
  Qed.

  Lemma tr_member_null d dp p m seen r : tr_member d dp p JNull m seen = Ok r ->
    (max_nesting_depth <? d + 1) = false /\ r = (m, seen).
  Proof.
    unfold tr_member. destruct (max_nesting_depth <? d + 1); [discriminate|]. intros H. injection H as <-. split; reflexivity.
  Qed.

  (* two adjacent members in the other order *)
  Lemma mstep_swap d props x y m seen m1 s1 m2 s2 : props_commute props -> wf m ->
    mstep d props x m seen m1 s1 -> mstep d props y m1 s1 m2 s2 ->
    exists m1' s1' s2', mstep d props y m seen m1' s1' /\ mstep d props x m1' s1' m2 s2' /\ seen_eq s2 s2'.
  Proof.
    intros PC W (pa & fa & Epa & Ema) (pb & fb & Epb & Emb).
    destruct x as [ka va]. destruct y as [kb vb]. cbn [fst snd] in *.
    destruct (jvalue_null_dec va) as [->|Hva].
    { (* the first is null: it does nothing *)
      apply tr_member_null in Ema. destruct Ema as [Hd Er]. injection Er as E1 E2. subst m1 s1.
      exists m2, s2, s2. split; [exists pb, fb; split; assumption|]. split; [|apply seen_eq_refl].
      exists pa, fa. split; [exact Epa|]. unfold tr_member. cbn [fst snd]. rewrite Hd. reflexivity. }
    destruct (jvalue_null_dec vb) as [->|Hvb].
    { apply tr_member_null in Emb. destruct Emb as [Hd Er]. injection Er as E1 E2. subst m2 s2.
      exists m, seen, s1. split; [|split; [exists pa, fa; split; assumption|apply seen_eq_refl]].
      exists pb, fb. split; [exact Epb|]. unfold tr_member. cbn [fst snd]. rewrite Hd. reflexivity. }
    destruct (tr_member_nonnull _ _ _ _ _ _ _ _ Hva Ema) as (Hd & Hsa & Hca & Hpa & ->).
    destruct (tr_member_nonnull _ _ _ _ _ _ _ _ Hvb Emb) as (_ & Hsb & Hcb & Hpb & ->).
    cbn [mem_bytes] in Hsb. apply orb_false_elim in Hsb. destruct Hsb as [Hne Hsb].
    destruct (find_prop_In _ _ _ Epa) as [Ina Eka]. destruct (find_prop_In _ _ _ Epb) as [Inb Ekb].
    assert (Hjson : p_json pa <> p_json pb).
    { intros E. rewrite E in Hne. rewrite (proj2 (bytes_eqb_eq (p_json pb) (p_json pb)) eq_refl) in Hne. discriminate. }
    destruct PC as [Oks PC].
    assert (PC' : compat (p_path pa) (p_siblings pa) (p_path pb) (p_siblings pb) \/
                  disjoint (prop_support e pa) (prop_support e pb)).
    { destruct (PC pa pb Ina Inb Hjson) as [C|[D|O]]; [left; exact C|right; exact D|].
      exfalso. rewrite (oneof_after_conflict orc e pa pb fa (d + 1) va m m1 O Hva Hpa) in Hcb. discriminate. }
    pose proof (proj2 (cstep_unit_ok d fa pa va m m1) (conj Hca Hpa)) as Sa.
    pose proof (proj2 (cstep_unit_ok d fb pb vb m1 m2) (conj Hcb Hpb)) as Sb.
    destruct (cstep_commute d fa fb pa pb va vb (Oks pa Ina) (Oks pb Inb) PC' m m1 m2 W Sa Sb)
      as (h2 & Sb' & Sa').
    apply cstep_unit_ok in Sb'. destruct Sb' as [Hcb2 Hpb2]. apply cstep_unit_ok in Sa'. destruct Sa' as [Hca2 Hpa2].
    exists h2, (p_json pb :: seen), (p_json pa :: p_json pb :: seen). split; [|split].
    - exists pb, fb. split; [exact Epb|]. apply tr_member_build; assumption.
    - exists pa, fa. split; [exact Epa|]. apply tr_member_build; try assumption.
      cbn [mem_bytes]. rewrite Hsa.
      destruct (bytes_eqb (p_json pa) (p_json pb)) eqn:E; [|reflexivity].
      apply bytes_eqb_eq in E. congruence.
    - apply seen_eq_swap. apply seen_eq_refl.
  Qed.

  Theorem orun_perm d props ms ms' : props_commute props -> Permutation ms ms' ->
    forall m seen seen' m', wf m -> seen_eq seen seen' -> orun d props ms m seen m' -> orun d props ms' m seen' m'.
  Proof.
    intros PC P. induction P as [| x l l' P IH | x y l | l l' l'' P1 IH1 P2 IH2]; intros m seen seen' m' W Hs R.
    - inversion R; subst. constructor.
    - inversion R as [|kv r m0 s0 m1 s1 m0' St Rr]; subst.
      destruct (mstep_seen _ _ _ _ _ _ _ _ Hs St) as (s1' & St' & Hs1).
      econstructor; [exact St'|]. apply (IH m1 s1 s1' m' (mstep_wf _ _ _ _ _ _ _ W St) Hs1 Rr).
    - inversion R as [|kv r m0 s0 m1 s1 m0' Sty Rr]; subst.
      inversion Rr as [|kv2 r2 m02 s02 m2 s2 m02' Stx Rl]; subst.
      destruct (mstep_swap _ _ _ _ _ _ _ _ _ _ PC W Sty Stx) as (m1' & s1' & s2' & Stx' & Sty' & Hs2).
      destruct (mstep_seen _ _ _ _ _ _ _ _ Hs Stx') as (t1 & Stx'' & Ht1).
      destruct (mstep_seen _ _ _ _ _ _ _ _ Ht1 Sty') as (t2 & Sty'' & Ht2).
      econstructor; [exact Stx''|]. econstructor; [exact Sty''|].
      assert (W2 : wf m2) by (apply (mstep_wf _ _ _ _ _ _ _ (mstep_wf _ _ _ _ _ _ _ W Sty) Stx)).
      (* the rest, from the same message with an equivalent seen list *)
      assert (G : forall l m seen seen' m', seen_eq seen seen' -> orun d props l m seen m' -> orun d props l m seen' m').
      { clear - orc. induction l as [|kv r IHl]; intros m seen seen' m' Hs R; inversion R; subst; [constructor|].
        match goal with St : mstep _ _ _ _ _ _ _ |- _ => destruct (mstep_seen _ _ _ _ _ _ _ _ Hs St) as (s1' & St' & Hs1) end.
        econstructor; [exact St'|]. eapply IHl; eassumption. }
      apply (G l m2 s2 t2 m' (seen_eq_trans _ _ _ Hs2 Ht2) Rl).
    - apply (IH2 m seen seen' m' W Hs). apply (IH1 m seen seen m' W (seen_eq_refl seen) R).
  Qed.
End Reorder.

(* ---------------------------------------------------------------- the schema condition is decidable *)
Lemma disjoint_b_sound s t : disjoint_b s t = true -> disjoint s t.
Proof.
  unfold disjoint_b. rewrite forallb_forall. intros H n Hs Ht. specialize (H n Hs).
  apply negb_true_iff in H. assert (existsb (N.eqb n) t = true); [|congruence].
  apply existsb_exists. exists n. split; [exact Ht|apply N.eqb_refl].
Qed.

Lemma compat_b_sound pa : forall sa pb sb, compat_b pa sa pb sb = true -> compat pa sa pb sb.
Proof.
  induction pa as [|a ra IH]; intros sa pb sb H; [destruct pb; discriminate|].
  destruct pb as [|b rb]; [destruct ra; discriminate|].
  destruct ra as [|a2 ra']; [apply disjoint_b_sound; destruct rb; exact H|].
  destruct rb as [|b2 rb']; [apply disjoint_b_sound; exact H|].
  change (compat_b (a :: a2 :: ra') sa (b :: b2 :: rb') sb)
    with (if a =? b then compat_b (a2 :: ra') sa (b2 :: rb') sb else true) in H.
  change (compat (a :: a2 :: ra') sa (b :: b2 :: rb') sb)
    with (if a =? b then compat (a2 :: ra') sa (b2 :: rb') sb else True).
  destruct (a =? b); [apply IH; exact H|exact I].
Qed.

Lemma path_support_eq path sibs : path_support path sibs = supp_path path sibs.
Proof. reflexivity. Qed.

Lemma prop_support_b_eq e p : prop_support_b e p = prop_support e p.
Proof. reflexivity. Qed.

Lemma prop_ok_b_sound e p : prop_ok_b e p = true -> prop_ok e p.
Proof.
  unfold prop_ok_b, prop_ok. destruct (p_path p); [|intros _; exact I].
  destruct (p_ty p); try (intros _; exact I). destruct (lookup e ref) as [[| arms |]|]; try (intros _; exact I).
  rewrite forallb_forall. intros H a Ha. specialize (H a Ha). unfold nonempty_path in H.
  destruct (p_path a); [discriminate|discriminate].
Qed.

Lemma props_commute_b_sound e props : props_commute2_b e props = true -> props_commute e props.
Proof.
  unfold props_commute2_b. intros H. apply andb_prop in H. destruct H as [H1 H2]. split.
  - rewrite forallb_forall in H1. intros p Hp. apply prop_ok_b_sound. apply H1. exact Hp.
  - rewrite forallb_forall in H2. intros p q Hp Hq Hne.
    specialize (H2 p Hp). rewrite forallb_forall in H2. specialize (H2 q Hq).
    apply orb_prop in H2. destruct H2 as [H2|H2]; [|right; right; apply oneof_after_b_sound; exact H2].
    apply orb_prop in H2. destruct H2 as [H2|H2].
    + apply orb_prop in H2. destruct H2 as [H2|H2]; [apply bytes_eqb_eq in H2; congruence|].
      left. apply compat_b_sound. exact H2.
    + right. left. apply disjoint_b_sound. exact H2.
Qed.

Lemma lookup_In e : forall ref sc, lookup e ref = Some sc -> exists n, In (n, sc) e.
Proof.
  induction e as [|[n s0] r IH]; intros ref sc H; [discriminate|]. cbn [lookup] in H.
  destruct (bytes_eqb n ref).
  - injection H as <-. exists n. left. reflexivity.
  - destruct (IH ref sc H) as [n' Hn']. exists n'. right. exact Hn'.
Qed.

Lemma env_commute_sound e ref props : env_commute e = true ->
  (lookup e ref = Some (SObject props) \/ lookup e ref = Some (SOneof props)) -> props_commute e props.
Proof.
  unfold env_commute. rewrite forallb_forall. intros H Hl.
  destruct Hl as [Hl|Hl]; destruct (lookup_In e ref _ Hl) as [n Hin]; specialize (H _ Hin); cbn [snd] in H;
    apply props_commute_b_sound; exact H.
Qed.

(* ---------------------------------------------------------------- objects, documents *)
Theorem reordered_object orc e d props ms ms' m seen m' f :
  props_commute e props -> Permutation ms ms' -> wf m ->
  tr_object orc e f d props ms m seen = Ok m' -> exists f', tr_object orc e f' d props ms' m seen = Ok m'.
Proof.
  intros PC P W H. apply tr_object_of_orun.
  apply (orun_perm orc e d props ms ms' PC P m seen seen m' W (seen_eq_refl seen)).
  apply (orun_of_tr_object orc e d props f). exact H.
Qed.

From J5V.proofs Require Import CodecDecTreeProofs.

(* JSONToProto accepted a document whose root object has the members ms: it accepts every document
   whose root object has the same members in another order, with the same message *)
Theorem reordered_document orc e root props bs bs' ms ms' rest rest' me me' m' :
  lookup e root = Some (SObject props) -> props_commute e props ->
  lex bs = (tokens_of (JObj ms) ++ rest, me) -> lex bs' = (tokens_of (JObj ms') ++ rest', me') ->
  Permutation ms ms' ->
  decode_bytes orc e root bs = Ok m' -> decode_bytes orc e root bs' = Ok m'.
Proof.
  intros Hl PC Hlex Hlex' P Hd.
  rewrite (decode_bytes_tree orc e root bs (JObj ms) rest me Hlex) in Hd.
  pose proof (decode_bytes_total orc e root bs') as [Hnp Hnf].
  rewrite (decode_bytes_tree orc e root bs' (JObj ms') rest' me' Hlex') in *.
  unfold tr_decode in *. rewrite Hl in *.
  destruct (reordered_object orc e 0 props ms ms' [] [] m' _ PC P wf_nil Hd) as (f' & Hf').
  pose proof (tr_object_more_fuel orc e f' (S (jsize (JObj ms'))) 0 props ms' [] [] _ Hf' ltac:(discriminate)) as H1.
  destruct (tr_object orc e (S (jsize (JObj ms'))) 0 props ms' [] []) as [x|c|s|] eqn:E; try congruence; try discriminate.
  - pose proof (tr_object_more_fuel orc e (S (jsize (JObj ms'))) f' 0 props ms' [] [] _ E ltac:(discriminate)) as H2.
    rewrite Nat.add_comm in H2. congruence.
  - pose proof (tr_object_more_fuel orc e (S (jsize (JObj ms'))) f' 0 props ms' [] [] _ E ltac:(discriminate)) as H2.
    rewrite Nat.add_comm in H2. congruence.
Qed.

(* and conversely: a permutation is accepted exactly when the original is *)
Corollary reordered_document_iff orc e root props bs bs' ms ms' rest rest' me me' :
  lookup e root = Some (SObject props) -> props_commute e props ->
  lex bs = (tokens_of (JObj ms) ++ rest, me) -> lex bs' = (tokens_of (JObj ms') ++ rest', me') ->
  Permutation ms ms' ->
  forall m', decode_bytes orc e root bs = Ok m' <-> decode_bytes orc e root bs' = Ok m'.
Proof.
  intros Hl PC Hlex Hlex' P m'. split.
  - apply (reordered_document orc e root props bs bs' ms ms' rest rest' me me' m' Hl PC Hlex Hlex' P).
  - apply (reordered_document orc e root props bs' bs ms' ms rest' rest me' me m' Hl PC Hlex' Hlex (Permutation_sym P)).
Qed.

(* ---------------------------------------------------------------- explicit nulls *)
(* a null member of a known property does nothing (below the nesting bound): documents that differ in
   such members, anywhere among the members and in any order, decode alike *)
Definition null_members (props : list property) (l : list (bytes * jvalue)) : Prop :=
  Forall (fun kv => snd kv = JNull /\ exists p, find_prop props (fst kv) = Some p) l.

Lemma orun_nulls_app orc e d props nulls ms m seen m' :
  null_members props nulls -> (max_nesting_depth <? d + 1) = false ->
  orun orc e d props ms m seen m' -> orun orc e d props (nulls ++ ms) m seen m'.
Proof.
  intros Hn Hd R. induction Hn as [|[k v] l [Hv [p Hp]] _ IH]; [exact R|]. cbn [fst snd] in *. subst v.
  cbn [app]. econstructor; [|exact IH]. exists p, 1%nat. split; [exact Hp|].
  cbn [snd]. unfold tr_member. rewrite Hd. reflexivity.
Qed.

Lemma orun_nulls_strip orc e d props nulls ms m seen m' :
  null_members props nulls -> orun orc e d props (nulls ++ ms) m seen m' -> orun orc e d props ms m seen m'.
Proof.
  intros Hn. induction Hn as [|[k v] l [Hv _] _ IH]; intros R; [exact R|]. cbn [fst snd] in *. subst v.
  cbn [app] in R. inversion R as [|kv r m0 s0 m1 s1 m0' (p & f & Ep & Em) Rr]; subst.
  cbn [snd] in Em. apply tr_member_null in Em. destruct Em as [_ E]. injection E as E1 E2. subst m1 s1. exact (IH Rr).
Qed.

Theorem padded_object orc e d props ms ms' nulls m seen m' f :
  props_commute e props -> null_members props nulls -> Permutation (nulls ++ ms) ms' ->
  (max_nesting_depth <? d + 1) = false -> wf m ->
  tr_object orc e f d props ms m seen = Ok m' -> exists f', tr_object orc e f' d props ms' m seen = Ok m'.
Proof.
  intros PC Hn P Hd W H. apply tr_object_of_orun.
  apply (orun_perm orc e d props (nulls ++ ms) ms' PC P m seen seen m' W (seen_eq_refl seen)).
  apply orun_nulls_app; [exact Hn|exact Hd|]. apply (orun_of_tr_object orc e d props f). exact H.
Qed.

Theorem unpadded_object orc e d props ms ms' nulls m seen m' f :
  props_commute e props -> null_members props nulls -> Permutation (nulls ++ ms) ms' -> wf m ->
  tr_object orc e f d props ms' m seen = Ok m' -> exists f', tr_object orc e f' d props ms m seen = Ok m'.
Proof.
  intros PC Hn P W H. apply tr_object_of_orun. apply (orun_nulls_strip orc e d props nulls ms m seen m' Hn).
  apply (orun_perm orc e d props ms' (nulls ++ ms) PC (Permutation_sym P) m seen seen m' W (seen_eq_refl seen)).
  apply (orun_of_tr_object orc e d props f). exact H.
Qed.

(* a settled run at some fuel is the run at the fuel decode_bytes uses *)
Lemma settle_at orc e root bs' ms' rest' me' props m' f' :
  lookup e root = Some (SObject props) -> lex bs' = (tokens_of (JObj ms') ++ rest', me') ->
  tr_object orc e f' 0 props ms' [] [] = Ok m' -> decode_bytes orc e root bs' = Ok m'.
Proof.
  intros Hl Hlex' Hf'.
  pose proof (decode_bytes_total orc e root bs') as [Hnp Hnf].
  rewrite (decode_bytes_tree orc e root bs' (JObj ms') rest' me' Hlex') in *.
  unfold tr_decode in *. rewrite Hl in *.
  pose proof (tr_object_more_fuel orc e f' (S (jsize (JObj ms'))) 0 props ms' [] [] _ Hf' ltac:(discriminate)) as H1.
  destruct (tr_object orc e (S (jsize (JObj ms'))) 0 props ms' [] []) as [x|c|s|] eqn:E; try congruence; try discriminate.
  - pose proof (tr_object_more_fuel orc e (S (jsize (JObj ms'))) f' 0 props ms' [] [] _ E ltac:(discriminate)) as H2.
    rewrite Nat.add_comm in H2. congruence.
  - pose proof (tr_object_more_fuel orc e (S (jsize (JObj ms'))) f' 0 props ms' [] [] _ E ltac:(discriminate)) as H2.
    rewrite Nat.add_comm in H2. congruence.
Qed.

(* documents: the root object's members in any order, with explicit nulls for any of its properties
   added anywhere *)
Theorem padded_document_iff orc e root props bs bs' ms ms' nulls rest rest' me me' :
  lookup e root = Some (SObject props) -> props_commute e props ->
  lex bs = (tokens_of (JObj ms) ++ rest, me) -> lex bs' = (tokens_of (JObj ms') ++ rest', me') ->
  null_members props nulls -> Permutation (nulls ++ ms) ms' ->
  forall m', decode_bytes orc e root bs = Ok m' <-> decode_bytes orc e root bs' = Ok m'.
Proof.
  intros Hl PC Hlex Hlex' Hn P m'. split; intros Hd.
  - rewrite (decode_bytes_tree orc e root bs (JObj ms) rest me Hlex) in Hd. unfold tr_decode in Hd. rewrite Hl in Hd.
    destruct (padded_object orc e 0 props ms ms' nulls [] [] m' _ PC Hn P ltac:(reflexivity) wf_nil Hd) as (f' & Hf').
    exact (settle_at orc e root bs' ms' rest' me' props m' f' Hl Hlex' Hf').
  - rewrite (decode_bytes_tree orc e root bs' (JObj ms') rest' me' Hlex') in Hd. unfold tr_decode in Hd. rewrite Hl in Hd.
    destruct (unpadded_object orc e 0 props ms ms' nulls [] [] m' _ PC Hn P wf_nil Hd) as (f' & Hf').
    exact (settle_at orc e root bs ms rest me props m' f' Hl Hlex Hf').
Qed.

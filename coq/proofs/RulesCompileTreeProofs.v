(* RulesCompileTreeProofs.v — C12 for declaration trees over the compiler with its front checks:
   what compiles is evaluable, so the tree theorem needs no hypothesis on the patterns /
   uniqueItems of the declarations. *)
From Coq Require Import String List NArith ZArith Bool Lia.
From J5V.lib Require Import Outcome Strcase.
From J5V.model Require Import RulesDecl RulesWrite RulesSpec Validate RulesSpecDec RulesRead RulesNested RulesNestedSem RulesOneof RulesInlineEnum RulesCompile RulesCompileTree.
From J5V.proofs Require Import RulesProofs RulesReadProofs RulesNestedProofs RulesNestedSemProofs RulesOneofProofs RulesCompileProofs.
Import ListNotations.

(* what stays a restriction of the quantifier: entity.primaryKey only on singular key
   properties; the options of a oneof are declared as members (singular, not optional) *)
Fixpoint tree_quant (s : nschema) : bool :=
  match s with
  | NS k _ _ fields =>
      match k with RObject => true | ROneof => forallb member_decl (map nf_prop fields) end
      && (fix go (fs : list nfield) : bool :=
            match fs with
            | [] => true
            | NF d None :: r => key_placement_ok d && go r
            | NF d (Some s') :: r => key_placement_ok d && tree_quant s' && go r
            end) fields
  end.



Lemma prop_front_evaluable re_ok env d : prop_front re_ok env d = true -> evaluable re_ok d = true.
Proof.
  unfold prop_front. intro H. apply andb_true_iff in H. destruct H as [H _].
  destruct (front_checks re_ok (plain d)) as [u| | |] eqn:E; try discriminate H.
  apply front_checks_unit, front_checks_spec in E. exact (proj2 E).
Qed.

Lemma tree_front_evaluable re_ok env : forall s,
  tree_front re_ok env s = true -> tree_quant s = true -> tree_evaluable re_ok s = true.
Proof.
  apply (nschema_ind' (fun s => tree_front re_ok env s = true -> tree_quant s = true -> tree_evaluable re_ok s = true)).
  intros k on desc fields HQ Hf Hq.
  cbn [tree_front] in Hf. apply andb_true_iff in Hf. destruct Hf as [_ Hf].
  cbn [tree_quant] in Hq. apply andb_true_iff in Hq. destruct Hq as [Hk Hq].
  cbn [tree_evaluable]. rewrite Hk. cbn [andb]. clear Hk.
  revert Hf Hq. induction HQ as [|f r Hfq HQr IH]; intros Hf Hq; [reflexivity|].
  destruct f as [d [s'|]].
  - apply andb_true_iff in Hf. destruct Hf as [Hf Hfr]. apply andb_true_iff in Hf. destruct Hf as [Hd Hs'].
    apply andb_true_iff in Hq. destruct Hq as [Hq Hqr]. apply andb_true_iff in Hq. destruct Hq as [Hkp Hqs'].
    rewrite Hkp, (prop_front_evaluable re_ok env d Hd), (Hfq Hs' Hqs'). cbn [andb]. exact (IH Hfr Hqr).
  - apply andb_true_iff in Hf. destruct Hf as [Hd Hfr].
    apply andb_true_iff in Hq. destruct Hq as [Hkp Hqr].
    rewrite Hkp, (prop_front_evaluable re_ok env d Hd). cbn [andb]. exact (IH Hfr Hqr).
Qed.

Theorem c12_compiled_tree :
  forall re_ok re_match pat_sem, engine_ok re_ok re_match pat_sem ->
  forall env s path name m v,
    wf_env env = true -> tree_quant s = true ->
    compile_schema re_ok env path name s = Ok m -> typed_tree s v = true ->
    (validate_tree re_ok re_match (defined_numbers env) (c12_view m) v = VAccept <-> rule_tree pat_sem env s v) /\
    (validate_tree re_ok re_match (defined_numbers env) (c12_view m) v = VReject <-> ~ rule_tree pat_sem env s v).
Proof.
  intros re_ok re_match pat_sem He env s path name m v Hwf Hq Hc Hty.
  unfold compile_schema in Hc. destruct (tree_front re_ok env s) eqn:Hf; [|discriminate Hc].
  exact (c12_tree re_ok re_match pat_sem (proj1 He) (proj1 (proj2 He)) (engine_id62_bool re_ok re_match pat_sem He)
           env Hwf s path name m v (tree_front_evaluable re_ok env s Hf Hq) Hc Hty).
Qed.

(* ---- the options of a oneof through the compiler ---- *)
Lemma compile_plain_props re_ok env ds : forall idx os,
  compile_props_from re_ok env idx (map plain ds) = Ok os ->
  write_props_from env idx ds = Ok os /\ forallb (evaluable re_ok) ds = true.
Proof.
  induction ds as [|d r IH]; intros idx os Hc.
  - inversion Hc; subst. split; reflexivity.
  - cbn [map compile_props_from] in Hc. apply obind_ok in Hc. destruct Hc as (o & Ho & Hc).
    apply obind_ok in Hc. destruct Hc as (os1 & Hos & Hc). inversion Hc; subst.
    apply compile_prop_ok in Ho. destruct Ho as (_ & He & o' & Hw & ->).
    cbn [plain x_prop] in He, Hw. destruct (IH (idx + 1)%N os1 Hos) as [Hws Hev].
    split.
    + cbn [write_props_from]. rewrite Hw. cbn [obind]. rewrite Hws. reflexivity.
    + cbn [forallb]. rewrite He, Hev. reflexivity.
Qed.

Theorem c12_compiled_members :
  forall re_ok re_match pat_sem, engine_ok re_ok re_match pat_sem ->
  forall env ds os fvs,
    wf_env env = true ->
    forallb member_decl ds = true ->
    compile_members re_ok env ds = Ok os -> typed_obj ds fvs = true ->
    (validate_obj re_ok re_match (defined_numbers env) os fvs = VAccept <-> member_obj pat_sem env ds fvs) /\
    (validate_obj re_ok re_match (defined_numbers env) os fvs = VReject <-> ~ member_obj pat_sem env ds fvs).
Proof.
  intros re_ok re_match pat_sem He env ds os fvs Hwf Hm Hc Hty.
  unfold compile_members in Hc. apply obind_ok in Hc. destruct Hc as (os0 & Hos & Hc). inversion Hc; subst os.
  unfold compile_object in Hos. destruct (props_distinct (map plain ds)); [|discriminate Hos].
  destruct (compile_plain_props re_ok env ds 0%N os0 Hos) as [Hw Hev].
  exact (c12_members re_ok re_match pat_sem (proj1 He) (proj1 (proj2 He)) (engine_id62_bool re_ok re_match pat_sem He)
                     env Hwf ds 0%N os0 fvs Hm Hev Hw Hty).
Qed.

(* ---- a field over an inline enum ---- *)
(* a field over an enum carries no pattern and its items are not messages: always evaluable *)
Lemma enum_field_evaluable re_ok d r l : item_of (p_ty d) = TEnum r l -> evaluable re_ok d = true.
Proof.
  intro H. unfold evaluable. rewrite pattern_of_ok, <- unique_refused_spec.
  change (elem_ty (p_ty d)) with (item_of (p_ty d)). rewrite H. cbn [pattern_of andb].
  unfold unique_refused. destruct (p_ty d) as [t|a sf t|a t]; cbn [item_of] in H; subst; try reflexivity.
  destruct a as [a|]; [|reflexivity]. destruct (ar_uniq a) as [[|]|]; reflexivity.
Qed.

Theorem c12_inline_enum_full :
  forall re_ok re_match pat_sem, engine_ok re_ok re_match pat_sem ->
  forall idx d i c fv r l,
    let env := env_of_decl (ie_decl (p_name d) i) in
    wf_env env = true -> key_placement_ok d = true -> item_of (p_ty d) = TEnum r l ->
    write_inline_enum idx d i = Ok c -> fvalue_typed d fv = true ->
    (validate_sem re_ok re_match (defined_numbers env) (fst c) fv = VAccept <-> rule_sem pat_sem env d fv) /\
    (validate_sem re_ok re_match (defined_numbers env) (fst c) fv = VReject <-> ~ rule_sem pat_sem env d fv).
Proof.
  intros re_ok re_match pat_sem He idx d i c fv r l env Hwf Hkp Ht Hw Hty.
  unfold write_inline_enum in Hw. apply obind_ok in Hw. destruct Hw as (o & Ho & Hw). inversion Hw; subst c. cbn [fst].
  exact (c12_main re_ok re_match pat_sem (proj1 He) (proj1 (proj2 He)) (engine_id62_bool re_ok re_match pat_sem He)
                  env idx d o fv Hwf Hkp (enum_field_evaluable re_ok d r l Ht) Ho Hty).
Qed.


(* EntityProofs.v — lemmas about model/Entity.v for property C17. *)
From Coq Require Import String Ascii List NArith Bool Lia ZifyN ZifyNat ZifyBool.
From J5V.lib Require Import Outcome Strcase.
From J5V.model Require Import Entity.
From J5V.proofs Require Import StrcaseProofs.
Import ListNotations.
Local Open Scope bool_scope.
Local Open Scope N_scope.

(* ---- byte string equality ------------------------------------------------ *)
Lemma bytes_eqb_refl : forall a, bytes_eqb a a = true.
Proof. induction a as [|x a IH]; [reflexivity|]. cbn. now rewrite N.eqb_refl, IH. Qed.

Lemma bytes_eqb_eq : forall a b, bytes_eqb a b = true <-> a = b.
Proof.
  induction a as [|x a IH]; intros [|y b]; cbn; split; intros H; try reflexivity; try discriminate.
  - apply andb_true_iff in H. destruct H as [H1 H2]. apply N.eqb_eq in H1. apply IH in H2. now subst.
  - inversion H; subst. now rewrite N.eqb_refl, bytes_eqb_refl.
Qed.

(* ---- the component skeleton: (kind, file, name), kind 0 message 1 enum 2 service --- *)
Definition skel (c : component) : N * N * bytes :=
  match c with
  | CMsg f m => (0, f, m_name m)
  | CEnum n _ => (1, 0, n)
  | CSvc f s => (2, f, sv_name s)
  end.

Definition method_skel (name : bytes) : list (N * N * bytes) :=
  [(0, 1, name ++ bs "Request"); (0, 1, name ++ bs "Response")].
(* a command method without a response block returns google.api.HttpBody: no Response message *)
Definition command_method_skel (m : method) : list (N * N * bytes) :=
  (0, 1, md_name m ++ bs "Request")
  :: match md_response m with Some _ => [(0, 1, md_name m ++ bs "Response")] | None => [] end.

Definition command_skel (e : entity) (c : command) : list (N * N * bytes) :=
  flat_map command_method_skel (c_methods c)
  ++ [(2, 1, command_service_name e c ++ bs "Service")].

Definition summary_skel (e : entity) (s : summary) : list (N * N * bytes) :=
  [(0, 2, summary_topic_name e s ++ bs "Message");
   (2, 2, to_camel (summary_topic_name e s) ++ bs "Topic")].

Definition schema_skel (sc : eschema) : N * N * bytes :=
  match sc with SObject n _ => (0, 0, n) | SOneof n _ => (0, 0, n) | SEnum n _ => (1, 0, n) end.

(* the documented expansion: names only *)
Definition spec_skeleton (e : entity) : list (N * N * bytes) :=
  let C := camel_name e in
  let Q := query_prefix e in
  [(0, 0, C ++ bs "Keys"); (0, 0, C ++ bs "Data"); (1, 0, C ++ bs "Status");
   (0, 0, C ++ bs "State"); (0, 0, C ++ bs "EventType"); (0, 0, C ++ bs "Event")]
  ++ method_skel (Q ++ bs "Get") ++ method_skel (Q ++ bs "List") ++ method_skel (Q ++ bs "Events")
  ++ [(2, 1, Q ++ bs "QueryService")]
  ++ flat_map (command_skel e) (e_commands e)
  ++ [(0, 2, C ++ bs "EventMessage"); (2, 2, to_camel (C ++ bs "Publish") ++ bs "Topic")]
  ++ flat_map (summary_skel e) (e_summaries e)
  ++ map schema_skel (e_schemas e).      (* objects / oneofs / enums declared in the entity block *)

Lemma map_flat_map : forall {A B C} (f : B -> C) (g : A -> list B) l,
  map f (flat_map g l) = flat_map (fun x => map f (g x)) l.
Proof. intros A B C f g l. induction l as [|x l IH]; [reflexivity|]. cbn. now rewrite map_app, IH. Qed.

Lemma flat_map_ext' : forall {A B} (f g : A -> list B) l,
  (forall x, f x = g x) -> flat_map f l = flat_map g l.
Proof. intros A B f g l H. induction l as [|x l IH]; [reflexivity|]. cbn. now rewrite H, IH. Qed.

Lemma command_components_skel : forall e c,
  map skel (command_components e c) = command_skel e c.
Proof.
  intros e c. unfold command_components, service_components, command_skel.
  rewrite map_app, map_flat_map, flat_map_concat_map, map_map, <- flat_map_concat_map.
  cbn [map skel sv_name]. f_equal.
  apply flat_map_ext'. intros m. unfold method_components, command_method_skel. cbn [fst map skel m_name].
  destruct (md_response m); reflexivity.
Qed.

Lemma summary_components_skel : forall e s,
  map skel (summary_components e s) = summary_skel e s.
Proof. reflexivity. Qed.

Lemma query_components_skel : forall e,
  map skel (query_components e) =
    method_skel (query_prefix e ++ bs "Get") ++ method_skel (query_prefix e ++ bs "List")
    ++ method_skel (query_prefix e ++ bs "Events") ++ [(2, 1, query_prefix e ++ bs "QueryService")].
Proof.
  intros e. unfold query_components, service_components, method_components, method_skel.
  cbn [flat_map fst snd map app skel m_name sv_name].
  replace ((query_prefix e ++ bs "Query") ++ bs "Service") with (query_prefix e ++ bs "QueryService")
    by (rewrite <- app_assoc; reflexivity).
  reflexivity.
Qed.

Lemma publish_components_skel : forall e,
  map skel (publish_components e) =
    [(0, 2, camel_name e ++ bs "EventMessage");
     (2, 2, to_camel (camel_name e ++ bs "Publish") ++ bs "Topic")].
Proof.
  intros e. unfold publish_components, topic_components. cbn [map skel m_name sv_name].
  replace ((camel_name e ++ bs "Event") ++ bs "Message") with (camel_name e ++ bs "EventMessage")
    by (rewrite <- app_assoc; reflexivity).
  reflexivity.
Qed.

Theorem expand_skeleton : forall e filters,
  map skel (expand_with e filters) = spec_skeleton e.
Proof.
  intros e filters. unfold expand_with, spec_skeleton.
  rewrite !map_app, !map_flat_map.
  rewrite (flat_map_ext' _ _ _ (command_components_skel e)).
  rewrite (flat_map_ext' _ _ _ (summary_components_skel e)).
  rewrite query_components_skel, publish_components_skel, map_map.
  assert (Es : map (fun x => skel (schema_component x)) (e_schemas e) = map schema_skel (e_schemas e)).
  { apply map_ext. intros [n fs|n fs|n os]; reflexivity. }
  rewrite Es, <- !app_assoc. reflexivity.
Qed.

(* ---- closedness: every reference of the expansion resolves ------------------- *)
Definition resolves (D : list (bool * bytes)) (f : ofield) : bool := field_resolves D f.

Lemma closed_unfold : forall cs, closed cs = forallb (resolves (defined cs)) (fields_of cs).
Proof. reflexivity. Qed.

Lemma defined_app : forall a b, defined (a ++ b) = defined a ++ defined b.
Proof. intros. apply flat_map_app. Qed.
Lemma fields_of_app : forall a b, fields_of (a ++ b) = fields_of a ++ fields_of b.
Proof. intros. apply flat_map_app. Qed.

Lemma resolves_local : forall D (is_enum : bool) n,
  In (is_enum, n) D ->
  existsb (fun d => Bool.eqb (fst d) is_enum && bytes_eqb (snd d) n) D = true.
Proof.
  intros D b n H. apply existsb_exists. exists (b, n). split; [assumption|].
  cbn. now rewrite eqb_reflx, bytes_eqb_refl.
Qed.

Lemma resolves_object : forall D n j r q fl p t fi,
  In (false, n) D -> resolves D (mkF j (TObject [] n) r q fl p t fi) = true.
Proof. intros. unfold resolves, field_resolves, ref_resolves. cbn [f_type f_inline mkF]. rewrite andb_true_r. now apply resolves_local. Qed.
Lemma resolves_oneof : forall D n j r q fl p t fi,
  In (false, n) D -> resolves D (mkF j (TOneof [] n) r q fl p t fi) = true.
Proof. intros. unfold resolves, field_resolves, ref_resolves. cbn [f_type f_inline mkF]. rewrite andb_true_r. now apply resolves_local. Qed.
Lemma resolves_enum : forall D n j r q fl p t fi,
  In (true, n) D -> resolves D (mkF j (TEnum [] n) r q fl p t fi) = true.
Proof. intros. unfold resolves, field_resolves, ref_resolves. cbn [f_type f_inline mkF]. rewrite andb_true_r. now apply resolves_local. Qed.

(* scalar and key fields carry no reference *)
Definition is_ref_item (i : ikind) : bool :=
  match i with IObject _ | IOneof _ | IEnum _ => true | _ => false end.
Definition is_ref_field (u : ufield) : bool :=
  match uf_kind u with
  | KObject _ | KOneof _ | KEnum _ => true
  | KArray i => is_ref_item i
  | KMap i => is_ref_item i
  | KInlineObject fs => existsb (fun s => is_ref_item (sf_kind s)) fs
  | KInlineOneof fs => existsb (fun s => is_ref_item (sf_kind s)) fs
  | KInlineTree _ _ => true      (* conservatively: a tree may hold references at any depth *)
  | _ => false
  end.
Lemma item_scalar_resolves : forall D i, is_ref_item i = false -> ref_resolves D (otype_of_item i) = true.
Proof. intros D [pt k|tn k|n|n|n] H; try reflexivity; discriminate. Qed.
Lemma sfields_scalar_resolve : forall D fs, existsb (fun s => is_ref_item (sf_kind s)) fs = false ->
  forallb (fun s => ref_resolves D (otype_of_item (sf_kind s))) fs = true.
Proof.
  induction fs as [|s fs IH]; intros H; [reflexivity|]. cbn in H. apply orb_false_iff in H. destruct H as [H1 H2].
  cbn [forallb]. now rewrite (item_scalar_resolves D _ H1), IH.
Qed.
Lemma inline_type_resolves : forall D c n k, ref_resolves D (inline_type c n k) = true.
Proof. intros D c n k. unfold inline_type. destruct (c =? 2); reflexivity. Qed.
Lemma resolves_ufield_scalar : forall D u, is_ref_field u = false -> resolves D (of_ufield u) = true.
Proof.
  intros D [n [pt k|nm|nm|nm|p f t|tn k|i|i|fs|fs|os|tk tfs] r o d kf c] H; try reflexivity; try discriminate.
  - unfold resolves, field_resolves. cbn. rewrite andb_true_r. now apply item_scalar_resolves.
  - unfold resolves, field_resolves. cbn. rewrite andb_true_r. now apply item_scalar_resolves.
  - unfold resolves, field_resolves. cbn [of_ufield uf_kind uf_name uf_container f_type f_inline il_fields].
    rewrite inline_type_resolves. now apply sfields_scalar_resolve.
  - unfold resolves, field_resolves. cbn [of_ufield uf_kind uf_name uf_container f_type f_inline il_fields].
    rewrite inline_type_resolves. now apply sfields_scalar_resolve.
  - unfold resolves, field_resolves. cbn [of_ufield uf_kind uf_name uf_container f_type f_inline il_fields].
    rewrite inline_type_resolves. reflexivity.
Qed.

(* what the user's own object references must name for the file to convert *)
Definition user_refs_ok (e : entity) (D : list (bool * bytes)) : bool :=
  forallb (fun u => resolves D (of_ufield u)) (all_ufields e).

(* membership of each group of user fields in [all_ufields] *)
Lemma in_all_keys : forall e u, In u (map k_def (e_keys e)) -> In u (all_ufields e).
Proof. intros e u H. unfold all_ufields. apply in_or_app. now left. Qed.
Lemma in_all_data : forall e u, In u (e_data e) -> In u (all_ufields e).
Proof. intros e u H. unfold all_ufields. apply in_or_app. right. apply in_or_app. now left. Qed.
Lemma in_all_event : forall e ev u, In ev (e_events e) -> In u (ev_fields ev) -> In u (all_ufields e).
Proof.
  intros e ev u He H. unfold all_ufields. do 2 (apply in_or_app; right). apply in_or_app. left.
  apply in_flat_map. exists ev. split; assumption.
Qed.
Lemma in_all_request : forall e c m u, In c (e_commands e) -> In m (c_methods c) ->
  In u (md_request m) -> In u (all_ufields e).
Proof.
  intros e c m u Hc Hm H. unfold all_ufields. do 3 (apply in_or_app; right). apply in_or_app. left.
  apply in_flat_map. exists c. split; [assumption|]. apply in_flat_map. exists m. split; [assumption|].
  apply in_or_app. now left.
Qed.
Lemma in_all_response : forall e c m r u, In c (e_commands e) -> In m (c_methods c) ->
  md_response m = Some r -> In u r -> In u (all_ufields e).
Proof.
  intros e c m r u Hc Hm Hr H. unfold all_ufields. do 3 (apply in_or_app; right). apply in_or_app. left.
  apply in_flat_map. exists c. split; [assumption|]. apply in_flat_map. exists m. split; [assumption|].
  apply in_or_app. right. now rewrite Hr.
Qed.
Lemma in_all_summary : forall e sm u, In sm (e_summaries e) -> In u (s_fields sm) -> In u (all_ufields e).
Proof.
  intros e sm u Hs H. unfold all_ufields. do 4 (apply in_or_app; right). apply in_or_app. left.
  apply in_flat_map. exists sm. split; assumption.
Qed.
Lemma in_all_schema : forall e sc u, In sc (e_schemas e) -> In u (schema_fields sc) -> In u (all_ufields e).
Proof.
  intros e sc u Hs H. unfold all_ufields. do 5 (apply in_or_app; right).
  apply in_flat_map. exists sc. split; assumption.
Qed.
Lemma get_keys_incl : forall e u, In u (get_keys e) -> In u (map k_def (e_keys e)).
Proof.
  intros e u H. unfold get_keys in H. apply in_map_iff in H. destruct H as [k [<- Hk]].
  apply filter_In in Hk. apply in_map. exact (proj1 Hk).
Qed.
Lemma list_keys_incl : forall e u, In u (list_keys e) -> In u (map k_def (e_keys e)).
Proof.
  intros e u H. unfold list_keys in H. apply in_map_iff in H. destruct H as [k [<- Hk]].
  apply filter_In in Hk. apply in_map. exact (proj1 Hk).
Qed.

Section Closed.
  Variable e : entity.
  Variable D : list (bool * bytes).
  Hypothesis HKeys : In (false, component_name e (bs "Keys")) D.
  Hypothesis HData : In (false, component_name e (bs "Data")) D.
  Hypothesis HStatus : In (true, component_name e (bs "Status")) D.
  Hypothesis HState : In (false, component_name e (bs "State")) D.
  Hypothesis HEventType : In (false, component_name e (bs "EventType")) D.
  Hypothesis HEvent : In (false, component_name e (bs "Event")) D.
  Hypothesis HNested : forall ev, In ev (e_events e) ->
    In (false, event_type_name e ++ [46] ++ ev_name ev) D.
  Hypothesis HUser : forall u, In u (all_ufields e) -> resolves D (of_ufield u) = true.

  Let ok := forallb (resolves D).

  Lemma ok_ufields : forall l, (forall u, In u l -> In u (all_ufields e)) ->
    forallb (resolves D) (map of_ufield l) = true.
  Proof.
    intros l H. apply forallb_forall. intros f Hf. apply in_map_iff in Hf.
    destruct Hf as [u [<- Hu]]. apply HUser. now apply H.
  Qed.
  Lemma ok_get_keys : forallb (resolves D) (map of_ufield (get_keys e)) = true.
  Proof. apply ok_ufields. intros u H. apply in_all_keys. now apply get_keys_incl. Qed.
  Lemma ok_list_keys : forallb (resolves D) (map of_ufield (list_keys e)) = true.
  Proof. apply ok_ufields. intros u H. apply in_all_keys. now apply list_keys_incl. Qed.

  Lemma ok_keys : ok (fields_of [CMsg 0 (keys_msg e)]) = true.
  Proof.
    unfold ok. cbn [fields_of flat_map keys_msg m_fields m_nested app]. rewrite !app_nil_r.
    rewrite <- (map_map k_def of_ufield). apply ok_ufields. intros u H. now apply in_all_keys.
  Qed.
  Lemma ok_data : ok (fields_of [CMsg 0 (data_msg e)]) = true.
  Proof.
    unfold ok. cbn [fields_of flat_map data_msg m_fields m_nested app]. rewrite !app_nil_r.
    apply ok_ufields. intros u H. now apply in_all_data.
  Qed.
  Lemma ok_state : forall fl, ok (fields_of [CMsg 0 (state_msg e fl)]) = true.
  Proof.
    intros fl. unfold ok. cbn [fields_of flat_map state_msg m_fields m_nested app forallb].
    unfold plain_field, local_obj.
    rewrite (resolves_object D _ _ _ _ _ _ _ _ HKeys), (resolves_object D _ _ _ _ _ _ _ _ HData),
            (resolves_enum D _ _ _ _ _ _ _ _ HStatus).
    reflexivity.
  Qed.
  Lemma ok_event : ok (fields_of [CMsg 0 (event_msg e)]) = true.
  Proof.
    unfold ok. cbn [fields_of flat_map event_msg m_fields m_nested app forallb].
    unfold plain_field, local_obj.
    rewrite (resolves_object D _ _ _ _ _ _ _ _ HKeys), (resolves_oneof D _ _ _ _ _ _ _ _ HEventType).
    reflexivity.
  Qed.
  Lemma ok_event_type : ok (fields_of [CMsg 0 (event_type_msg e)]) = true.
  Proof.
    unfold ok. cbn [fields_of flat_map event_type_msg m_fields m_nested app]. rewrite app_nil_r.
    rewrite forallb_app. apply andb_true_iff. split.
    - apply forallb_forall. intros f Hf. apply in_map_iff in Hf. destruct Hf as [ev [<- Hev]].
      apply resolves_object. now apply HNested.
    - apply forallb_forall. intros f Hf. apply in_flat_map in Hf. destruct Hf as [n [Hn Hf]].
      apply in_map_iff in Hn. destruct Hn as [ev [<- Hev]]. cbn [snd] in Hf.
      apply in_map_iff in Hf. destruct Hf as [u [<- Hu]]. apply HUser. now apply (in_all_event e ev).
  Qed.

  Lemma ok_query : ok (fields_of (query_components e)) = true.
  Proof.
    unfold ok, query_components, service_components, method_components.
    cbn [flat_map fst snd map app fields_of m_fields m_nested]. rewrite !app_nil_r.
    unfold page_request, query_request, page_response, plain_field, array_field, local_obj.
    destruct (match e_query e with Some q => q_events_in_get q | None => false end);
      repeat (progress (rewrite ?forallb_app; cbn [forallb app]));
      rewrite !ok_get_keys, !ok_list_keys;
      rewrite !(resolves_object D _ _ _ _ _ _ _ _ HState);
      rewrite !(resolves_object D _ _ _ _ _ _ _ _ HEvent); reflexivity.
  Qed.

  Lemma ok_command : forall c, In c (e_commands e) -> ok (fields_of (command_components e c)) = true.
  Proof.
    intros c Hin. unfold ok, command_components, service_components.
    rewrite fields_of_app. cbn [fields_of flat_map app]. rewrite app_nil_r.
    apply forallb_forall. intros f Hf. unfold fields_of in Hf.
    apply in_flat_map in Hf. destruct Hf as [comp [Hc Hf]].
    apply in_flat_map in Hc. destruct Hc as [m [Hm Hc]].
    apply in_map_iff in Hm. destruct Hm as [md [<- Hmd]].
    unfold method_components in Hc. cbn [fst In] in Hc.
    destruct Hc as [<-|Hc].
    - cbn [m_fields m_nested flat_map app] in Hf. rewrite app_nil_r in Hf.
      apply in_map_iff in Hf. destruct Hf as [u [<- Hu]]. apply HUser.
      now apply (in_all_request e c md).
    - destruct (md_response md) as [r|] eqn:Er; cbn [option_map In] in Hc; [|destruct Hc].
      destruct Hc as [<-|[]]. cbn [m_fields m_nested flat_map app] in Hf. rewrite app_nil_r in Hf.
      apply in_map_iff in Hf. destruct Hf as [u [<- Hu]]. apply HUser.
      now apply (in_all_response e c md r).
  Qed.

  Lemma ok_publish : ok (fields_of (publish_components e)) = true.
  Proof.
    unfold ok, publish_components, topic_components.
    cbn [fields_of flat_map m_fields m_nested app forallb]. unfold plain_field, local_obj.
    rewrite (resolves_object D _ _ _ _ _ _ _ _ HKeys), (resolves_object D _ _ _ _ _ _ _ _ HData),
            (resolves_enum D _ _ _ _ _ _ _ _ HStatus), (resolves_oneof D _ _ _ _ _ _ _ _ HEventType).
    reflexivity.
  Qed.

  Lemma ok_summary : forall sm, In sm (e_summaries e) -> ok (fields_of (summary_components e sm)) = true.
  Proof.
    intros sm Hin. unfold ok, summary_components, topic_components.
    cbn [fields_of flat_map m_fields m_nested app forallb]. rewrite !app_nil_r.
    rewrite ok_ufields; [reflexivity|]. intros u H. now apply (in_all_summary e sm).
  Qed.

  Lemma ok_schemas : ok (fields_of (map schema_component (e_schemas e))) = true.
  Proof.
    unfold ok. apply forallb_forall. intros f Hf. unfold fields_of in Hf.
    apply in_flat_map in Hf. destruct Hf as [comp [Hc Hf]].
    apply in_map_iff in Hc. destruct Hc as [sc [<- Hsc]].
    destruct sc as [n fs|n fs|n os]; cbn [schema_component m_fields m_nested flat_map app] in Hf;
      try rewrite app_nil_r in Hf; try (destruct Hf; fail);
      apply in_map_iff in Hf; destruct Hf as [u [<- Hu]]; apply HUser;
      [apply (in_all_schema e (SObject n fs))|apply (in_all_schema e (SOneof n fs))]; assumption.
  Qed.

  Lemma ok_flat_map : forall {A} (g : A -> list component) l,
    (forall x, In x l -> ok (fields_of (g x)) = true) -> ok (fields_of (flat_map g l)) = true.
  Proof.
    intros A g l H. induction l as [|x l IH]; [reflexivity|].
    cbn [flat_map]. rewrite fields_of_app. unfold ok in *. rewrite forallb_app.
    rewrite (H x (or_introl eq_refl)), IH; [reflexivity|]. intros y Hy. apply H. now right.
  Qed.

  Lemma ok_expand : forall fl, ok (fields_of (expand_with e fl)) = true.
  Proof.
    intros fl. unfold expand_with.
    change [CMsg 0 (keys_msg e); CMsg 0 (data_msg e); status_enum e; CMsg 0 (state_msg e fl);
            CMsg 0 (event_type_msg e); CMsg 0 (event_msg e)]
      with ([CMsg 0 (keys_msg e)] ++ [CMsg 0 (data_msg e)] ++ [status_enum e] ++ [CMsg 0 (state_msg e fl)]
            ++ [CMsg 0 (event_type_msg e)] ++ [CMsg 0 (event_msg e)]).
    rewrite !fields_of_app. unfold ok. rewrite !forallb_app. fold ok.
    rewrite ok_keys, ok_data, ok_state, ok_event_type, ok_event, ok_query, ok_publish, ok_schemas.
    rewrite (ok_flat_map _ _ ok_command), (ok_flat_map _ _ ok_summary).
    reflexivity.
  Qed.
End Closed.

Lemma in_defined_head : forall e fl x,
  In x (defined [CMsg 0 (keys_msg e); CMsg 0 (data_msg e); status_enum e; CMsg 0 (state_msg e fl);
                 CMsg 0 (event_type_msg e); CMsg 0 (event_msg e)]) ->
  In x (defined (expand_with e fl)).
Proof. intros e fl x H. unfold expand_with. rewrite defined_app. apply in_or_app. now left. Qed.

(* closedness: the expansion's own references always resolve; the file is closed as soon as
   the user's object references do *)
Theorem expand_closed : forall e fl,
  user_refs_ok e (defined (expand_with e fl)) = true -> closed (expand_with e fl) = true.
Proof.
  intros e fl HU. rewrite closed_unfold. apply ok_expand.
  - apply in_defined_head. cbn. auto.
  - apply in_defined_head. cbn. auto.
  - apply in_defined_head. cbn. auto 10.
  - apply in_defined_head. cbn. auto 10.
  - apply in_defined_head. cbn [defined flat_map keys_msg data_msg status_enum state_msg m_name m_nested map app].
    right. right. right. right. left. reflexivity.
  - apply in_defined_head. cbn [defined flat_map keys_msg data_msg status_enum state_msg event_type_msg event_msg m_name m_nested map app].
    right. right. right. right. right. apply in_or_app. right. left. reflexivity.
  - intros ev Hev. apply in_defined_head.
    cbn [defined flat_map keys_msg data_msg status_enum state_msg event_type_msg m_name m_nested map app].
    right. right. right. right. right. apply in_or_app. left.
    rewrite map_map. apply in_map_iff. exists ev. split; [reflexivity|assumption].
  - unfold user_refs_ok in HU. rewrite forallb_forall in HU. exact HU.
Qed.

(* without object references (scalars and keys only) nothing can dangle *)
Theorem expand_closed_scalars : forall e fl,
  forallb (fun u => negb (is_ref_field u)) (all_ufields e) = true -> closed (expand_with e fl) = true.
Proof.
  intros e fl H. apply expand_closed. unfold user_refs_ok. apply forallb_forall. intros u Hu.
  rewrite forallb_forall in H. specialize (H u Hu). apply negb_true_iff in H.
  now apply resolves_ufield_scalar.
Qed.

(* conversely a dangling user reference makes the file fail: every user field is emitted *)
Lemma in_fields_of : forall c cs f, In c cs ->
  In f (match c with CMsg _ m => m_fields m ++ flat_map snd (m_nested m) | _ => [] end) ->
  In f (fields_of cs).
Proof. intros c cs f Hc Hf. unfold fields_of. apply in_flat_map. exists c. split; assumption. Qed.

Lemma fields_of_flat_map : forall {A} (g : A -> list component) l x f,
  In x l -> In f (fields_of (g x)) -> In f (fields_of (flat_map g l)).
Proof.
  intros A g l x f Hx Hf. unfold fields_of in *. apply in_flat_map in Hf. destruct Hf as [c [Hc Hf]].
  apply in_flat_map. exists c. split; [|assumption]. apply in_flat_map. exists x. split; assumption.
Qed.

Theorem closed_user_refs : forall e fl,
  closed (expand_with e fl) = true -> user_refs_ok e (defined (expand_with e fl)) = true.
Proof.
  intros e fl H. rewrite closed_unfold in H. rewrite forallb_forall in H.
  unfold user_refs_ok. apply forallb_forall. intros u Hu. apply H. clear H.
  unfold all_ufields in Hu. unfold expand_with.
  repeat (apply in_app_or in Hu; destruct Hu as [Hu|Hu]).
  - (* keys *) apply (in_fields_of (CMsg 0 (keys_msg e))); [cbn; auto|].
    cbn [keys_msg m_fields m_nested flat_map]. rewrite app_nil_r.
    rewrite <- (map_map k_def of_ufield). now apply in_map.
  - (* data *) apply (in_fields_of (CMsg 0 (data_msg e))); [cbn; auto|].
    cbn [data_msg m_fields m_nested flat_map]. rewrite app_nil_r. now apply in_map.
  - (* event fields *) apply in_flat_map in Hu. destruct Hu as [ev [Hev Hu]].
    apply (in_fields_of (CMsg 0 (event_type_msg e))); [cbn; auto 10|].
    cbn [event_type_msg m_fields m_nested]. apply in_or_app. right.
    apply in_flat_map. exists (ev_name ev, map of_ufield (ev_fields ev)). split.
    + apply in_map_iff. exists ev. split; [reflexivity|assumption].
    + cbn [snd]. now apply in_map.
  - (* command request / response *)
    apply in_flat_map in Hu. destruct Hu as [c [Hc Hu]].
    apply in_flat_map in Hu. destruct Hu as [m [Hm Hu]].
    rewrite !fields_of_app. apply in_or_app. right. apply in_or_app. right. apply in_or_app. left.
    apply (fields_of_flat_map _ _ c); [assumption|].
    unfold command_components, service_components. rewrite fields_of_app. apply in_or_app. left.
    apply (fields_of_flat_map fst _ (method_components (command_base e c) (md_name m) (md_verb m) (md_path m)
      (map of_ufield (md_request m)) (option_map (map of_ufield) (md_response m)) 0)).
    + apply in_map_iff. exists m. split; [reflexivity|assumption].
    + unfold method_components. cbn [fst]. apply in_app_or in Hu. destruct Hu as [Hu|Hu].
      * apply (in_fields_of (CMsg 1 (mkMsg (md_name m ++ bs "Request") None false (map of_ufield (md_request m)) [])));
          [now left|]. cbn [m_fields m_nested flat_map]. rewrite app_nil_r. now apply in_map.
      * destruct (md_response m) as [r|]; [|destruct Hu]. cbn [option_map].
        apply (in_fields_of (CMsg 1 (mkMsg (md_name m ++ bs "Response") None false (map of_ufield r) [])));
          [right; now left|]. cbn [m_fields m_nested flat_map]. rewrite app_nil_r. now apply in_map.
  - (* summary fields *) apply in_flat_map in Hu. destruct Hu as [sm [Hs Hu]].
    rewrite !fields_of_app. do 4 (apply in_or_app; right). apply in_or_app. left.
    apply (fields_of_flat_map _ _ sm); [assumption|].
    unfold summary_components, topic_components.
    apply (in_fields_of (CMsg 2 (mkMsg (summary_topic_name e sm ++ bs "Message") None false
             (plain_field "upsert" (TObject (bs "j5.messaging.v1") (bs "UpsertMetadata")) true
              :: map of_ufield (s_fields sm)) []))); [now left|].
    cbn [m_fields m_nested flat_map]. rewrite app_nil_r. right. now apply in_map.
  - (* entity-level schemas *) apply in_flat_map in Hu. destruct Hu as [sc [Hs Hu]].
    rewrite !fields_of_app. do 5 (apply in_or_app; right).
    unfold fields_of. apply in_flat_map. exists (schema_component sc). split.
    + apply in_map_iff. exists sc. split; [reflexivity|assumption].
    + destruct sc as [n fs|n fs|n os]; cbn [schema_fields] in Hu; [| |destruct Hu];
        cbn [schema_component m_fields m_nested flat_map]; rewrite app_nil_r; now apply in_map.
Qed.

Lemma expand_total_aux : forall e, is_panic (expand e) = false /\ expand e <> OutOfFuel.
Proof.
  intros e. unfold expand. destruct (default_filters e _); [|split; [reflexivity|discriminate]].
  destruct (nodup_bytes _); split; try reflexivity; discriminate.
Qed.

(* the compiler accepts what entityNode.run accepts as soon as the user's fields are fine
   (and the query block has no list-request settings: those are a conversion error, see
   [convert_list_settings]) *)
Theorem compile_expand : forall e,
  list_settings e = false ->
  (forall fl, user_refs_ok e (defined (expand_with e fl)) = true) ->
  (forall fl, trees_ok e (defined (expand_with e fl)) = true) ->
  fields_ok e = true -> query_params_ok e = true -> command_params_ok e = true -> convert e = expand e.
Proof.
  intros e Hls HU HT Hok Hq Hc. unfold convert, expand. rewrite Hls.
  destruct (default_filters e _) as [fl|]; [|reflexivity].
  destruct (nodup_bytes _); [|reflexivity]. now rewrite (expand_closed e fl (HU fl)), (HT fl), Hok, Hq, Hc.
Qed.

(* the only conversion errors the expansion itself can cause are in the user's own fields: an
   object reference that names nothing, an optional/required clash, a path parameter that is
   not a request field; a reference made by entity.go is never the cause *)
Theorem compile_errors : forall e cs, expand e = Ok cs -> list_settings e = false ->
  convert e = if user_refs_ok e (defined cs) && trees_ok e (defined cs) then
                if fields_ok e then
                  if query_params_ok e && command_params_ok e then Ok cs
                  else Err "missing field in request"
                else Err "cannot be both required and optional"
              else Err "type not found".
Proof.
  intros e cs H Hls. unfold convert. rewrite H, Hls.
  unfold expand in H. destruct (default_filters e _) as [fl|]; [|discriminate].
  destruct (nodup_bytes _); [|discriminate]. inversion H; subst.
  destruct (user_refs_ok e (defined (expand_with e fl))) eqn:EU.
  - now rewrite (expand_closed e fl EU).
  - destruct (closed (expand_with e fl)) eqn:Ec; [|reflexivity].
    rewrite (closed_user_refs e fl Ec) in EU. discriminate.
Qed.

(* Go panics are not hidden, and there is none left to hide: since fix 985f10a list-request settings
   in the query block are a positioned conversion error (before, proto.SetExtension panicked) *)
Theorem convert_never_panics : forall e, is_panic (convert e) = false /\ convert e <> OutOfFuel.
Proof.
  intros e. unfold convert. destruct (expand e) as [cs| | |] eqn:E.
  - destruct (closed cs && trees_ok e (defined cs)); [destruct (fields_ok e); [destruct (query_params_ok e && command_params_ok e);
      [destruct (list_settings e)|]|]|]; split; try reflexivity; discriminate.
  - split; [reflexivity|discriminate].
  - pose proof (expand_total_aux e) as [Hp _]. rewrite E in Hp. discriminate.
  - pose proof (expand_total_aux e) as [_ Hp]. now rewrite E in Hp.
Qed.

(* a declaration with list-request settings never converts *)
Theorem convert_list_settings : forall e, list_settings e = true -> forall cs, convert e <> Ok cs.
Proof.
  intros e Hls cs. unfold convert. rewrite Hls. destruct (expand e) as [c| | |]; try discriminate.
  destruct (closed c && trees_ok e (defined c)); [destruct (fields_ok e); [destruct (query_params_ok e && command_params_ok e)|]|]; discriminate.
Qed.

(* ---- the main file holds exactly Keys, Data, State, EventType, Event -------------- *)
Definition msgs_of_file (file : N) (cs : list component) : list omsg :=
  flat_map (fun c => match c with CMsg f m => if f =? file then [m] else [] | _ => [] end) cs.

Lemma msgs_of_file_app : forall f a b, msgs_of_file f (a ++ b) = msgs_of_file f a ++ msgs_of_file f b.
Proof. intros. apply flat_map_app. Qed.

Lemma msgs0_flat_map_nil : forall {A} (g : A -> list component) l,
  (forall x, msgs_of_file 0 (g x) = []) -> msgs_of_file 0 (flat_map g l) = [].
Proof.
  intros A g l H. induction l as [|x l IH]; [reflexivity|].
  cbn [flat_map]. now rewrite msgs_of_file_app, H, IH.
Qed.

Lemma msgs0_service : forall name ann ms,
  (forall m, In m ms -> msgs_of_file 0 (fst m) = []) ->
  msgs_of_file 0 (service_components name ann ms) = [].
Proof.
  intros name ann ms H. unfold service_components. rewrite msgs_of_file_app.
  cbn [msgs_of_file flat_map app]. rewrite app_nil_r.
  induction ms as [|m ms IH]; [reflexivity|]. cbn [flat_map]. rewrite msgs_of_file_app.
  fold (msgs_of_file 0 (flat_map fst ms)). rewrite (H m (or_introl eq_refl)), IH; [reflexivity|].
  intros m' Hm'. apply H. now right.
Qed.

Definition schema_msgs (sc : eschema) : list omsg :=
  match sc with
  | SObject n fs => [mkMsg n None false (map of_ufield fs) []]
  | SOneof n fs => [mkMsg n None true (map of_ufield fs) []]
  | SEnum _ _ => []
  end.

Theorem main_file_messages : forall e fl,
  msgs_of_file 0 (expand_with e fl) =
    [keys_msg e; data_msg e; state_msg e fl; event_type_msg e; event_msg e]
    ++ flat_map schema_msgs (e_schemas e).
Proof.
  intros e fl. unfold expand_with. rewrite !msgs_of_file_app.
  assert (Hq : msgs_of_file 0 (query_components e) = []).
  { unfold query_components. apply msgs0_service. intros m [<-|[<-|[<-|[]]]]; reflexivity. }
  assert (Hc : msgs_of_file 0 (flat_map (command_components e) (e_commands e)) = []).
  { apply msgs0_flat_map_nil. intros c. unfold command_components. apply msgs0_service.
    intros m Hm. apply in_map_iff in Hm. destruct Hm as [md [<- _]].
    unfold method_components. cbn [fst]. destruct (option_map _ (md_response md)); reflexivity. }
  assert (Hs : msgs_of_file 0 (flat_map (summary_components e) (e_summaries e)) = []).
  { apply msgs0_flat_map_nil. intros s. reflexivity. }
  assert (Hx : msgs_of_file 0 (map schema_component (e_schemas e)) = flat_map schema_msgs (e_schemas e)).
  { induction (e_schemas e) as [|sc l IH]; [reflexivity|]. cbn [map flat_map].
    change (msgs_of_file 0 (schema_component sc :: map schema_component l))
      with (msgs_of_file 0 ([schema_component sc] ++ map schema_component l)).
    rewrite msgs_of_file_app, IH. f_equal. destruct sc; reflexivity. }
  rewrite Hq, Hc, Hs, Hx. reflexivity.
Qed.

(* ---- the same entity annotation on every part ------------------------------------ *)
Definition psm_entities (cs : list component) : list bytes :=
  flat_map (fun c => match c with
    | CMsg _ m => match m_psm m with Some (en, _) => [en] | None => [] end
    | _ => [] end) cs.
Definition service_entities (cs : list component) : list bytes :=
  flat_map (fun c => match c with
    | CSvc _ s => match sv_ann s with SQuery en => [en] | SCommand en => [en] | STopic _ _ _ => [] end
    | _ => [] end) cs.
Definition topic_entities (cs : list component) : list bytes :=
  flat_map (fun c => match c with
    | CSvc _ s => match sv_ann s with STopic _ _ en => [en] | _ => [] end
    | _ => [] end) cs.

Lemma Forall_flat_map : forall {A B} (P : B -> Prop) (g : A -> list B) l,
  (forall x, In x l -> Forall P (g x)) -> Forall P (flat_map g l).
Proof.
  intros A B P g l H. induction l as [|x l IH]; [constructor|].
  cbn [flat_map]. apply Forall_app. split; [apply H; now left|apply IH; intros y Hy; apply H; now right].
Qed.

Lemma ann_service : forall (sel : list component -> list bytes) P name ann ms,
  sel [] = [] ->
  (forall a b, sel (a ++ b) = sel a ++ sel b) ->
  (forall m, In m ms -> Forall P (sel (fst m))) ->
  Forall P (sel [CSvc 1 (mkSvc (name ++ bs "Service") ann (map snd ms))]) ->
  Forall P (sel (service_components name ann ms)).
Proof.
  intros sel P name ann ms Hnil Happ Hm Hs. unfold service_components. rewrite Happ.
  apply Forall_app. split; [|exact Hs]. clear Hs.
  induction ms as [|m ms IH]; cbn [flat_map].
  - rewrite Hnil. constructor.
  - rewrite Happ. apply Forall_app. split; [apply Hm; now left|apply IH; intros m' H'; apply Hm; now right].
Qed.

Lemma sel_flat_map : forall {A} (sel : list component -> list bytes) P (g : A -> list component) l,
  sel [] = [] -> (forall a b, sel (a ++ b) = sel a ++ sel b) ->
  (forall x, Forall P (sel (g x))) -> Forall P (sel (flat_map g l)).
Proof.
  intros A sel P g l Hnil Happ H. induction l as [|x l IH]; cbn [flat_map].
  - rewrite Hnil. constructor.
  - rewrite Happ. apply Forall_app. split; [apply H|exact IH].
Qed.

Lemma sel_expand : forall (sel : list component -> list bytes) P e fl,
  sel [] = [] -> (forall a b, sel (a ++ b) = sel a ++ sel b) ->
  Forall P (sel [CMsg 0 (keys_msg e); CMsg 0 (data_msg e); status_enum e; CMsg 0 (state_msg e fl);
                 CMsg 0 (event_type_msg e); CMsg 0 (event_msg e)]) ->
  Forall P (sel (query_components e)) ->
  (forall c, Forall P (sel (command_components e c))) ->
  Forall P (sel (publish_components e)) ->
  (forall s, Forall P (sel (summary_components e s))) ->
  (forall sc, sel [schema_component sc] = []) ->
  Forall P (sel (expand_with e fl)).
Proof.
  intros sel P e fl Hnil Happ H1 H2 H3 H4 H5 H6. unfold expand_with. rewrite !Happ.
  apply Forall_app; split; [exact H1|]. apply Forall_app; split; [exact H2|].
  apply Forall_app; split; [now apply sel_flat_map|]. apply Forall_app; split; [exact H4|].
  apply Forall_app; split; [now apply sel_flat_map|].
  induction (e_schemas e) as [|sc l IH]; cbn [map]; [rewrite Hnil; constructor|].
  change (schema_component sc :: map schema_component l)
    with ([schema_component sc] ++ map schema_component l).
  rewrite Happ, H6. exact IH.
Qed.

Theorem same_annotation : forall e fl,
  Forall (eq (snake_name e)) (psm_entities (expand_with e fl))
  /\ Forall (eq (snake_name e)) (service_entities (expand_with e fl))
  /\ Forall (eq (full_name e)) (topic_entities (expand_with e fl)).
Proof.
  intros e fl.
  assert (Ap : forall a b, psm_entities (a ++ b) = psm_entities a ++ psm_entities b) by (intros; apply flat_map_app).
  assert (As : forall a b, service_entities (a ++ b) = service_entities a ++ service_entities b) by (intros; apply flat_map_app).
  assert (At : forall a b, topic_entities (a ++ b) = topic_entities a ++ topic_entities b) by (intros; apply flat_map_app).
  split; [|split].
  - apply sel_expand; [reflexivity|exact Ap|cbn; repeat constructor| | |cbn; constructor|intros s; cbn; constructor|intros [n fs|n fs|n os]; reflexivity].
    + unfold query_components. apply ann_service; [reflexivity|exact Ap| |cbn; constructor].
      intros m [<-|[<-|[<-|[]]]]; cbn; constructor.
    + intros c. unfold command_components. apply ann_service; [reflexivity|exact Ap| |cbn; constructor].
      intros m Hm. apply in_map_iff in Hm. destruct Hm as [md [<- _]].
      unfold method_components. cbn [fst]. destruct (option_map _ (md_response md)); cbn; constructor.
  - apply sel_expand; [reflexivity|exact As|cbn; constructor| | |cbn; constructor|intros s; cbn; constructor|intros [n fs|n fs|n os]; reflexivity].
    + unfold query_components. apply ann_service; [reflexivity|exact As| |cbn; repeat constructor].
      intros m [<-|[<-|[<-|[]]]]; cbn; constructor.
    + intros c. unfold command_components. apply ann_service; [reflexivity|exact As| |cbn; repeat constructor].
      intros m Hm. apply in_map_iff in Hm. destruct Hm as [md [<- _]].
      unfold method_components. cbn [fst]. destruct (option_map _ (md_response md)); cbn; constructor.
  - apply sel_expand; [reflexivity|exact At|cbn; constructor| | |cbn; repeat constructor|intros s; cbn; repeat constructor|intros [n fs|n fs|n os]; reflexivity].
    + unfold query_components. apply ann_service; [reflexivity|exact At| |cbn; constructor].
      intros m [<-|[<-|[<-|[]]]]; cbn; constructor.
    + intros c. unfold command_components. apply ann_service; [reflexivity|exact At| |cbn; constructor].
      intros m Hm. apply in_map_iff in Hm. destruct Hm as [md [<- _]].
      unfold method_components. cbn [fst]. destruct (option_map _ (md_response md)); cbn; constructor.
Qed.

(* ---- the event oneof <-> the declared events --------------------------------------- *)
Theorem event_oneof_bijection : forall e,
  let m := event_type_msg e in
  m_oneof m = true
  /\ map fst (m_nested m) = map ev_name (e_events e)
  /\ map f_json (m_fields m) = map (fun ev => to_lower_camel (ev_name ev)) (e_events e)
  /\ Forall2 (fun f n => f_type f = TObject [] (m_name m ++ [46] ++ fst n)) (m_fields m) (m_nested m)
  /\ map snd (m_nested m) = map (fun ev => map of_ufield (ev_fields ev)) (e_events e).
Proof.
  intros e. cbv zeta. unfold event_type_msg. cbn [m_oneof m_nested m_fields m_name].
  repeat split.
  - now rewrite map_map.
  - now rewrite map_map.
  - induction (e_events e) as [|ev l IH]; cbn [map]; constructor; [reflexivity|exact IH].
  - now rewrite map_map.
Qed.

(* ---- keys: declaration order, primary keys required ------------------------------------ *)
Theorem keys_in_declaration_order : forall e,
  map f_json (m_fields (keys_msg e)) = map (fun k => uf_name (k_def k)) (e_keys e).
Proof.
  intros e. unfold keys_msg. cbn [m_fields]. rewrite map_map. apply map_ext.
  intros [[n [pt k|nm|nm|nm|p f t|tn k|i|i|fs|fs|os|tk tfs] r o] s]; reflexivity.
Qed.

Theorem primary_keys_required : forall e f,
  In f (m_fields (keys_msg e)) -> f_primary f = true -> f_required f = true.
Proof.
  intros e f Hf Hp. unfold keys_msg in Hf. cbn [m_fields] in Hf.
  apply in_map_iff in Hf. destruct Hf as [[[n [pt k|nm|nm|nm|p fk t|tn k|i|i|fs|fs|os|tk tfs] r o] s] [<- _]]; cbn in *; try discriminate.
  subst p. apply orb_true_r.
Qed.

Definition primary_keys (e : entity) : list ufield := filter is_primary (map k_def (e_keys e)).

Lemma primary_is_key : forall u, is_primary u = true -> is_key_field u = true.
Proof. intros [n [pt k|nm|nm|nm|p f t|tn k|i|i|fs|fs|os|tk tfs] r o] H; try discriminate; reflexivity. Qed.

(* the primary keys are, in declaration order, among the Get/Events path keys ... *)
Theorem get_keys_primary : forall e, filter is_primary (get_keys e) = primary_keys e.
Proof.
  intros e. unfold get_keys, primary_keys.
  induction (e_keys e) as [|k l IH]; [reflexivity|]. cbn [filter map].
  destruct (is_primary (k_def k)) eqn:Hp.
  - rewrite (primary_is_key _ Hp). cbn [andb orb map filter]. rewrite Hp. now f_equal.
  - destruct (is_key_field (k_def k) && (false || k_shard k)); cbn [map filter]; [rewrite Hp|]; exact IH.
Qed.

(* ... and without shard keys they are exactly the path keys *)
Theorem get_keys_no_shard : forall e,
  (forall k, In k (e_keys e) -> k_shard k = false) -> get_keys e = primary_keys e.
Proof.
  intros e H. unfold get_keys, primary_keys.
  induction (e_keys e) as [|k l IH]; [reflexivity|]. cbn [filter map].
  rewrite (H k (or_introl eq_refl)), orb_false_r.
  assert (E : is_key_field (k_def k) && is_primary (k_def k) = is_primary (k_def k)).
  { destruct (is_primary (k_def k)) eqn:Hp; [now rewrite (primary_is_key _ Hp)|apply andb_false_r]. }
  rewrite E. destruct (is_primary (k_def k)); cbn [map]; [f_equal|]; apply IH; intros k' Hk'; apply H; now right.
Qed.

(* ---- paths ------------------------------------------------------------------------------- *)
Definition no_slash (s : bytes) : bool := forallb (fun c => negb (c =? 47)) s.

Lemma split_slash_noslash : forall p cur rest,
  no_slash p = true -> split_slash cur (p ++ rest) = split_slash (rev p ++ cur) rest.
Proof.
  induction p as [|c p IH]; intros cur rest H; [reflexivity|].
  cbn [no_slash forallb] in H. apply andb_true_iff in H. destruct H as [Hc Hp].
  apply negb_true_iff in Hc. cbn [app split_slash]. rewrite Hc.
  rewrite (IH (c :: cur) rest Hp). cbn [rev]. now rewrite <- app_assoc.
Qed.

Lemma split_slash_app_slash : forall a cur b,
  split_slash cur (a ++ 47 :: b) = split_slash cur a ++ split_slash [] b.
Proof.
  induction a as [|c a IH]; intros cur b.
  - cbn. reflexivity.
  - cbn [app split_slash]. destruct (c =? 47); [cbn [app]; f_equal|]; apply IH.
Qed.

Lemma split_slash_single : forall p, no_slash p = true -> split_slash [] p = [p].
Proof.
  intros p H. rewrite <- (app_nil_r p) at 1. rewrite split_slash_noslash by assumption.
  cbn. now rewrite app_nil_r, rev_involutive.
Qed.

Lemma split_join : forall parts, parts <> [] -> Forall (fun p => no_slash p = true) parts ->
  split_slash [] (join [47] parts) = parts.
Proof.
  induction parts as [|p l IH]; intros Hne HF; [congruence|].
  inversion HF as [|? ? Hp Hl]; subst. destruct l as [|q l'].
  - cbn [join]. now apply split_slash_single.
  - change (join [47] (p :: q :: l')) with (p ++ 47 :: join [47] (q :: l')).
    rewrite split_slash_app_slash, (split_slash_single p Hp), IH; [reflexivity|discriminate|assumption].
Qed.

Lemma join_app : forall (sep : bytes) a b, a <> [] -> b <> [] ->
  join sep (a ++ b) = join sep a ++ sep ++ join sep b.
Proof.
  intros sep a b Ha Hb. induction a as [|x a IH]; [congruence|].
  destruct a as [|y a'].
  - destruct b as [|z b']; [congruence|]. reflexivity.
  - change (join sep ((x :: y :: a') ++ b)) with (x ++ sep ++ join sep ((y :: a') ++ b)).
    rewrite IH by discriminate. change (join sep (x :: y :: a')) with (x ++ sep ++ join sep (y :: a')).
    now rewrite <- !app_assoc.
Qed.

Lemma split_slash_nonempty : forall s cur, split_slash cur s <> [].
Proof. induction s as [|c s IH]; intros cur; cbn; [discriminate|]. destruct (c =? 47); [discriminate|apply IH]. Qed.

(* the rule path of base/rel is the rule path of base, a slash, the rule path of rel *)
Lemma http_rule_path_app : forall base rel,
  http_rule_path (base ++ [47] ++ rel) = http_rule_path base ++ [47] ++ http_rule_path rel.
Proof.
  intros base rel. unfold http_rule_path. cbn [app]. rewrite split_slash_app_slash, map_app.
  apply join_app; intros H; apply map_eq_nil in H; revert H; apply split_slash_nonempty.
Qed.

(* ---- path.Join on clean operands is plain concatenation ------------------------------------- *)
Definition plain_join (base rel : bytes) : bytes :=
  match rel with [] => base | _ => base ++ [47] ++ rel end.
Definition seg_ok (p : bytes) : bool := negb (is_nil p) && no_slash p.

Lemma segments_app_slash : forall a b, segments (a ++ [47] ++ b) = segments a ++ segments b.
Proof. intros a b. unfold segments. cbn [app]. now rewrite split_slash_app_slash, filter_app. Qed.

Lemma segments_join : forall parts, parts <> [] -> Forall (fun p => seg_ok p = true) parts ->
  segments (join [47] parts) = parts.
Proof.
  intros parts Hne HF. unfold segments. rewrite split_join.
  - induction HF as [|p l Hp _ IH]; [reflexivity|]. cbn [filter].
    unfold seg_ok in Hp. apply andb_true_iff in Hp. destruct Hp as [Hp _]. rewrite Hp.
    f_equal. destruct l as [|q l']; [reflexivity|]. apply IH. discriminate.
  - assumption.
  - eapply Forall_impl; [|exact HF]. intros p Hp. unfold seg_ok in Hp.
    apply andb_true_iff in Hp. exact (proj2 Hp).
Qed.

Lemma join_nonempty : forall parts, parts <> [] -> Forall (fun p => seg_ok p = true) parts ->
  join [47] parts <> [].
Proof.
  intros [|p l] Hne HF; [congruence|]. inversion HF as [|? ? Hp _]; subst.
  unfold seg_ok in Hp. apply andb_true_iff in Hp. destruct Hp as [Hp _].
  destruct p as [|c p]; [discriminate|]. destruct l; cbn; discriminate.
Qed.

Lemma path_join_plain : forall base parts,
  clean_path base = base -> base <> [47] -> Forall (fun p => seg_ok p = true) parts ->
  path_join base (join [47] parts) = plain_join base (join [47] parts).
Proof.
  intros base parts Hc Hr HF. destruct parts as [|p l].
  - cbn [join]. unfold path_join, plain_join. exact Hc.
  - pose proof (join_nonempty (p :: l) ltac:(discriminate) HF) as Hne.
    unfold path_join, plain_join. destruct (join [47] (p :: l)) as [|c r] eqn:Ej; [congruence|].
    rewrite <- Ej. unfold clean_path. rewrite segments_app_slash, (segments_join (p :: l)) by (discriminate || assumption).
    assert (Hs : segments base <> []).
    { intros E. unfold clean_path in Hc. rewrite E in Hc. cbn in Hc. congruence. }
    rewrite join_app by (assumption || discriminate).
    rewrite app_assoc. fold (clean_path base). now rewrite Hc.
Qed.

Lemma key_path_seg_ok : forall ks, Forall (fun u => no_slash (uf_name u) = true) ks ->
  Forall (fun p => seg_ok p = true) (key_path ks).
Proof.
  intros ks H. unfold key_path. apply Forall_map. eapply Forall_impl; [|exact H].
  intros u Hu. unfold seg_ok. cbn [app is_nil negb andb no_slash forallb]. exact Hu.
Qed.

Definition brace (u : ufield) : bytes := [123] ++ to_snake (uf_name u) ++ [125].

Lemma http_rule_path_keys : forall ks tail,
  Forall (fun u => no_slash (uf_name u) = true) ks ->
  Forall (fun p => no_slash p = true) tail -> ks ++ map (fun p => mkU p (KScalar 0 []) false false) tail <> [] ->
  http_rule_path (join [47] (key_path ks ++ tail)) = join [47] (map brace ks ++ map conv_part tail).
Proof.
  intros ks tail Hk Ht Hne. unfold http_rule_path. rewrite split_join.
  - rewrite map_app. f_equal. f_equal. unfold key_path. rewrite map_map. apply map_ext. reflexivity.
  - intros H. apply Hne. apply app_eq_nil in H. destruct H as [H1 H2].
    unfold key_path in H1. apply map_eq_nil in H1. subst. reflexivity.
  - apply Forall_app. split; [|assumption]. unfold key_path. apply Forall_map.
    eapply Forall_impl; [|exact Hk]. intros u Hu. cbn. exact Hu.
Qed.

(* the query service: names, flags and paths of Get / List / Events *)
Definition query_base (e : entity) : bytes := [47] ++ base_url e ++ bs "/q".
Definition query_paths (e : entity) : list bytes :=
  [ http_rule_path (path_join (query_base e) (join [47] (key_path (get_keys e))));
    http_rule_path (path_join (query_base e) (join [47] (key_path (list_keys e))));
    http_rule_path (path_join (query_base e) (join [47] (key_path (get_keys e) ++ [bs "events"]))) ].

Lemma query_base_not_root : forall e, query_base e <> [47].
Proof.
  intros e H. unfold query_base in H. cbn [app] in H. inversion H as [H1].
  apply app_eq_nil in H1. destruct H1 as [_ H1]. discriminate.
Qed.

Theorem query_service_methods : forall e,
  exists s, In (CSvc 1 s) (query_components e)
    /\ sv_name s = query_prefix e ++ bs "QueryService" /\ sv_ann s = SQuery (snake_name e)
    /\ map mt_name (sv_methods s) = [query_prefix e ++ bs "Get"; query_prefix e ++ bs "List"; query_prefix e ++ bs "Events"]
    /\ map mt_sq (sv_methods s) = [1; 2; 3] /\ map mt_verb (sv_methods s) = [1; 1; 1]
    /\ map mt_path (sv_methods s) = query_paths e.
Proof.
  intros e. eexists. split.
  - unfold query_components, service_components. apply in_or_app. right. left. reflexivity.
  - cbn [sv_name sv_ann sv_methods map snd method_components mt_name mt_sq mt_verb mt_path].
    repeat split. rewrite <- app_assoc. reflexivity.
Qed.

(* Get = <base>/{k1}/.../{kn}, Events = <base>/{k1}/.../{kn}/events, the keys being the
   primary and shard keys in declaration order *)
Theorem get_events_paths : forall e,
  clean_path (query_base e) = query_base e ->
  Forall (fun k => no_slash (uf_name (k_def k)) = true) (e_keys e) ->
  nth 0 (query_paths e) [] =
    match get_keys e with
    | [] => http_rule_path (query_base e)
    | ks => http_rule_path (query_base e) ++ [47] ++ join [47] (map brace ks)
    end
  /\ nth 2 (query_paths e) [] =
       http_rule_path (query_base e) ++ [47] ++ join [47] (map brace (get_keys e) ++ [bs "events"]).
Proof.
  intros e Hc Hk. unfold query_paths. cbn [nth].
  assert (Hg : Forall (fun u => no_slash (uf_name u) = true) (get_keys e)).
  { unfold get_keys. apply Forall_map. apply Forall_forall. intros k Hin.
    apply filter_In in Hin. destruct Hin as [Hin _]. rewrite Forall_forall in Hk. now apply Hk. }
  pose proof (query_base_not_root e) as Hr.
  split.
  - rewrite path_join_plain by (assumption || now apply key_path_seg_ok).
    destruct (get_keys e) as [|u ks] eqn:E; [reflexivity|].
    unfold plain_join. destruct (join [47] (key_path (u :: ks))) eqn:Ej.
    + exfalso. cbn [key_path map] in Ej. destruct (map _ ks); cbn in Ej; discriminate.
    + rewrite <- Ej. rewrite http_rule_path_app. f_equal. f_equal.
      pose proof (http_rule_path_keys (u :: ks) [] Hg (Forall_nil _)) as H.
      rewrite !app_nil_r in H. apply H. discriminate.
  - rewrite path_join_plain; [|assumption|assumption|].
    2:{ apply Forall_app. split; [now apply key_path_seg_ok|repeat constructor]. }
    unfold plain_join. destruct (join [47] (key_path (get_keys e) ++ [bs "events"])) eqn:Ej.
    + exfalso. destruct (key_path (get_keys e)) as [|a [|b l]]; cbn in Ej; try discriminate;
        apply app_eq_nil in Ej; destruct Ej; discriminate.
    + rewrite <- Ej. rewrite http_rule_path_app. f_equal. f_equal.
      apply (http_rule_path_keys (get_keys e) [bs "events"] Hg).
      * repeat constructor.
      * intros H. apply app_eq_nil in H. destruct H as [_ H]. discriminate.
Qed.

(* ---- statuses: numbered in declaration order after UNSPECIFIED ---------------------------- *)
Lemma number_from_nth : forall l i p k, (k < length l)%nat ->
  nth_error (number_from i p l) k = Some (status_value_name p (nth k l []), i + N.of_nat k).
Proof.
  induction l as [|s l IH]; intros i p k Hk; [cbn in Hk; lia|].
  destruct k as [|k]; cbn [number_from nth_error nth].
  - f_equal. f_equal. lia.
  - rewrite IH by (cbn in Hk; lia). f_equal. f_equal. lia.
Qed.

Theorem status_numbering : forall p l,
  match l with s :: _ => is_explicit_zero p s = false | [] => True end ->
  status_values p l = (p ++ bs "UNSPECIFIED", 0) :: number_from 1 p l
  /\ forall k, (k < length l)%nat ->
       nth_error (status_values p l) (S k) = Some (status_value_name p (nth k l []), N.of_nat (S k)).
Proof.
  intros p l H.
  assert (E : status_values p l = (p ++ bs "UNSPECIFIED", 0) :: number_from 1 p l).
  { destruct l as [|s r]; [reflexivity|]. unfold status_values. cbn [status_values_n]. now rewrite H. }
  split; [exact E|]. intros k Hk. rewrite E. cbn [nth_error].
  rewrite number_from_nth by assumption. f_equal. f_equal. lia.
Qed.

Lemma number_from_length : forall l i p, length (number_from i p l) = length l.
Proof. induction l as [|s l IH]; intros; cbn; [reflexivity|now rewrite IH]. Qed.

(* ---- what the walker accepts ------------------------------------------------------------- *)
Definition requested_filters (e : entity) : list bytes :=
  match e_query e with Some q => q_default_status q | None => [] end.

Lemma expand_ok_inv : forall e cs, expand e = Ok cs ->
  exists fl, default_filters e (requested_filters e) = Some fl
             /\ nodup_bytes (map s_name (e_summaries e)) = true /\ cs = expand_with e fl.
Proof.
  intros e cs H. unfold expand in H. fold (requested_filters e) in H.
  destruct (default_filters e (requested_filters e)) as [fl|]; [|discriminate].
  destruct (nodup_bytes _) eqn:En; [|discriminate]. inversion H. exists fl. auto.
Qed.

Lemma expand_total : forall e, is_panic (expand e) = false /\ expand e <> OutOfFuel.
Proof.
  intros e. unfold expand. destruct (default_filters e _); [|split; [reflexivity|discriminate]].
  destruct (nodup_bytes _); split; try reflexivity; discriminate.
Qed.

(* default filters name declared statuses, one per requested filter, in order, each by the
   name its enum value carries *)
Lemma default_filters_spec : forall e l fl, default_filters e l = Some fl ->
  Forall (fun f => existsb (bytes_eqb f) (e_status e) = true) l
  /\ fl = map (status_value_name (status_prefix e)) l.
Proof.
  intros e l. induction l as [|f l IH]; intros fl H; cbn [default_filters] in H.
  - inversion H. split; [constructor|reflexivity].
  - unfold find_status in H. destruct (existsb (bytes_eqb f) (e_status e)) eqn:Ef; [|discriminate].
    destruct (default_filters e l) as [t|]; [|discriminate]. inversion H; subst.
    destruct (IH t eq_refl) as [HF ->]. split; [constructor; assumption|reflexivity].
Qed.

Lemma number_from_names : forall l i p, map fst (number_from i p l) = map (status_value_name p) l.
Proof. induction l as [|s l IH]; intros i p; [reflexivity|]. cbn. now rewrite IH. Qed.

(* ... hence every default filter IS the name of a value of the status enum *)
Theorem default_filters_are_enum_values : forall e fl f,
  default_filters e (requested_filters e) = Some fl -> In f fl ->
  In f (map fst (entity_status_values e)).
Proof.
  intros e fl f H Hf. destruct (default_filters_spec e _ fl H) as [HF ->].
  apply in_map_iff in Hf. destruct Hf as [s [<- Hs]].
  rewrite Forall_forall in HF. specialize (HF s Hs).
  apply existsb_exists in HF. destruct HF as [s' [Hin Heq]]. apply bytes_eqb_eq in Heq. subst s'.
  assert (G : In (status_value_name (status_prefix e) s)
                 (map (status_value_name (status_prefix e)) (e_status e))) by (now apply in_map).
  unfold entity_status_values. destruct (e_status e) as [|s0 r] eqn:Es; [destruct Hin|].
  cbn [status_values_n]. destruct (is_explicit_zero (status_prefix e) s0 && (first_status_number e =? 0)).
  - cbn [map fst]. rewrite number_from_names. exact G.
  - cbn [map fst]. right. rewrite number_from_names. exact G.
Qed.

(* ---- State / Event shapes, spelled out ------------------------------------------------------ *)
Definition shape (f : ofield) := (f_json f, f_type f, f_required f, f_flatten f).

Theorem state_event_shapes : forall e fl,
  map shape (m_fields (state_msg e fl)) =
    [ (bs "metadata", TObject (bs "j5.state.v1") (bs "StateMetadata"), true, false);
      (bs "keys", TObject [] (m_name (keys_msg e)), true, true);
      (bs "data", TObject [] (m_name (data_msg e)), true, false);
      (bs "status", TEnum [] (component_name e (bs "Status")), true, false) ]
  /\ map shape (m_fields (event_msg e)) =
    [ (bs "metadata", TObject (bs "j5.state.v1") (bs "EventMetadata"), true, false);
      (bs "keys", TObject [] (m_name (keys_msg e)), true, true);
      (bs "event", TOneof [] (m_name (event_type_msg e)), true, false) ]
  /\ m_psm (keys_msg e) = Some (snake_name e, 1) /\ m_psm (state_msg e fl) = Some (snake_name e, 2)
  /\ m_psm (event_msg e) = Some (snake_name e, 3) /\ m_psm (data_msg e) = Some (snake_name e, 4).
Proof. intros e fl. repeat split. Qed.

(* ---- documented names for UpperCamel entity names --------------------------------------------- *)
Theorem names_upper_camel : forall e,
  upper_word (e_name e) = true ->
  camel_name e = e_name e /\ query_prefix e = e_name e
  /\ (ends_cap (e_name e) = false ->
      to_camel (camel_name e ++ bs "Publish") ++ bs "Topic" = e_name e ++ bs "PublishTopic").
Proof.
  intros e H. unfold camel_name, query_prefix, snake_name.
  rewrite (to_camel_upper_word _ H), (to_camel_to_snake_upper_word _ H). repeat split.
  intros He. rewrite to_camel_app_word; [|now apply upper_word_ident|assumption|reflexivity].
  rewrite (to_camel_upper_word _ H), <- app_assoc. reflexivity.
Qed.

(* ---- the defect repaired by the fix: commit d657973 -------------------------------------------
   Before, acceptState/acceptEventOneof/acceptEvent named their schemas
   ToCamel(entity.Name + suffix); every reference used componentName(suffix). *)
Definition legacy_name (e : entity) (suffix : bytes) : bytes := to_camel (e_name e ++ suffix).

Theorem legacy_naming_agrees_iff : forall e,
  ident (e_name e) = true ->
  (legacy_name e (bs "State") = component_name e (bs "State") <-> ends_cap (e_name e) = false)
  /\ (legacy_name e (bs "EventType") = component_name e (bs "EventType") <-> ends_cap (e_name e) = false)
  /\ (legacy_name e (bs "Event") = component_name e (bs "Event") <-> ends_cap (e_name e) = false).
Proof.
  intros e Hi. unfold legacy_name, component_name.
  change (to_camel (bs "State")) with (bs "State").
  change (to_camel (bs "EventType")) with (bs "EventType").
  change (to_camel (bs "Event")) with (bs "Event").
  repeat split; apply to_camel_app_word_iff; try assumption; reflexivity.
Qed.

Theorem legacy_naming_refuted :
  exists e, ident (e_name e) = true /\ legacy_name e (bs "State") <> component_name e (bs "State").
Proof.
  exists (mkE (bs "foo.v1") (bs "FooS") [] [] [] [] [] [] [] None []). split; [reflexivity|].
  vm_compute. discriminate.
Qed.

(* ---- the client API's StateEntity is consistent with the descriptors -------------------------- *)
Theorem client_view_consistent : forall e fl,
  let c := client_view e in
  ce_name c = snake_name e
  /\ ce_schema c = e_pkg e ++ [46] ++ m_name (state_msg e fl)
  /\ ce_primary_key c = map uf_name (primary_keys e)
  /\ ce_events c = map f_json (m_fields (event_type_msg e))
  /\ length (ce_events c) = length (e_events e)
  /\ map fst (ce_commands c) = map (fun cmd => command_service_name e cmd ++ bs "Service") (e_commands e)
  /\ ce_query c = query_prefix e ++ bs "QueryService"
  /\ map (fun m => http_rule_path (snd m)) (ce_query_methods c) = query_paths e
  /\ map fst (ce_query_methods c) = [query_prefix e ++ bs "Get"; query_prefix e ++ bs "List"; query_prefix e ++ bs "Events"].
Proof.
  intros e fl. cbv zeta. unfold client_view.
  cbn [ce_name ce_schema ce_primary_key ce_events ce_commands ce_query ce_query_methods].
  repeat split.
  - unfold event_type_msg. cbn [m_fields]. now rewrite map_map.
  - now rewrite map_length.
  - now rewrite map_map.
Qed.

(* ---- the generated query methods never miss a path field --------------------------------------- *)
Lemma path_params_app : forall base rel,
  path_params (base ++ [47] ++ rel) = path_params base ++ path_params rel.
Proof.
  intros base rel. unfold path_params. cbn [app]. rewrite split_slash_app_slash. apply flat_map_app.
Qed.

Lemma path_params_eq : forall r, path_params r = flat_map param_of (split_slash [] r).
Proof. reflexivity. Qed.

Lemma params_key_path : forall ks, flat_map param_of (key_path ks) = map uf_name ks.
Proof.
  induction ks as [|u ks IH]; [reflexivity|].
  change (key_path (u :: ks)) with (([58] ++ uf_name u) :: key_path ks).
  cbn [flat_map]. change (param_of ([58] ++ uf_name u)) with [uf_name u].
  cbn [app map]. now rewrite IH.
Qed.

Lemma params_ok_keys : forall base ks tail extra,
  clean_path base = base -> base <> [47] ->
  path_params base = [] ->
  Forall (fun u => no_slash (uf_name u) = true) ks ->
  tail = [] \/ tail = [bs "events"] ->
  params_ok (map uf_name ks ++ extra) (path_join base (join [47] (key_path ks ++ tail))) = true.
Proof.
  intros base ks tail extra Hc Hr Hb Hk Ht.
  assert (Hparts : Forall (fun p => seg_ok p = true) (key_path ks ++ tail)).
  { apply Forall_app. split; [now apply key_path_seg_ok|destruct Ht as [->| ->]; repeat constructor]. }
  rewrite path_join_plain by assumption. unfold params_ok, plain_join.
  destruct (join [47] (key_path ks ++ tail)) as [|c l] eqn:Ej; [now rewrite Hb|].
  rewrite <- Ej. change (base ++ 47 :: join [47] (key_path ks ++ tail))
    with (base ++ [47] ++ join [47] (key_path ks ++ tail)).
  rewrite path_params_app, Hb. cbn [app]. rewrite path_params_eq, split_join.
  - rewrite flat_map_app, params_key_path.
    assert (Et : flat_map param_of tail = []) by (destruct Ht as [->| ->]; reflexivity).
    rewrite Et, app_nil_r. apply forallb_forall. intros p Hp.
    apply existsb_exists. exists p. split; [apply in_or_app; now left|apply bytes_eqb_refl].
  - intros H. rewrite H in Ej. discriminate.
  - apply Forall_app. split.
    + unfold key_path. apply Forall_map. eapply Forall_impl; [|exact Hk]. intros u Hu. exact Hu.
    + destruct Ht as [->| ->]; repeat constructor.
Qed.

Theorem query_params_always_ok : forall e,
  clean_path (query_base e) = query_base e ->
  path_params (query_base e) = [] ->
  Forall (fun k => no_slash (uf_name (k_def k)) = true) (e_keys e) ->
  query_params_ok e = true.
Proof.
  intros e Hc Hb Hk. unfold query_params_ok. fold (query_base e).
  pose proof (query_base_not_root e) as Hr.
  assert (Hg : Forall (fun u => no_slash (uf_name u) = true) (get_keys e)).
  { unfold get_keys. apply Forall_map. apply Forall_forall. intros k Hin.
    apply filter_In in Hin. destruct Hin as [Hin _]. rewrite Forall_forall in Hk. now apply Hk. }
  assert (Hl : Forall (fun u => no_slash (uf_name u) = true) (list_keys e)).
  { unfold list_keys. apply Forall_map. apply Forall_forall. intros k Hin.
    apply filter_In in Hin. destruct Hin as [Hin _]. rewrite Forall_forall in Hk. now apply Hk. }
  pose proof (params_ok_keys (query_base e) (get_keys e) [] [] Hc Hr Hb Hg (or_introl eq_refl)) as H1.
  pose proof (params_ok_keys (query_base e) (list_keys e) [] [bs "page"; bs "query"] Hc Hr Hb Hl (or_introl eq_refl)) as H2.
  pose proof (params_ok_keys (query_base e) (get_keys e) [bs "events"] [bs "page"; bs "query"] Hc Hr Hb Hg (or_intror eq_refl)) as H3.
  rewrite !app_nil_r in H1. rewrite !app_nil_r in H2. rewrite H1, H2, H3. reflexivity.
Qed.

(* ---- several entities in one file ---------------------------------------------------------------- *)
Lemma ref_resolves_mono : forall D D' t,
  incl D D' -> ref_resolves D t = true -> ref_resolves D' t = true.
Proof.
  intros D D' t Hi.
  assert (L : forall (b : bool) n,
            existsb (fun d => Bool.eqb (fst d) b && bytes_eqb (snd d) n) D = true ->
            existsb (fun d => Bool.eqb (fst d) b && bytes_eqb (snd d) n) D' = true).
  { intros b n Hx. apply existsb_exists in Hx. destruct Hx as [d [Hd Hp]].
    apply existsb_exists. exists d. split; [now apply Hi|assumption]. }
  induction t as [pt k|p n|p n|p n|tn k|v IH|n k]; intros H; cbn [ref_resolves] in *;
    [reflexivity| | | |reflexivity|now apply IH|reflexivity]; destruct p; try assumption; now apply L.
Qed.

Lemma tfield_resolves_mono : forall D D', incl D D' ->
  forall t, tfield_resolves D t = true -> tfield_resolves D' t = true.
Proof.
  intros D D' Hi. fix IH 1. intros [n k r o d]. destruct k as [i|i|i|k c fs os]; cbn [tfield_resolves]; intros H.
  - exact (ref_resolves_mono D D' _ Hi H).
  - exact (ref_resolves_mono D D' _ Hi H).
  - exact (ref_resolves_mono D D' _ Hi H).
  - revert fs H. fix IHl 1. intros [|x rest] H; [reflexivity|]. cbn [forallb] in *.
    apply andb_true_iff in H. destruct H as [Hx Hr]. rewrite (IH x Hx). exact (IHl rest Hr).
Qed.

Lemma field_resolves_mono : forall D D' f,
  incl D D' -> field_resolves D f = true -> field_resolves D' f = true.
Proof.
  intros D D' f Hi H. unfold field_resolves in *. apply andb_true_iff in H. destruct H as [H1 H2].
  rewrite (ref_resolves_mono D D' _ Hi H1). cbn [andb]. destruct (f_inline f) as [il|]; [|reflexivity].
  apply forallb_forall. intros s Hs. rewrite forallb_forall in H2. exact (ref_resolves_mono D D' _ Hi (H2 s Hs)).
Qed.

Lemma closed_app : forall a b, closed a = true -> closed b = true -> closed (a ++ b) = true.
Proof.
  intros a b Ha Hb. rewrite closed_unfold in *. rewrite fields_of_app, defined_app, forallb_app.
  apply andb_true_iff. split; apply forallb_forall; intros f Hf.
  - rewrite forallb_forall in Ha. specialize (Ha f Hf). unfold resolves in *.
    eapply field_resolves_mono; [|exact Ha]. apply incl_appl, incl_refl.
  - rewrite forallb_forall in Hb. specialize (Hb f Hf). unfold resolves in *.
    eapply field_resolves_mono; [|exact Hb]. apply incl_appr, incl_refl.
Qed.

Lemma compile_ok_inv : forall e cs, convert e = Ok cs -> expand e = Ok cs /\ closed cs = true.
Proof.
  intros e cs H. unfold convert in H. destruct (expand e) as [c| | |] eqn:E; try discriminate.
  destruct (closed c) eqn:Ec; [|discriminate]. cbn [andb] in H. destruct (trees_ok e (defined c)); [|discriminate]. destruct (fields_ok e); [|discriminate].
  destruct (query_params_ok e && command_params_ok e); [|discriminate].
  destruct (list_settings e); [discriminate|]. inversion H; subst. auto.
Qed.

(* a file of entities compiles to the concatenation of the entities' own expansions ... *)
Theorem compile_all_inv : forall es cs, convert_all es = Ok cs ->
  exists l, Forall2 (fun e c => convert e = Ok c) es l /\ cs = concat l.
Proof.
  induction es as [|e r IH]; intros cs H; cbn [convert_all] in H.
  - inversion H. exists []. split; [constructor|reflexivity].
  - destruct (convert e) as [a| | |] eqn:Ea; try discriminate.
    destruct (convert_all r) as [b| | |] eqn:Eb; try discriminate. inversion H; subst.
    destruct (IH b eq_refl) as [l [HF ->]]. exists (a :: l). split; [constructor; assumption|reflexivity].
Qed.

(* ... which is closed as a whole: an entity's references never depend on its neighbours *)
Theorem compile_all_closed : forall es cs, convert_all es = Ok cs -> closed cs = true.
Proof.
  induction es as [|e r IH]; intros cs H; cbn [convert_all] in H.
  - inversion H. reflexivity.
  - destruct (convert e) as [a| | |] eqn:Ea; try discriminate.
    destruct (convert_all r) as [b| | |] eqn:Eb; try discriminate. inversion H; subst.
    apply closed_app; [exact (proj2 (compile_ok_inv e a Ea))|now apply IH].
Qed.

(* ---- default base paths are literal: no ":name" parts, nothing rewritten ---------------------- *)
Definition no_colon (s : bytes) : bool := forallb (fun c => negb (c =? 58)) s.

Lemma join_cons2 : forall (sep x : bytes) l, l <> [] -> join sep (x :: l) = x ++ sep ++ join sep l.
Proof. intros sep x [|y l] H; [congruence|reflexivity]. Qed.

Lemma join_split : forall s cur, join [47] (split_slash cur s) = rev cur ++ s.
Proof.
  induction s as [|c s IH]; intros cur; cbn [split_slash].
  - cbn. now rewrite app_nil_r.
  - destruct (c =? 47) eqn:Ec.
    + apply N.eqb_eq in Ec. subst c. rewrite join_cons2 by apply split_slash_nonempty.
      rewrite IH. reflexivity.
    + rewrite IH. cbn [rev]. now rewrite <- app_assoc.
Qed.

Lemma split_no_colon : forall s cur, no_colon s = true -> no_colon cur = true ->
  Forall (fun p => no_colon p = true) (split_slash cur s).
Proof.
  induction s as [|c s IH]; intros cur Hs Hc; cbn [split_slash].
  - constructor; [|constructor]. unfold no_colon in *. rewrite forallb_forall in *.
    intros x Hx. apply Hc. now apply in_rev.
  - cbn [no_colon forallb] in Hs. apply andb_true_iff in Hs. destruct Hs as [Hc0 Hs].
    destruct (c =? 47).
    + constructor; [|apply IH; [assumption|reflexivity]].
      unfold no_colon in *. rewrite forallb_forall in *. intros x Hx. apply Hc. now apply in_rev.
    + apply IH; [assumption|]. cbn [no_colon forallb]. now rewrite Hc0.
Qed.

Lemma conv_part_no_colon : forall p, no_colon p = true -> conv_part p = p /\ param_of p = [].
Proof.
  intros [|c p] H; [split; reflexivity|]. cbn [no_colon forallb] in H.
  apply andb_true_iff in H. destruct H as [Hc _]. apply negb_true_iff in Hc.
  unfold conv_part, param_of. rewrite Hc. split; reflexivity.
Qed.

Lemma parts_no_colon : forall l, Forall (fun p => no_colon p = true) l ->
  map conv_part l = l /\ flat_map param_of l = [].
Proof.
  induction l as [|p l IH]; intros HF; [split; reflexivity|].
  inversion HF as [|? ? Hp Hl]; subst. destruct (IH Hl) as [I1 I2].
  destruct (conv_part_no_colon p Hp) as [C1 C2].
  cbn [map flat_map]. rewrite I1, I2, C1, C2. split; reflexivity.
Qed.

Theorem no_colon_path : forall s, no_colon s = true -> http_rule_path s = s /\ path_params s = [].
Proof.
  intros s H. destruct (parts_no_colon _ (split_no_colon s [] H eq_refl)) as [E1 E2].
  split.
  - unfold http_rule_path. rewrite E1. apply join_split.
  - exact E2.
Qed.

Lemma plain_not_colon : forall c, plain c = true -> negb (c =? 58) = true /\ negb (c =? 47) = true.
Proof. intros c. unfold plain, is_cap, is_low, is_num. lia. Qed.

Lemma ident_no_colon_slash : forall s, ident s = true -> no_colon s = true /\ no_slash s = true.
Proof.
  induction s as [|c s IH]; intros H; [split; reflexivity|].
  cbn [ident forallb] in H. apply andb_true_iff in H. destruct H as [Hc Hs].
  destruct (IH Hs) as [I1 I2]. destruct (plain_not_colon c Hc) as [P1 P2].
  cbn [no_colon no_slash forallb]. rewrite P1, P2. split; assumption.
Qed.

(* an entity with an identifier name, a package without ':' and no baseUrlPath override has the
   literal base /<pkg with slashes>/<snake name>/q *)
Theorem default_query_base : forall e,
  e_base_url e = [] -> ident (e_name e) = true -> no_colon (e_pkg e) = true ->
  http_rule_path (query_base e) = query_base e /\ path_params (query_base e) = [].
Proof.
  intros e Hb Hi Hp. apply no_colon_path. unfold query_base, base_url. rewrite Hb.
  unfold no_colon. rewrite !forallb_app. cbn [forallb].
  assert (H1 : forallb (fun c => negb (c =? 58)) (map (fun c => if c =? 46 then 47 else c) (e_pkg e)) = true).
  { unfold no_colon in Hp. rewrite forallb_forall in *. intros x Hx. apply in_map_iff in Hx.
    destruct Hx as [c [<- Hc]]. specialize (Hp c Hc). destruct (c =? 46); [reflexivity|exact Hp]. }
  rewrite H1. pose proof (ident_no_colon_slash _ (to_snake_ident _ Hi)) as [H2 _].
  unfold snake_name. unfold no_colon in H2. rewrite H2. reflexivity.
Qed.

Lemma slash_join : forall l : list bytes, l <> [] ->
  [47] ++ join [47] l = flat_map (fun x => 47 :: x) l.
Proof.
  induction l as [|x l IH]; intros H; [congruence|]. destruct l as [|y l'].
  - cbn. now rewrite app_nil_r.
  - rewrite join_cons2 by discriminate.
    change (flat_map (fun x0 => 47 :: x0) (x :: y :: l'))
      with ((47 :: x) ++ flat_map (fun x0 => 47 :: x0) (y :: l')).
    rewrite <- IH by discriminate. cbn [app]. reflexivity.
Qed.

Lemma flat_map_brace : forall ks,
  flat_map (fun u => 47 :: brace u) ks = flat_map (fun x => 47 :: x) (map brace ks).
Proof. induction ks as [|u ks IH]; [reflexivity|]. cbn [flat_map map]. now rewrite IH. Qed.

(* the documented paths for ordinary declarations (identifier names, no baseUrlPath override):
   Get    = /<pkg>/<snake name>/q/{key}/{key}...
   Events = /<pkg>/<snake name>/q/{key}/{key}.../events
   over the primary and shard keys in declaration order, all of them request fields *)
Theorem default_paths : forall e,
  e_base_url e = [] -> ident (e_name e) = true -> no_colon (e_pkg e) = true ->
  clean_path (query_base e) = query_base e ->
  Forall (fun k => ident (uf_name (k_def k)) = true) (e_keys e) ->
  nth 0 (query_paths e) [] = query_base e ++ flat_map (fun u => 47 :: brace u) (get_keys e)
  /\ nth 2 (query_paths e) [] =
       query_base e ++ flat_map (fun u => 47 :: brace u) (get_keys e) ++ bs "/events"
  /\ query_params_ok e = true.
Proof.
  intros e Hb Hi Hp Hc Hk.
  destruct (default_query_base e Hb Hi Hp) as [B1 B2].
  assert (Hk' : Forall (fun k => no_slash (uf_name (k_def k)) = true) (e_keys e)).
  { eapply Forall_impl; [|exact Hk]. intros k H. exact (proj2 (ident_no_colon_slash _ H)). }
  destruct (get_events_paths e Hc Hk') as [P0 P2]. rewrite P0, P2, B1.
  split; [|split; [|now apply query_params_always_ok]].
  - destruct (get_keys e) as [|u ks]; [now rewrite app_nil_r|].
    rewrite flat_map_brace, <- slash_join by discriminate. reflexivity.
  - f_equal. rewrite slash_join by (destruct (map brace (get_keys e)); discriminate).
    rewrite flat_map_app, flat_map_brace. reflexivity.
Qed.

(* component names are proto identifiers *)
Theorem component_names_alnum : forall e suffix, forallb alnum (component_name e suffix) = true.
Proof.
  intros e suffix. unfold component_name. rewrite forallb_app, !to_camel_alnum. reflexivity.
Qed.

Theorem camel_name_starts_cap : forall e c r,
  e_name e = c :: r -> is_letter c = true -> ident (c :: r) = true ->
  exists c' t, camel_name e = c' :: t /\ is_cap c' = true.
Proof.
  intros e c r He Hc Hi. unfold camel_name. rewrite He. now apply to_camel_starts_cap.
Qed.

(* ---- the generated names never collide with each other ------------------------------------------- *)
Lemma app_suffix_neq : forall (c a b : bytes), a <> b -> c ++ a <> c ++ b.
Proof. intros c a b H E. apply app_inv_head in E. contradiction. Qed.

Theorem generated_names_distinct : forall e,
  NoDup [component_name e (bs "Keys"); component_name e (bs "Data"); component_name e (bs "Status");
         component_name e (bs "State"); component_name e (bs "EventType"); component_name e (bs "Event")]
  /\ NoDup [query_prefix e ++ bs "GetRequest"; query_prefix e ++ bs "GetResponse";
            query_prefix e ++ bs "ListRequest"; query_prefix e ++ bs "ListResponse";
            query_prefix e ++ bs "EventsRequest"; query_prefix e ++ bs "EventsResponse"].
Proof.
  intros e. unfold component_name. split.
  - repeat constructor; cbn [In]; intros H;
      repeat (destruct H as [H|H]; [apply app_inv_head in H; vm_compute in H; discriminate|]); exact H.
  - repeat constructor; cbn [In]; intros H;
      repeat (destruct H as [H|H]; [apply app_inv_head in H; vm_compute in H; discriminate|]); exact H.
Qed.

(* with distinct UpperCamel event names the options of the event oneof are distinct too: the
   correspondence events <-> options is a bijection *)
Theorem event_options_distinct : forall e,
  Forall (fun ev => upper_word (ev_name ev) = true) (e_events e) ->
  NoDup (map ev_name (e_events e)) ->
  NoDup (map f_json (m_fields (event_type_msg e))) /\ NoDup (map fst (m_nested (event_type_msg e))).
Proof.
  intros e HU HN. unfold event_type_msg. cbn [m_fields m_nested]. rewrite !map_map. cbn [f_json fst].
  split; [|exact HN].
  induction (e_events e) as [|ev l IH]; [constructor|].
  inversion HU as [|? ? Hev Hl]; subst. inversion HN as [|? ? Hnin Hnd]; subst.
  cbn [map]. constructor; [|now apply IH].
  intros Hin. apply in_map_iff in Hin. destruct Hin as [ev' [Heq Hin']].
  apply Hnin. rewrite Forall_forall in Hl.
  apply (to_lower_camel_injective_upper_word _ _ (Hl ev' Hin') Hev) in Heq. rewrite <- Heq.
  now apply in_map.
Qed.

(* the List path carries exactly the shard keys *)
Theorem list_path : forall e,
  e_base_url e = [] -> ident (e_name e) = true -> no_colon (e_pkg e) = true ->
  clean_path (query_base e) = query_base e ->
  Forall (fun k => ident (uf_name (k_def k)) = true) (e_keys e) ->
  nth 1 (query_paths e) [] = query_base e ++ flat_map (fun u => 47 :: brace u) (list_keys e)
  /\ list_keys e = map k_def (filter (fun k => is_key_field (k_def k) && k_shard k) (e_keys e)).
Proof.
  intros e Hb Hi Hp Hc Hk. split; [|reflexivity].
  destruct (default_query_base e Hb Hi Hp) as [B1 B2].
  assert (Hl : Forall (fun x => no_slash (uf_name x) = true) (list_keys e)).
  { unfold list_keys. apply Forall_map. apply Forall_forall. intros k Hin.
    apply filter_In in Hin. destruct Hin as [Hin _]. rewrite Forall_forall in Hk.
    exact (proj2 (ident_no_colon_slash _ (Hk k Hin))). }
  unfold query_paths. cbn [nth].
  rewrite path_join_plain by (assumption || apply query_base_not_root || now apply key_path_seg_ok).
  unfold plain_join.
  destruct (list_keys e) as [|u ks] eqn:El.
  { cbn [key_path map join flat_map]. rewrite app_nil_r. exact B1. }
  destruct (join [47] (key_path (u :: ks))) as [|c l] eqn:Ej.
  - exfalso. cbn [key_path map] in Ej. destruct (map _ ks); cbn in Ej; discriminate.
  - rewrite <- Ej.
    change (query_base e ++ 47 :: join [47] (key_path (u :: ks)))
      with (query_base e ++ [47] ++ join [47] (key_path (u :: ks))).
    rewrite http_rule_path_app, B1. f_equal.
    pose proof (http_rule_path_keys (u :: ks) [] Hl (Forall_nil _)) as H.
    rewrite !app_nil_r in H. rewrite H by discriminate.
    rewrite flat_map_brace, <- slash_join by discriminate. reflexivity.
Qed.

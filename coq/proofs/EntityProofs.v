(* EntityProofs.v — lemmas about model/Entity.v for property C17. *)
From Coq Require Import String Ascii List NArith Bool Lia ZifyN ZifyNat ZifyBool.
From J5V.lib Require Import Outcome Strcase.
From J5V.model Require Import Entity.
From J5V.proofs Require Import StrcaseProofs.
Import ListNotations.
Local Open Scope bool_scope.
Local Open Scope N_scope.

(* ---- byte string equality ------------------------------------------------ *)
Lemma bytes_eqb_refl : forall a, bytes_eqb a a = true.
Proof. induction a as [|x a IH]; [reflexivity|]. cbn. now rewrite N.eqb_refl, IH. Qed.

Lemma bytes_eqb_eq : forall a b, bytes_eqb a b = true <-> a = b.
Proof.
  induction a as [|x a IH]; intros [|y b]; cbn; split; intros H; try reflexivity; try discriminate.
  - apply andb_true_iff in H. destruct H as [H1 H2]. apply N.eqb_eq in H1. apply IH in H2. now subst.
  - inversion H; subst. now rewrite N.eqb_refl, bytes_eqb_refl.
Qed.

(* ---- the component skeleton: (kind, file, name), kind 0 message 1 enum 2 service --- *)
Definition skel (c : component) : N * N * bytes :=
  match c with
  | CMsg f m => (0, f, m_name m)
  | CEnum n _ => (1, 0, n)
  | CSvc f s => (2, f, sv_name s)
  end.

Definition method_skel (name : bytes) : list (N * N * bytes) :=
  [(0, 1, name ++ bs "Request"); (0, 1, name ++ bs "Response")].

Definition command_skel (e : entity) (c : command) : list (N * N * bytes) :=
  flat_map (fun m => method_skel (md_name m)) (c_methods c)
  ++ [(2, 1, command_service_name e c ++ bs "Service")].

Definition summary_skel (e : entity) (s : summary) : list (N * N * bytes) :=
  [(0, 2, summary_topic_name e s ++ bs "Message");
   (2, 2, to_camel (summary_topic_name e s) ++ bs "Topic")].

(* the documented expansion: names only *)
Definition spec_skeleton (e : entity) : list (N * N * bytes) :=
  let C := camel_name e in
  let Q := query_prefix e in
  [(0, 0, C ++ bs "Keys"); (0, 0, C ++ bs "Data"); (1, 0, C ++ bs "Status");
   (0, 0, C ++ bs "State"); (0, 0, C ++ bs "EventType"); (0, 0, C ++ bs "Event")]
  ++ method_skel (Q ++ bs "Get") ++ method_skel (Q ++ bs "List") ++ method_skel (Q ++ bs "Events")
  ++ [(2, 1, Q ++ bs "QueryService")]
  ++ flat_map (command_skel e) (e_commands e)
  ++ [(0, 2, C ++ bs "EventMessage"); (2, 2, to_camel (C ++ bs "Publish") ++ bs "Topic")]
  ++ flat_map (summary_skel e) (e_summaries e).

Lemma map_flat_map : forall {A B C} (f : B -> C) (g : A -> list B) l,
  map f (flat_map g l) = flat_map (fun x => map f (g x)) l.
Proof. intros A B C f g l. induction l as [|x l IH]; [reflexivity|]. cbn. now rewrite map_app, IH. Qed.

Lemma flat_map_ext' : forall {A B} (f g : A -> list B) l,
  (forall x, f x = g x) -> flat_map f l = flat_map g l.
Proof. intros A B f g l H. induction l as [|x l IH]; [reflexivity|]. cbn. now rewrite H, IH. Qed.

Lemma command_components_skel : forall e c,
  map skel (command_components e c) = command_skel e c.
Proof.
  intros e c. unfold command_components, service_components, command_skel.
  rewrite map_app, map_flat_map, flat_map_concat_map, map_map, <- flat_map_concat_map.
  cbn [map skel sv_name]. f_equal.
Qed.

Lemma summary_components_skel : forall e s,
  map skel (summary_components e s) = summary_skel e s.
Proof. reflexivity. Qed.

Lemma query_components_skel : forall e,
  map skel (query_components e) =
    method_skel (query_prefix e ++ bs "Get") ++ method_skel (query_prefix e ++ bs "List")
    ++ method_skel (query_prefix e ++ bs "Events") ++ [(2, 1, query_prefix e ++ bs "QueryService")].
Proof.
  intros e. unfold query_components, service_components, method_components, method_skel.
  cbn [flat_map fst snd map app skel m_name sv_name].
  replace ((query_prefix e ++ bs "Query") ++ bs "Service") with (query_prefix e ++ bs "QueryService")
    by (rewrite <- app_assoc; reflexivity).
  reflexivity.
Qed.

Lemma publish_components_skel : forall e,
  map skel (publish_components e) =
    [(0, 2, camel_name e ++ bs "EventMessage");
     (2, 2, to_camel (camel_name e ++ bs "Publish") ++ bs "Topic")].
Proof.
  intros e. unfold publish_components, topic_components. cbn [map skel m_name sv_name].
  replace ((camel_name e ++ bs "Event") ++ bs "Message") with (camel_name e ++ bs "EventMessage")
    by (rewrite <- app_assoc; reflexivity).
  reflexivity.
Qed.

Theorem expand_skeleton : forall e filters,
  map skel (expand_with e filters) = spec_skeleton e.
Proof.
  intros e filters. unfold expand_with, spec_skeleton.
  rewrite !map_app, !map_flat_map.
  rewrite (flat_map_ext' _ _ _ (command_components_skel e)).
  rewrite (flat_map_ext' _ _ _ (summary_components_skel e)).
  rewrite query_components_skel, publish_components_skel.
  rewrite <- !app_assoc. reflexivity.
Qed.

(* ---- closedness: every reference of the expansion resolves ------------------- *)
Definition resolves (D : list (bool * bytes)) (f : ofield) : bool := ref_resolves D (f_type f).

Lemma closed_unfold : forall cs, closed cs = forallb (resolves (defined cs)) (fields_of cs).
Proof. reflexivity. Qed.

Lemma defined_app : forall a b, defined (a ++ b) = defined a ++ defined b.
Proof. intros. apply flat_map_app. Qed.
Lemma fields_of_app : forall a b, fields_of (a ++ b) = fields_of a ++ fields_of b.
Proof. intros. apply flat_map_app. Qed.

Lemma resolves_local : forall D (is_enum : bool) n,
  In (is_enum, n) D ->
  existsb (fun d => Bool.eqb (fst d) is_enum && bytes_eqb (snd d) n) D = true.
Proof.
  intros D b n H. apply existsb_exists. exists (b, n). split; [assumption|].
  cbn. now rewrite eqb_reflx, bytes_eqb_refl.
Qed.

Lemma resolves_object : forall D n j r q fl p t fi,
  In (false, n) D -> resolves D (mkF j (TObject [] n) r q fl p t fi) = true.
Proof. intros. unfold resolves, ref_resolves. cbn [f_type]. now apply resolves_local. Qed.
Lemma resolves_oneof : forall D n j r q fl p t fi,
  In (false, n) D -> resolves D (mkF j (TOneof [] n) r q fl p t fi) = true.
Proof. intros. unfold resolves, ref_resolves. cbn [f_type]. now apply resolves_local. Qed.
Lemma resolves_enum : forall D n j r q fl p t fi,
  In (true, n) D -> resolves D (mkF j (TEnum [] n) r q fl p t fi) = true.
Proof. intros. unfold resolves, ref_resolves. cbn [f_type]. now apply resolves_local. Qed.

Lemma resolves_ufield : forall D u, resolves D (of_ufield u) = true.
Proof. intros D [n [pt k|p t] r]; reflexivity. Qed.
Lemma resolves_ufields : forall D l, forallb (resolves D) (map of_ufield l) = true.
Proof.
  intros D l. induction l as [|u l IH]; [reflexivity|]. cbn [map forallb].
  now rewrite resolves_ufield, IH.
Qed.

Section Closed.
  Variable e : entity.
  Variable D : list (bool * bytes).
  Hypothesis HKeys : In (false, component_name e (bs "Keys")) D.
  Hypothesis HData : In (false, component_name e (bs "Data")) D.
  Hypothesis HStatus : In (true, component_name e (bs "Status")) D.
  Hypothesis HState : In (false, component_name e (bs "State")) D.
  Hypothesis HEventType : In (false, component_name e (bs "EventType")) D.
  Hypothesis HEvent : In (false, component_name e (bs "Event")) D.
  Hypothesis HNested : forall ev, In ev (e_events e) ->
    In (false, event_type_name e ++ [46] ++ ev_name ev) D.

  Let ok := forallb (resolves D).

  Lemma ok_keys : ok (fields_of [CMsg 0 (keys_msg e)]) = true.
  Proof.
    unfold ok. cbn [fields_of flat_map keys_msg m_fields m_nested app]. rewrite !app_nil_r.
    rewrite <- (map_map k_def of_ufield). apply resolves_ufields.
  Qed.
  Lemma ok_data : ok (fields_of [CMsg 0 (data_msg e)]) = true.
  Proof.
    unfold ok. cbn [fields_of flat_map data_msg m_fields m_nested app]. rewrite !app_nil_r.
    apply resolves_ufields.
  Qed.
  Lemma ok_state : forall fl, ok (fields_of [CMsg 0 (state_msg e fl)]) = true.
  Proof.
    intros fl. unfold ok. cbn [fields_of flat_map state_msg m_fields m_nested app forallb].
    unfold plain_field, local_obj.
    rewrite (resolves_object D _ _ _ _ _ _ _ _ HKeys), (resolves_object D _ _ _ _ _ _ _ _ HData),
            (resolves_enum D _ _ _ _ _ _ _ _ HStatus).
    reflexivity.
  Qed.
  Lemma ok_event : ok (fields_of [CMsg 0 (event_msg e)]) = true.
  Proof.
    unfold ok. cbn [fields_of flat_map event_msg m_fields m_nested app forallb].
    unfold plain_field, local_obj.
    rewrite (resolves_object D _ _ _ _ _ _ _ _ HKeys), (resolves_oneof D _ _ _ _ _ _ _ _ HEventType).
    reflexivity.
  Qed.
  Lemma ok_event_type : ok (fields_of [CMsg 0 (event_type_msg e)]) = true.
  Proof.
    unfold ok. cbn [fields_of flat_map event_type_msg m_fields m_nested app]. rewrite app_nil_r.
    rewrite forallb_app. apply andb_true_iff. split.
    - apply forallb_forall. intros f Hf. apply in_map_iff in Hf. destruct Hf as [ev [<- Hev]].
      apply resolves_object. now apply HNested.
    - apply forallb_forall. intros f Hf. apply in_flat_map in Hf. destruct Hf as [n [Hn Hf]].
      apply in_map_iff in Hn. destruct Hn as [ev [<- Hev]]. cbn [snd] in Hf.
      apply in_map_iff in Hf. destruct Hf as [u [<- _]]. apply resolves_ufield.
  Qed.

  Lemma ok_query : ok (fields_of (query_components e)) = true.
  Proof.
    unfold ok, query_components, service_components, method_components.
    cbn [flat_map fst snd map app fields_of m_fields m_nested]. rewrite !app_nil_r.
    unfold page_request, query_request, page_response, plain_field, array_field, local_obj.
    destruct (match e_query e with Some q => q_events_in_get q | None => false end);
      repeat (progress (rewrite ?forallb_app; cbn [forallb app]));
      rewrite !resolves_ufields;
      rewrite !(resolves_object D _ _ _ _ _ _ _ _ HState);
      rewrite !(resolves_object D _ _ _ _ _ _ _ _ HEvent); reflexivity.
  Qed.

  Lemma ok_command : forall c, ok (fields_of (command_components e c)) = true.
  Proof.
    intros c. unfold ok, command_components, service_components.
    rewrite fields_of_app. cbn [fields_of flat_map app]. rewrite app_nil_r.
    apply forallb_forall. intros f Hf. unfold fields_of in Hf.
    apply in_flat_map in Hf. destruct Hf as [comp [Hc Hf]].
    apply in_flat_map in Hc. destruct Hc as [m [Hm Hc]].
    apply in_map_iff in Hm. destruct Hm as [md [<- _]].
    unfold method_components in Hc. cbn [fst In] in Hc.
    destruct Hc as [<-|[<-|[]]]; cbn [m_fields m_nested flat_map app] in Hf;
      rewrite app_nil_r in Hf; apply in_map_iff in Hf; destruct Hf as [u [<- _]]; apply resolves_ufield.
  Qed.

  Lemma ok_publish : ok (fields_of (publish_components e)) = true.
  Proof.
    unfold ok, publish_components, topic_components.
    cbn [fields_of flat_map m_fields m_nested app forallb]. unfold plain_field, local_obj.
    rewrite (resolves_object D _ _ _ _ _ _ _ _ HKeys), (resolves_object D _ _ _ _ _ _ _ _ HData),
            (resolves_enum D _ _ _ _ _ _ _ _ HStatus), (resolves_oneof D _ _ _ _ _ _ _ _ HEventType).
    reflexivity.
  Qed.

  Lemma ok_summary : forall s, ok (fields_of (summary_components e s)) = true.
  Proof.
    intros s. unfold ok, summary_components, topic_components.
    cbn [fields_of flat_map m_fields m_nested app forallb]. rewrite !app_nil_r.
    rewrite resolves_ufields. reflexivity.
  Qed.

  Lemma ok_flat_map : forall {A} (g : A -> list component) l,
    (forall x, ok (fields_of (g x)) = true) -> ok (fields_of (flat_map g l)) = true.
  Proof.
    intros A g l H. induction l as [|x l IH]; [reflexivity|].
    cbn [flat_map]. rewrite fields_of_app. unfold ok in *. rewrite forallb_app, H, IH. reflexivity.
  Qed.

  Lemma ok_expand : forall fl, ok (fields_of (expand_with e fl)) = true.
  Proof.
    intros fl. unfold expand_with.
    change [CMsg 0 (keys_msg e); CMsg 0 (data_msg e); status_enum e; CMsg 0 (state_msg e fl);
            CMsg 0 (event_type_msg e); CMsg 0 (event_msg e)]
      with ([CMsg 0 (keys_msg e)] ++ [CMsg 0 (data_msg e)] ++ [status_enum e] ++ [CMsg 0 (state_msg e fl)]
            ++ [CMsg 0 (event_type_msg e)] ++ [CMsg 0 (event_msg e)]).
    rewrite !fields_of_app. unfold ok. rewrite !forallb_app. fold ok.
    rewrite ok_keys, ok_data, ok_state, ok_event_type, ok_event, ok_query, ok_publish.
    rewrite (ok_flat_map _ _ ok_command), (ok_flat_map _ _ ok_summary).
    reflexivity.
  Qed.
End Closed.

Lemma in_defined_head : forall e fl x,
  In x (defined [CMsg 0 (keys_msg e); CMsg 0 (data_msg e); status_enum e; CMsg 0 (state_msg e fl);
                 CMsg 0 (event_type_msg e); CMsg 0 (event_msg e)]) ->
  In x (defined (expand_with e fl)).
Proof. intros e fl x H. unfold expand_with. rewrite defined_app. apply in_or_app. now left. Qed.

Theorem expand_closed : forall e fl, closed (expand_with e fl) = true.
Proof.
  intros e fl. rewrite closed_unfold. apply ok_expand.
  - apply in_defined_head. cbn. auto.
  - apply in_defined_head. cbn. auto.
  - apply in_defined_head. cbn. auto 10.
  - apply in_defined_head. cbn. auto 10.
  - apply in_defined_head. cbn [defined flat_map keys_msg data_msg status_enum state_msg m_name m_nested map app].
    right. right. right. right. left. reflexivity.
  - apply in_defined_head. cbn [defined flat_map keys_msg data_msg status_enum state_msg event_type_msg event_msg m_name m_nested map app].
    right. right. right. right. right. apply in_or_app. right. left. reflexivity.
  - intros ev Hev. apply in_defined_head.
    cbn [defined flat_map keys_msg data_msg status_enum state_msg event_type_msg m_name m_nested map app].
    right. right. right. right. right. apply in_or_app. left.
    rewrite map_map. apply in_map_iff. exists ev. split; [reflexivity|assumption].
Qed.

(* the compiler accepts exactly what entityNode.run accepts: closedness never fails *)
Theorem compile_expand : forall e, compile e = expand e.
Proof.
  intros e. unfold compile, expand.
  destruct (default_filters e _) as [fl|]; [|reflexivity].
  destruct (nodup_bytes _); [|reflexivity]. now rewrite expand_closed.
Qed.

(* ---- the main file holds exactly Keys, Data, State, EventType, Event -------------- *)
Definition msgs_of_file (file : N) (cs : list component) : list omsg :=
  flat_map (fun c => match c with CMsg f m => if f =? file then [m] else [] | _ => [] end) cs.

Lemma msgs_of_file_app : forall f a b, msgs_of_file f (a ++ b) = msgs_of_file f a ++ msgs_of_file f b.
Proof. intros. apply flat_map_app. Qed.

Lemma msgs0_flat_map_nil : forall {A} (g : A -> list component) l,
  (forall x, msgs_of_file 0 (g x) = []) -> msgs_of_file 0 (flat_map g l) = [].
Proof.
  intros A g l H. induction l as [|x l IH]; [reflexivity|].
  cbn [flat_map]. now rewrite msgs_of_file_app, H, IH.
Qed.

Lemma msgs0_service : forall name ann ms,
  (forall m, In m ms -> msgs_of_file 0 (fst m) = []) ->
  msgs_of_file 0 (service_components name ann ms) = [].
Proof.
  intros name ann ms H. unfold service_components. rewrite msgs_of_file_app.
  cbn [msgs_of_file flat_map app]. rewrite app_nil_r.
  induction ms as [|m ms IH]; [reflexivity|]. cbn [flat_map]. rewrite msgs_of_file_app.
  fold (msgs_of_file 0 (flat_map fst ms)). rewrite (H m (or_introl eq_refl)), IH; [reflexivity|].
  intros m' Hm'. apply H. now right.
Qed.

Theorem main_file_messages : forall e fl,
  msgs_of_file 0 (expand_with e fl) =
    [keys_msg e; data_msg e; state_msg e fl; event_type_msg e; event_msg e].
Proof.
  intros e fl. unfold expand_with. rewrite !msgs_of_file_app.
  assert (Hq : msgs_of_file 0 (query_components e) = []).
  { unfold query_components. apply msgs0_service. intros m [<-|[<-|[<-|[]]]]; reflexivity. }
  assert (Hc : msgs_of_file 0 (flat_map (command_components e) (e_commands e)) = []).
  { apply msgs0_flat_map_nil. intros c. unfold command_components. apply msgs0_service.
    intros m Hm. apply in_map_iff in Hm. destruct Hm as [md [<- _]]. reflexivity. }
  assert (Hs : msgs_of_file 0 (flat_map (summary_components e) (e_summaries e)) = []).
  { apply msgs0_flat_map_nil. intros s. reflexivity. }
  rewrite Hq, Hc, Hs. reflexivity.
Qed.

(* ---- the same entity annotation on every part ------------------------------------ *)
Definition psm_entities (cs : list component) : list bytes :=
  flat_map (fun c => match c with
    | CMsg _ m => match m_psm m with Some (en, _) => [en] | None => [] end
    | _ => [] end) cs.
Definition service_entities (cs : list component) : list bytes :=
  flat_map (fun c => match c with
    | CSvc _ s => match sv_ann s with SQuery en => [en] | SCommand en => [en] | STopic _ _ _ => [] end
    | _ => [] end) cs.
Definition topic_entities (cs : list component) : list bytes :=
  flat_map (fun c => match c with
    | CSvc _ s => match sv_ann s with STopic _ _ en => [en] | _ => [] end
    | _ => [] end) cs.

Lemma Forall_flat_map : forall {A B} (P : B -> Prop) (g : A -> list B) l,
  (forall x, In x l -> Forall P (g x)) -> Forall P (flat_map g l).
Proof.
  intros A B P g l H. induction l as [|x l IH]; [constructor|].
  cbn [flat_map]. apply Forall_app. split; [apply H; now left|apply IH; intros y Hy; apply H; now right].
Qed.

Lemma ann_service : forall (sel : list component -> list bytes) P name ann ms,
  sel [] = [] ->
  (forall a b, sel (a ++ b) = sel a ++ sel b) ->
  (forall m, In m ms -> Forall P (sel (fst m))) ->
  Forall P (sel [CSvc 1 (mkSvc (name ++ bs "Service") ann (map snd ms))]) ->
  Forall P (sel (service_components name ann ms)).
Proof.
  intros sel P name ann ms Hnil Happ Hm Hs. unfold service_components. rewrite Happ.
  apply Forall_app. split; [|exact Hs]. clear Hs.
  induction ms as [|m ms IH]; cbn [flat_map].
  - rewrite Hnil. constructor.
  - rewrite Happ. apply Forall_app. split; [apply Hm; now left|apply IH; intros m' H'; apply Hm; now right].
Qed.

Lemma sel_flat_map : forall {A} (sel : list component -> list bytes) P (g : A -> list component) l,
  sel [] = [] -> (forall a b, sel (a ++ b) = sel a ++ sel b) ->
  (forall x, Forall P (sel (g x))) -> Forall P (sel (flat_map g l)).
Proof.
  intros A sel P g l Hnil Happ H. induction l as [|x l IH]; cbn [flat_map].
  - rewrite Hnil. constructor.
  - rewrite Happ. apply Forall_app. split; [apply H|exact IH].
Qed.

Lemma sel_expand : forall (sel : list component -> list bytes) P e fl,
  sel [] = [] -> (forall a b, sel (a ++ b) = sel a ++ sel b) ->
  Forall P (sel [CMsg 0 (keys_msg e); CMsg 0 (data_msg e); status_enum e; CMsg 0 (state_msg e fl);
                 CMsg 0 (event_type_msg e); CMsg 0 (event_msg e)]) ->
  Forall P (sel (query_components e)) ->
  (forall c, Forall P (sel (command_components e c))) ->
  Forall P (sel (publish_components e)) ->
  (forall s, Forall P (sel (summary_components e s))) ->
  Forall P (sel (expand_with e fl)).
Proof.
  intros sel P e fl Hnil Happ H1 H2 H3 H4 H5. unfold expand_with. rewrite !Happ.
  apply Forall_app; split; [exact H1|]. apply Forall_app; split; [exact H2|].
  apply Forall_app; split; [now apply sel_flat_map|]. apply Forall_app; split; [exact H4|].
  now apply sel_flat_map.
Qed.

Theorem same_annotation : forall e fl,
  Forall (eq (snake_name e)) (psm_entities (expand_with e fl))
  /\ Forall (eq (snake_name e)) (service_entities (expand_with e fl))
  /\ Forall (eq (full_name e)) (topic_entities (expand_with e fl)).
Proof.
  intros e fl.
  assert (Ap : forall a b, psm_entities (a ++ b) = psm_entities a ++ psm_entities b) by (intros; apply flat_map_app).
  assert (As : forall a b, service_entities (a ++ b) = service_entities a ++ service_entities b) by (intros; apply flat_map_app).
  assert (At : forall a b, topic_entities (a ++ b) = topic_entities a ++ topic_entities b) by (intros; apply flat_map_app).
  split; [|split].
  - apply sel_expand; [reflexivity|exact Ap|cbn; repeat constructor| | |cbn; constructor|intros s; cbn; constructor].
    + unfold query_components. apply ann_service; [reflexivity|exact Ap| |cbn; constructor].
      intros m [<-|[<-|[<-|[]]]]; cbn; constructor.
    + intros c. unfold command_components. apply ann_service; [reflexivity|exact Ap| |cbn; constructor].
      intros m Hm. apply in_map_iff in Hm. destruct Hm as [md [<- _]]. cbn. constructor.
  - apply sel_expand; [reflexivity|exact As|cbn; constructor| | |cbn; constructor|intros s; cbn; constructor].
    + unfold query_components. apply ann_service; [reflexivity|exact As| |cbn; repeat constructor].
      intros m [<-|[<-|[<-|[]]]]; cbn; constructor.
    + intros c. unfold command_components. apply ann_service; [reflexivity|exact As| |cbn; repeat constructor].
      intros m Hm. apply in_map_iff in Hm. destruct Hm as [md [<- _]]. cbn. constructor.
  - apply sel_expand; [reflexivity|exact At|cbn; constructor| | |cbn; repeat constructor|intros s; cbn; repeat constructor].
    + unfold query_components. apply ann_service; [reflexivity|exact At| |cbn; constructor].
      intros m [<-|[<-|[<-|[]]]]; cbn; constructor.
    + intros c. unfold command_components. apply ann_service; [reflexivity|exact At| |cbn; constructor].
      intros m Hm. apply in_map_iff in Hm. destruct Hm as [md [<- _]]. cbn. constructor.
Qed.

(* ---- the event oneof <-> the declared events --------------------------------------- *)
Theorem event_oneof_bijection : forall e,
  let m := event_type_msg e in
  m_oneof m = true
  /\ map fst (m_nested m) = map ev_name (e_events e)
  /\ map f_json (m_fields m) = map (fun ev => to_lower_camel (ev_name ev)) (e_events e)
  /\ Forall2 (fun f n => f_type f = TObject [] (m_name m ++ [46] ++ fst n)) (m_fields m) (m_nested m)
  /\ map snd (m_nested m) = map (fun ev => map of_ufield (ev_fields ev)) (e_events e).
Proof.
  intros e. cbv zeta. unfold event_type_msg. cbn [m_oneof m_nested m_fields m_name].
  repeat split.
  - now rewrite map_map.
  - now rewrite map_map.
  - induction (e_events e) as [|ev l IH]; cbn [map]; constructor; [reflexivity|exact IH].
  - now rewrite map_map.
Qed.

(* ---- keys: declaration order, primary keys required ------------------------------------ *)
Theorem keys_in_declaration_order : forall e,
  map f_json (m_fields (keys_msg e)) = map (fun k => uf_name (k_def k)) (e_keys e).
Proof.
  intros e. unfold keys_msg. cbn [m_fields]. rewrite map_map. apply map_ext.
  intros [[n [pt k|p t] r] s]; reflexivity.
Qed.

Theorem primary_keys_required : forall e f,
  In f (m_fields (keys_msg e)) -> f_primary f = true -> f_required f = true.
Proof.
  intros e f Hf Hp. unfold keys_msg in Hf. cbn [m_fields] in Hf.
  apply in_map_iff in Hf. destruct Hf as [[[n [pt k|p t] r] s] [<- _]]; cbn in *; [discriminate|].
  subst p. apply orb_true_r.
Qed.

Definition primary_keys (e : entity) : list ufield := filter is_primary (map k_def (e_keys e)).

Lemma primary_is_key : forall u, is_primary u = true -> is_key_field u = true.
Proof. intros [n [pt k|p t] r] H; [discriminate|reflexivity]. Qed.

(* the primary keys are, in declaration order, among the Get/Events path keys ... *)
Theorem get_keys_primary : forall e, filter is_primary (get_keys e) = primary_keys e.
Proof.
  intros e. unfold get_keys, primary_keys.
  induction (e_keys e) as [|k l IH]; [reflexivity|]. cbn [filter map].
  destruct (is_primary (k_def k)) eqn:Hp.
  - rewrite (primary_is_key _ Hp). cbn [andb orb map filter]. rewrite Hp. now f_equal.
  - destruct (is_key_field (k_def k) && (false || k_shard k)); cbn [map filter]; [rewrite Hp|]; exact IH.
Qed.

(* ... and without shard keys they are exactly the path keys *)
Theorem get_keys_no_shard : forall e,
  (forall k, In k (e_keys e) -> k_shard k = false) -> get_keys e = primary_keys e.
Proof.
  intros e H. unfold get_keys, primary_keys.
  induction (e_keys e) as [|k l IH]; [reflexivity|]. cbn [filter map].
  rewrite (H k (or_introl eq_refl)), orb_false_r.
  assert (E : is_key_field (k_def k) && is_primary (k_def k) = is_primary (k_def k)).
  { destruct (is_primary (k_def k)) eqn:Hp; [now rewrite (primary_is_key _ Hp)|apply andb_false_r]. }
  rewrite E. destruct (is_primary (k_def k)); cbn [map]; [f_equal|]; apply IH; intros k' Hk'; apply H; now right.
Qed.

(* ---- paths ------------------------------------------------------------------------------- *)
Definition no_slash (s : bytes) : bool := forallb (fun c => negb (c =? 47)) s.

Lemma split_slash_noslash : forall p cur rest,
  no_slash p = true -> split_slash cur (p ++ rest) = split_slash (rev p ++ cur) rest.
Proof.
  induction p as [|c p IH]; intros cur rest H; [reflexivity|].
  cbn [no_slash forallb] in H. apply andb_true_iff in H. destruct H as [Hc Hp].
  apply negb_true_iff in Hc. cbn [app split_slash]. rewrite Hc.
  rewrite (IH (c :: cur) rest Hp). cbn [rev]. now rewrite <- app_assoc.
Qed.

Lemma split_slash_app_slash : forall a cur b,
  split_slash cur (a ++ 47 :: b) = split_slash cur a ++ split_slash [] b.
Proof.
  induction a as [|c a IH]; intros cur b.
  - cbn. reflexivity.
  - cbn [app split_slash]. destruct (c =? 47); [cbn [app]; f_equal|]; apply IH.
Qed.

Lemma split_slash_single : forall p, no_slash p = true -> split_slash [] p = [p].
Proof.
  intros p H. rewrite <- (app_nil_r p) at 1. rewrite split_slash_noslash by assumption.
  cbn. now rewrite app_nil_r, rev_involutive.
Qed.

Lemma split_join : forall parts, parts <> [] -> Forall (fun p => no_slash p = true) parts ->
  split_slash [] (join [47] parts) = parts.
Proof.
  induction parts as [|p l IH]; intros Hne HF; [congruence|].
  inversion HF as [|? ? Hp Hl]; subst. destruct l as [|q l'].
  - cbn [join]. now apply split_slash_single.
  - change (join [47] (p :: q :: l')) with (p ++ 47 :: join [47] (q :: l')).
    rewrite split_slash_app_slash, (split_slash_single p Hp), IH; [reflexivity|discriminate|assumption].
Qed.

Lemma join_app : forall (sep : bytes) a b, a <> [] -> b <> [] ->
  join sep (a ++ b) = join sep a ++ sep ++ join sep b.
Proof.
  intros sep a b Ha Hb. induction a as [|x a IH]; [congruence|].
  destruct a as [|y a'].
  - destruct b as [|z b']; [congruence|]. reflexivity.
  - change (join sep ((x :: y :: a') ++ b)) with (x ++ sep ++ join sep ((y :: a') ++ b)).
    rewrite IH by discriminate. change (join sep (x :: y :: a')) with (x ++ sep ++ join sep (y :: a')).
    now rewrite <- !app_assoc.
Qed.

Lemma split_slash_nonempty : forall s cur, split_slash cur s <> [].
Proof. induction s as [|c s IH]; intros cur; cbn; [discriminate|]. destruct (c =? 47); [discriminate|apply IH]. Qed.

(* the rule path of base/rel is the rule path of base, a slash, the rule path of rel *)
Lemma http_rule_path_app : forall base rel,
  http_rule_path (base ++ [47] ++ rel) = http_rule_path base ++ [47] ++ http_rule_path rel.
Proof.
  intros base rel. unfold http_rule_path. cbn [app]. rewrite split_slash_app_slash, map_app.
  apply join_app; intros H; apply map_eq_nil in H; revert H; apply split_slash_nonempty.
Qed.

Definition brace (u : ufield) : bytes := [123] ++ to_snake (uf_name u) ++ [125].

Lemma http_rule_path_keys : forall ks tail,
  Forall (fun u => no_slash (uf_name u) = true) ks ->
  Forall (fun p => no_slash p = true) tail -> ks ++ map (fun p => mkU p (KScalar 0 []) false) tail <> [] ->
  http_rule_path (join [47] (key_path ks ++ tail)) = join [47] (map brace ks ++ map conv_part tail).
Proof.
  intros ks tail Hk Ht Hne. unfold http_rule_path. rewrite split_join.
  - rewrite map_app. f_equal. f_equal. unfold key_path. rewrite map_map. apply map_ext. reflexivity.
  - intros H. apply Hne. apply app_eq_nil in H. destruct H as [H1 H2].
    unfold key_path in H1. apply map_eq_nil in H1. subst. reflexivity.
  - apply Forall_app. split; [|assumption]. unfold key_path. apply Forall_map.
    eapply Forall_impl; [|exact Hk]. intros u Hu. cbn. exact Hu.
Qed.

(* the query service: names, flags and paths of Get / List / Events *)
Definition query_base (e : entity) : bytes := [47] ++ base_url e ++ bs "/q".
Definition query_paths (e : entity) : list bytes :=
  [ http_rule_path (path_join (query_base e) (join [47] (key_path (get_keys e))));
    http_rule_path (path_join (query_base e) (join [47] (key_path (list_keys e))));
    http_rule_path (path_join (query_base e) (join [47] (key_path (get_keys e) ++ [bs "events"]))) ].

Theorem query_service_methods : forall e,
  exists s, In (CSvc 1 s) (query_components e)
    /\ sv_name s = query_prefix e ++ bs "QueryService" /\ sv_ann s = SQuery (snake_name e)
    /\ map mt_name (sv_methods s) = [query_prefix e ++ bs "Get"; query_prefix e ++ bs "List"; query_prefix e ++ bs "Events"]
    /\ map mt_sq (sv_methods s) = [1; 2; 3] /\ map mt_verb (sv_methods s) = [1; 1; 1]
    /\ map mt_path (sv_methods s) = query_paths e.
Proof.
  intros e. eexists. split.
  - unfold query_components, service_components. apply in_or_app. right. left. reflexivity.
  - cbn [sv_name sv_ann sv_methods map snd method_components mt_name mt_sq mt_verb mt_path].
    repeat split. rewrite <- app_assoc. reflexivity.
Qed.

(* Get = <base>/{k1}/.../{kn}, Events = <base>/{k1}/.../{kn}/events, the keys being the
   primary and shard keys in declaration order *)
Theorem get_events_paths : forall e,
  Forall (fun k => no_slash (uf_name (k_def k)) = true) (e_keys e) ->
  nth 0 (query_paths e) [] =
    match get_keys e with
    | [] => http_rule_path (query_base e)
    | ks => http_rule_path (query_base e) ++ [47] ++ join [47] (map brace ks)
    end
  /\ nth 2 (query_paths e) [] =
       http_rule_path (query_base e) ++ [47] ++ join [47] (map brace (get_keys e) ++ [bs "events"]).
Proof.
  intros e Hk. unfold query_paths. cbn [nth].
  assert (Hg : Forall (fun u => no_slash (uf_name u) = true) (get_keys e)).
  { unfold get_keys. apply Forall_map. apply Forall_forall. intros k Hin.
    apply filter_In in Hin. destruct Hin as [Hin _]. rewrite Forall_forall in Hk. now apply Hk. }
  split.
  - destruct (get_keys e) as [|u ks] eqn:E; [reflexivity|].
    unfold path_join. destruct (join [47] (key_path (u :: ks))) eqn:Ej.
    + exfalso. cbn [key_path map] in Ej. destruct (map _ ks); cbn in Ej; discriminate.
    + rewrite <- Ej. rewrite http_rule_path_app. f_equal. f_equal.
      pose proof (http_rule_path_keys (u :: ks) [] Hg (Forall_nil _)) as H.
      rewrite !app_nil_r in H. apply H. discriminate.
  - unfold path_join. destruct (join [47] (key_path (get_keys e) ++ [bs "events"])) eqn:Ej.
    + exfalso. destruct (key_path (get_keys e)) as [|a [|b l]]; cbn in Ej; try discriminate;
        apply app_eq_nil in Ej; destruct Ej; discriminate.
    + rewrite <- Ej. rewrite http_rule_path_app. f_equal. f_equal.
      apply (http_rule_path_keys (get_keys e) [bs "events"] Hg).
      * repeat constructor.
      * intros H. apply app_eq_nil in H. destruct H as [_ H]. discriminate.
Qed.

(* ---- statuses: numbered in declaration order after UNSPECIFIED ---------------------------- *)
Lemma number_from_nth : forall l i p k, (k < length l)%nat ->
  nth_error (number_from i p l) k = Some (status_value_name p (nth k l []), i + N.of_nat k).
Proof.
  induction l as [|s l IH]; intros i p k Hk; [cbn in Hk; lia|].
  destruct k as [|k]; cbn [number_from nth_error nth].
  - f_equal. f_equal. lia.
  - rewrite IH by (cbn in Hk; lia). f_equal. f_equal. lia.
Qed.

Theorem status_numbering : forall p l,
  match l with s :: _ => has_suffix (bs "UNSPECIFIED") s = false | [] => True end ->
  status_values p l = (p ++ bs "UNSPECIFIED", 0) :: number_from 1 p l
  /\ forall k, (k < length l)%nat ->
       nth_error (status_values p l) (S k) = Some (status_value_name p (nth k l []), N.of_nat (S k)).
Proof.
  intros p l H.
  assert (E : status_values p l = (p ++ bs "UNSPECIFIED", 0) :: number_from 1 p l).
  { destruct l as [|s r]; [reflexivity|]. cbn [status_values]. now rewrite H. }
  split; [exact E|]. intros k Hk. rewrite E. cbn [nth_error].
  rewrite number_from_nth by assumption. f_equal. f_equal. lia.
Qed.

Lemma number_from_length : forall l i p, length (number_from i p l) = length l.
Proof. induction l as [|s l IH]; intros; cbn; [reflexivity|now rewrite IH]. Qed.

(* ---- what the walker accepts ------------------------------------------------------------- *)
Definition requested_filters (e : entity) : list bytes :=
  match e_query e with Some q => q_default_status q | None => [] end.

Lemma expand_ok_inv : forall e cs, expand e = Ok cs ->
  exists fl, default_filters e (requested_filters e) = Some fl
             /\ nodup_bytes (map s_name (e_summaries e)) = true /\ cs = expand_with e fl.
Proof.
  intros e cs H. unfold expand in H. fold (requested_filters e) in H.
  destruct (default_filters e (requested_filters e)) as [fl|]; [|discriminate].
  destruct (nodup_bytes _) eqn:En; [|discriminate]. inversion H. exists fl. auto.
Qed.

Lemma expand_total : forall e, is_panic (expand e) = false /\ expand e <> OutOfFuel.
Proof.
  intros e. unfold expand. destruct (default_filters e _); [|split; [reflexivity|discriminate]].
  destruct (nodup_bytes _); split; try reflexivity; discriminate.
Qed.

(* default filters name declared statuses, one per requested filter, in order *)
Lemma default_filters_spec : forall e l fl, default_filters e l = Some fl ->
  Forall (fun f => existsb (bytes_eqb f) (e_status e) = true) l
  /\ fl = map (fun f => to_screaming_snake (e_name e) ++ bs "_STATUS_" ++ to_screaming_snake f) l.
Proof.
  intros e l. induction l as [|f l IH]; intros fl H; cbn [default_filters] in H.
  - inversion H. split; [constructor|reflexivity].
  - unfold find_status in H. destruct (existsb (bytes_eqb f) (e_status e)) eqn:Ef; [|discriminate].
    destruct (default_filters e l) as [t|]; [|discriminate]. inversion H; subst.
    destruct (IH t eq_refl) as [HF ->]. split; [constructor; assumption|reflexivity].
Qed.

(* ---- State / Event shapes, spelled out ------------------------------------------------------ *)
Definition shape (f : ofield) := (f_json f, f_type f, f_required f, f_flatten f).

Theorem state_event_shapes : forall e fl,
  map shape (m_fields (state_msg e fl)) =
    [ (bs "metadata", TObject (bs "j5.state.v1") (bs "StateMetadata"), true, false);
      (bs "keys", TObject [] (m_name (keys_msg e)), true, true);
      (bs "data", TObject [] (m_name (data_msg e)), true, false);
      (bs "status", TEnum [] (component_name e (bs "Status")), true, false) ]
  /\ map shape (m_fields (event_msg e)) =
    [ (bs "metadata", TObject (bs "j5.state.v1") (bs "EventMetadata"), true, false);
      (bs "keys", TObject [] (m_name (keys_msg e)), true, true);
      (bs "event", TOneof [] (m_name (event_type_msg e)), true, false) ]
  /\ m_psm (keys_msg e) = Some (snake_name e, 1) /\ m_psm (state_msg e fl) = Some (snake_name e, 2)
  /\ m_psm (event_msg e) = Some (snake_name e, 3) /\ m_psm (data_msg e) = Some (snake_name e, 4).
Proof. intros e fl. repeat split. Qed.

(* ---- documented names for UpperCamel entity names --------------------------------------------- *)
Theorem names_upper_camel : forall e,
  upper_word (e_name e) = true ->
  camel_name e = e_name e /\ query_prefix e = e_name e
  /\ (ends_cap (e_name e) = false ->
      to_camel (camel_name e ++ bs "Publish") ++ bs "Topic" = e_name e ++ bs "PublishTopic").
Proof.
  intros e H. unfold camel_name, query_prefix, snake_name.
  rewrite (to_camel_upper_word _ H), (to_camel_to_snake_upper_word _ H). repeat split.
  intros He. rewrite to_camel_app_word; [|now apply upper_word_ident|assumption|reflexivity].
  rewrite (to_camel_upper_word _ H), <- app_assoc. reflexivity.
Qed.

(* ---- the defect repaired by the fix: commit d657973 -------------------------------------------
   Before, acceptState/acceptEventOneof/acceptEvent named their schemas
   ToCamel(entity.Name + suffix); every reference used componentName(suffix). *)
Definition legacy_name (e : entity) (suffix : bytes) : bytes := to_camel (e_name e ++ suffix).

Theorem legacy_naming_agrees_iff : forall e,
  ident (e_name e) = true ->
  (legacy_name e (bs "State") = component_name e (bs "State") <-> ends_cap (e_name e) = false)
  /\ (legacy_name e (bs "EventType") = component_name e (bs "EventType") <-> ends_cap (e_name e) = false)
  /\ (legacy_name e (bs "Event") = component_name e (bs "Event") <-> ends_cap (e_name e) = false).
Proof.
  intros e Hi. unfold legacy_name, component_name.
  change (to_camel (bs "State")) with (bs "State").
  change (to_camel (bs "EventType")) with (bs "EventType").
  change (to_camel (bs "Event")) with (bs "Event").
  repeat split; apply to_camel_app_word_iff; try assumption; reflexivity.
Qed.

Theorem legacy_naming_refuted :
  exists e, ident (e_name e) = true /\ legacy_name e (bs "State") <> component_name e (bs "State").
Proof.
  exists (mkE (bs "foo.v1") (bs "FooS") [] [] [] [] [] [] [] None). split; [reflexivity|].
  vm_compute. discriminate.
Qed.

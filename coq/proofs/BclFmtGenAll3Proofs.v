(* BclFmtGenAll3Proofs.v — for ALL inputs: reformatDescription (description.go) run on the conditions of the
   translated table is the model's reformat_description: the empty-line logic (TrimSpace(line) == "", pending
   line flushed, no duplicate empty lines, leading empty lines dropped) and the word loop.  strings.TrimSpace(line)
   == "" is "every rune of the line is white space" (all_space), strings.Fields is the model's fields; len() is the
   byte length of the UTF-8 encoding. *)
From Coq Require Import String List NArith ZArith Bool Lia ZifyN ZifyNat ZifyBool.
From J5V.lib Require Import Text Outcome GoExpr.
From J5V.gen Require BclFmtGen.
From J5V.model Require Import BclLexer BclParser BclFmt.
From J5V.proofs Require Import BclFmtGenProofs BclFmtGenAllProofs BclFmtGenAll2Proofs BclUtf8Proofs.
Import ListNotations.
Local Open Scope string_scope.
Local Open Scope list_scope.
Local Open Scope Z_scope.

Lemma reflow_table_form :
  cond_of "description.go:reformatDescription" 0 = GBin "==" (GCall "strings.TrimSpace" [GVar "line"]) (GStr []) /\
  cond_of "description.go:reformatDescription" 1 = GBin "!=" (GVar "pend") (GStr []) /\
  cond_of "description.go:reformatDescription" 2 = GNot (GVar "lastWasEmpty") /\
  cond_of "description.go:reformatDescription" 3 = GBin "==" (GVar "pend") (GStr []) /\
  cond_of "description.go:reformatDescription" 5 = GBin "!=" (GVar "pend") (GStr []) /\
  assign_of "description.go:reformatDescription" 3 = GVar "true".
Proof. repeat split. Qed.

(* strings.TrimSpace(line) of a rune line, as far as the comparison with "" goes *)
Definition trim_calls (line : list N) (f : string) (vs : list gval) : gval :=
  if String.eqb f "strings.TrimSpace" then VS (if all_space line then [] else [120%N]) else VUnknown.
Definition evr (line : list N) (env : list (string * gval)) (e : gexpr) : gval :=
  g_eval (g_lookup env) (trim_calls line) esc_pairs e.

Lemma encode_nil_iff l : bytes_eqb (utf8_encode l) [] = match l with [] => true | _ => false end.
Proof.
  destruct l as [|c r]; [reflexivity|]. unfold utf8_encode. cbn [flat_map].
  pose proof (encode_rune_length c) as H. destruct (encode_rune c) as [|b bs] eqn:E; [|reflexivity].
  cbn in H. unfold rune_len in H. repeat (destruct (_ <? _)%N in H; try (cbn in H; lia)); destruct (negb _) in H; cbn in H; lia.
Qed.

(* the word loop on the table *)
Fixpoint flow_tab (maxw : Z) (ws : list (list N)) (pend : list N) (out : list (list N)) : list N * list (list N) :=
  match ws with
  | [] => (pend, out)
  | w :: r =>
    let env := [("pend", VS (utf8_encode pend)); ("word", VS (utf8_encode w)); ("maxWidth", VZ maxw)] in
    if is_true (ev env (cond_of "description.go:reformatDescription" 3)) then flow_tab maxw r w out
    else if is_true (ev env (cond_of "description.go:reformatDescription" 4)) then flow_tab maxw r w (out ++ [pend])
    else flow_tab maxw r (pend ++ 32%N :: w) out
  end.
Lemma flow_tab_all maxw : forall ws pend out, flow_tab maxw ws pend out = flow_words maxw ws pend out.
Proof.
  induction ws as [|w r IH]; intros pend out; [reflexivity|]. cbn [flow_tab].
  change (cond_of "description.go:reformatDescription" 3) with (GBin "==" (GVar "pend") (GStr [])).
  unfold ev at 1. cbn [g_eval map g_lookup String.eqb Ascii.eqb Bool.eqb g_binop fst snd is_true].
  rewrite encode_nil_iff. destruct pend as [|p0 pr]; [cbn [flow_words]; apply IH|].
  rewrite (flow_words_step_all maxw w r p0 pr out). cbv zeta.
  destruct (is_true _); apply IH.
Qed.

(* the line loop on the table: pend, lastWasEmpty, linesOut *)
Fixpoint reformat_tab (maxw : Z) (lines : list (list N)) (pend : list N) (last_empty : bool) (out : list (list N)) : list (list N) :=
  match lines with
  | [] => if is_true (ev [("pend", VS (utf8_encode pend))] (cond_of "description.go:reformatDescription" 5)) then out ++ [pend] else out
  | line :: r =>
    let env := [("pend", VS (utf8_encode pend)); ("lastWasEmpty", VB last_empty)] in
    if is_true (evr line env (cond_of "description.go:reformatDescription" 0)) then
      let out1 := if is_true (evr line env (cond_of "description.go:reformatDescription" 1)) then out ++ [pend] else out in
      let out2 := if is_true (evr line env (cond_of "description.go:reformatDescription" 2)) then out1 ++ [[]] else out1 in
      reformat_tab maxw r [] true out2
    else
      let '(pend', out') := flow_tab maxw (fields line) pend out in
      reformat_tab maxw r pend' false out'
  end.

Theorem reformat_tab_all maxw : forall lines pend last_empty out,
  reformat_tab maxw lines pend last_empty out = reformat_loop maxw lines pend last_empty out.
Proof.
  induction lines as [|line r IH]; intros pend last_empty out; cbn [reformat_tab reformat_loop].
  - change (cond_of "description.go:reformatDescription" 5) with (GBin "!=" (GVar "pend") (GStr [])).
    unfold ev. cbn [g_eval map g_lookup String.eqb Ascii.eqb Bool.eqb g_binop fst snd is_true]. rewrite encode_nil_iff.
    destruct pend; reflexivity.
  - change (cond_of "description.go:reformatDescription" 0) with (GBin "==" (GCall "strings.TrimSpace" [GVar "line"]) (GStr [])).
    change (cond_of "description.go:reformatDescription" 1) with (GBin "!=" (GVar "pend") (GStr [])).
    change (cond_of "description.go:reformatDescription" 2) with (GNot (GVar "lastWasEmpty")).
    unfold evr. cbn [g_eval map g_lookup String.eqb Ascii.eqb Bool.eqb g_binop g_call existsb orb trim_calls fst snd is_true].
    rewrite encode_nil_iff.
    destruct (all_space line); cbn [bytes_eqb is_true].
    + rewrite IH. destruct pend; destruct last_empty; reflexivity.
    + rewrite flow_tab_all. destruct (flow_words maxw (fields line) pend out) as [p' o']. apply IH.
Qed.

Theorem reformat_description_all input maxw :
  reformat_tab maxw (split_on 10 input) [] (is_true (ev [("true", VB true)] (assign_of "description.go:reformatDescription" 3))) []
  = reformat_description input maxw.
Proof. unfold reformat_description. apply reformat_tab_all. Qed.

(* J5sInfraProofs.v — WHICH infrastructure files a construct needs: the model's import lists
   against the tables the translator reads off fields.go / conversion.go / service.go on every
   run (ImportsGen.field_infra, property_infra, func_infra: per switch arm / function the
   constants passed to ensureImport on every path to the end - a call of setJ5Ext counts as
   j5ExtImport - and those ensured only under a nested condition), with the constants' values
   from imports.go (ImportsGen.import_constants).
   1. computed agreement of the model FUNCTIONS (scalar_core, ref_core, the `required` wrapper,
      method / topic conversion) with the tables, for every scalar type;
   2. every scalar type written at any depth of a run of properties contributes the files of
      its Go arm to the imports collected for the generated file. *)
From Coq Require Import String List NArith Bool Lia.
From J5V.lib Require Import Outcome Corr.
From J5V.gen Require ImportsGen.
From J5V.model Require Import J5sAst Desc J5sWalk J5sLink J5sConvert J5sContract.
From J5V.proofs Require Import J5sProofs J5sContractProofs J5sResolveProofs.
Import ListNotations.
Local Open Scope N_scope.

(* ------------------------------------------------------------------ reading the tables *)
Local Open Scope string_scope.
Fixpoint const_val (tbl : list (string * list N)) (n : string) : option str :=
  match tbl with
  | [] => None
  | (k, v) :: r => if String.eqb k n then Some v else const_val r n
  end.
(* a constant the table does not know poisons the comparison *)
Definition vals (l : list string) : list str :=
  map (fun n => match const_val ImportsGen.import_constants n with Some v => v | None => [0] end) l.

Fixpoint row (tbl : list (string * list string * list string)) (n : string) : option (list string * list string) :=
  match tbl with
  | [] => None
  | (k, u, c) :: r => if String.eqb k n then Some (u, c) else row r n
  end.

Definition subset_b (a c : list str) : bool := forallb (fun x => mem_str x c) a.
Definition set_eqb (a c : list str) : bool := subset_b a c && subset_b c a.

(* buildField arm of a scalar type *)
Definition arm_of_scalar (s : scalar) : string :=
  match s with
  | SString => "Field_String_" | SBool => "Field_Bool" | SBytes => "Field_Bytes"
  | SInt _ => "Field_Integer" | SFloat _ => "Field_Float" | STimestamp => "Field_Timestamp"
  | SDate => "Field_Date" | SDecimal => "Field_Decimal" | SKey _ => "Field_Key" | SAny => "Field_Any"
  end.

Definition all_scalars : list scalar :=
  [SString; SBool; SBytes; SInt I32; SInt I64; SInt U32; SInt U64; SFloat F32; SFloat F64;
   STimestamp; SDate; SDecimal; SKey KNone; SKey KInformal; SKey KId62; SKey KUuid; SKey KCustom; SAny].
Lemma all_scalars_complete s : In s all_scalars.
Proof. destruct s as [| | |[]|[]| | | |[]|]; cbn; tauto. Qed.

(* the model's imports of a scalar field contain the files its Go arm always ensures, and
   nothing but those and the conditionally ensured ones; without a key format: exactly the
   always-ensured ones (key formats: the validation import, inside `if st.Key.Format != nil`) *)
Definition scalar_infra_ok (s : scalar) : bool :=
  match row ImportsGen.field_infra (arm_of_scalar s) with
  | Some (u, c) =>
      let m := fc_imports (scalar_core s) in
      subset_b (vals u) m && subset_b m (vals u ++ vals c) &&
      match s with
      | SKey KNone => set_eqb (vals u) m
      | SKey _ => mem_str imp_validate m && mem_str imp_validate (vals c)
      | _ => set_eqb (vals u) m
      end
  | None => false
  end.

Lemma scalar_infra_agree : forallb scalar_infra_ok all_scalars = true.
Proof. vm_compute. reflexivity. Qed.

(* references and inline types: Field_Object / Field_Oneof / Field_Enum arms; visitObjectNode /
   visitOneofNode (message options); the `if required` block; arrays; methods; topics *)
Definition ref_infra (want_enum : bool) : list str := if want_enum then [imp_ext; imp_validate] else [imp_ext].

Definition other_infra_ok : bool :=
  match row ImportsGen.field_infra "Field_Object", row ImportsGen.field_infra "Field_Oneof",
        row ImportsGen.field_infra "Field_Enum",
        row ImportsGen.property_infra "if required", row ImportsGen.property_infra "Field_Array",
        row ImportsGen.property_infra "Field_Map",
        row ImportsGen.func_infra "conversion.go:visitObjectNode", row ImportsGen.func_infra "conversion.go:visitOneofNode",
        row ImportsGen.func_infra "conversion.go:visitTopicNode", row ImportsGen.func_infra "service.go:visitServiceMethodNode",
        row ImportsGen.func_infra "conversion.go:visitEnumNode" with
  | Some (uo, _), Some (un, _), Some (ue, _), Some (ur, _), Some (ua, ca), Some (um, cm),
    Some (uvo, _), Some (uvn, _), Some (ut, _), Some (us, cs), Some (uve, _) =>
      set_eqb (vals uo) (ref_infra false) && set_eqb (vals un) (ref_infra false) &&
      set_eqb (vals ue) (ref_infra true) &&
      set_eqb (vals ur) [imp_validate; imp_ext] &&
      (* arrays: the ext import always, validation when the items carry constraints; maps: nothing always *)
      set_eqb (vals ua) [imp_ext] && mem_str imp_validate (vals ca) &&
      set_eqb (vals um) [] && mem_str imp_validate (vals cm) &&
      set_eqb (vals uvo) [imp_ext] && set_eqb (vals uvn) [imp_ext] &&
      set_eqb (vals ut) [imp_messaging; imp_empty] &&
      set_eqb (vals us) [imp_http] && mem_str imp_httpbody (vals cs) &&
      set_eqb (vals uve) []
  | _, _, _, _, _, _, _, _, _, _, _ => false
  end.
Lemma other_infra_agree : other_infra_ok = true.
Proof. vm_compute. reflexivity. Qed.
Local Close Scope string_scope.

Lemma subset_b_incl a c : subset_b a c = true -> incl a c.
Proof.
  unfold subset_b. rewrite forallb_forall. intros H x Hx. specialize (H x Hx).
  unfold mem_str in H. apply existsb_exists in H. destruct H as (y & Hy & He).
  apply str_eqb_eq in He. subst. exact Hy.
Qed.

(* for EVERY scalar type: the Go arm's always-ensured files are among the model's imports of
   the field, and the model imports nothing the arm does not ensure *)
Theorem scalar_imports_from_go_table s :
  exists u c, row ImportsGen.field_infra (arm_of_scalar s) = Some (u, c) /\
    incl (vals u) (fc_imports (scalar_core s)) /\
    incl (fc_imports (scalar_core s)) (vals u ++ vals c).
Proof.
  pose proof scalar_infra_agree as H. rewrite forallb_forall in H.
  specialize (H s (all_scalars_complete s)). unfold scalar_infra_ok in H.
  destruct (row ImportsGen.field_infra (arm_of_scalar s)) as [[u c]|]; [|discriminate].
  exists u, c. split; [reflexivity|].
  apply andb_true_iff in H. destruct H as [H _]. apply andb_true_iff in H. destruct H as [H1 H2].
  split; apply subset_b_incl; assumption.
Qed.

(* a reference: the defining file of the target plus exactly the always-ensured files of the
   Field_Object / Field_Oneof / Field_Enum arm *)
Theorem ref_imports_from_go_table ev r we c :
  ref_core ev r we = Ok c ->
  exists t, resolve ev r = Ok t /\ fc_imports c = tr_file t :: ref_infra we.
Proof.
  unfold ref_core. intros H. apply obind_ok in H. destruct H as (t & Ht & H). exists t. split; [exact Ht|].
  destruct we; destruct (tr_enum t); try discriminate; inversion H; reflexivity.
Qed.

(* ------------------------------------------------------------------ scalars at any depth *)
Fixpoint scalars_of_field (f : field) {struct f} : list scalar :=
  match f with
  | FScalar s => [s]
  | FObjInline _ ps | FOneofInline _ ps => scalars_of_props ps
  | FArray it | FMap it => scalars_of_field it
  | _ => []
  end
with scalars_of_props (ps : props) {struct ps} : list scalar :=
  match ps with PNil => [] | PCons p r => scalars_of_property p ++ scalars_of_props r end
with scalars_of_property (p : property) {struct p} : list scalar :=
  match p with Property _ _ _ f => scalars_of_field f end.

Section Infra.
Variables snake camel screaming : str -> str.
Notation cv_item := (cv_item snake camel screaming).
Notation cv_props := (cv_props snake camel screaming).
Notation cv_property := (cv_property snake camel screaming).

Definition scalars_imported (ss : list scalar) (imps : list str) : Prop :=
  forall s, In s ss -> incl (fc_imports (scalar_core s)) imps.

Theorem convert_scalar_imports ev :
  (forall f, (forall path dflt c, cv_item ev path dflt f = Ok c -> scalars_imported (scalars_of_field f) (fc_imports c)) /\
             match f with
             | FArray it | FMap it => forall path dflt c, cv_item ev path dflt it = Ok c -> scalars_imported (scalars_of_field it) (fc_imports c)
             | _ => True
             end) /\
  (forall ps path io n r, cv_props ev path io n ps = Ok r -> scalars_imported (scalars_of_props ps) (pr_imports r)) /\
  (forall p path io n r, cv_property ev path io n p = Ok r -> scalars_imported (scalars_of_property p) (pr_imports r)).
Proof.
  apply ast_mutind.
  - intros s. split; [|exact I]. intros path dflt c H s' [<-|[]]. cbn in H. inversion H. apply incl_refl.
  - intros r. split; [|exact I]. intros path dflt c _ s [].
  - intros nm ps IH. split; [|exact I]. intros path dflt c H. rewrite (cv_item_obj snake camel screaming) in H.
    apply obind_ok in H. destruct H as (a & E & H). inversion H. subst c. cbn [fc_imports scalars_of_field].
    intros s Hs x Hx. right. exact (IH _ _ _ _ E s Hs x Hx).
  - intros r. split; [|exact I]. intros path dflt c _ s [].
  - intros nm ps IH. split; [|exact I]. intros path dflt c H. rewrite (cv_item_oneof snake camel screaming) in H.
    apply obind_ok in H. destruct H as (a & E & H). inversion H. subst c. cbn [fc_imports scalars_of_field].
    intros s Hs x Hx. right. exact (IH _ _ _ _ E s Hs x Hx).
  - intros r. split; [|exact I]. intros path dflt c _ s [].
  - intros e. split; [|exact I]. intros path dflt c _ s [].
  - intros it [IH _]. split; [|exact IH]. intros path dflt c H. cbn in H. discriminate.
  - intros it [IH _]. split; [|exact IH]. intros path dflt c H. cbn in H. discriminate.
  - intros path io n r _ s [].
  - intros p IHp ps IHps path io n r H. rewrite (cv_props_cons snake camel screaming) in H.
    apply obind_ok in H. destruct H as (a & E & H). apply obind_ok in H. destruct H as (c & E0 & H).
    inversion H. subst r. cbn [scalars_of_props pres_app pr_imports]. intros s Hs. apply in_app_or in Hs.
    destruct Hs as [Hs|Hs].
    + apply incl_appl. exact (IHp _ _ _ _ E s Hs).
    + apply incl_appr. exact (IHps _ _ _ _ E0 s Hs).
  - intros n rq op f [IH IHit] path io num r H. rewrite (cv_property_eq snake camel screaming) in H.
    cbn [scalars_of_property]. destruct f as [s|rf0|nm ps|rf0|nm ps|rf0|e|it|it];
      apply obind_ok in H; destruct H as (a & E & H);
      try (destruct io; [discriminate|]); pose proof (finish_imports _ _ _ _ _ _ _ _ _ _ _ _ _ H) as Hinc.
    1-7: intros s' Hs x Hx; apply Hinc; exact (IH _ _ _ E s' Hs x Hx).
    + intros s' Hs x Hx. apply Hinc. right. apply in_or_app. left. exact (IHit _ _ _ E s' Hs x Hx).
    + intros s' Hs x Hx. apply Hinc. exact (IHit _ _ _ E s' Hs x Hx).
Qed.

(* composed with the table: every scalar type written at any depth of a run of properties that
   converts brings the files its Go arm always ensures (well-known type file, annotations)
   into the imports collected for the generated file *)
Theorem props_infra_from_go_table ev ps path io n r :
  cv_props ev path io n ps = Ok r ->
  forall s, In s (scalars_of_props ps) ->
    exists u c, row ImportsGen.field_infra (arm_of_scalar s) = Some (u, c) /\ incl (vals u) (pr_imports r).
Proof.
  intros H s Hs. destruct (scalar_imports_from_go_table s) as (u & c & Hr & Hu & _).
  exists u, c. split; [exact Hr|]. intros x Hx.
  exact (proj1 (proj2 (convert_scalar_imports ev)) ps path io n r H s Hs x (Hu x Hx)).
Qed.

End Infra.

(* ------------------------------------------------------------------ the other constructs, function level *)
Local Open Scope string_scope.
Lemma required_row : exists u c, row ImportsGen.property_infra "if required" = Some (u, c) /\
  subset_b (vals u) [imp_validate; imp_ext] = true.
Proof. eexists. eexists. split; vm_compute; reflexivity. Qed.
Lemma array_row : exists u c, row ImportsGen.property_infra "Field_Array" = Some (u, c) /\
  subset_b (vals u) [imp_ext] = true.
Proof. eexists. eexists. split; vm_compute; reflexivity. Qed.
Lemma topic_row : exists u c, row ImportsGen.func_infra "conversion.go:visitTopicNode" = Some (u, c) /\
  subset_b (vals u) [imp_messaging; imp_empty] = true.
Proof. eexists. eexists. split; vm_compute; reflexivity. Qed.
Lemma method_row : exists u c, row ImportsGen.func_infra "service.go:visitServiceMethodNode" = Some (u, c) /\
  subset_b (vals u) [imp_http] = true /\ mem_str imp_httpbody (vals c) = true.
Proof. eexists. eexists. split; [|split]; vm_compute; reflexivity. Qed.
Lemma object_row : exists u c, row ImportsGen.func_infra "conversion.go:visitObjectNode" = Some (u, c) /\
  subset_b (vals u) [imp_ext] = true.
Proof. eexists. eexists. split; vm_compute; reflexivity. Qed.
Local Close Scope string_scope.

Section Constructs.
Variables snake camel screaming : str -> str.
Notation cv_property := (cv_property snake camel screaming).
Notation cv_nested := (cv_nested snake camel screaming).
Notation cv_method := (cv_method snake camel screaming).
Notation accept_topic := (accept_topic snake camel screaming).

Lemma finish_required io op sn n num c lbl ty tn msgs imps r :
  finish io true op sn n num c lbl ty tn msgs imps = Ok r -> incl [imp_validate; imp_ext] (pr_imports r).
Proof.
  unfold finish. destruct (true && op); [discriminate|]. destruct (io && _); [discriminate|].
  intros H. inversion H. subst. cbn [pr_imports]. apply incl_appr. apply incl_refl.
Qed.

(* a required property imports the files the `if required` block of buildProperty ensures *)
Theorem required_imports_from_go_table ev path io num n op f r :
  cv_property ev path io num (Property n true op f) = Ok r ->
  exists u c, row ImportsGen.property_infra "if required"%string = Some (u, c) /\ incl (vals u) (pr_imports r).
Proof.
  intros H. destruct required_row as (u & c & Hr & Hs). exists u, c. split; [exact Hr|].
  apply subset_b_incl in Hs. intros x Hx. specialize (Hs x Hx).
  rewrite (cv_property_eq snake camel screaming) in H.
  destruct f; apply obind_ok in H; destruct H as (a & _ & H); try (destruct io; [discriminate|]);
    exact (finish_required _ _ _ _ _ _ _ _ _ _ _ _ H x Hs).
Qed.

(* an array property imports what the Field_Array arm always ensures *)
Theorem array_imports_from_go_table ev path io num n rq op it r :
  cv_property ev path io num (Property n rq op (FArray it)) = Ok r ->
  exists u c, row ImportsGen.property_infra "Field_Array"%string = Some (u, c) /\ incl (vals u) (pr_imports r).
Proof.
  intros H. destruct array_row as (u & c & Hr & Hs). exists u, c. split; [exact Hr|].
  apply subset_b_incl in Hs. intros x Hx. specialize (Hs x Hx). destruct Hs as [<-|[]].
  rewrite (cv_property_eq snake camel screaming) in H. apply obind_ok in H. destruct H as (a & _ & H).
  apply (finish_imports _ _ _ _ _ _ _ _ _ _ _ _ _ H). left. reflexivity.
Qed.

(* a declared / nested object or oneof: visitObjectNode / visitOneofNode set the message options *)
Theorem object_imports_from_go_table ev path nm ps subs ms es is :
  cv_nested ev path (NObject nm ps subs) = Ok (ms, es, is) ->
  exists u c, row ImportsGen.func_infra "conversion.go:visitObjectNode"%string = Some (u, c) /\ incl (vals u) is.
Proof.
  intros H. destruct object_row as (u & c & Hr & Hs). exists u, c. split; [exact Hr|].
  apply subset_b_incl in Hs. intros x Hx. specialize (Hs x Hx). destruct Hs as [<-|[]].
  cbn [J5sConvert.cv_nested] in H. apply obind_ok in H. destruct H as (a & _ & H).
  apply obind_ok in H. destruct H as ([[sm se] si] & _ & H). inversion H. left. reflexivity.
Qed.

(* a topic: messaging annotations and google.protobuf.Empty *)
Theorem topic_imports_from_go_table ev tname topic_name rl virt l ms ss is :
  accept_topic ev tname topic_name rl virt l = Ok (ms, ss, is) ->
  exists u c, row ImportsGen.func_infra "conversion.go:visitTopicNode"%string = Some (u, c) /\ incl (vals u) is.
Proof.
  intros H. destruct topic_row as (u & c & Hr & Hs). exists u, c. split; [exact Hr|].
  apply subset_b_incl in Hs. intros x Hx. specialize (Hs x Hx).
  unfold J5sConvert.accept_topic in H. apply obind_ok in H. destruct H as ([[m d] i] & _ & H).
  inversion H. apply in_or_app. right. exact Hs.
Qed.

(* a method: google.api.http annotations; HttpBody when no response is declared *)
Theorem method_imports_from_go_table ev base m ms dm is :
  cv_method ev base m = Ok (ms, dm, is) ->
  exists u c, row ImportsGen.func_infra "service.go:visitServiceMethodNode"%string = Some (u, c) /\
    incl (vals u) is /\ (m_response m = None -> In imp_httpbody is /\ In imp_httpbody (vals c)).
Proof.
  intros H. destruct method_row as (u & c & Hr & Hs & Hb). exists u, c. split; [exact Hr|].
  apply subset_b_incl in Hs.
  unfold J5sConvert.cv_method in H. apply obind_ok in H. destruct H as (rq & _ & H).
  apply obind_ok in H. destruct H as ([[rm on] ri] & Ers & H). apply obind_ok in H. destruct H as (h & _ & H).
  inversion H. subst. split.
  - intros x Hx. specialize (Hs x Hx). destruct Hs as [<-|[]]. apply in_or_app. right. apply in_or_app. right. left. reflexivity.
  - intros Hn. rewrite Hn in Ers. inversion Ers. subst. split.
    + apply in_or_app. right. left. reflexivity.
    + unfold mem_str in Hb. apply existsb_exists in Hb. destruct Hb as (y & Hy & He). apply str_eqb_eq in He. subst. exact Hy.
Qed.

End Constructs.

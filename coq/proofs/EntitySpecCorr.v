(* EntitySpecCorr.v — the correspondence check of C17 extended by the formal quantifier:
   [c17_check] (model = compiler: acceptance both ways, descriptors, error class, client view) and,
   for single-entity files, "in the quantifier and free of reserved names => the compiler accepted".
   This is the empirical side of the acceptance theorem (proofs/EntityAcceptProofs.v proves it for the
   model; here it is checked against the real compiler on every generated declaration).
   Definitions only. *)
From Coq Require Import String List NArith Bool.
From J5V.lib Require Import Outcome Corr Strcase.
From J5V.model Require Import Entity EntityClient EntityCorr.
From J5V.proofs Require Import EntitySpec.
Import ListNotations.
Local Open Scope bool_scope.

Definition admissible (e : entity) : bool := in_quantifier e && reserved_free e.

Definition c17_check_adm (c : c17case) : bool :=
  c17_check c &&
  match c with
  | EC [e] ok _ _ _ _ => implb (admissible e) ok
  | _ => true
  end.

(* EntitySpecCorr.v — the correspondence check of C17 extended by the formal quantifier:
   [c17_check] (model = compiler: acceptance both ways, descriptors, error class, client view) and,
   for every file, "in the (file-level) quantifier and free of reserved names => the compiler accepted".
   This is the empirical side of the acceptance theorem (proofs/EntityAcceptProofs.v proves it for the
   model; here it is checked against the real compiler on every generated declaration).
   Definitions only. *)
From Coq Require Import String List NArith Bool.
From J5V.lib Require Import Outcome Corr Strcase.
From J5V.model Require Import Entity EntityClient EntityCorr.
From J5V.proofs Require Import EntitySpec.
Import ListNotations.
Local Open Scope bool_scope.

Definition admissible (e : entity) : bool := in_quantifier e && reserved_free e.

(* for files with several entities the same with the file-level quantifier (EntitySpec.file_quantifier:
   each declaration admissible and the documented package scopes distinct over the whole file) *)
Definition c17_check_adm (c : c17case) : bool :=
  c17_check c &&
  match c with
  | EC es ok _ _ _ _ => implb (file_quantifier es) ok
  end.

(* EntitySpecCorr.v — the correspondence check of C17 extended by the formal quantifier:
   [c17_check] (model = compiler: acceptance both ways, descriptors, error class, client view) and,
   for every file, "in the (file-level) quantifier and free of reserved names => the compiler accepted".
   This is the empirical side of the acceptance theorem (proofs/EntityAcceptProofs.v proves it for the
   model; here it is checked against the real compiler on every generated declaration).
   Definitions only. *)
From Coq Require Import String List NArith Bool.
From J5V.lib Require Import Outcome Corr Strcase.
From J5V.model Require Import Entity EntityClient EntityCorr.
From J5V.proofs Require Import EntitySpec.
Import ListNotations.
Local Open Scope bool_scope.

Definition admissible (e : entity) : bool := in_quantifier e && reserved_free e.

(* for files with several entities the same with the file-level quantifier (EntitySpec.file_quantifier:
   each declaration admissible and the documented package scopes distinct over the whole file).
   BOTH directions, on every case: the formal quantifier (minus the reserved names) is exactly what the real
   compiler accepts, except for the one class the property text itself puts outside ("1..n keys"): a
   declaration without keys compiles.  So the quantifier is neither stronger than the code needs (=>) nor
   does it leave out declarations the compiler accepts (<=): a compiler-accepted declaration outside
   [file_quantifier] with at least one key is a mismatch. *)
Definition outside_by_text (es : list entity) : bool := existsb (fun e => is_nil (e_keys e)) es.
Definition c17_check_adm (c : c17case) : bool :=
  c17_check c &&
  match c with
  | EC es ok _ _ _ _ => implb (file_quantifier es) ok && implb ok (file_quantifier es || outside_by_text es)
  end.

(* BclFmtLitProofs.v — literal level of C09: tokenSource is a right inverse of the
   lexer's unescaping.  For each literal token kind, lexing the text that
   tokenSource renders (followed by any text that cannot extend the token) gives
   back the same token type and literal and stops exactly after it. *)
From Coq Require Import String List NArith ZArith Bool Lia ZifyN ZifyNat ZifyBool.
From J5V.lib Require Import Text Outcome.
From J5V.model Require Import BclLexer BclParser BclFmt.
From J5V.proofs Require Import BclPosProofs BclLexerProofs.
Import ListNotations.
Local Open Scope N_scope.
Arguments Nat.sub : simpl never.

Lemma next_cons s c t : rest s = c :: t -> ch (next s) = Some c /\ rest (next s) = t.
Proof. intros H. unfold next. rewrite H. cbn. auto. Qed.
Lemma next_nil s : rest s = [] -> ch (next s) = None /\ rest (next s) = [].
Proof. intros H. unfold next. rewrite H. cbn. auto. Qed.

(* ---- strings: lexString (escape_string lit ++ quote) = lit, for every lit ------------------- *)
Lemma string_loop_inverse : forall lit fuel s acc tail,
  rest s = escape_string lit ++ 34 :: tail -> (length (rest s) < fuel)%nat ->
  exists s', string_loop fuel 34 s acc = ROk (acc ++ lit) s' /\ rest s' = tail.
Proof.
  induction lit as [|c r IH]; intros fuel s acc tail Hr Hf; (destruct fuel as [|f]; [lia|]); cbn [string_loop].
  - cbn in Hr. destruct (next_cons s _ _ Hr) as [Hc Ht]. rewrite Hc. cbn.
    exists (next s). rewrite app_nil_r. auto.
  - cbn [escape_string] in Hr.
    destruct (N.eqb c 92 || N.eqb c 34 || N.eqb c 10)%bool eqn:Esc.
    + cbn [app] in Hr. destruct (next_cons s _ _ Hr) as [Hc Ht]. rewrite Hc.
      replace (N.eqb 92 34) with false by reflexivity. replace (N.eqb 92 10) with false by reflexivity.
      replace (N.eqb 92 92) with true by reflexivity.
      unfold lex_escape, peek. rewrite Ht. cbn [hd_error].
      replace (N.eqb c 92 || N.eqb c 10 || N.eqb c 34)%bool with true by (destruct (N.eqb c 92), (N.eqb c 34), (N.eqb c 10); cbn in *; congruence).
      destruct (next_cons (next s) _ _ Ht) as [Hc2 Ht2].
      destruct (IH f (next (next s)) (acc ++ ch_list (next (next s))) tail Ht2) as (s' & E & Hs').
      { rewrite Ht2. rewrite Hr in Hf. cbn in Hf. lia. }
      exists s'. rewrite E. unfold ch_list. rewrite Hc2. rewrite <- app_assoc. auto.
    + cbn [app] in Hr. destruct (next_cons s _ _ Hr) as [Hc Ht]. rewrite Hc.
      apply orb_false_iff in Esc. destruct Esc as [Esc E10]. apply orb_false_iff in Esc. destruct Esc as [E92 E34].
      rewrite E34, E10, E92.
      destruct (IH f (next s) (acc ++ [c]) tail Ht) as (s' & E & Hs').
      { rewrite Ht. rewrite Hr in Hf. cbn in Hf. lia. }
      exists s'. rewrite E. rewrite <- app_assoc. auto.
Qed.

(* ---- regexes: lexRegex (double_slash lit ++ "/") = lit when lit has no newline and the next
        rune is not another slash ------------------------------------------------------------- *)
Definition no_nl (l : list N) : Prop := Forall (fun c => c <> 10) l.
Definition not_starting (c : N) (tail : list N) : Prop := hd_error tail <> Some c.

Lemma regex_loop_inverse : forall lit fuel s acc tail,
  no_nl lit -> not_starting 47 tail ->
  rest s = double_slash lit ++ 47 :: tail -> (length (rest s) < fuel)%nat ->
  exists s', regex_loop fuel s acc = ROk (acc ++ lit) s' /\ rest s' = tail.
Proof.
  induction lit as [|c r IH]; intros fuel s acc tail Hnl Ht0 Hr Hf; (destruct fuel as [|f]; [lia|]); cbn [regex_loop].
  - cbn in Hr. destruct (next_cons s _ _ Hr) as [Hc Ht]. rewrite Hc.
    replace (N.eqb 47 10) with false by reflexivity. replace (N.eqb 47 47) with true by reflexivity.
    unfold peek, opt_eq. rewrite Ht.
    assert (E : match hd_error tail with Some d => N.eqb d 47 | None => false end = false).
    { unfold not_starting in Ht0. destruct (hd_error tail) as [d|]; [|reflexivity].
      apply N.eqb_neq. intros ->. apply Ht0. reflexivity. }
    rewrite E. exists (next s). rewrite app_nil_r. auto.
  - inversion Hnl as [|x l Hc10 Hnl']; subst. cbn [double_slash] in Hr.
    destruct (N.eqb c 47) eqn:E47.
    + apply N.eqb_eq in E47. subst c. cbn [app] in Hr.
      destruct (next_cons s _ _ Hr) as [Hc Ht]. rewrite Hc.
      replace (N.eqb 47 10) with false by reflexivity. replace (N.eqb 47 47) with true by reflexivity.
      unfold peek, opt_eq. rewrite Ht. cbn [hd_error]. replace (N.eqb 47 47) with true by reflexivity.
      destruct (next_cons (next s) _ _ Ht) as [Hc2 Ht2].
      destruct (IH f (next (next s)) (acc ++ [47]) tail Hnl' Ht0 Ht2) as (s' & E & Hs').
      { rewrite Ht2. rewrite Hr in Hf. cbn in Hf. lia. }
      exists s'. rewrite E, <- app_assoc. auto.
    + cbn [app] in Hr. destruct (next_cons s _ _ Hr) as [Hc Ht]. rewrite Hc.
      replace (N.eqb c 10) with false by lia. rewrite E47.
      destruct (IH f (next s) (acc ++ [c]) tail Hnl' Ht0 Ht) as (s' & E & Hs').
      { rewrite Ht. rewrite Hr in Hf. cbn in Hf. lia. }
      exists s'. rewrite E, <- app_assoc. auto.
Qed.

(* ---- the rest of a line (comments, descriptions) --------------------------------------------- *)
Definition line_end (tail : list N) : Prop := tail = [] \/ hd_error tail = Some 10.

Lemma take_line_inverse : forall lit fuel s acc tail,
  no_nl lit -> line_end tail -> rest s = lit ++ tail -> (length (rest s) < fuel)%nat ->
  exists s', take_line fuel s acc = ROk (acc ++ lit) s' /\ rest s' = tail.
Proof.
  induction lit as [|c r IH]; intros fuel s acc tail Hnl Hend Hr Hf; (destruct fuel as [|f]; [lia|]); cbn [take_line].
  - cbn in Hr. unfold peek. rewrite Hr. exists s. rewrite app_nil_r.
    destruct Hend as [->|He]; [auto|]. destruct tail as [|d t]; [discriminate|].
    cbn in He. injection He as ->. cbn. auto.
  - inversion Hnl as [|x l Hc10 Hnl']; subst. cbn [app] in Hr. unfold peek. rewrite Hr. cbn [hd_error].
    replace (N.eqb c 10) with false by lia.
    destruct (next_cons s _ _ Hr) as [Hc Ht].
    destruct (IH f (next s) (acc ++ ch_list (next s)) tail Hnl' Hend Ht) as (s' & E & Hs').
    { rewrite Ht. rewrite Hr in Hf. cbn in Hf. lia. }
    exists s'. rewrite E. unfold ch_list. rewrite Hc, <- app_assoc. auto.
Qed.

(* ---- block comments: no "*/" inside the literal ------------------------------------------------- *)
Fixpoint has_star_slash (l : list N) : bool :=
  match l with
  | [] => false
  | c :: r => (N.eqb c 42 && match r with d :: _ => N.eqb d 47 | [] => false end) || has_star_slash r
  end.

Lemma block_comment_loop_inverse : forall lit fuel s acc tail,
  has_star_slash lit = false ->
  rest s = lit ++ 42 :: 47 :: tail -> (length (rest s) < fuel)%nat ->
  exists s', block_comment_loop fuel s acc = ROk (acc ++ lit) s' /\ rest s' = tail.
Proof.
  induction lit as [|c r IH]; intros fuel s acc tail Hss Hr Hf; (destruct fuel as [|f]; [lia|]); cbn [block_comment_loop].
  - cbn in Hr. destruct (next_cons s _ _ Hr) as [Hc Ht]. rewrite Hc. unfold peek. rewrite Ht. cbn.
    destruct (next_cons (next s) _ _ Ht) as [_ Ht2]. exists (next (next s)). rewrite app_nil_r. auto.
  - cbn [app] in Hr. destruct (next_cons s _ _ Hr) as [Hc Ht]. rewrite Hc. unfold peek. rewrite Ht.
    cbn [has_star_slash] in Hss. apply orb_false_iff in Hss. destruct Hss as [Hh Hss].
    assert (E : (opt_eq (Some c) 42 && opt_eq (hd_error (r ++ 42 :: 47 :: tail)) 47)%bool = false).
    { cbn [opt_eq]. destruct (N.eqb c 42) eqn:E42; [|reflexivity]. cbn [andb] in *.
      destruct r as [|d r']; cbn [app hd_error opt_eq]; [reflexivity|exact Hh]. }
    rewrite E.
    destruct (IH f (next s) (acc ++ [c]) tail Hss Ht) as (s' & E' & Hs').
    { rewrite Ht. rewrite Hr in Hf. cbn in Hf. lia. }
    exists s'. rewrite E', <- app_assoc. auto.
Qed.

(* ---- skipWhitespace stops at a non-space rune ---------------------------------------------------- *)
Lemma skip_one_space fuel s tail : rest s = 32 :: tail ->
  match tail with [] => True | c :: _ => is_space c = false \/ c = 10 end ->
  (length (rest s) < fuel)%nat ->
  exists s', skip_whitespace fuel s = Some s' /\ rest s' = tail.
Proof.
  intros Hr Ht Hf. destruct fuel as [|f]; [lia|]. cbn [skip_whitespace]. unfold peek. rewrite Hr. cbn [hd_error].
  replace (is_space 32) with true by (vm_compute; reflexivity). cbn.
  destruct (next_cons s _ _ Hr) as [_ Hn]. destruct f as [|f']; [rewrite Hr in Hf; cbn in Hf; lia|].
  cbn [skip_whitespace]. unfold peek. rewrite Hn. destruct tail as [|c t]; cbn [hd_error]; [eauto|].
  destruct Ht as [Hs| ->].
  - rewrite Hs. cbn. eauto.
  - replace (N.eqb 10 10) with true by reflexivity. rewrite andb_false_r. eauto.
Qed.

(* ================================================================================== *)
(* NextToken on rendered tokens                                                         *)
Definition lexes_to (s : lstate) (typ : ttype) (l tail : list N) : Prop :=
  exists st en s', next_token s = (LTok (mkTok typ l st en), s') /\ rest s' = tail.

Lemma op_of_none c : c = 34 \/ c = 47 \/ c = 124 -> op_of c = None.
Proof. intros [-> | [-> | ->]]; reflexivity. Qed.

Theorem relex_string lit tail s :
  rest s = token_source (mkTok STRING lit pos0 pos0) ++ tail -> lexes_to s STRING lit tail.
Proof.
  cbn [token_source ty BclLexer.lit]. intros Hr. cbn [app] in Hr. rewrite <- app_assoc in Hr. cbn [app] in Hr.
  unfold lexes_to, next_token. cbn [next_token_fuel].
  destruct (next_cons s _ _ Hr) as [Hc Ht]. rewrite Hc. rewrite (op_of_none 34) by auto.
  replace (N.eqb 34 47) with false by reflexivity. replace (N.eqb 34 34) with true by reflexivity.
  unfold lex_string. rewrite Hc.
  destruct (string_loop_inverse lit (S (length (rest (next s)))) (next s) [] tail Ht) as (s' & E & Hs'); [lia|].
  rewrite E. cbn. eauto.
Qed.

Theorem relex_regex lit tail s :
  no_nl lit -> not_starting 47 tail ->
  match lit with [] => False | c :: _ => c <> 47 /\ c <> 42 end ->
  rest s = token_source (mkTok REGEX lit pos0 pos0) ++ tail -> lexes_to s REGEX lit tail.
Proof.
  cbn [token_source ty BclLexer.lit]. intros Hnl Ht0 Hhd Hr. cbn [app] in Hr. rewrite <- app_assoc in Hr. cbn [app] in Hr.
  unfold lexes_to, next_token. cbn [next_token_fuel].
  destruct (next_cons s _ _ Hr) as [Hc Ht]. rewrite Hc. rewrite (op_of_none 47) by auto.
  replace (N.eqb 47 47) with true by reflexivity.
  assert (Hp : opt_eq (peek (next s)) 47 = false /\ opt_eq (peek (next s)) 42 = false).
  { unfold peek. rewrite Ht. destruct lit as [|c r]; [contradiction|]. destruct Hhd as [H47 H42].
    cbn [double_slash]. replace (N.eqb c 47) with false by lia. cbn. split; lia. }
  destruct Hp as [-> ->].
  unfold lex_regex.
  destruct (regex_loop_inverse lit (S (length (rest (next s)))) (next s) [] tail Hnl Ht0 Ht) as (s' & E & Hs'); [lia|].
  rewrite E. cbn. eauto.
Qed.

Theorem relex_comment lit tail s :
  no_nl lit -> line_end tail ->
  rest s = token_source (mkTok COMMENT lit pos0 pos0) ++ tail -> lexes_to s COMMENT lit tail.
Proof.
  cbn [token_source ty BclLexer.lit]. intros Hnl Hend Hr. cbn [app] in Hr.
  unfold lexes_to, next_token. cbn [next_token_fuel].
  destruct (next_cons s _ _ Hr) as [Hc Ht]. rewrite Hc. rewrite (op_of_none 47) by auto.
  replace (N.eqb 47 47) with true by reflexivity.
  unfold peek at 1. rewrite Ht. cbn [hd_error opt_eq]. replace (N.eqb 47 47) with true by reflexivity.
  unfold lex_line_comment. destruct (next_cons (next s) _ _ Ht) as [Hc2 Ht2].
  destruct (take_line_inverse lit (S (length (rest (next (next s))))) (next (next s)) [] tail Hnl Hend Ht2) as (s' & E & Hs'); [lia|].
  rewrite E. cbn. eauto.
Qed.

Theorem relex_block_comment lit tail s :
  has_star_slash lit = false ->
  rest s = token_source (mkTok BLOCK_COMMENT lit pos0 pos0) ++ tail -> lexes_to s BLOCK_COMMENT lit tail.
Proof.
  cbn [token_source ty BclLexer.lit]. intros Hss Hr. cbn [app] in Hr. rewrite <- app_assoc in Hr. cbn [app] in Hr.
  unfold lexes_to, next_token. cbn [next_token_fuel].
  destruct (next_cons s _ _ Hr) as [Hc Ht]. rewrite Hc. rewrite (op_of_none 47) by auto.
  replace (N.eqb 47 47) with true by reflexivity.
  unfold peek at 1 2. rewrite Ht. cbn [hd_error opt_eq].
  replace (N.eqb 42 47) with false by reflexivity. replace (N.eqb 42 42) with true by reflexivity.
  unfold lex_block_comment. destruct (next_cons (next s) _ _ Ht) as [Hc2 Ht2].
  destruct (block_comment_loop_inverse lit (S (length (rest (next (next s))))) (next (next s)) [] tail Hss Ht2) as (s' & E & Hs'); [lia|].
  rewrite E. cbn. eauto.
Qed.

Theorem relex_description lit tail s :
  no_nl lit -> line_end tail ->
  match lit with [] => True | c :: _ => is_space c = false end ->
  rest s = token_source (mkTok DESCRIPTION lit pos0 pos0) ++ tail -> lexes_to s DESCRIPTION lit tail.
Proof.
  cbn [token_source ty BclLexer.lit]. intros Hnl Hend Hhd Hr. cbn [app] in Hr.
  unfold lexes_to, next_token. cbn [next_token_fuel].
  destruct (next_cons s _ _ Hr) as [Hc Ht]. rewrite Hc. rewrite (op_of_none 124) by auto.
  replace (N.eqb 124 47) with false by reflexivity. replace (N.eqb 124 34) with false by reflexivity.
  replace (N.eqb 124 124) with true by reflexivity.
  unfold lex_description_line.
  destruct (skip_one_space (S (length (rest (next s)))) (next s) (lit ++ tail) Ht) as (s1 & E1 & H1); [|lia|].
  { destruct lit as [|c r]; cbn [app].
    - destruct Hend as [->|He]; [exact I|]. destruct tail as [|d t]; [exact I|]. cbn in He. injection He as ->. auto.
    - left. exact Hhd. }
  rewrite E1.
  destruct (take_line_inverse lit (S (length (rest s1))) s1 [] tail Hnl Hend H1) as (s' & E & Hs'); [lia|].
  rewrite E. cbn. eauto.
Qed.

(* ---- identifiers and numbers: the literal is its own source -------------------------------- *)
Definition ident_char (c : N) : bool := is_letter c || is_digit c || N.eqb c 95.
(* what makes NextToken start an identifier on c *)
Definition ident_start (c : N) : Prop :=
  op_of c = None /\ c <> 47 /\ c <> 34 /\ c <> 124 /\ c <> 10 /\
  is_space c = false /\ is_digit c = false /\ is_letter c = true.
Definition number_start (c : N) : Prop :=
  op_of c = None /\ c <> 47 /\ c <> 34 /\ c <> 124 /\ c <> 10 /\ is_space c = false /\ is_digit c = true.
Definition not_extending (p : N -> bool) (tail : list N) : Prop :=
  match tail with [] => True | c :: _ => p c = false end.

Lemma ident_loop_inverse : forall r fuel s acc tail,
  forallb ident_char r = true -> not_extending ident_char tail ->
  rest s = r ++ tail -> (length (rest s) < fuel)%nat ->
  exists s', ident_loop fuel s acc = ROk (acc ++ r) s' /\ rest s' = tail.
Proof.
  induction r as [|c r IH]; intros fuel s acc tail Hr Ht Hs Hf; (destruct fuel as [|f]; [lia|]); cbn [ident_loop].
  - cbn in Hs. unfold peek. rewrite Hs. exists s. rewrite app_nil_r.
    destruct tail as [|d t]; cbn [hd_error]; [auto|]. unfold not_extending, ident_char in Ht. rewrite Ht. auto.
  - cbn [forallb] in Hr. apply andb_true_iff in Hr. destruct Hr as [Hc Hr].
    cbn [app] in Hs. unfold peek. rewrite Hs. cbn [hd_error]. unfold ident_char in Hc. rewrite Hc.
    destruct (next_cons s _ _ Hs) as [Hch Hn].
    destruct (IH f (next s) (acc ++ ch_list (next s)) tail Hr Ht Hn) as (s' & E & Hs').
    { rewrite Hn. rewrite Hs in Hf. cbn in Hf. lia. }
    exists s'. rewrite E. unfold ch_list. rewrite Hch, <- app_assoc. auto.
Qed.

Theorem relex_ident c r tail s :
  ident_start c -> forallb ident_char r = true -> not_extending ident_char tail ->
  rest s = (c :: r) ++ tail ->
  exists typ, (typ = IDENT \/ typ = BOOL) /\ lexes_to s typ (c :: r) tail.
Proof.
  intros (Hop & H47 & H34 & H124 & H10 & Hsp & Hdg & Hlt) Hr Ht Hs. cbn [app] in Hs.
  unfold lexes_to, next_token. cbn [next_token_fuel].
  destruct (next_cons s _ _ Hs) as [Hc Hn]. rewrite Hc, Hop.
  replace (N.eqb c 47) with false by lia. replace (N.eqb c 34) with false by lia.
  replace (N.eqb c 124) with false by lia. replace (N.eqb c 10) with false by lia.
  rewrite Hsp, Hdg, Hlt. unfold lex_ident.
  destruct (ident_loop_inverse r (S (length (rest (next s)))) (next s) (ch_list (next s)) tail Hr Ht Hn) as (s' & E & Hs'); [lia|].
  rewrite E. unfold ch_list. rewrite Hc. cbn [app].
  destruct (list_N_eqb (c :: r) lit_true || list_N_eqb (c :: r) lit_false)%bool; eauto 8.
Qed.

(* digits, then optionally a dot and more digits *)
Lemma number_loop_digits : forall r fuel s sd acc tail,
  forallb is_digit r = true ->
  match tail with [] => True | c :: _ => is_digit c = false /\ (c = 46 -> sd = false -> False) /\ (c = 46 -> sd = true -> False) end ->
  rest s = r ++ tail -> (length (rest s) < fuel)%nat ->
  exists s', number_loop fuel s sd acc = ROk (if sd then DECIMAL else INT, acc ++ r) s' /\ rest s' = tail.
Proof.
  induction r as [|c r IH]; intros fuel s sd acc tail Hr Ht Hs Hf; (destruct fuel as [|f]; [lia|]); cbn [number_loop].
  - cbn in Hs. unfold peek. rewrite Hs. exists s. rewrite app_nil_r.
    destruct tail as [|d t]; cbn [hd_error]; [auto|]. destruct Ht as (Hd & Hdot1 & Hdot2). rewrite Hd.
    destruct (N.eqb d 46) eqn:E46; [|auto]. apply N.eqb_eq in E46. destruct sd; exfalso; auto.
  - cbn [forallb] in Hr. apply andb_true_iff in Hr. destruct Hr as [Hc Hr].
    cbn [app] in Hs. unfold peek. rewrite Hs. cbn [hd_error]. rewrite Hc.
    destruct (next_cons s _ _ Hs) as [Hch Hn].
    destruct (IH f (next s) sd (acc ++ ch_list (next s)) tail Hr Ht Hn) as (s' & E & Hs').
    { rewrite Hn. rewrite Hs in Hf. cbn in Hf. lia. }
    exists s'. rewrite E. unfold ch_list. rewrite Hch, <- app_assoc. auto.
Qed.

Theorem relex_int c r tail s :
  number_start c -> forallb is_digit r = true ->
  match tail with [] => True | d :: _ => is_digit d = false /\ d <> 46 end ->
  rest s = (c :: r) ++ tail -> lexes_to s INT (c :: r) tail.
Proof.
  intros (Hop & H47 & H34 & H124 & H10 & Hsp & Hdg) Hr Ht Hs. cbn [app] in Hs.
  unfold lexes_to, next_token. cbn [next_token_fuel].
  destruct (next_cons s _ _ Hs) as [Hc Hn]. rewrite Hc, Hop.
  replace (N.eqb c 47) with false by lia. replace (N.eqb c 34) with false by lia.
  replace (N.eqb c 124) with false by lia. replace (N.eqb c 10) with false by lia.
  rewrite Hsp, Hdg. unfold lex_number.
  assert (Ht' : match tail with [] => True | c0 :: _ => is_digit c0 = false /\ (c0 = 46 -> false = false -> False) /\ (c0 = 46 -> false = true -> False) end).
  { destruct tail as [|d t]; [exact I|]. destruct Ht as [Hd H46]. split; [exact Hd|]. split; intros; [contradiction|discriminate]. }
  destruct (number_loop_digits r (S (length (rest (next s)))) (next s) false (ch_list (next s)) tail Hr Ht' Hn) as (s' & E & Hs'); [lia|].
  rewrite E. unfold ch_list. rewrite Hc. cbn. eauto.
Qed.

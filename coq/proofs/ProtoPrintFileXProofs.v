(* ProtoPrintFileXProofs.v — C05 on the extended descriptor of model/ProtoPrintFileX.v:
   (1) options on the fields of synthetic map entries: the round trip holds EXACTLY for the descriptors that have
       none; a concrete compiled-file shape (map:key:id62) is the counterexample of the whole-descriptor statement;
   (2) typed file options: the printed token is read back as the same typed value (printer since /repo b69d449);
       the raw writing of the printer before that commit is refuted. *)
From Coq Require Import String Ascii List Arith NArith ZArith Bool Lia ZifyN ZifyNat ZifyBool Permutation.
From J5V.lib Require Import Outcome Corr.
From J5V.model Require Import ProtoPrintLit ProtoPrint ProtoPrintCorr ProtoPrintFile ProtoParseFile ProtoPrintFileWf ProtoPrintFileX.
From J5V.proofs Require Import ProtoPrintLitProofs ProtoPrintProofs ProtoPrintFileSyntaxProofs ProtoPrintFileSortProofs
  ProtoPrintFileSemProofs ProtoPrintFileFullProofs ProtoPrintFileWfProofs.
Import ListNotations.
Local Open Scope N_scope.
Local Open Scope bool_scope.

(* ------------------------------------------------------------------ small facts *)
Lemma nlist_eqb_eq : forall a b : list N, list_eqb N.eqb a b = true -> a = b.
Proof.
  induction a as [|x r IH]; intros [|y s] H; try discriminate; [reflexivity|].
  cbn [list_eqb] in H. apply andb_true_iff in H as [H1 H2]. apply N.eqb_eq in H1. subst. f_equal. apply IH. exact H2.
Qed.

Lemma token_eqb_eq a b : token_eqb a b = true -> a = b.
Proof.
  destruct a, b; cbn [token_eqb]; intro H; try discriminate; try reflexivity; f_equal; apply nlist_eqb_eq; exact H.
Qed.

Lemma bytes_small_sound s : bytes_small s = true -> Forall (fun c => c < 256) s.
Proof.
  unfold bytes_small. intro H. apply Forall_forall. intros c Hc.
  rewrite forallb_forall in H. specialize (H c Hc). apply N.ltb_lt. exact H.
Qed.

(* ------------------------------------------------------------------ (2) typed file options *)
Definition fopt_val_ok (v : fopt_val) : Prop :=
  match v with FStr s => Forall (fun c => c < 256) s | FBool _ => True end.

Theorem fopt_roundtrip v : fopt_val_ok v -> fopt_read (fopt_token v) = Some v.
Proof.
  destruct v as [[|]|s]; cbn [fopt_val_ok fopt_token fopt_read]; intro H; try reflexivity.
  rewrite (parse_print_string s H). reflexivity.
Qed.

(* the token is a value of the option-value grammar (what the file theorem asks of a file option) *)
Lemma fopt_token_scalar v : is_scalar_token (fopt_token v) = true.
Proof. destruct v as [[|]|s]; reflexivity. Qed.

Lemma fopt_typed_sound o : fopt_typed_b o = true ->
  exists v, snd o = fopt_token v /\ fopt_val_ok v /\ fopt_read (snd o) = Some v.
Proof.
  unfold fopt_typed_b. destruct (fopt_read (snd o)) as [v|] eqn:Hr; [|discriminate].
  intro H. apply andb_true_iff in H as [H1 H2]. exists v. apply token_eqb_eq in H1.
  split; [symmetry; exact H1|]. split; [|reflexivity].
  destruct v as [bv|s]; [exact I|]. cbn [fopt_val_ok]. apply bytes_small_sound. exact H2.
Qed.

Lemma fopt_typed_wf o : fopt_typed_b o = true -> wf_fopt o.
Proof.
  intro H. destruct (fopt_typed_sound o H) as (v & Hv & _ & _). unfold wf_fopt. rewrite Hv. apply fopt_token_scalar.
Qed.

(* the file options of a typed descriptor come back from the printed tokens as the same typed values *)
Theorem file_options_roundtrip imp D : wf_dfile imp D -> fopts_typed_b D = true ->
  exists D', parse_file_tokens imp (print_file_tokens (to_symtab (dfile_symtab imp D)) D) = Some D'
    /\ map (fun o => (fst o, fopt_read (snd o))) (d_fopts D') = map (fun o => (fst o, fopt_read (snd o))) (d_fopts D)
    /\ Forall (fun o => exists v, fopt_read (snd o) = Some v /\ snd o = fopt_token v /\ fopt_val_ok v) (d_fopts D').
Proof.
  intros Hw Ht. exists (canon_file D). split; [exact (file_roundtrip imp D Hw)|].
  assert (He : d_fopts (canon_file D) = d_fopts D) by reflexivity. rewrite He. split; [reflexivity|].
  apply Forall_forall. intros o Ho. unfold fopts_typed_b in Ht. rewrite forallb_forall in Ht.
  destruct (fopt_typed_sound o (Ht o Ho)) as (v & Hv & Hok & Hr). exists v. auto.
Qed.

(* the printer before b69d449 wrote the value raw: for the value a, double quote, b the text between the
   quotes of the option statement contains a bare double quote *)
Definition raw_witness : fopt_val := FStr [97; 34; 98].

Theorem fopt_raw_refuted : fopt_val_ok raw_witness /\ fopt_read (fopt_token_raw raw_witness) <> Some raw_witness.
Proof. split; [repeat constructor|]. vm_compute. discriminate. Qed.

(* ------------------------------------------------------------------ (1) map entry field options *)
Definition entry_equiv (a b : entry_opts) : Prop :=
  eo_msg a = eo_msg b /\ eo_field a = eo_field b
  /\ opts_equiv (eo_key a) (eo_key b) /\ opts_equiv (eo_value a) (eo_value b).

(* descriptors with their map entry field options: the dfile parts equivalent, and the same options on the same
   map entries (an entry without options counts as absent) *)
Definition desc_equiv_x (D D' : dfilex) : Prop :=
  desc_equiv (x_file D) (x_file D')
  /\ perm_equiv entry_equiv (live_entries (x_entries D)) (live_entries (x_entries D')).

Definition wf_dfilex (imp : xsymtab) (D : dfilex) : Prop :=
  wf_dfile imp (x_file D) /\ entries_wf_b D = true.

Definition x_symtab (imp : xsymtab) (D : dfilex) : symtab := to_symtab (dfile_symtab imp (x_file D)).

(* what is read back: the canonical dfile and an empty table *)
Theorem reread_x imp D : wf_dfile imp (x_file D) ->
  parse_file_tokens_x imp (print_file_tokens_x (x_symtab imp D) D)
  = Some {| x_file := canon_file (x_file D); x_entries := [] |}.
Proof.
  intro Hw. unfold parse_file_tokens_x, print_file_tokens_x, x_symtab. rewrite (file_roundtrip imp (x_file D) Hw). reflexivity.
Qed.

Lemma perm_equiv_nil_r {A} (R : A -> A -> Prop) l : perm_equiv R l [] <-> l = [].
Proof.
  split.
  - intros (m & Hp & Hf). inversion Hf; subst. apply Permutation_sym in Hp. apply Permutation_nil in Hp. exact Hp.
  - intros ->. exists []. split; [apply perm_nil|constructor].
Qed.

Lemma loses_iff D : loses_entry_options D = false <-> live_entries (x_entries D) = [].
Proof. unfold loses_entry_options. destruct (live_entries (x_entries D)); split; intro H; try reflexivity; discriminate. Qed.

(* the whole-descriptor statement on the extended descriptor *)
Definition token_statement_x : Prop :=
  forall (imp : xsymtab) (D : dfilex), wf_dfilex imp D ->
    let toks := print_file_tokens_x (x_symtab imp D) D in
    exists D', parse_file_tokens_x imp toks = Some D'
      /\ desc_equiv_x D D'
      /\ wf_dfilex imp D'
      /\ print_file_tokens_x (x_symtab imp D') D' = toks.

(* ... holds for a descriptor exactly when no map entry field carries an option *)
Theorem roundtrip_x_iff imp D : wf_dfilex imp D ->
  let toks := print_file_tokens_x (x_symtab imp D) D in
  (exists D', parse_file_tokens_x imp toks = Some D' /\ desc_equiv_x D D'
              /\ wf_dfilex imp D' /\ print_file_tokens_x (x_symtab imp D') D' = toks)
  <-> loses_entry_options D = false.
Proof.
  intros [Hw He] toks. unfold toks. rewrite (reread_x imp D Hw). split.
  - intros (D' & Hp & (_ & Hq) & _). injection Hp as <-. cbn [x_entries live_entries filter] in Hq.
    apply loses_iff. apply (perm_equiv_nil_r entry_equiv). exact Hq.
  - intro Hl. apply loses_iff in Hl. eexists. split; [reflexivity|]. split; [|split].
    + split; [exact (canon_file_equiv (x_file D))|]. cbn [x_entries live_entries filter]. rewrite Hl. exists []. split; [apply perm_nil|constructor].
    + split; [exact (canon_file_wf imp (x_file D) Hw)|reflexivity].
    + unfold print_file_tokens_x, x_symtab. cbn [x_file]. exact (print_canon_file imp (x_file D)).
Qed.

Corollary roundtrip_x_partial imp D : wf_dfilex imp D -> loses_entry_options D = false ->
  let toks := print_file_tokens_x (x_symtab imp D) D in
  exists D', parse_file_tokens_x imp toks = Some D' /\ desc_equiv_x D D'
             /\ wf_dfilex imp D' /\ print_file_tokens_x (x_symtab imp D') D' = toks.
Proof. intros Hw Hl. apply (roundtrip_x_iff imp D Hw). exact Hl. Qed.

(* every option on a map entry field is lost: the table read back is empty *)
Corollary entry_options_lost imp D D' : wf_dfile imp (x_file D) ->
  parse_file_tokens_x imp (print_file_tokens_x (x_symtab imp D) D) = Some D' -> x_entries D' = [].
Proof. intros Hw H. rewrite (reread_x imp D Hw) in H. injection H as <-. reflexivity. Qed.

(* ------------------------------------------------------------------ the witness *)
Local Open Scope string_scope.
(* what j5convert emits for
     object Foo { field ids map:key:id62 }
   : message Foo { map<string, string> ids = 1; } with, on the value field of Foo.IdsEntry,
     (j5.ext.v1.field).key.format = FORMAT_ID62 and the id62 pattern as (buf.validate.field).string.pattern *)
Definition bs (s : string) : list N := map (fun a => N_of_ascii a) (list_ascii_of_string s).
Definition wk (l i : N) : key := {| k_line := l; k_idx := i |}.
Definition w_opt (idx : N) (parts : list string) (v : rawval) : dopt :=
  {| o_key := wk 0 idx; o_full := map bs parts; o_name := {| pn_abs := false; pn_name := map bs parts |}; o_val := v |}.

Definition w_opt_key : dopt :=
  w_opt 0 ["j5"; "ext"; "v1"; "field"]
    (RMsg [(bs "key", RMsg [(bs "format", RScalar (TIdent (bs "FORMAT_ID62")))])]).
Definition w_opt_pattern : dopt :=
  w_opt 1 ["buf"; "validate"; "field"]
    (RMsg [(bs "string", RMsg [(bs "pattern", RScalar (TLit (print_string_lit (bs "^[0-9A-Za-z]{22}$"))))])]).

Definition w_field : dfield :=
  {| f_key := wk 0 0; f_cm := no_cmt; f_label := LNone;
     f_type := DMapT (bs "string") (bs "IdsEntry") (DScalar (bs "string")); f_name := bs "ids"; f_num := 1;
     f_json := bs "ids"; f_opts := [] |}.

Definition w_file : dfile :=
  {| d_pkg := [bs "t"; bs "v1"]; d_imports := [bs "j5/ext/v1/annotations.proto"; bs "buf/validate/validate.proto"];
     d_fopts := []; d_exts := [];
     d_body := [DMsg (wk 0 0) no_cmt (bs "Foo") [] [DField w_field]] |}.

Definition w_imp : xsymtab :=
  {| x_types := []; x_pkgs := [[bs "j5"; bs "ext"; bs "v1"]; [bs "buf"; bs "validate"]] |}.

Definition w_filex : dfilex :=
  {| x_file := w_file;
     x_entries := [{| eo_msg := [bs "Foo"]; eo_field := bs "ids"; eo_key := []; eo_value := [w_opt_key; w_opt_pattern] |}] |}.

Lemma w_wf : wf_dfilex w_imp w_filex.
Proof. split; [apply wf_dfile_b_sound; vm_compute; reflexivity|vm_compute; reflexivity]. Qed.

Lemma w_loses : loses_entry_options w_filex = true.
Proof. reflexivity. Qed.

Theorem token_statement_x_refuted : ~ token_statement_x.
Proof.
  intro H. specialize (H w_imp w_filex w_wf). apply (roundtrip_x_iff w_imp w_filex w_wf) in H.
  rewrite w_loses in H. discriminate.
Qed.

(* the same witness, spelled out: the text is read back (as map<string, string> ids = 1), but not as an
   equivalent descriptor *)
Theorem map_entry_witness :
  wf_dfilex w_imp w_filex
  /\ exists D', parse_file_tokens_x w_imp (print_file_tokens_x (x_symtab w_imp w_filex) w_filex) = Some D'
       /\ x_entries D' = [] /\ ~ desc_equiv_x w_filex D'.
Proof.
  split; [exact w_wf|]. destruct w_wf as [Hw _]. eexists. split; [exact (reread_x w_imp w_filex Hw)|].
  split; [reflexivity|]. intros (_ & Hq). cbn [x_entries live_entries filter] in Hq.
  apply (perm_equiv_nil_r entry_equiv) in Hq. vm_compute in Hq. discriminate.
Qed.

(* non-vacuity of the positive half: the same file without entry options *)
Definition w_filex_plain : dfilex := {| x_file := w_file; x_entries := [] |}.
Lemma w_plain_ok : wf_dfilex w_imp w_filex_plain /\ loses_entry_options w_filex_plain = false.
Proof. split; [split; [apply wf_dfile_b_sound; vm_compute; reflexivity|reflexivity]|reflexivity]. Qed.

(* ------------------------------------------------------------------ (3) the text statement for a renderer *)
(* C05_full_statement of props/C05.v with the abstract scan replaced by the lexer model (scan_text) and the
   hypothesis "scan (render D) = the model's tokens" replaced by the computable fact the file stream evaluates on
   every printed text: the bytes are a layout (model/ProtoLayout.v) of the comment-free tokens. *)
From J5V.model Require Import ProtoLex ProtoLayout ProtoPrintFileErase.
From J5V.proofs Require Import ProtoLexProofs ProtoPrintFileTextProofs.

Definition renders_layout (render : xsymtab -> dfile -> list N) : Prop :=
  forall imp D, wf_dfile imp D ->
    is_layout (print_file_tokens_nc (to_symtab (dfile_symtab imp D)) D) (render imp D) = true.

Lemma print_nc_canon imp D :
  print_file_tokens_nc (to_symtab (dfile_symtab imp (canon_file D))) (canon_file D)
  = print_file_tokens_nc (to_symtab (dfile_symtab imp D)) D.
Proof. unfold print_file_tokens_nc. rewrite lay_canon_file. reflexivity. Qed.

Theorem full_layout (render : xsymtab -> dfile -> list N) : renders_layout render ->
  forall imp D, wf_dfile imp D ->
    exists D0, read_text imp (render imp D) = Some (erase_dfile D0)
      /\ desc_equiv D D0 /\ wf_dfile imp D0
      /\ scan_text (render imp D0) = scan_text (render imp D).
Proof.
  intros Hr imp D Hw. exists (canon_file D).
  split; [exact (text_roundtrip imp D (render imp D) Hw (Hr imp D Hw))|].
  split; [exact (canon_file_equiv D)|]. pose proof (canon_file_wf imp D Hw) as Hw'. split; [exact Hw'|].
  rewrite (scan_layout _ _ (Hr imp D Hw)), (scan_layout _ _ (Hr imp (canon_file D) Hw')).
  rewrite print_nc_canon. reflexivity.
Qed.

(* the one-space rendering is such a renderer on descriptors whose tokens are lexable: the statement is not
   about an empty class of renderers *)
Definition render_spaced (imp : xsymtab) (D : dfile) : list N :=
  spaced (print_file_tokens_nc (to_symtab (dfile_symtab imp D)) D).

(* ------------------------------------------------------------------ (4) the empty message option printed twice *)
(* printOption before /repo 847fc16: an option statement whose (simplified) value is an empty message and whose
   source is not on one line was written twice *)
Definition dup_opts (e : selem) : selem :=
  match e with
  | SMsg c n o body => SMsg c n (o ++ o) body
  | x => x
  end.

Definition w2_opt : dopt :=
  w_opt 0 ["j5"; "ext"; "v1"; "message"] (RMsg [(bs "object", RMsg [])]).
Definition w2_field : dfield :=
  {| f_key := wk 0 0; f_cm := no_cmt; f_label := LNone; f_type := DSingle (DScalar (bs "string")); f_name := bs "a";
     f_num := 1; f_json := bs "a"; f_opts := [] |}.
Definition w2_file : dfile :=
  {| d_pkg := [bs "hand"; bs "v1"]; d_imports := [bs "j5/ext/v1/annotations.proto"]; d_fopts := []; d_exts := [];
     d_body := [DMsg (wk 0 0) no_cmt (bs "Multi") [w2_opt] [DField w2_field]] |}.
Definition w2_imp : xsymtab := {| x_types := []; x_pkgs := [[bs "j5"; bs "ext"; bs "v1"]] |}.

Definition w2_prev_tokens : list token :=
  let s := lay_file (to_symtab (dfile_symtab w2_imp w2_file)) w2_file in
  emit_file {| s_pkg := s_pkg s; s_imports := s_imports s; s_fopts := s_fopts s; s_exts := s_exts s;
               s_body := map dup_opts (s_body s) |}.

Definition msg_opt_count (d : dfile) : list nat :=
  map (fun e => match e with DMsg _ _ _ o _ => length o | _ => 0%nat end) (d_body d).

Lemma w2_wf : wf_dfile w2_imp w2_file.
Proof. apply wf_dfile_b_sound. vm_compute. reflexivity. Qed.

Lemma w2_prev_read : option_map msg_opt_count (parse_file_tokens w2_imp w2_prev_tokens) = Some [2%nat].
Proof. vm_compute. reflexivity. Qed.

Lemma opts_equiv_length a b : opts_equiv a b -> length a = length b.
Proof. intros (m & Hp & Hf). rewrite (Permutation_length Hp). clear Hp. induction Hf; cbn; congruence. Qed.

Lemma desc_equiv_opt_count d d' : desc_equiv d d' ->
  Permutation (msg_opt_count d) (msg_opt_count d') .
Proof.
  intros (_ & _ & _ & _ & (m & Hp & Hf)). unfold msg_opt_count.
  apply (Permutation_trans (Permutation_map _ Hp)). clear Hp.
  induction Hf as [|x y l l' Hxy Hf IH]; [constructor|]. cbn [map].
  replace (match y with DMsg _ _ _ o _ => length o | _ => 0%nat end)
     with (match x with DMsg _ _ _ o _ => length o | _ => 0%nat end).
  - constructor. exact IH.
  - inversion Hxy; subst; try reflexivity. apply opts_equiv_length. assumption.
Qed.

Theorem empty_option_previous_refuted :
  wf_dfile w2_imp w2_file
  /\ exists D', parse_file_tokens w2_imp w2_prev_tokens = Some D' /\ ~ desc_equiv w2_file D'.
Proof.
  split; [exact w2_wf|]. pose proof w2_prev_read as H.
  destruct (parse_file_tokens w2_imp w2_prev_tokens) as [D'|]; [|discriminate]. cbn [option_map] in H. injection H as H.
  exists D'. split; [reflexivity|]. intro He. apply desc_equiv_opt_count in He. rewrite H in He.
  change (msg_opt_count w2_file) with [1%nat] in He. apply Permutation_length_1 in He. discriminate.
Qed.

(* ------------------------------------------------------------------ (5) identifiers that protobuf does not allow *)
(* the compiler accepts `object Élan { field naïve string }` (the BCL lexer takes unicode letters) and builds
   message Élan { string naïve = 1; }.  The descriptor is inside the token-level theorem (identifiers are byte strings
   there), but its printed tokens are not all tokens the lexer model can read: no rendering of them scans back.
   (live known finding, C05 + C16) *)
Definition w3_field : dfield :=
  {| f_key := wk 0 0; f_cm := no_cmt; f_label := LNone; f_type := DSingle (DScalar (bs "string"));
     f_name := [110; 97; 195; 175; 118; 101]; f_num := 1; f_json := [110; 97; 195; 175; 118; 101]; f_opts := [] |}.
Definition w3_file : dfile :=
  {| d_pkg := [bs "uni"; bs "v1"]; d_imports := []; d_fopts := []; d_exts := [];
     d_body := [DMsg (wk 0 0) no_cmt [195; 137; 108; 97; 110] [] [DField w3_field]] |}.
Definition w3_imp : xsymtab := {| x_types := []; x_pkgs := [] |}.
Definition w3_tokens : list token := print_file_tokens_nc (to_symtab (dfile_symtab w3_imp w3_file)) w3_file.

Theorem non_ascii_identifier_witness :
  wf_dfile w3_imp w3_file
  /\ forallb tok_ok w3_tokens = false
  /\ scan_text (spaced w3_tokens) <> Some w3_tokens.
Proof.
  split; [apply wf_dfile_b_sound; vm_compute; reflexivity|]. split; [vm_compute; reflexivity|].
  vm_compute. discriminate.
Qed.

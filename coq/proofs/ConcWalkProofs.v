(* ConcWalkProofs.v — census ⇒ the walks of any number of goroutines are conflict free; a shared per-call
   counter (seeded C10-F) is a conflict. *)
From Coq Require Import String List Bool.
From J5V.model Require Import Conc ConcSites ConcState ConcWalk.
From J5V.gen Require ConcStateGen.
Import ListNotations.
Local Open Scope string_scope.

Lemma lf_writes_nothing_no_walk_writes lf ws : lf_writes_nothing lf ws = true -> walk_writes lf ws = [].
Proof.
  unfold lf_writes_nothing, walk_writes. induction ws as [|w r IH]; cbn [forallb filter]; intros H; [reflexivity|].
  apply andb_true_iff in H. destruct H as [H1 H2].
  destruct (in_strs (w_fn w) lf); cbn [negb orb andb] in *.
  - rewrite H1. cbn. apply IH. exact H2.
  - apply IH. exact H2.
Qed.

(* the walks only read: no two accesses of different goroutines conflict *)
Theorem walks_conflict_free lf reads ws : lf_writes_nothing lf ws = true ->
  forall t1 t2 e1 e2, In e1 (walk_events t1 lf reads ws) -> In e2 (walk_events t2 lf reads ws) -> ~ wconflict e1 e2.
Proof.
  intros H t1 t2 e1 e2 H1 H2 (_ & _ & Hw). unfold walk_events in *.
  rewrite (lf_writes_nothing_no_walk_writes lf ws H) in *. cbn [map] in *. rewrite app_nil_r in *.
  apply in_map_iff in H1. destruct H1 as (f1 & <- & _). apply in_map_iff in H2. destruct H2 as (f2 & <- & _).
  destruct Hw as [Hw|Hw]; discriminate.
Qed.

Theorem code_walks_conflict_free :
  forall t1 t2 e1 e2,
    In e1 (walk_events t1 ConcStateGen.lockfree_fns ConcStateGen.lf_read_fields ConcStateGen.state_writes) ->
    In e2 (walk_events t2 ConcStateGen.lockfree_fns ConcStateGen.lf_read_fields ConcStateGen.state_writes) ->
    ~ wconflict e1 e2.
Proof. apply walks_conflict_free. vm_compute. reflexivity. Qed.

(* the census row of a nesting counter moved onto the shared Codec (atomic.Int32.Add in decodeValue): two
   decodes in flight conflict on the cell — not a data race (atomic), but per-call state shared between calls *)
Definition shared_counter_writes : list write :=
  ("codec.decoder.decodeValue", "field:codec.Codec.depth", "extmethod:Add") :: ConcStateGen.state_writes.

Theorem shared_counter_conflicts :
  lf_writes_nothing ConcStateGen.lockfree_fns shared_counter_writes = false /\
  exists e1 e2,
    In e1 (walk_events 0 ConcStateGen.lockfree_fns ConcStateGen.lf_read_fields shared_counter_writes) /\
    In e2 (walk_events 1 ConcStateGen.lockfree_fns ConcStateGen.lf_read_fields shared_counter_writes) /\
    wconflict e1 e2.
Proof.
  split; [vm_compute; reflexivity|].
  exists (WWrite 0 "field:codec.Codec.depth" "codec.decoder.decodeValue" "extmethod:Add"),
         (WWrite 1 "field:codec.Codec.depth" "codec.decoder.decodeValue" "extmethod:Add").
  split; [|split].
  - unfold walk_events. apply in_or_app. right. vm_compute. left. reflexivity.
  - unfold walk_events. apply in_or_app. right. vm_compute. left. reflexivity.
  - split; [discriminate|split; [reflexivity|left; reflexivity]].
Qed.

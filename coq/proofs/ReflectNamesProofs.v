(* ReflectNamesProofs.v — the reader with the client property name check (model/ReflectNames.v, the
   prepared repair notes/schb-fix.patch): what it accepts has pairwise distinct client property names
   through all flatten levels, for ALL descriptor sets; it is the reader as it is, or an error. *)
From Coq Require Import String List NArith Bool.
From J5V.lib Require Import Outcome.
From J5V.model Require Import ReflectDesc ReflectSchema Reflect ReflectOwn ReflectNames ReflectSpec.
From J5V.proofs Require Import ReflectProofs ReflectInvProofs ReflectPathProofs ReflectFlattenProofs ReflectFuelProofs ReflectDeclProofs ReflectOrderProofs ReflectOwnProofs ReflectOwnExactProofs.
Import ListNotations.

Lemma lookup_in_entry (S : sset) k e : lookup S k = Some e -> exists k', In (k', e) S.
Proof.
  induction S as [|[k0 e0] S IH]; cbn; intros H; [discriminate|].
  destruct (ref_eqb k0 k).
  - injection H as <-. exists k0. left. reflexivity.
  - destruct (IH H) as [k' Hk]. exists k'. right. exact Hk.
Qed.

(* a passed check passed on every ref of the list *)
Lemma names_check_all S es :
  names_check S es = Ok tt -> forall k e, In (k, e) es -> names_check_entry S e = Ok tt.
Proof.
  induction es as [|[k0 e0] es IH]; cbn; intros H k e Hin; [contradiction|].
  destruct (names_check_entry S e0) as [[]| | |] eqn:E0; cbn in H; try discriminate.
  destruct Hin as [Heq|Hin].
  - injection Heq as _ <-. exact E0.
  - exact (IH H k e Hin).
Qed.

Lemma names_check_unit S es u : names_check S es = Ok u -> names_check S es = Ok tt.
Proof. destruct u. exact (fun H => H). Qed.

(* what a passed check says about an object: ClientProperties returned, and no name twice *)
Lemma names_check_entry_object S n d en am ps :
  names_check_entry S (Linked (RObject n d en am ps)) = Ok tt ->
  exists cps, client_props (length S + 1) S ps = Ok cps /\ NoDup (map p_json cps).
Proof.
  cbn. destruct (client_props (length S + 1) S ps) as [cps| | |]; cbn; try discriminate.
  destruct (names_unique_b cps) eqn:En; [|discriminate].
  intros _. exists cps. split; [reflexivity|]. apply nodup_str_NoDup. exact En.
Qed.

(* ---- SchemaSetFromFiles with the repair *)

(* it is the reader as it is, or it does not answer *)
Theorem o_reflect_checked_ok D fs s : o_reflect_checked D fs = Ok s -> o_reflect D fs = Ok s.
Proof.
  unfold o_reflect_checked. destruct (o_reflect D fs) as [s0| | |]; cbn; try discriminate.
  destruct (names_check (fst s0) (rev (fst s0))) as [u| | |]; cbn; try discriminate.
  intros H. injection H as <-. reflexivity.
Qed.

Theorem o_reflect_checked_not_ok D fs :
  (forall s, o_reflect D fs <> Ok s) -> o_reflect_checked D fs = o_reflect D fs.
Proof.
  unfold o_reflect_checked. destruct (o_reflect D fs) as [s0| | |]; cbn; intros H; try reflexivity.
  exfalso. exact (H s0 eq_refl).
Qed.

(* the clause: every schema of an accepted set has pairwise distinct client property names, the
   properties hoisted from flattened objects at every depth included *)
Theorem o_reflect_checked_client_names D fs S ow :
  o_reflect_checked D fs = Ok (S, ow) ->
  forall k r, lookup S k = Some (Linked r) ->
  exists cps, client_props_of S r = Ok cps /\ NoDup (map p_json cps).
Proof.
  intros HC k r Hl.
  pose proof (o_reflect_checked_ok D fs (S, ow) HC) as HO.
  destruct (o_reflect_ok_guarantees D fs S ow HO) as (_ & _ & _ & Hnames & _ & _).
  destruct r as [n d en am ps|n d ps|n d a b c].
  - unfold o_reflect_checked in HC. rewrite HO in HC. cbn in HC.
    destruct (names_check S (rev S)) as [u| | |] eqn:EN; cbn in HC; try discriminate.
    destruct (lookup_in_entry S k _ Hl) as [k' Hin].
    apply names_check_unit in EN.
    pose proof (names_check_all S (rev S) EN k' _ (proj1 (in_rev S (k', _)) Hin)) as HE.
    exact (names_check_entry_object S n d en am ps HE).
  - exists ps. split; [reflexivity|]. apply nodup_str_NoDup. exact (Hnames k _ Hl).
  - exists []. split; [reflexivity|]. constructor.
Qed.

(* ---- SchemaCache.Schema with the repair *)

(* an answer is the answer of the cache as it is, with the same new state; every object the call
   registered has pairwise distinct client property names in that state *)
Theorem o_cache_schema_checked_ok D fuel s m s1 r :
  o_cache_schema_checked D fuel s m = (s1, Ok r) ->
  o_cache_schema D fuel s m = (s1, Ok r) /\
  forall k n d en am ps, In (k, Linked (RObject n d en am ps)) (registered (fst s) (fst s1)) ->
    exists cps, client_props (length (fst s1) + 1) (fst s1) ps = Ok cps /\ NoDup (map p_json cps).
Proof.
  unfold o_cache_schema_checked, o_cache_schema.
  destruct (o_message_schema D fuel s m) as [[s2 r2]| | |]; try (intros H; discriminate).
  destruct (names_check (fst s2) (registered (fst s) (fst s2))) as [u| | |] eqn:EN; intros H; try discriminate.
  injection H as <- <-. split; [reflexivity|].
  intros k n d en am ps Hin. apply names_check_unit in EN.
  exact (names_check_entry_object _ n d en am ps (names_check_all _ _ EN k _ Hin)).
Qed.

(* anything but an answer leaves the cache as it was: a name clash is rolled back like a build error *)
Theorem o_cache_schema_checked_rollback D fuel s m :
  (forall r, snd (o_cache_schema_checked D fuel s m) <> Ok r) -> fst (o_cache_schema_checked D fuel s m) = s.
Proof.
  unfold o_cache_schema_checked.
  destruct (o_message_schema D fuel s m) as [[s2 r2]| | |]; try reflexivity.
  destruct (names_check (fst s2) (registered (fst s) (fst s2))) as [u| | |]; cbn; intros H; try reflexivity.
  exfalso. exact (H r2 eq_refl).
Qed.

(* the check adds errors only: when the cache as it is does not answer, neither does the repaired one,
   and with the same outcome *)
Theorem o_cache_schema_checked_not_ok D fuel s m :
  (forall r, snd (o_cache_schema D fuel s m) <> Ok r) ->
  o_cache_schema_checked D fuel s m = o_cache_schema D fuel s m.
Proof.
  unfold o_cache_schema_checked, o_cache_schema.
  destruct (o_message_schema D fuel s m) as [[s2 r2]| | |]; cbn; intros H; try reflexivity.
  exfalso. exact (H r2 eq_refl).
Qed.

(* ---- the check neither panics nor runs out of fuel where ClientProperties returns *)
Lemma in_lookup (S : sset) k e : NoDup (map fst S) -> In (k, e) S -> lookup S k = Some e.
Proof.
  induction S as [|[k0 e0] S IH]; cbn; intros Hnd Hin; [contradiction|].
  inversion Hnd as [|x l Hnot Hnd']. subst x l.
  destruct Hin as [Heq|Hin].
  - injection Heq as -> ->. rewrite ReflectProofs.ref_eqb_refl. reflexivity.
  - destruct (ref_eqb k0 k) eqn:E.
    + apply ReflectProofs.ref_eqb_eq in E. subst k0. exfalso. apply Hnot.
      apply in_map_iff. exists (k, e). split; [reflexivity|exact Hin].
    + exact (IH Hnd' Hin).
Qed.

Lemma names_check_returns S es :
  (forall k r, In (k, Linked r) es -> exists out, client_props_of S r = Ok out) ->
  names_check S es = Ok tt \/ exists c, names_check S es = Err c.
Proof.
  induction es as [|[k0 e0] es IH]; cbn; intros H; [left; reflexivity|].
  assert (He : names_check_entry S e0 = Ok tt \/ exists c, names_check_entry S e0 = Err c).
  { destruct e0 as [|r]; [left; reflexivity|].
    destruct (H k0 r (or_introl eq_refl)) as [out Hout].
    destruct r as [n d en am ps|n d ps|n d a b c]; try (left; reflexivity).
    cbn in Hout. cbn. rewrite Hout. cbn. destruct (names_unique_b out); [left; reflexivity|right; eexists; reflexivity]. }
  destruct He as [He|[c He]]; rewrite He; cbn.
  - apply IH. intros k r Hin. exact (H k r (or_intror Hin)).
  - right. exists c. reflexivity.
Qed.

(* with distinct split names (the hypothesis under which ClientProperties is proved to return) the
   repaired reader neither panics nor runs out of fuel *)
Theorem o_reflect_checked_total D : wf_keys D -> forall fs,
  (forall p, o_reflect_checked D fs <> Panic p) /\ o_reflect_checked D fs <> OutOfFuel.
Proof.
  intros Hwk fs. destruct (o_reflect_total D (proj1 Hwk) fs) as [Hp Hf].
  unfold o_reflect_checked. destruct (o_reflect D fs) as [[S ow]| | |] eqn:EO; cbn.
  - destruct (o_reflect_ok_guarantees D fs S ow EO) as (_ & _ & _ & _ & _ & Hnd).
    pose proof (o_reflect_ok D fs S ow EO) as HR.
    destruct (names_check_returns S (rev S)) as [HN|[c HN]].
    { intros k r Hin. apply in_rev in Hin.
      exact (ReflectFlattenProofs.reflect_client_props_terminate D fs S Hwk HR k r (in_lookup S k _ Hnd Hin)). }
    + rewrite HN. cbn. split; [intros p; discriminate|discriminate].
    + rewrite HN. cbn. split; [intros p; discriminate|discriminate].
  - split; [intros p; discriminate|discriminate].
  - split; [exact (fun p H => Hp p H)|discriminate].
  - exfalso. exact (Hf eq_refl).
Qed.

(* every clause of the property at once for the repaired reader, under wf_paths *)
Theorem o_reflect_checked_full_on_supported D fs :
  ReflectPathProofs.wf_paths D ->
  (forall s, o_reflect_checked D fs <> Panic s) /\ o_reflect_checked D fs <> OutOfFuel /\
  forall S ow, o_reflect_checked D fs = Ok (S, ow) ->
    ReflectSpec.set_consistent D S = true /\
    (forall k r, lookup S k = Some (Linked r) -> exists cps, client_props_of S r = Ok cps /\ NoDup (map p_json cps)) /\
    forall m r, In m (d_msgs D) -> lookup S (msg_key m) = Some (Linked r) ->
      exists pfs, new_prop_set D S r m = Ok pfs /\
        ((forall q f, In (q, Some f) pfs -> ReflectSpec.supported_b (p_schema q) f = true) ->
         (forall q k n d ops opfs p2 f2, In (q, None) pfs -> p_schema q = FOneof k None None None ->
            lookup S k = Some (Linked (ROneof n d ops)) -> new_prop_set D S (ROneof n d ops) m = Ok opfs ->
            In (p2, Some f2) opfs -> ReflectSpec.supported_b (p_schema p2) f2 = true) ->
         ReflectSpec.codec_classes D S m r = (0%N, 0%N) /\ ReflectSpec.codec_classes_strict D S m r = (0%N, 0%N)).
Proof.
  intros Hwp. destruct (o_reflect_checked_total D (proj1 Hwp) fs) as [Hp Hf].
  split; [exact Hp|]. split; [exact Hf|].
  intros S ow HC. destruct (o_reflect_full_on_supported D fs Hwp) as (_ & _ & Hok).
  destruct (Hok S ow (o_reflect_checked_ok D fs (S, ow) HC)) as [Hc Hm].
  split; [exact Hc|]. split; [exact (o_reflect_checked_client_names D fs S ow HC)|exact Hm].
Qed.

(* ================================================================ the checked cache over a history of calls *)

(* ClientProperties does not depend on the fuel once it returns, nor on entries added to the set:
   a run that returned cps returns cps with more fuel in every set that keeps the linked entries *)
Definition linked_sub (S S' : sset) : Prop := forall k r, lookup S k = Some (Linked r) -> lookup S' k = Some (Linked r).

Lemma client_props_mono S S' : linked_sub S S' -> forall f n ps cps,
  client_props f S ps = Ok cps -> client_props (f + n) S' ps = Ok cps.
Proof.
  intros Hsub. induction f as [|f IHf]; intros n ps cps H; [discriminate|].
  change (Datatypes.S f + n) with (Datatypes.S (f + n)).
  revert cps H. induction ps as [|p r IHr]; intros cps H; [exact H|].
  rewrite ReflectFlattenProofs.client_props_cons in H. rewrite ReflectFlattenProofs.client_props_cons.
  assert (Hplain : forall q, obind (client_props (Datatypes.S f) S r) (fun rest => Ok (q :: rest)) = Ok cps ->
                             obind (client_props (Datatypes.S (f + n)) S' r) (fun rest => Ok (q :: rest)) = Ok cps).
  { intros q Hq. destruct (client_props (Datatypes.S f) S r) as [rest| | |] eqn:Er; cbn [obind] in Hq; try discriminate.
    rewrite (IHr rest eq_refl). cbn [obind]. exact Hq. }
  destruct p as [j path rq eo d s].
  destruct s as [kw sp|od ty lr|er rules lr ext|k fl rules ext|k rules lr ext|item rules ext|item rules ext];
    try (apply Hplain; exact H).
  destruct fl; [|apply Hplain; exact H].
  destruct (lookup S k) as [[|[n0 d0 en0 am0 cps0|n0 d0 ps0|n0 d0 a0 b0 c0]]|] eqn:El; try discriminate.
  rewrite (Hsub k _ El).
  destruct (client_props f S cps0) as [children| | |] eqn:Ec; cbn [obind] in H; try discriminate.
  rewrite (IHf n cps0 children Ec). cbn [obind].
  destruct (client_props (Datatypes.S f) S r) as [rest| | |] eqn:Er; cbn [obind] in H; try discriminate.
  rewrite (IHr rest eq_refl). cbn [obind]. exact H.
Qed.

(* every object of the set: ClientProperties returns (at some recursion depth) and no JSON name twice *)
Definition client_names_ok (S : sset) : Prop :=
  forall k n d en am ps, lookup S k = Some (Linked (RObject n d en am ps)) ->
    exists f cps, client_props f S ps = Ok cps /\ NoDup (map p_json cps).

(* a successful build keeps every entry the set had *)
Lemma message_schema_keeps D fuel st m st1 r :
  message_schema D fuel st m = Ok (st1, r) -> ReflectDeclProofs.keeps st st1.
Proof.
  unfold message_schema. destruct (lookup st (msg_key m)) as [[|r0]|] eqn:El; try discriminate.
  - intros H. injection H as <- _. apply ReflectDeclProofs.keeps_refl.
  - pose proof (ReflectDeclProofs.build_msg_k D fuel ((msg_key m, Placeholder) :: st) m) as Hk.
    destruct (build_msg D fuel ((msg_key m, Placeholder) :: st) m) as [[st2 r2]| | |]; cbn [obind]; try discriminate.
    intros H. injection H as <- _. cbn [ReflectDeclProofs.Pk fst] in Hk.
    apply ReflectDeclProofs.keeps_update_other; [exact El|].
    eapply ReflectDeclProofs.keeps_trans; [apply ReflectDeclProofs.keeps_cons; exact El|exact Hk].
Qed.

Lemma o_message_schema_keeps D fuel s m s1 r :
  o_message_schema D fuel s m = Ok (s1, r) -> ReflectDeclProofs.keeps (fst s) (fst s1).
Proof.
  intros H. destruct (o_message_schema_sim D fuel s m) as [He|He]; rewrite H in He; [discriminate|].
  cbn in He. symmetry in He. exact (message_schema_keeps D fuel (fst s) m (fst s1) r He).
Qed.

(* the states any history of calls of the repaired SchemaCache.Schema can reach *)
Inductive o_checked_reach (D : desc) : ost -> Prop :=
| o_checked_new : o_checked_reach D ([], [])
| o_checked_call s m : o_checked_reach D s -> In m (d_msgs D) ->
    o_checked_reach D (fst (o_cache_schema_checked D (size D) s m)).

(* one call keeps the invariant: old objects keep their client properties, new ones were checked *)
Lemma o_cache_schema_checked_names D fuel s m :
  client_names_ok (fst s) -> client_names_ok (fst (fst (o_cache_schema_checked D fuel s m))).
Proof.
  intros HI. unfold o_cache_schema_checked.
  destruct (o_message_schema D fuel s m) as [[s1 r]| | |] eqn:EM; cbn [fst]; try exact HI.
  destruct (names_check (fst s1) (registered (fst s) (fst s1))) as [u| | |] eqn:EN; cbn [fst]; try exact HI.
  pose proof (o_message_schema_keeps D fuel s m s1 r EM) as Hk.
  intros k n d en am ps Hl.
  destruct (lookup (fst s) k) as [e0|] eqn:El0.
  - pose proof (Hk k e0 El0) as Hl1. rewrite Hl in Hl1. injection Hl1 as <-.
    destruct (HI k n d en am ps El0) as (f & cps & Hc & Hn).
    exists (f + 0), cps. split; [|exact Hn].
    apply (client_props_mono (fst s) (fst s1)); [|exact Hc].
    intros k1 r1 H1. exact (Hk k1 _ H1).
  - apply names_check_unit in EN.
    assert (Hin : In (k, Linked (RObject n d en am ps)) (registered (fst s) (fst s1))).
    { unfold registered. apply filter_In. split; [apply in_rev; rewrite rev_involutive; apply lookup_Some_In; exact Hl|].
      cbn [fst]. rewrite El0. reflexivity. }
    destruct (names_check_entry_object _ n d en am ps (names_check_all _ _ EN k _ Hin)) as (cps & Hc & Hn).
    exists (length (fst s1) + 1), cps. split; assumption.
Qed.

(* the invariant of the repaired cache, for EVERY descriptor set (no hypothesis) and every history of calls,
   failed ones included: every object the cache holds has pairwise distinct client property names,
   through all flatten levels *)
Theorem o_checked_reach_names D s : o_checked_reach D s -> client_names_ok (fst s).
Proof.
  induction 1 as [|s m Hs IH Hm].
  - intros k n d en am ps H. discriminate.
  - exact (o_cache_schema_checked_names D (size D) s m IH).
Qed.

(* the repaired cache only visits states the cache visits (a clash is a call that failed) *)
Theorem o_checked_reach_is_reach D s : o_checked_reach D s -> ReflectOwnExactProofs.o_cache_reach D s.
Proof.
  induction 1 as [|s m Hs IH Hm]; [apply ReflectOwnExactProofs.o_reach_new|].
  pose proof (ReflectOwnExactProofs.o_reach_call D s m IH Hm) as Hc.
  unfold o_cache_schema_checked. unfold o_cache_schema in Hc.
  destruct (o_message_schema D (size D) s m) as [[s1 r]| | |]; cbn [fst] in *; try exact IH.
  destruct (names_check (fst s1) (registered (fst s) (fst s1))) as [u| | |]; cbn [fst]; [exact Hc|exact IH|exact IH|exact IH].
Qed.

(* transparency of the ANSWERS of the repaired cache (wf_keys): after any history, an answer is the schema a
   fresh cache builds for that message; and what a fresh repaired cache answers, the build of every
   repaired cache with a history produces (whether its check then passes is the part not proved) *)
Theorem o_checked_cache_answer_is_fresh D : ReflectInvProofs.wf_keys D -> forall s m r,
  o_checked_reach D s -> In m (d_msgs D) ->
  snd (o_cache_schema_checked D (size D) s m) = Ok r ->
  snd (o_cache_schema D (size D) ([], []) m) = Ok r.
Proof.
  intros Hwf s m r Hs Hm H.
  destruct (o_cache_schema_checked D (size D) s m) as [s1 o] eqn:E. cbn [snd] in H. subst o.
  destruct (o_cache_schema_checked_ok D (size D) s m s1 r E) as [Hb _].
  apply (ReflectOwnExactProofs.o_cache_transparent D Hwf s m r (o_checked_reach_is_reach D s Hs) Hm).
  rewrite Hb. reflexivity.
Qed.

Theorem o_checked_fresh_answer_is_built D : ReflectInvProofs.wf_keys D -> forall s m r,
  o_checked_reach D s -> In m (d_msgs D) ->
  snd (o_cache_schema_checked D (size D) ([], []) m) = Ok r ->
  snd (o_cache_schema D (size D) s m) = Ok r.
Proof.
  intros Hwf s m r Hs Hm H.
  apply (ReflectOwnExactProofs.o_cache_transparent D Hwf s m r (o_checked_reach_is_reach D s Hs) Hm).
  destruct (o_cache_schema_checked D (size D) ([], []) m) as [s1 o] eqn:E. cbn [snd] in H. subst o.
  destruct (o_cache_schema_checked_ok D (size D) ([], []) m s1 r E) as [Hb _]. rewrite Hb. reflexivity.
Qed.

(* ---- file order and the repaired reader (wf_keys): what the existing order theorems give.  If the
   repaired reader accepts the files in one order, the BUILD succeeds in every other order; and two orders
   that are both accepted give sets that agree on every message and enum they both hold.  (Not proved:
   that the name check then passes in the other order too.) *)
Theorem o_reflect_checked_order D : ReflectInvProofs.wf_keys D -> forall fs fs',
  Permutation.Permutation fs fs' ->
  (forall S ow, o_reflect_checked D fs = Ok (S, ow) -> exists S' ow', o_reflect D fs' = Ok (S', ow')) /\
  (forall S ow S' ow', o_reflect_checked D fs = Ok (S, ow) -> o_reflect_checked D fs' = Ok (S', ow') ->
     (forall m r r', In m (d_msgs D) -> lookup S (msg_key m) = Some (Linked r) -> lookup S' (msg_key m) = Some (Linked r') -> r = r') /\
     (forall e r r', In e (d_enums D) -> lookup S (enum_key e) = Some (Linked r) -> lookup S' (enum_key e) = Some (Linked r') -> r = r')).
Proof.
  intros Hwf fs fs' Hp. split.
  - intros S ow HC.
    apply (proj1 (ReflectOwnExactProofs.o_reflect_file_order_independent D Hwf fs fs' Hp)).
    exists S, ow. exact (o_reflect_checked_ok D fs (S, ow) HC).
  - intros S ow S' ow' HC HC'.
    pose proof (o_reflect_ok D fs S ow (o_reflect_checked_ok D fs (S, ow) HC)) as HS.
    pose proof (o_reflect_ok D fs' S' ow' (o_reflect_checked_ok D fs' (S', ow') HC')) as HS'.
    destruct (ReflectOrderProofs.collect_perm fs fs' Hp) as [H1 H2].
    exact (proj2 (ReflectOrderProofs.reflect_order_independent D Hwf fs fs' H1 H2) S S' HS HS').
Qed.

(* ---- towards the two equivalences: ClientProperties reads the set only on the keys reachable through
   flattened fields.  Two sets that agree on a key set P which is closed under flatten targets (in the
   first set) give the same run, whatever else they hold.  (With "the keys a build adds are those
   reachable from the message and absent before", P := the keys of the fresh post-state carries the
   verdict of the name check between a cache with a history and a fresh one; that lemma is not proved.) *)
Lemma client_props_agree S S' (P : ref -> Prop) :
  (forall k, P k -> lookup S k = lookup S' k) ->
  (forall k n d en am ps, P k -> lookup S k = Some (Linked (RObject n d en am ps)) ->
     forall t, In t (flat_targets ps) -> P t) ->
  forall f ps, (forall t, In t (flat_targets ps) -> P t) ->
  client_props f S ps = client_props f S' ps.
Proof.
  intros Hag Hcl. induction f as [|f IHf]; intros ps Hps; [reflexivity|].
  induction ps as [|p r IHr]; [reflexivity|].
  assert (Hr : forall t, In t (flat_targets r) -> P t).
  { intros t Ht. apply Hps. unfold flat_targets in *. cbn [flat_map]. apply in_or_app. right. exact Ht. }
  rewrite !ReflectFlattenProofs.client_props_cons. rewrite (IHr Hr).
  destruct p as [j path rq eo d s].
  destruct s as [kw sp|od ty lr|er rules lr ext|k fl rules ext|k rules lr ext|item rules ext|item rules ext]; try reflexivity.
  destruct fl; [|reflexivity].
  assert (Hk : P k).
  { apply Hps. unfold flat_targets. cbn [flat_map p_schema]. left. reflexivity. }
  rewrite <- (Hag k Hk).
  destruct (lookup S k) as [[|[n0 d0 en0 am0 cps0|n0 d0 ps0|n0 d0 a0 b0 c0]]|] eqn:El; try reflexivity.
  rewrite (IHf cps0 (Hcl k n0 d0 en0 am0 cps0 Hk El)). reflexivity.
Qed.

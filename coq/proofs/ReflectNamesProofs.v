(* ReflectNamesProofs.v — the reader with the client property name check (model/ReflectNames.v, the
   prepared repair notes/schb-fix.patch): what it accepts has pairwise distinct client property names
   through all flatten levels, for ALL descriptor sets; it is the reader as it is, or an error. *)
From Coq Require Import String List NArith Bool.
From J5V.lib Require Import Outcome.
From J5V.model Require Import ReflectDesc ReflectSchema Reflect ReflectOwn ReflectNames ReflectSpec.
From J5V.proofs Require Import ReflectProofs ReflectInvProofs ReflectPathProofs ReflectFlattenProofs ReflectFuelProofs ReflectOwnProofs.
Import ListNotations.

Lemma lookup_in_entry (S : sset) k e : lookup S k = Some e -> exists k', In (k', e) S.
Proof.
  induction S as [|[k0 e0] S IH]; cbn; intros H; [discriminate|].
  destruct (ref_eqb k0 k).
  - injection H as <-. exists k0. left. reflexivity.
  - destruct (IH H) as [k' Hk]. exists k'. right. exact Hk.
Qed.

(* a passed check passed on every ref of the list *)
Lemma names_check_all S es :
  names_check S es = Ok tt -> forall k e, In (k, e) es -> names_check_entry S e = Ok tt.
Proof.
  induction es as [|[k0 e0] es IH]; cbn; intros H k e Hin; [contradiction|].
  destruct (names_check_entry S e0) as [[]| | |] eqn:E0; cbn in H; try discriminate.
  destruct Hin as [Heq|Hin].
  - injection Heq as _ <-. exact E0.
  - exact (IH H k e Hin).
Qed.

Lemma names_check_unit S es u : names_check S es = Ok u -> names_check S es = Ok tt.
Proof. destruct u. exact (fun H => H). Qed.

(* what a passed check says about an object: ClientProperties returned, and no name twice *)
Lemma names_check_entry_object S n d en am ps :
  names_check_entry S (Linked (RObject n d en am ps)) = Ok tt ->
  exists cps, client_props (length S + 1) S ps = Ok cps /\ NoDup (map p_json cps).
Proof.
  cbn. destruct (client_props (length S + 1) S ps) as [cps| | |]; cbn; try discriminate.
  destruct (names_unique_b cps) eqn:En; [|discriminate].
  intros _. exists cps. split; [reflexivity|]. apply nodup_str_NoDup. exact En.
Qed.

(* ---- SchemaSetFromFiles with the repair *)

(* it is the reader as it is, or it does not answer *)
Theorem o_reflect_checked_ok D fs s : o_reflect_checked D fs = Ok s -> o_reflect D fs = Ok s.
Proof.
  unfold o_reflect_checked. destruct (o_reflect D fs) as [s0| | |]; cbn; try discriminate.
  destruct (names_check (fst s0) (rev (fst s0))) as [u| | |]; cbn; try discriminate.
  intros H. injection H as <-. reflexivity.
Qed.

Theorem o_reflect_checked_not_ok D fs :
  (forall s, o_reflect D fs <> Ok s) -> o_reflect_checked D fs = o_reflect D fs.
Proof.
  unfold o_reflect_checked. destruct (o_reflect D fs) as [s0| | |]; cbn; intros H; try reflexivity.
  exfalso. exact (H s0 eq_refl).
Qed.

(* the clause: every schema of an accepted set has pairwise distinct client property names, the
   properties hoisted from flattened objects at every depth included *)
Theorem o_reflect_checked_client_names D fs S ow :
  o_reflect_checked D fs = Ok (S, ow) ->
  forall k r, lookup S k = Some (Linked r) ->
  exists cps, client_props_of S r = Ok cps /\ NoDup (map p_json cps).
Proof.
  intros HC k r Hl.
  pose proof (o_reflect_checked_ok D fs (S, ow) HC) as HO.
  destruct (o_reflect_ok_guarantees D fs S ow HO) as (_ & _ & _ & Hnames & _ & _).
  destruct r as [n d en am ps|n d ps|n d a b c].
  - unfold o_reflect_checked in HC. rewrite HO in HC. cbn in HC.
    destruct (names_check S (rev S)) as [u| | |] eqn:EN; cbn in HC; try discriminate.
    destruct (lookup_in_entry S k _ Hl) as [k' Hin].
    apply names_check_unit in EN.
    pose proof (names_check_all S (rev S) EN k' _ (proj1 (in_rev S (k', _)) Hin)) as HE.
    exact (names_check_entry_object S n d en am ps HE).
  - exists ps. split; [reflexivity|]. apply nodup_str_NoDup. exact (Hnames k _ Hl).
  - exists []. split; [reflexivity|]. constructor.
Qed.

(* ---- SchemaCache.Schema with the repair *)

(* an answer is the answer of the cache as it is, with the same new state; every object the call
   registered has pairwise distinct client property names in that state *)
Theorem o_cache_schema_checked_ok D fuel s m s1 r :
  o_cache_schema_checked D fuel s m = (s1, Ok r) ->
  o_cache_schema D fuel s m = (s1, Ok r) /\
  forall k n d en am ps, In (k, Linked (RObject n d en am ps)) (registered (fst s) (fst s1)) ->
    exists cps, client_props (length (fst s1) + 1) (fst s1) ps = Ok cps /\ NoDup (map p_json cps).
Proof.
  unfold o_cache_schema_checked, o_cache_schema.
  destruct (o_message_schema D fuel s m) as [[s2 r2]| | |]; try (intros H; discriminate).
  destruct (names_check (fst s2) (registered (fst s) (fst s2))) as [u| | |] eqn:EN; intros H; try discriminate.
  injection H as <- <-. split; [reflexivity|].
  intros k n d en am ps Hin. apply names_check_unit in EN.
  exact (names_check_entry_object _ n d en am ps (names_check_all _ _ EN k _ Hin)).
Qed.

(* anything but an answer leaves the cache as it was: a name clash is rolled back like a build error *)
Theorem o_cache_schema_checked_rollback D fuel s m :
  (forall r, snd (o_cache_schema_checked D fuel s m) <> Ok r) -> fst (o_cache_schema_checked D fuel s m) = s.
Proof.
  unfold o_cache_schema_checked.
  destruct (o_message_schema D fuel s m) as [[s2 r2]| | |]; try reflexivity.
  destruct (names_check (fst s2) (registered (fst s) (fst s2))) as [u| | |]; cbn; intros H; try reflexivity.
  exfalso. exact (H r2 eq_refl).
Qed.

(* the check adds errors only: when the cache as it is does not answer, neither does the repaired one,
   and with the same outcome *)
Theorem o_cache_schema_checked_not_ok D fuel s m :
  (forall r, snd (o_cache_schema D fuel s m) <> Ok r) ->
  o_cache_schema_checked D fuel s m = o_cache_schema D fuel s m.
Proof.
  unfold o_cache_schema_checked, o_cache_schema.
  destruct (o_message_schema D fuel s m) as [[s2 r2]| | |]; cbn; intros H; try reflexivity.
  exfalso. exact (H r2 eq_refl).
Qed.

(* ---- the check neither panics nor runs out of fuel where ClientProperties returns *)
Lemma in_lookup (S : sset) k e : NoDup (map fst S) -> In (k, e) S -> lookup S k = Some e.
Proof.
  induction S as [|[k0 e0] S IH]; cbn; intros Hnd Hin; [contradiction|].
  inversion Hnd as [|x l Hnot Hnd']. subst x l.
  destruct Hin as [Heq|Hin].
  - injection Heq as -> ->. rewrite ReflectProofs.ref_eqb_refl. reflexivity.
  - destruct (ref_eqb k0 k) eqn:E.
    + apply ReflectProofs.ref_eqb_eq in E. subst k0. exfalso. apply Hnot.
      apply in_map_iff. exists (k, e). split; [reflexivity|exact Hin].
    + exact (IH Hnd' Hin).
Qed.

Lemma names_check_returns S es :
  (forall k r, In (k, Linked r) es -> exists out, client_props_of S r = Ok out) ->
  names_check S es = Ok tt \/ exists c, names_check S es = Err c.
Proof.
  induction es as [|[k0 e0] es IH]; cbn; intros H; [left; reflexivity|].
  assert (He : names_check_entry S e0 = Ok tt \/ exists c, names_check_entry S e0 = Err c).
  { destruct e0 as [|r]; [left; reflexivity|].
    destruct (H k0 r (or_introl eq_refl)) as [out Hout].
    destruct r as [n d en am ps|n d ps|n d a b c]; try (left; reflexivity).
    cbn in Hout. cbn. rewrite Hout. cbn. destruct (names_unique_b out); [left; reflexivity|right; eexists; reflexivity]. }
  destruct He as [He|[c He]]; rewrite He; cbn.
  - apply IH. intros k r Hin. exact (H k r (or_intror Hin)).
  - right. exists c. reflexivity.
Qed.

(* with distinct split names (the hypothesis under which ClientProperties is proved to return) the
   repaired reader neither panics nor runs out of fuel *)
Theorem o_reflect_checked_total D : wf_keys D -> forall fs,
  (forall p, o_reflect_checked D fs <> Panic p) /\ o_reflect_checked D fs <> OutOfFuel.
Proof.
  intros Hwk fs. destruct (o_reflect_total D (proj1 Hwk) fs) as [Hp Hf].
  unfold o_reflect_checked. destruct (o_reflect D fs) as [[S ow]| | |] eqn:EO; cbn.
  - destruct (o_reflect_ok_guarantees D fs S ow EO) as (_ & _ & _ & _ & _ & Hnd).
    pose proof (o_reflect_ok D fs S ow EO) as HR.
    destruct (names_check_returns S (rev S)) as [HN|[c HN]].
    { intros k r Hin. apply in_rev in Hin.
      exact (ReflectFlattenProofs.reflect_client_props_terminate D fs S Hwk HR k r (in_lookup S k _ Hnd Hin)). }
    + rewrite HN. cbn. split; [intros p; discriminate|discriminate].
    + rewrite HN. cbn. split; [intros p; discriminate|discriminate].
  - split; [intros p; discriminate|discriminate].
  - split; [exact (fun p H => Hp p H)|discriminate].
  - exfalso. exact (Hf eq_refl).
Qed.

(* every clause of the property at once for the repaired reader, under wf_paths *)
Theorem o_reflect_checked_full_on_supported D fs :
  ReflectPathProofs.wf_paths D ->
  (forall s, o_reflect_checked D fs <> Panic s) /\ o_reflect_checked D fs <> OutOfFuel /\
  forall S ow, o_reflect_checked D fs = Ok (S, ow) ->
    ReflectSpec.set_consistent D S = true /\
    (forall k r, lookup S k = Some (Linked r) -> exists cps, client_props_of S r = Ok cps /\ NoDup (map p_json cps)) /\
    forall m r, In m (d_msgs D) -> lookup S (msg_key m) = Some (Linked r) ->
      exists pfs, new_prop_set D S r m = Ok pfs /\
        ((forall q f, In (q, Some f) pfs -> ReflectSpec.supported_b (p_schema q) f = true) ->
         (forall q k n d ops opfs p2 f2, In (q, None) pfs -> p_schema q = FOneof k None None None ->
            lookup S k = Some (Linked (ROneof n d ops)) -> new_prop_set D S (ROneof n d ops) m = Ok opfs ->
            In (p2, Some f2) opfs -> ReflectSpec.supported_b (p_schema p2) f2 = true) ->
         ReflectSpec.codec_classes D S m r = (0%N, 0%N) /\ ReflectSpec.codec_classes_strict D S m r = (0%N, 0%N)).
Proof.
  intros Hwp. destruct (o_reflect_checked_total D (proj1 Hwp) fs) as [Hp Hf].
  split; [exact Hp|]. split; [exact Hf|].
  intros S ow HC. destruct (o_reflect_full_on_supported D fs Hwp) as (_ & _ & Hok).
  destruct (Hok S ow (o_reflect_checked_ok D fs (S, ow) HC)) as [Hc Hm].
  split; [exact Hc|]. split; [exact (o_reflect_checked_client_names D fs S ow HC)|exact Hm].
Qed.

(* RulesProofs.v — C12: the constraint the writer emits means, to protovalidate,
   exactly what the j5s declaration says; for all values. *)
From Coq Require Import String List NArith ZArith Bool Lia ZifyN ZifyNat ZifyBool.
From J5V.lib Require Import Outcome.
From J5V.model Require Import RulesDecl RulesWrite Validate Id62.
From J5V.gen Require Id62Gen.
Import ListNotations.
Local Open Scope Z_scope.

(* ---------------------------------------------------------------- strings *)
Lemma str_eqb_eq a b : str_eqb a b = true <-> a = b.
Proof.
  revert b. induction a as [|x r IH]; intros [|y s]; cbn; split; intro H; try congruence.
  - apply andb_true_iff in H as [Hx Hr]. apply N.eqb_eq in Hx. apply IH in Hr. congruence.
  - inversion H; subst. rewrite N.eqb_refl. cbn. apply IH. reflexivity.
Qed.
Lemma str_eqb_refl a : str_eqb a a = true.
Proof. apply str_eqb_eq. reflexivity. Qed.
Lemma str_eqb_sym a b : str_eqb a b = str_eqb b a.
Proof.
  destruct (str_eqb a b) eqn:E.
  - apply str_eqb_eq in E. subst. symmetry. apply str_eqb_refl.
  - destruct (str_eqb b a) eqn:E2; [|reflexivity].
    apply str_eqb_eq in E2. subst. rewrite str_eqb_refl in E. discriminate.
Qed.

Lemma has_prefix_app p x : has_prefix p (p ++ x) = true.
Proof. induction p as [|c r IH]; cbn; [reflexivity|]. rewrite N.eqb_refl. exact IH. Qed.

Lemma with_prefix_idem env n : with_prefix env (with_prefix env n) = with_prefix env n.
Proof.
  unfold with_prefix. destruct (has_prefix (ee_prefix env) n) eqn:E.
  - rewrite E. reflexivity.
  - rewrite has_prefix_app. reflexivity.
Qed.

Lemma mem_str_In s l : mem_str s l = true <-> In s l.
Proof.
  unfold mem_str. rewrite existsb_exists. split.
  - intros [x [Hin Hx]]. apply str_eqb_eq in Hx. subst. exact Hin.
  - intro H. exists s. split; [exact H|apply str_eqb_refl].
Qed.
Lemma memZ_In z l : memZ z l = true <-> In z l.
Proof.
  unfold memZ. rewrite existsb_exists. split.
  - intros [x [Hin Hx]]. apply Z.eqb_eq in Hx. subst. exact Hin.
  - intro H. exists z. split; [exact H|apply Z.eqb_refl].
Qed.

(* ---------------------------------------------------------------- integers *)
Lemma cast_id k z : bound_ok k z = true -> cast k z = z.
Proof.
  destruct k; cbn [bound_ok cast]; intro H;
    apply andb_true_iff in H as [H1 H2]; apply Z.leb_le in H1; apply Z.ltb_lt in H2.
  - unfold wrap_signed.
    change (2 ^ 32) with 4294967296 in *. change (2 ^ (32 - 1)) with 2147483648 in *.
    change (2 ^ 31) with 2147483648 in *.
    destruct (Z_lt_dec z 0) as [Hn|Hp].
    + assert (E : z mod 4294967296 = z + 4294967296).
      { symmetry. apply (Z.mod_unique z 4294967296 (-1)); lia. }
      rewrite E. destruct (Z.ltb_spec (z + 4294967296) 2147483648); lia.
    + rewrite Z.mod_small by lia. destruct (Z.ltb_spec z 2147483648); lia.
  - reflexivity.
  - apply Z.mod_small. lia.
  - apply Z.mod_small. change (2 ^ 64) with 18446744073709551616.
    change (2 ^ 63) with 9223372036854775808 in H2. lia.
Qed.

(* integer rules the compiler accepts: bounds representable in the format,
   minimum <= maximum (checkIntegerBounds) *)
Definition int_adm (k : ikind) (r : int_rules) : bool :=
  opt_bound_ok k (ir_min r) && opt_bound_ok k (ir_max r) &&
  match ir_min r, ir_max r with Some a, Some b => a <=? b | _, _ => true end.

(* what a successful write_int_rules tells *)
Lemma write_int_ok k r c :
  write_int_rules k r = Ok c ->
  int_adm k r = true /\
  c = CInt k
        (match ir_max r with None => NoUb | Some m => if is_true (ir_xmax r) then Lt (cast k m) else Lte (cast k m) end)
        (match ir_min r with None => NoLb | Some m => if is_true (ir_xmin r) then Gt (cast k m) else Gte (cast k m) end).
Proof.
  intro Hw. unfold write_int_rules in Hw. unfold int_adm.
  destruct r as [mn mx xmn xmx]. cbn [ir_min ir_max ir_xmin ir_xmax] in *.
  assert (Hw2 : (if negb (opt_bound_ok k mn) then Err "minimum out of range"
                 else if negb (opt_bound_ok k mx) then Err "maximum out of range"
                 else if match mn, mx with Some a, Some b => b <? a | _, _ => false end
                 then Err "minimum is greater than maximum"
                 else Ok (CInt k
                   (match mx with None => NoUb | Some m => if is_true xmx then Lt (cast k m) else Lte (cast k m) end)
                   (match mn with None => NoLb | Some m => if is_true xmn then Gt (cast k m) else Gte (cast k m) end))) = Ok c).
  { destruct xmn as [[|]|], mn, xmx as [[|]|], mx; try discriminate; exact Hw. }
  clear Hw.
  destruct (opt_bound_ok k mn); cbn [negb] in Hw2; [|discriminate].
  destruct (opt_bound_ok k mx); cbn [negb] in Hw2; [|discriminate].
  destruct (match mn, mx with Some a, Some b => b <? a | _, _ => false end) eqn:E; [discriminate|].
  split; [|congruence].
  cbn [andb]. destruct mn as [a|], mx as [b|]; try reflexivity.
  apply Z.ltb_ge in E. apply Z.leb_le. exact E.
Qed.

Lemma int_sem rm defined k r c z :
  write_int_rules k r = Ok c ->
  eval_scalar rm defined c (VInt z) = int_rule_ok r z.
Proof.
  intro Hw. apply write_int_ok in Hw as [Hadm Hc]. subst c.
  destruct r as [mn mx xmn xmx]. cbn [ir_min ir_max ir_xmin ir_xmax] in *.
  unfold int_adm in Hadm. cbn [ir_min ir_max] in Hadm.
  apply andb_true_iff in Hadm as [Hadm Hord]. apply andb_true_iff in Hadm as [Hrmn Hrmx].
  cbn [eval_scalar]. unfold int_rule_ok. cbn [ir_min ir_max ir_xmin ir_xmax].
  destruct mn as [a|], mx as [b|]; cbn [opt_bound_ok] in *;
    try rewrite (cast_id k a Hrmn); try rewrite (cast_id k b Hrmx);
    destruct (is_true xmn), (is_true xmx); cbn [int_ok];
    try (apply Z.leb_le in Hord);
    repeat match goal with
           | |- context [?x <=? ?y] => destruct (Z.leb_spec x y)
           | |- context [?x <? ?y] => destruct (Z.ltb_spec x y)
           end; cbn; try reflexivity; try lia.
Qed.

(* ---------------------------------------------------------------- uniqueness *)
Lemma value_eqb_sym a b : value_eqb a b = value_eqb b a.
Proof.
  destruct a, b; cbn; try reflexivity.
  - apply Z.eqb_sym.
  - apply str_eqb_sym.
  - apply str_eqb_sym.
  - destruct b0, b; reflexivity.
  - apply Z.eqb_sym.
Qed.

Lemma unique_scan_spec vs : forall seen,
  unique_scan seen vs =
  forallb (fun v => negb (existsb (value_eqb v) seen)) vs && distinct vs.
Proof.
  induction vs as [|v r IH]; intro seen; cbn [unique_scan forallb distinct]; [reflexivity|].
  destruct (existsb (value_eqb v) seen) eqn:E; cbn [negb andb]; [reflexivity|].
  rewrite IH. cbn [existsb].
  assert (H : forallb (fun v0 => negb (value_eqb v0 v || existsb (value_eqb v0) seen)) r =
              negb (existsb (value_eqb v) r) && forallb (fun v0 => negb (existsb (value_eqb v0) seen)) r).
  { clear. induction r as [|w r IH]; cbn [forallb existsb]; [reflexivity|].
    rewrite IH. rewrite (value_eqb_sym w v).
    destruct (value_eqb v w), (existsb (value_eqb w) seen), (existsb (value_eqb v) r); reflexivity. }
  rewrite H.
  destruct (existsb (value_eqb v) r), (forallb (fun v0 => negb (existsb (value_eqb v0) seen)) r), (distinct r); reflexivity.
Qed.

Lemma unique_scan_distinct vs : unique_scan [] vs = distinct vs.
Proof.
  rewrite unique_scan_spec.
  replace (forallb (fun v => negb (existsb (value_eqb v) [])) vs) with true; [reflexivity|].
  symmetry. apply forallb_forall. intros; reflexivity.
Qed.

(* ---------------------------------------------------------------- uuid *)
Lemma uuid_at_late s : forall pos, (36 < pos)%nat -> uuid_at pos s = false.
Proof.
  induction s as [|c r IH]; intros pos H; cbn [uuid_at].
  - apply Nat.eqb_neq. lia.
  - rewrite IH by lia. apply andb_false_r.
Qed.

Lemma uuid_equiv s :
  is_uuid s = (match s with [] => true | _ => uuid_regex s end)
              && negb (match s with [] => true | _ => false end).
Proof.
  unfold is_uuid, uuid_regex.
  do 36 (destruct s as [|? s];
         [vm_compute; reflexivity|];
         cbn [uuid_at take_hex take_dash obnd Nat.eqb orb andb negb];
         try match goal with
             | |- context [is_hex ?c] => destruct (is_hex c); cbn [andb obnd]; [|reflexivity]
             | |- context [N.eqb ?c 45] => destruct (N.eqb c 45); cbn [andb obnd]; [|reflexivity]
             end).
  destruct s as [|c s]; [reflexivity|].
  cbn [uuid_at]. rewrite uuid_at_late by lia. rewrite andb_false_r. reflexivity.
Qed.

(* ---------------------------------------------------------------- enums *)
Definition fulls (env : enum_env) : list str := map (with_prefix env) (ee_options env).

Fixpoint nodup_str (l : list str) : bool :=
  match l with
  | [] => true
  | x :: r => negb (mem_str x r) && nodup_str r
  end.
Lemma nodup_str_NoDup l : nodup_str l = true -> NoDup l.
Proof.
  induction l as [|x r IH]; cbn; intro H; [constructor|].
  apply andb_true_iff in H as [H1 H2]. constructor; [|apply IH; exact H2].
  intro Hin. apply mem_str_In in Hin. rewrite Hin in H1. discriminate.
Qed.

(* the enum's value names are pairwise different (protobuf requires it) *)
Definition wf_env (env : enum_env) : bool := nodup_str (fulls env).

Lemma lookup_from_some env opts : forall i nm z,
  lookup_from env opts i nm = Some z ->
  exists k o, nth_error opts k = Some o /\ z = i + Z.of_nat k /\ with_prefix env o = nm.
Proof.
  induction opts as [|o r IH]; intros i nm z H; cbn in H; [discriminate|].
  destruct (lookup_from env r (i + 1) nm) as [n|] eqn:E.
  - inversion H; subst. apply IH in E as [k [o' [Hn [Hz Hp]]]].
    exists (S k), o'. repeat split; [exact Hn|lia|exact Hp].
  - destruct (str_eqb (with_prefix env o) nm) eqn:E2; [|discriminate].
    inversion H; subst. apply str_eqb_eq in E2.
    exists O, o. repeat split; [lia|exact E2].
Qed.

Lemma lookup_from_none env opts : forall i nm,
  lookup_from env opts i nm = None -> ~ In nm (map (with_prefix env) opts).
Proof.
  induction opts as [|o r IH]; intros i nm H; cbn in *; [tauto|].
  destruct (lookup_from env r (i + 1) nm) eqn:E; [discriminate|].
  destruct (str_eqb (with_prefix env o) nm) eqn:E2; [discriminate|].
  intros [Heq|Hin].
  - subst. rewrite str_eqb_refl in E2. discriminate.
  - eapply IH; eauto.
Qed.

Lemma lookup_from_nth env opts : forall i k o,
  NoDup (map (with_prefix env) opts) -> nth_error opts k = Some o ->
  lookup_from env opts i (with_prefix env o) = Some (i + Z.of_nat k).
Proof.
  induction opts as [|o' r IH]; intros i k o Hnd Hn; [destruct k; discriminate|].
  cbn [map] in Hnd. inversion Hnd as [|? ? Hnotin Hnd']; subst.
  destruct k as [|k]; cbn in Hn.
  - inversion Hn; subst. cbn [lookup_from].
    destruct (lookup_from env r (i + 1) (with_prefix env o)) eqn:E.
    + apply lookup_from_some in E as [k' [o'' [Hn' [_ Hp]]]].
      exfalso. apply Hnotin. rewrite <- Hp. apply in_map. eapply nth_error_In; eauto.
    + rewrite str_eqb_refl. f_equal. lia.
  - cbn [lookup_from]. rewrite (IH (i + 1) k o Hnd' Hn). f_equal. lia.
Qed.

Lemma option_name_spec env n nm :
  option_name env n = Some nm <->
  exists o, 1 <= n /\ nth_error (ee_options env) (Z.to_nat (n - 1)) = Some o /\ nm = with_prefix env o.
Proof.
  unfold option_name. split.
  - destruct ((1 <=? n) && (n <=? Z.of_nat (length (ee_options env)))) eqn:E; [|discriminate].
    apply andb_true_iff in E as [E1 E2]. apply Z.leb_le in E1.
    destruct (nth_error (ee_options env) (Z.to_nat (n - 1))) as [o|] eqn:En; [|discriminate].
    intro H; inversion H; subst. exists o. auto.
  - intros [o [H1 [Hn Hnm]]].
    assert (Hlt : (Z.to_nat (n - 1) < length (ee_options env))%nat).
    { apply nth_error_Some. congruence. }
    destruct (Z.leb_spec 1 n); [|lia]. destruct (Z.leb_spec n (Z.of_nat (length (ee_options env)))); [|lia].
    cbn. rewrite Hn. subst. reflexivity.
Qed.

Lemma map_values_forall2 env names : forall zs,
  map_values env names = Ok zs -> Forall2 (fun nm z => map_value env nm = Some z) names zs.
Proof.
  induction names as [|nm r IH]; intros zs H; cbn in H.
  - inversion H. constructor.
  - destruct (map_value env nm) as [z|] eqn:E; [|discriminate].
    destruct (map_values env r) as [zr| | |] eqn:Er; cbn in H; try discriminate.
    inversion H; subst. constructor; [exact E|apply IH; reflexivity].
Qed.

(* a number is among the mapped ones iff its option name is among the listed names *)
Lemma mapped_mem env names zs n :
  wf_env env = true -> map_values env names = Ok zs ->
  memZ n zs = match option_name env n with
              | Some nm => mem_str nm (names_full env names)
              | None => false
              end.
Proof.
  intros Hwf Hm. apply nodup_str_NoDup in Hwf. apply map_values_forall2 in Hm.
  destruct (option_name env n) as [nm|] eqn:Eo.
  - apply option_name_spec in Eo as [o [H1 [Hn Hnm]]]. subst nm.
    apply eq_true_iff_eq. rewrite memZ_In, mem_str_In. unfold names_full. split.
    + intro Hin. induction Hm as [|x z l l' Hx Hm IH]; [destruct Hin|].
      destruct Hin as [Heq|Hin].
      * subst z. unfold map_value in Hx. apply lookup_from_some in Hx as [k [o' [Hk [Hz Hp]]]].
        assert (k = Z.to_nat (n - 1)) by lia. subst k. rewrite Hk in Hn. inversion Hn; subst.
        cbn. left. symmetry. exact Hp.
      * cbn. right. apply IH. exact Hin.
    + intro Hin. induction Hm as [|x z l l' Hx Hm IH]; [destruct Hin|].
      cbn in Hin. destruct Hin as [Heq|Hin].
      * left. unfold map_value in Hx. rewrite Heq in Hx.
        rewrite (lookup_from_nth env (ee_options env) 1 (Z.to_nat (n - 1)) o Hwf Hn) in Hx.
        assert (Hz : 1 + Z.of_nat (Z.to_nat (n - 1)) = z) by congruence. lia.
      * right. apply IH. exact Hin.
  - destruct (memZ n zs) eqn:E; [|reflexivity]. exfalso.
    apply memZ_In in E.
    induction Hm as [|x z l l' Hx Hm IH]; [destruct E|].
    destruct E as [Heq|Hin]; [|apply IH; exact Hin].
    subst z. unfold map_value in Hx. apply lookup_from_some in Hx as [k [o' [Hk [Hz Hp]]]].
    assert (Hs : option_name env n = Some (with_prefix env o')).
    { apply option_name_spec. exists o'. split; [lia|]. split; [|reflexivity].
      replace (Z.to_nat (n - 1)) with k by lia. exact Hk. }
    congruence.
Qed.

Lemma option_name_defined env n nm :
  option_name env n = Some nm -> memZ n (defined_numbers env) = true.
Proof.
  intro H. unfold option_name in H.
  destruct ((1 <=? n) && (n <=? Z.of_nat (length (ee_options env)))) eqn:E; [|discriminate].
  apply andb_true_iff in E as [E1 E2]. apply Z.leb_le in E1. apply Z.leb_le in E2.
  apply memZ_In. unfold defined_numbers. right.
  apply in_map_iff. exists (Z.to_nat n). split; [lia|]. apply in_seq. lia.
Qed.

(* ================================================================ C12 *)
Definition elem_ty (t : pty) : fty := match t with PSingle t | PArray _ _ t | PMap _ t => t end.

(* admissible declaration: the referenced enum is well-formed (its value names
   are pairwise different, as protobuf requires). Nothing is asked of the rules:
   what the compiler accepts is meant as declared. *)
Definition admissible (env : enum_env) (d : prop) : bool := wf_env env.

Definition is_absent (fv : fvalue) : bool := match fv with FAbsent => true | _ => false end.

Section C12.
Variable re_match : str -> str -> bool.
(* the one pattern the compiler itself introduces: the regular expression engine
   decides the published id62 pattern as C20's matcher does *)
Hypothesis re_id62 : forall s, re_match Id62Gen.pattern_string s = id62_shape s.

Definition item_ok (defined : list Z) (w : fieldw) (v : value) : bool :=
  match fw_val w with
  | Some c => match c_ty c with
              | Some tc => eval_scalar re_match defined tc v
              | None => true
              end
  | None => true
  end.

Lemma obind_ok {A B} (o : outcome A) (f : A -> outcome B) b :
  obind o f = Ok b -> exists a, o = Ok a /\ f a = Ok b.
Proof. destruct o; cbn; intro H; try discriminate. eauto. Qed.

Lemma scalar_sem env t w v :
  wf_env env = true -> write_field env t = Ok w -> value_typed t v = true ->
  item_ok (defined_numbers env) w v = ty_ok re_match env t v.
Proof.
  intros Hwf Hw Hty. unfold item_ok.
  destruct t as [k r l|sf r l|r|r l|r l|f e l|f64 l|r l|r l|l|od ts l|fl|l]; cbn [write_field] in Hw.
  - (* integer *)
    apply obind_ok in Hw as [vo [Hv Hw]]. inversion Hw; subst w; clear Hw. cbn [fw_val].
    destruct v; try discriminate. destruct r as [r|].
    + apply obind_ok in Hv as [c [Hc Hv]]. inversion Hv; subst vo. cbn [only_ty c_ty].
      cbn [ty_ok]. eapply int_sem; eauto.
    + inversion Hv; subst. reflexivity.
  - (* string *)
    inversion Hw; subst w; clear Hw. cbn [fw_val]. destruct v; try discriminate.
    destruct r as [r|]; [|reflexivity]. cbn [only_ty c_ty eval_scalar ty_ok].
    unfold str_ok, str_rule_ok. rewrite andb_true_r. reflexivity.
  - (* bytes *)
    inversion Hw; subst w; clear Hw. cbn [fw_val]. destruct v; try discriminate.
    destruct r as [r|]; [|reflexivity]. cbn [only_ty c_ty eval_scalar ty_ok]. reflexivity.
  - (* bool *)
    inversion Hw; subst w; clear Hw. cbn [fw_val]. destruct v; try discriminate.
    destruct r as [[c|]|]; reflexivity.
  - (* enum *)
    apply obind_ok in Hw as [io [Hio Hw]]. inversion Hw; subst w; clear Hw.
    cbn [fw_val only_ty c_ty]. destruct v; try discriminate. cbn [eval_scalar ty_ok].
    destruct r as [r|].
    + apply obind_ok in Hio as [zi [Hzi Hio]]. apply obind_ok in Hio as [zn [Hzn Hio]].
      inversion Hio; subst io; clear Hio. cbn [fst snd].
      unfold enum_rule_ok.
      rewrite (mapped_mem env (er_notin r) zn n Hwf Hzn).
      destruct (er_in r) as [|i0 ir] eqn:Ein.
      * cbn in Hzi. inversion Hzi; subst zi.
        destruct (memZ n (defined_numbers env)), (option_name env n); cbn; reflexivity.
      * assert (Hne : zi <> []).
        { apply map_values_forall2 in Hzi. inversion Hzi; subst. discriminate. }
        rewrite <- Ein in *.
        replace (match zi with [] => true | _ :: _ => memZ n zi end) with (memZ n zi)
          by (destruct zi; [congruence|reflexivity]).
        rewrite (mapped_mem env (er_in r) zi n Hwf Hzi).
        destruct (memZ n (defined_numbers env)), (option_name env n); cbn; reflexivity.
    + inversion Hio; subst io. cbn [fst snd]. cbn. rewrite andb_true_r. rewrite andb_true_r. reflexivity.
  - (* key *)
    apply obind_ok in Hw as [lst [Hl Hw]]. inversion Hw; subst w; clear Hw. cbn [fw_val].
    destruct v; try discriminate. destruct f as [[|p| |]|]; cbn [only_ty c_ty eval_scalar ty_ok key_ok]; unfold str_ok; cbn [opt_leN opt_geN andb].
    + reflexivity.
    + rewrite andb_true_r. reflexivity.
    + rewrite uuid_equiv. reflexivity.
    + rewrite andb_true_r. apply re_id62.
    + reflexivity.
  - destruct v; discriminate.
  - inversion Hw; subst w. destruct v; reflexivity.
  - inversion Hw; subst w. destruct v; reflexivity.
  - inversion Hw; subst w. destruct v; reflexivity.
  - inversion Hw; subst w. destruct v; reflexivity.
  - inversion Hw; subst w. destruct v; reflexivity.
  - inversion Hw; subst w. destruct v; reflexivity.
Qed.

Lemma write_field_primary env t w :
  write_field env t = Ok w ->
  match fw_key w with Some k => kx_primary k | None => false end = is_primary (PSingle t).
Proof.
  intro Hw.
  destruct t as [k r l|sf r l|r|r l|r l|f e l|f64 l|r l|r l|l|od ts l|fl|l]; cbn [write_field] in Hw;
    try (apply obind_ok in Hw as [x [Hx Hw]]);
    inversion Hw; subst w; cbn [fw_key is_primary]; try reflexivity.
  destruct e as [[ty tn]|]; [|reflexivity]. cbn. destruct ty as [[[|]|]|]; reflexivity.
Qed.

Lemma write_field_msg env t w :
  write_field env t = Ok w -> is_msg_kind (fw_kind w) = is_msg_ty t.
Proof.
  intro Hw.
  destruct t as [k r l|sf r l|r|r l|r l|f e l|f64 l|r l|r l|l|od ts l|fl|l]; cbn [write_field] in Hw;
    try (apply obind_ok in Hw as [x [Hx Hw]]);
    inversion Hw; subst w; cbn [fw_kind is_msg_ty]; try reflexivity.
  - destruct k; reflexivity.
  - destruct f64; reflexivity.
Qed.

(* message-typed fields carry no (buf.validate.field) type constraint *)
Lemma write_field_msg_noval env t w :
  write_field env t = Ok w -> is_msg_ty t = true -> fw_val w = None.
Proof.
  intros Hw Hm.
  destruct t as [k r l|sf r l|r|r l|r l|f e l|f64 l|r l|r l|l|od ts l|fl|l]; try discriminate; cbn [write_field] in Hw;
    inversion Hw; reflexivity.
Qed.

Lemma forallb_true {A} (l : list A) : forallb (fun _ => true) l = true.
Proof. induction l; cbn; auto. Qed.

Lemma is_primary_array r sf t : is_primary (PArray r sf t) = is_primary (PSingle t).
Proof. reflexivity. Qed.

(* buildField never sets required *)
Lemma write_field_noreq env t w c :
  write_field env t = Ok w -> fw_val w = Some c -> c_req c = false.
Proof.
  intros Hwt. revert c.
  destruct t as [k r l|sf r l|r|r l|r l|f e l|f64 l|r l|r l|l|od ts l|fl|l]; cbn [write_field] in Hwt;
    try (apply obind_ok in Hwt as [x [Hx Hwt]]);
    try (destruct r; try discriminate);
    inversion Hwt; subst w; cbn [fw_val]; intros c Ev; try discriminate;
    try (inversion Ev; reflexivity).
  - apply obind_ok in Hx as [c0 [_ Hx]]. unfold only_ty in Hx.
    assert (Hc : c = C false (Some c0)) by congruence. rewrite Hc. reflexivity.
  - congruence.
  - destruct f as [[| | |]|]; inversion Ev; reflexivity.
Qed.

(* C12: for every admissible declaration that compiles and every value of the
   compiled field, the validator accepts iff the declared rules are satisfied *)
Theorem c12_main env idx d o fv :
  admissible env d = true ->
  write_prop env idx d = Ok o ->
  fvalue_typed d fv = true ->
  validate_sem re_match (defined_numbers env) o fv = rule_sem re_match env d fv.
Proof.
  intros Hadm Hw Hty.
  unfold admissible in Hadm. rename Hadm into Hwf.
  destruct d as [name req opt ty desc]. cbn [p_name p_req p_opt p_ty p_desc] in *.
  unfold write_prop in Hw. cbn [p_name p_req p_opt p_ty p_desc] in Hw.
  apply obind_ok in Hw as [w [Hwf0 Hw]].
  destruct ty as [t|r sf t|r t].
  - (* singular *)
    rename Hwf0 into Hwt.
    pose proof (write_field_primary env t w Hwt) as Hprim.
    pose proof (write_field_msg env t w Hwt) as Hmsg.
    rewrite Hprim in Hw. set (required := req || is_primary (PSingle t)) in *.
    destruct (opt && required) eqn:Eor; [destruct required; discriminate|].
    assert (Ho : o = FO name (idx + 1)%N (fw_kind w) false opt (opt || is_msg_kind (fw_kind w))
                       (if required then set_required (fw_val w) else fw_val w)
                       (fw_ext w) (fw_list w) (fw_key w) desc).
    { destruct required; inversion Hw; reflexivity. }
    clear Hw. subst o.
    unfold validate_sem, rule_sem, got, populated, has_presence.
    cbn [fo_val fo_pres fo_kind fo_rep fo_opt p_req p_opt p_ty]. fold required.
    rewrite Hmsg.
    unfold fvalue_typed in Hty. cbn [p_ty p_opt] in Hty.
    destruct fv as [|v|vs|kvs]; [| |discriminate|discriminate].
    + (* not populated: an optional or message-typed field *)
      rewrite Hty.
      destruct required eqn:Er.
      * unfold set_required. destruct (fw_val w); reflexivity.
      * destruct (fw_val w) as [c|] eqn:Ev; [|reflexivity].
        rewrite (write_field_noreq env t w c Hwt Ev). reflexivity.
    + pose proof (scalar_sem env t w v Hwf Hwt Hty) as Hs. unfold item_ok in Hs.
      assert (He : forall tc, eval_scalar re_match (defined_numbers env) tc v
                              = eval_tyc re_match (defined_numbers env) tc (FOne v))
        by (intro tc; destruct tc; reflexivity).
      assert (Hs' : match fw_val w with
                    | Some c => match c_ty c with
                                | Some tc => eval_tyc re_match (defined_numbers env) tc (FOne v)
                                | None => true
                                end
                    | None => true
                    end = ty_ok re_match env t v).
      { rewrite <- Hs. destruct (fw_val w) as [c|]; [|reflexivity]. destruct (c_ty c); [|reflexivity]. symmetry. apply He. }
      clear Hs He. rename Hs' into Hs.
      destruct required eqn:Er.
      * assert (opt = false) by (destruct opt; [discriminate|reflexivity]). subst opt.
        cbn [orb]. unfold set_required.
        destruct (is_msg_ty t) eqn:Em.
        -- rewrite (write_field_msg_noval env t w Hwt Em) in *. cbn. exact Hs.
        -- cbn [negb andb]. destruct (is_zero v); cbn [negb andb].
           ++ destruct (fw_val w); reflexivity.
           ++ destruct (fw_val w) as [c|]; cbn [c_req c_ty andb] in *; exact Hs.
      * cbn [andb]. destruct (fw_val w) as [c|] eqn:Ev; [|exact Hs].
        rewrite (write_field_noreq env t w c Hwt Ev). cbn [andb].
        destruct (opt || is_msg_ty t); cbn [andb negb]; exact Hs.
  - (* array *)
    apply obind_ok in Hwf0 as [wi [Hwt Hwa]]. inversion Hwa; subst w; clear Hwa.
    pose proof (write_field_primary env t wi Hwt) as Hprim.
    cbn [wrap_array fw_key fw_kind fw_val fw_ext fw_list] in Hw.
    rewrite Hprim in Hw. rewrite <- (is_primary_array r sf t) in Hw.
    set (required := req || is_primary (PArray r sf t)) in *.
    destruct (opt && required) eqn:Eor; [destruct required; discriminate|].
    unfold fvalue_typed in Hty. cbn [p_ty] in Hty.
    destruct fv as [|v|vs|kvs]; try discriminate.
    assert (Hitems : forallb (item_ok (defined_numbers env) wi) vs = forallb (ty_ok re_match env t) vs).
    { clear - Hty Hwf Hwt re_id62. induction vs as [|v r IH]; [reflexivity|].
      cbn [forallb] in *. apply andb_true_iff in Hty as [H1 H2].
      rewrite (scalar_sem env t wi v Hwf Hwt H1). rewrite IH by exact H2. reflexivity. }
    unfold item_ok in Hitems.
    assert (Ho : fo_val o = (if required then set_required (fw_val (wrap_array r sf wi)) else fw_val (wrap_array r sf wi))
                 /\ fo_pres o = false /\ fo_rep o = true).
    { destruct required; inversion Hw; cbn; auto. }
    destruct Ho as [Hov [Hop Hor]].
    unfold validate_sem, rule_sem, got, populated, has_presence.
    rewrite Hov, Hop. cbn [p_req p_ty]. fold required.
    cbn [wrap_array fw_val].
    unfold arr_rule_ok.
    destruct (fw_val wi) as [c|] eqn:Ev; cbn [is_some orb].
    + (* items carry a constraint *)
      unfold only_ty.
      destruct required; cbn [set_required c_req c_ty andb negb];
        destruct vs as [|v0 vr]; cbn [negb andb eval_tyc length];
        destruct r as [r|]; cbn [opt_leN opt_geN andb];
        rewrite ?unique_scan_distinct; try reflexivity;
        destruct (c_ty c); rewrite <- ?Hitems; cbn [forallb];
        rewrite ?forallb_true; cbn [andb]; rewrite ?andb_true_r; reflexivity.
    + destruct r as [r|]; cbn [is_some].
      * unfold only_ty.
        destruct required; cbn [set_required c_req c_ty andb negb];
          destruct vs as [|v0 vr]; cbn [negb andb eval_tyc length];
          cbn [opt_leN opt_geN andb];
          rewrite ?unique_scan_distinct; try reflexivity;
          rewrite <- ?Hitems; cbn [forallb];
          rewrite ?forallb_true; cbn [andb]; rewrite ?andb_true_r; reflexivity.
      * destruct required; cbn [set_required c_req c_ty andb negb];
          destruct vs as [|v0 vr]; cbn [negb andb];
          rewrite <- ?Hitems; cbn [forallb]; rewrite ?forallb_true; reflexivity.
  - (* map *)
    apply obind_ok in Hwf0 as [wi [Hwt Hwa]]. inversion Hwa; subst w; clear Hwa.
    cbn [wrap_map fw_key fw_kind fw_val fw_ext fw_list] in Hw.
    rewrite orb_false_r in Hw.
    destruct (opt && req) eqn:Eor; [destruct req; discriminate|].
    unfold fvalue_typed in Hty. cbn [p_ty] in Hty.
    destruct fv as [|v|vs|kvs]; try discriminate.
    assert (Hitems : forallb (fun kv => item_ok (defined_numbers env) wi (snd kv)) kvs
                     = forallb (fun kv => ty_ok re_match env t (snd kv)) kvs).
    { clear - Hty Hwf Hwt re_id62. induction kvs as [|kv r0 IH]; [reflexivity|].
      cbn [forallb] in *. apply andb_true_iff in Hty as [H1 H2].
      rewrite (scalar_sem env t wi (snd kv) Hwf Hwt H1). rewrite IH by exact H2. reflexivity. }
    unfold item_ok in Hitems.
    assert (Ho : fo_val o = (if req then set_required (fw_val (wrap_map r wi)) else fw_val (wrap_map r wi))
                 /\ fo_pres o = false).
    { destruct req; inversion Hw; cbn; auto. }
    destruct Ho as [Hov Hop].
    unfold validate_sem, rule_sem, got, populated, has_presence.
    rewrite Hov, Hop. cbn [p_req p_ty].
    cbn [wrap_map fw_val].
    destruct (fw_val wi) as [c|] eqn:Ev; cbn [is_some orb].
    + unfold only_ty.
      destruct req; cbn [set_required c_req c_ty andb negb];
        destruct kvs as [|kv0 kvr]; cbn [negb andb eval_tyc length];
        destruct r as [r|]; cbn [opt_leN opt_geN andb];
        try reflexivity;
        destruct (c_ty c); rewrite <- ?Hitems; cbn [forallb];
        rewrite ?forallb_true; cbn [andb]; rewrite ?andb_true_r; reflexivity.
    + destruct r as [r|]; cbn [is_some].
      * unfold only_ty.
        destruct req; cbn [set_required c_req c_ty andb negb];
          destruct kvs as [|kv0 kvr]; cbn [negb andb eval_tyc length];
          cbn [opt_leN opt_geN andb];
          try reflexivity;
          rewrite <- ?Hitems; cbn [forallb];
          rewrite ?forallb_true; cbn [andb]; rewrite ?andb_true_r; reflexivity.
      * destruct req; cbn [set_required c_req c_ty andb negb];
          destruct kvs as [|kv0 kvr]; cbn [negb andb];
          rewrite <- ?Hitems; cbn [forallb]; rewrite ?forallb_true; reflexivity.
Qed.

(* lifted to messages *)
Fixpoint typed_obj (ds : list prop) (fvs : list fvalue) : bool :=
  match ds, fvs with
  | [], [] => true
  | d :: r, v :: s => fvalue_typed d v && typed_obj r s
  | _, _ => false
  end.

Theorem c12_object env ds : forall idx os fvs,
  wf_env env = true ->
  write_props_from env idx ds = Ok os ->
  typed_obj ds fvs = true ->
  validate_obj re_match (defined_numbers env) os fvs = rule_obj re_match env ds fvs.
Proof.
  induction ds as [|d r IH]; intros idx os fvs Hwf Hw Hty; cbn in Hw.
  - inversion Hw; subst. destruct fvs; [reflexivity|discriminate].
  - apply obind_ok in Hw as [o [Ho Hw]]. apply obind_ok in Hw as [os' [Hos Hw]].
    inversion Hw; subst os. destruct fvs as [|v s]; [discriminate|].
    cbn [typed_obj] in Hty. apply andb_true_iff in Hty as [Hv Hs].
    cbn [validate_obj rule_obj].
    rewrite (c12_main env idx d o v Hwf Ho Hv). rewrite (IH (idx + 1)%N os' s Hwf Hos Hs). reflexivity.
Qed.

End C12.
